#!/bin/sh
# Builds the checker offline from vendored sources.
set -e
cd "$(dirname "$0")/checker"
export GOFLAGS=-mod=vendor GOPROXY=off GOSUMDB=off GOTOOLCHAIN=local GOWORK=off CGO_ENABLED=0
mkdir -p ../bin ../evidence/reports
go build -o ../bin/lvcheck ./cmd/lvcheck
