#!/bin/bash
# usage: import_refs.sh Rxx — copies /tmp/ref7/Rxx/.ref/rN into /verif/refactors/Rxx-rN, sweeps them, removes the worktree
R=$1
for d in /tmp/ref7/$R/.ref/r*; do [ -f $d/patch.diff ] || continue; n=$(basename $d); dst=/verif/refactors/$R-$n; mkdir -p $dst; cp $d/patch.diff $d/notes.md $dst/ 2>/dev/null; done
BIN=$(mktemp /tmp/lvsweep-XXXXXX); cp /verif/bin/lvcheck $BIN; chmod +x $BIN; KF=$(mktemp /tmp/kf-XXXX); cp /verif/known_findings.json $KF
ls /verif/refactors | grep -E "^$R-r[0-9]+$" | xargs -P 8 -I{} /verif/tools/sweep_one.sh ref {} $BIN $KF | sort -V
rm -f $BIN $KF
git -C /repo worktree remove --force /tmp/ref7/$R 2>/dev/null
