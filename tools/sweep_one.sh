#!/bin/bash
# usage: sweep_one.sh <kind:seed|ref> <id> <lvcheck-binary> <known_findings.json>
# Applies one patch in its own scratch worktree of /repo HEAD, runs every check, prints "<id>\t<result>".
kind=$1; id=$2; BIN=$3; KF=$4
if [ "$kind" = seed ]; then P=/verif/seeded/$id/patch.diff; else P=/verif/refactors/$id/patch.diff; fi
WT=$(mktemp -d /tmp/sw1-wt-XXXXXX); SV=$(mktemp -d /tmp/sw1-sv-XXXXXX)
git -C /repo worktree add -q --detach "$WT" HEAD 2>/dev/null || { echo -e "$id\tWORKTREE-FAIL"; exit 0; }
trap 'git -C /repo worktree remove --force "$WT" >/dev/null 2>&1; rm -rf "$WT" "$SV"' EXIT
cp "$KF" "$SV/known_findings.json"; mkdir -p "$SV/evidence"
if ! git -C "$WT" apply "$P" 2>/dev/null; then echo -e "$id\tPATCH-DOES-NOT-APPLY"; exit 0; fi
if [ "$kind" = ref ]; then
  if ! (cd "$WT" && GOFLAGS=-mod=mod GOPROXY=off GOSUMDB=off GOTOOLCHAIN=local go build ./... >/dev/null 2>&1); then echo -e "$id\tDOES-NOT-BUILD"; exit 0; fi
  res=$("$BIN" -prop all -repo "$WT" -verif "$SV" 2>&1 | grep -E "^[a-z:][^ ]* \[[A-Z0-9]+\]" | sed -E 's/^([^ ]*) \[([A-Z0-9]+)\] ([^ ]*):.*/\2 \3/' | sort -u | tr '\n' ';')
  echo -e "$id\t${res:-silent}"
else
  det=$("$BIN" -prop all -repo "$WT" -verif "$SV" 2>&1 | python3 -c '
import sys,re
rules=set(); res={}
for l in sys.stdin:
    m=re.match(r"^\S* \[([A-Z0-9]+)\]",l)
    if m: rules.add(m.group(1)); continue
    m=re.match(r"^VIOLATION property=(\S+)",l)
    if m:
        res.setdefault(m.group(1),set()).update(rules); rules=set()
print(" ".join(p+":"+",".join(sorted(r)) for p,r in sorted(res.items())))
')
  echo -e "$id\t${det:- -}"
fi
