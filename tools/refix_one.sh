#!/bin/bash
# usage: refix_one.sh <commit> <prop> <rule> <key>  — reverse-applies a fix: commit of /repo in a scratch worktree and reports whether the rule raises the recorded key again.
C=$1; P=$2; R=$3; K=$4
PATCH=$(mktemp /tmp/refix-XXXXXX.diff)
git -C /repo show --format= "$C" > "$PATCH"
OUT=$(/verif/tools/try_patch.sh -R "$PATCH" "$P" 2>&1)
PATCH2=$(mktemp /tmp/refix2-XXXXXX.diff); cp "$PATCH" "$PATCH2"
rm -f "$PATCH"
if echo "$OUT" | grep -q "PATCH-DOES-NOT-APPLY"; then echo -e "$C\t$P\t$R\tnot-revertible (later commits touch the same lines)"; exit 0; fi
if echo "$OUT" | grep -qF "$K"; then echo -e "$C\t$P\t$R\treported-again\t$K"; exit 0; fi
if echo "$OUT" | grep -q "\[$R\]"; then echo -e "$C\t$P\t$R\treported-again(other key)\t$(echo "$OUT" | grep -m1 "\[$R\]" | cut -c1-160)"; exit 0; fi
if echo "$OUT" | grep -q "^VIOLATION property=$P"; then echo -e "$C\t$P\t$R\treported-by-other-rule\t$(echo "$OUT" | grep -m1 -oE "\[[A-Z0-9]+\]")"; exit 0; fi
# the recorded property may not be the one whose check carries the rule's report: try all
OUT=$(/verif/tools/try_patch.sh -R "$PATCH2" all 2>&1)
if echo "$OUT" | grep -qF "$K"; then echo -e "$C\t$P\t$R\treported-again(under $(echo "$OUT" | grep -m1 -oE '^VIOLATION property=C[0-9]+' | cut -d= -f2))\t$K"; rm -f "$PATCH2"; exit 0; fi
if echo "$OUT" | grep -q "\[$R\]"; then echo -e "$C\t$P\t$R\treported-again(other key, other property)\t$(echo "$OUT" | grep -m1 "\[$R\]" | cut -c1-160)"; rm -f "$PATCH2"; exit 0; fi
rm -f "$PATCH2"
echo -e "$C\t$P\t$R\tSILENT\t$K"
