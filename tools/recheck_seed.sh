#!/bin/bash
# usage: recheck_seed.sh <seed-id>  — quick re-validation of one seed at /repo HEAD in its own scratch worktree:
# demo passes without the change, change applies and builds, demo fails with it. Prints one line "<id> <verdict>".
export GOFLAGS=-mod=mod GOPROXY=off GOSUMDB=off GOTOOLCHAIN=local
id=$1; MUT=/verif/seeded/$id
WT=$(mktemp -d /tmp/rs-XXXXXX)
git -C /repo worktree add -q --detach "$WT" HEAD 2>/dev/null || { echo "$id WORKTREE-FAIL"; exit 0; }
trap 'git -C /repo worktree remove --force "$WT" >/dev/null 2>&1; rm -rf "$WT"' EXIT
cd "$WT"
PLACE=$(grep -m1 -oE '(place in|dest): *[A-Za-z0-9_/.-]+' "$MUT/demo_test.go" | sed -E 's/(place in|dest): *//'); PLACE=${PLACE%/}
[ -z "$PLACE" ] && { echo "$id NO-PLACE"; exit 0; }
DEMO="$PLACE/zz_demo_${id//-/_}_test.go"; cp "$MUT/demo_test.go" "$DEMO"
T=$(grep -oE '^func (Test[A-Za-z0-9_]+)' "$MUT/demo_test.go" | awk '{print $2}' | paste -sd'|')
if ! go test -vet=off -count=1 -run "^($T)\$" "./$PLACE/" >/tmp/rs-$id.a 2>&1; then echo "$id DEMO-FAILS-WITHOUT"; exit 0; fi
if ! git apply "$MUT/patch.diff" 2>/dev/null; then echo "$id NO-APPLY"; exit 0; fi
if ! go build ./... >/dev/null 2>&1; then echo "$id NO-BUILD"; exit 0; fi
if go test -vet=off -count=1 -run "^($T)\$" "./$PLACE/" >/tmp/rs-$id.b 2>&1; then echo "$id DEMO-PASSES-WITH"; exit 0; fi
rm -f /tmp/rs-$id.a /tmp/rs-$id.b
echo "$id OK"
