#!/bin/bash
# usage: resweep_missed.sh [jobs] — re-runs the sweep for the seeds SWEEP.tsv lists as undetected and updates their rows.
J=${1:-8}
BIN=$(mktemp /tmp/lvsweep-XXXXXX); cp /verif/bin/lvcheck $BIN; chmod +x $BIN
KF=$(mktemp /tmp/kfsweep-XXXXXX); cp /verif/known_findings.json $KF
awk -F'\t' '!/^#/ && $2 ~ /^ *-? *$/ {print $1}' /verif/seeded/SWEEP.tsv | xargs -P $J -I{} /verif/tools/sweep_one.sh seed {} $BIN $KF > /tmp/resweep.out
python3 - <<'PY'
rows={}
for l in open('/tmp/resweep.out'):
    if '\t' in l:
        k,v=l.rstrip('\n').split('\t',1); rows[k]=v
out=[]
for l in open('/verif/seeded/SWEEP.tsv'):
    if '\t' in l and not l.startswith('#'):
        k,v=l.rstrip('\n').split('\t',1)
        if k in rows: l=k+'\t'+rows[k]+'\n'
    out.append(l)
open('/verif/seeded/SWEEP.tsv','w').writelines(out)
print(sum(1 for v in rows.values() if v.strip() not in ('','-')),'of',len(rows),'now detected')
PY
rm -f $BIN $KF /tmp/resweep.out
