#!/bin/bash
# usage: run_hunt_demo.sh <worktree> <hunt-id>   — copies /verif/repro/hunt/<id>/demo_test.go.txt into its package in the
# worktree, runs its tests, removes it. Prints PASS/FAIL lines.
export GOFLAGS=-mod=mod GOPROXY=off GOSUMDB=off GOTOOLCHAIN=local
WT=$1; T=$2
cd "$WT" || exit 2
dest=$(head -1 /verif/repro/hunt/$T/demo_test.go.txt | sed 's|// dest: *||')
cp /verif/repro/hunt/$T/demo_test.go.txt $dest/zz_hunt_${T//-/_}_test.go
names=$(grep -oE '^func (Test[A-Za-z0-9_]+)' $dest/zz_hunt_${T//-/_}_test.go | awk '{print $2}' | paste -sd'|')
go test -vet=off -count=1 -run "^($names)\$" ./$dest/ 2>&1 | grep -v "^WARNING" | grep -E "^\s*--- |^ok|^FAIL|panic:|Error:|Messages:" | head -8
rm -f $dest/zz_hunt_${T//-/_}_test.go
