#!/usr/bin/env python3
"""Writes /verif/seeded/<id>/meta.json for every seeded change from the table below, verify.log and SWEEP.tsv."""
import json, os, re

S = "/verif/seeded"
# id -> (file/function, change, what it needs in order to manifest)
T = {
 "C01-m1": ("ring/operations.go Ring.MultByMonomial", "`shift < N` became `shift <= N`", "exponent k = N (mod 2N): p*X^k returns +p instead of -p; tests use k in {1,8,9}"),
 "C01-m2": ("ring/operations.go Ring.MulScalarThenSub", "dropped BRedAdd of the scalar before q - scalar", "scalar > q_i (small or mixed-size prime chain): uint64 wrap-around in one modulus only"),
 "C01-m3": ("ring/vec_ops.go subthenmulscalarmontgomeryTwoModulusvec", "lane 5 adds modulus instead of twomodulus", "coefficient index = 5 mod 8 with p2[j] > q + p1[j] (lazy input range)"),
 "C02-m1": ("ring/scaling.go Ring.DivRoundByLastModulus", "pHalf reduced with CRed instead of BRedAdd", "divided-out modulus more than ~4x an earlier modulus (35-bit then 61-bit prime), non-NTT rounded path"),
 "C02-m2": ("ring/basis_extension.go BasisExtender.ShallowCopy", "modDownConstantsQtoP initialised from modDownConstantsPtoQ", "ModDownQPtoP on a shallow-copied extender"),
 "C02-m3": ("ring/basis_extension.go NewDecomposer", "nbPi measures the full P chain after a rename", "P with >= 3 primes and 0 < levelP < MaxLevelP"),
 "C03-m1": ("core/rlwe/encryptor.go encryptZeroPkNoP", "second ReadAndAdd targets c0: c1 emitted without error", "pk encryption, no P, IsNTT=false target"),
 "C03-m2": ("ring/sampler_gaussian.go GaussianSampler.read", "truncation compares the unscaled sample with Bound", "declared bound below ~5 sigma"),
 "C03-m3": ("core/rlwe/encryptor.go Encryptor.Encrypt", "dropped ct.Resize(ct.Degree(), level)", "pt.Level() < ct.Level() (reused or higher-level receiver)"),
 "C04-m1": ("core/rlwe/evaluator_gadget_product.go gadgetProductSinglePAndBitDecompLazy", "lazy-reduction guards and counter moved from the inner base-2 loop to the outer RNS loop", "BaseTwoDecomposition != 0 with ~60-bit moduli and pw2 <= 7"),
 "C04-m2": ("core/rlwe/evaluator_automorphism.go AutomorphismHoistedLazy", "levelP taken from the receiver ctQP instead of the GaloisKey", ">= 2 P moduli, GaloisKey with LevelP below the maximum, larger QP receiver"),
 "C04-m3": ("core/rlwe/evaluator_evaluationkey.go Relinearize", "one component reads opOut.Value[1] instead of ctIn.Value[1]", "out-of-place relinearisation (opOut != ctIn)"),
 "C05-m1": ("schemes/bgv/evaluator.go tensorScaleInvariant", "output scale computed with ct0.Level()", "BFV product, first operand at a higher level, receiver distinct from it"),
 "C05-m2": ("schemes/bgv/evaluator.go matchScaleThenEvaluateInPlace", "dropped the zeroing of receiver components above op0's degree", "mismatched scales, degree-1 op0, degree-2 op1, reused degree-2 receiver"),
 "C05-m3": ("schemes/bgv/evaluator.go MulRelin", "degree bound 2 replaced by op0.Degree()+op1.Degree()", "unrelinearised degree-2 operand fed to MulRelin"),
 "C06-m1": ("schemes/ckks/evaluator.go Rescale", "scale loop divides op0.Scale instead of the running opOut.Scale", "PREC128 (two primes per rescale), out-of-place receiver"),
 "C06-m2": ("schemes/ckks/evaluator.go Sub", "negation loop of the extra components stops one short", "Sub(degree-1, degree-2) with the higher-degree operand second"),
 "C06-m3": ("schemes/ckks/evaluator.go evaluateInPlace", "tail copy reads c0 instead of the scale-matched tmp0", "first operand of higher degree and smaller scale, receiver distinct from both"),
 "C07-m1": ("schemes/bgv/encoder.go EncodeRingT []uint64", "full Reduce replaced by one conditional subtraction", "values >= 2t (2^63, 2^64-1)"),
 "C07-m2": ("schemes/ckks/encoder.go polyToComplexNoCRT", "imaginary-part loop starts at slots instead of maxCols", "standard ring, level 0, sparse packing, float64 path"),
 "C07-m3": ("schemes/bgv/encoder.go Encode non-batched", "shared zero-fill loop replaced by clear() in the []uint64 arm only", "[]int64, short vector, previously used encoder"),
 "C08-m1": ("utils/buffer/writer.go WriteUint64", "first availability test `>>3 == 0` became `== 0`", "1..7 bytes free in the writer's buffer (buffer size not a multiple of 8)"),
 "C08-m2": ("utils/structs/vector.go Vector.ReadFrom", "dropped *v = (*v)[:size]", "reused receiver with enough capacity and another length"),
 "C08-m3": ("core/rlwe/keys.go MemEvaluationKeySet.WriteTo", "final `return n, w.Flush()` became `return n, nil`", "plain io.Writer and nil/empty GaloisKeys"),
 "C09-m1": ("schemes/ckks/evaluator.go evaluateInPlace", "op0 scaled in place when the output aliases op1", "opOut == op1, different scales, inspect op0 afterwards"),
 "C09-m2": ("schemes/bgv/evaluator.go matchScaleThenEvaluateInPlace", "dropped the zeroing loop of the receiver's extra component", "degree-2 receiver holding an old product, different scales"),
 "C09-m3": ("core/rlwe/inner_sum.go Trace logN==0", "final automorphism applied to ctIn instead of opOut", "logN == 0, standard ring, opOut != ctIn"),
 "C10-m1": ("ring/basis_extension.go BasisExtender.ShallowCopy", "buffP allocated from ringQ", "#P > #Q and levelP >= #Q on a copy"),
 "C10-m2": ("core/rlwe/evaluator.go Evaluator.WithKey", "reuses and extends the receiver's automorphismIndex map", "WithKey on a copy sharing the map; concurrent Automorphism"),
 "C10-m3": ("multiparty/keyswitch_sk.go KeySwitchProtocol.ShallowCopy", "noise sampler rebuilt from params.Xe() instead of the smudging noise", "large flooding sigma, statistical look at a copy's shares"),
 "C11-m1": ("core/rlwe/inner_sum.go PartialTracesSum", "`copy` flag replaced by `i == 0`", "even non-power-of-two n on an evaluator with dirty buffers"),
 "C11-m2": ("core/rlwe/evaluator_automorphism.go AutomorphismHoisted", "dropped *opOut.MetaData = *ctIn.MetaData", "sparsely packed or non-default-scale input, out-of-place hoisted rotation"),
 "C11-m3": ("core/rlwe/inner_sum.go Trace logN==0", "GaloisElement(-1) instead of NthRoot-1", "full trace logN = 0"),
 "C12-m1": ("core/rlwe/evaluator_automorphism.go AutomorphismHoistedLazy", "P*c0 uses the full RingP modulus instead of ModulusAtLevel[levelP]", "two P primes, keys and transformation at LevelP = 0, BSGS path"),
 "C12-m2": ("circuits/common/lintrans/lintrans.go GaloisElements", "no-BSGS branch drops the index normalisation", "sparse packing, negative diagonal, BSGS disabled"),
 "C12-m3": ("circuits/common/lintrans/lintrans_evaluator.go MultiplyByDiagMatrixBSGS", "removed the cnt0 == 0 special cases", "no non-zero diagonal in the first baby-step block, non-zero receiver"),
 "C13-m1": ("circuits/common/polynomial/polynomial_evaluator.go EvaluatePolynomialVectorFromPowerBasis", "GetVectorCoefficient -> GetSingleCoefficient(pol.Value[0], 0)", "PolynomialVector of degree 2,4,8,12,.. with two polynomials or an unmapped slot"),
 "C13-m2": ("circuits/ckks/polynomial/polynomial_evaluator.go GetVectorCoefficient", "dropped the reset of the shared values buffer", "same evaluator reused with a different mapping"),
 "C13-m3": ("circuits/bgv/polynomial/polynomial_evaluator_sim.go UpdateLevelAndScaleGiantStep", "ModulusAtLevel[tLevelNew] -> Modulus()", "scale-invariant mode, input below the maximum level"),
 "C14-m1": ("multiparty/keygen_gal.go GaloisKeyGenProtocol.AggregateShares", "dropped share3.GaloisElement = share1.GaloisElement", "aggregation into fresh accumulators (tree / pairwise)"),
 "C14-m2": ("multiparty/keygen_evk.go EvaluationKeyGenProtocol.GenShare", "dropped levelP = 0 in the no-P branch", "parameters without auxiliary modulus P"),
 "C14-m3": ("multiparty/keygen_relin.go GenShareRoundOne", "digit loop bound slices.Max(sizes) -> sizes[0]", "a later prime needs more base-2^w digits than Q[0]"),
 "C15-m1": ("ring/scalar.go NewRNSScalarFromUInt64", "dropped the per-modulus reduction", "public points differing by more than the smallest modulus"),
 "C15-m2": ("multiparty/threshold.go Combiner.GenAdditiveShare", "prod aliases a Lagrange table entry and is multiplied in place", "t >= 3 and a reused Combiner"),
 "C15-m3": ("multiparty/threshold.go NewCombiner", "threshold clamped to len(others)", "t == N and others excluding the own point"),
 "C16-m1": ("multiparty/keyswitch_sk.go KeySwitchProtocol.ShallowCopy", "noise sampler rebuilt from params.Xe()", "ShallowCopy instance, flooding sigma well above Xe"),
 "C16-m2": ("multiparty/mpbgv/transform.go MaskedTransformProtocol.GenShare", "re-encode guarded by transform.Decode instead of transform.Encode", "transform with Decode != Encode"),
 "C16-m3": ("multiparty/mpckks/utils.go GetMinimumLevelForRefresh", "Ceil(logBound + log2 n) floored", "party count in {3,5,6,7} and a one-bit window of the modulus chain"),
 "C17-m1": ("ring/sampler_gaussian.go GaussianSampler.AtLevel", "montgomery flag not copied", "montgomery=true sampler used through AtLevel"),
 "C17-m2": ("ring/sampler_ternary.go sampleSparse", "dropped randomBytes = randomBytes[1:]", "Ternary{H} with H > 8 (sign bits repeat)"),
 "C17-m3": ("utils/sampling/prng.go NewKeyedPRNG + Reset", "key slice retained uncopied; Reset rebuilds the XOF from it", "caller wipes or reuses the key buffer, then Reset"),
 "C18-m1": ("circuits/ckks/bootstrapping/keys.go genEncapsulationEvaluationKeysNew", "P: params.P() instead of params.P()[:1]", "parameter set with more than one P (all defaults)"),
 "C18-m2": ("circuits/ckks/bootstrapping/evaluator.go Evaluator.ShallowCopy", "xPow2InvN1: eval.xPow2InvN2", "shallow copy, residual ring smaller than the bootstrapping ring, batch >= 2"),
 "C18-m3": ("circuits/ckks/bootstrapping/evaluator.go Evaluate", "removed the totLogPrec accumulator", ">= 2 entries in BootstrappingPrecision"),
 "C19-m1": ("core/rlwe/params.go QiOverflowMargin", "slices.Max(qi[:level+1]) -> qi[level]", "61-bit Q[0], 16 RNS digits, one P"),
 "C19-m2": ("circuits/ckks/bootstrapping/parameters_literal.go GetLogP", "floor(sqrt(#Qi)) -> round", "fractional part of sqrt(#Qi) >= 0.5 (default set N16QP1547H192H32)"),
 "C19-m3": ("ring/subring.go generateNTTConstants", "NTT-friendliness tested modulo 2N instead of NthRoot", "conjugate-invariant ring with a user-supplied prime = 2N+1 mod 4N"),
 "C20-m1": ("core/rgsw/evaluator.go externalProductInPlaceMultipleP", "PiOverF derived from QiOverflowMargin", ">= 2 P primes of 61 bits and >= 12 accumulated terms"),
 "C20-m2": ("core/rgsw/evaluator.go ExternalProduct", "second accumulator takes BuffQP[1].P instead of BuffQP[2].P", "out-of-place call, exactly one P"),
 "C20-m3": ("core/rgsw/blindrot/blindrot.go InitTestPolynomial", "fill loops changed to [0,N/2) and [N/2,N)", "non-odd function evaluated exactly at the lower end point"),
}

sweep = {}
p = os.path.join(S, "SWEEP.tsv")
if os.path.exists(p):
    for l in open(p):
        if "\t" in l:
            k, v = l.rstrip("\n").split("\t", 1)
            sweep[k] = v.strip()

# seeds of later rounds: description taken from the sub-agent's notes.md and the patch itself
for sid in sorted(os.listdir(S)):
    d = os.path.join(S, sid)
    if sid in T or not os.path.isdir(d) or not os.path.exists(os.path.join(d, "patch.diff")):
        continue
    patch = open(os.path.join(d, "patch.diff")).read()
    files = re.findall(r"^\+\+\+ b/(\S+)", patch, re.M)
    funcs = sorted(set(re.findall(r"^@@ .* @@ func (?:\([^)]*\) )?([A-Za-z0-9_]+)", patch, re.M)))
    notes = open(os.path.join(d, "notes.md")).read() if os.path.exists(os.path.join(d, "notes.md")) else ""
    flat = " ".join(l.strip() for l in notes.splitlines() if l.strip() and not l.startswith("#"))
    needs = " ".join(m for m in re.findall(r"[^.]*(?:[Mm]anifest|[Ss]hows up|[Nn]eeds|[Tt]riggers)[^.]*\.", flat)[:2]) or "see notes.md"
    T[sid] = (", ".join(files) + (" " + ", ".join(funcs) if funcs else ""), flat[:500], needs.strip()[:400])

for sid, (where, change, needs) in sorted(T.items()):
    d = os.path.join(S, sid)
    if not os.path.isdir(d):
        continue
    ran = ""
    vl = os.path.join(d, "verify.log")
    if os.path.exists(vl):
        m = re.findall(r"^RESULT .*$", open(vl).read(), re.M)
        ran = m[-1] if m else ""
    det = sweep.get(sid, "")
    meta = {
        "id": sid,
        "property": sid.split("-")[0],
        "where": where,
        "change": change,
        "needs_to_manifest": needs,
        "confirmed": "tools/verify_seed.sh in a scratch worktree of /repo: build ok, existing tests of the affected packages pass with the change, demo_test.go fails with it and passes without it",
        "verify_result": ran,
        "detected_by": [x for x in det.split() if x != "-"],
        "detected": bool(det and det != "-" and not det.startswith("PATCH")),
        "origin": "written by a fresh sub-agent that saw only the property text and a scratch worktree",
    }
    json.dump(meta, open(os.path.join(d, "meta.json"), "w"), indent=1)
print("meta written for", len(T), "seeds;", sum(1 for k in T if sweep.get(k, "-") not in ("-", "")), "detected according to SWEEP.tsv")
