#!/bin/bash
# usage: refix_sweep.sh [jobs] — for every entry of known_findings.json "fixed" that a rule decided (not READING), revert the fix in a scratch worktree and demand the violation back.
J=${1:-6}
python3 - <<'PY' > /tmp/refix-list.txt
import json
d=json.load(open('/verif/known_findings.json'))
for e in d['fixed']:
    if e.get('rule') in (None,'READING'): continue
    print("\t".join([e['commit'],e['property'],e['rule'],e['key']]))
PY
cat /tmp/refix-list.txt | tr '\t' '\n' | xargs -d '\n' -n 4 -P $J /verif/tools/refix_one.sh | sort -k3,3 -k1,1 > /verif/repro/REFIX.tsv
rm -f /tmp/refix-list.txt
echo "reverted fixes: $(grep -c . /verif/repro/REFIX.tsv); reported again: $(grep -c 'reported' /verif/repro/REFIX.tsv); silent: $(grep -c SILENT /verif/repro/REFIX.tsv); not revertible: $(grep -c not-revertible /verif/repro/REFIX.tsv)"
