#!/bin/bash
# usage: sweep_par.sh [jobs]  — parallel version of sweep_seeds.sh + sweep_refactors.sh (one scratch worktree per patch).
J=${1:-6}
BIN=$(mktemp /tmp/lvsweep-XXXXXX); cp /verif/bin/lvcheck $BIN; chmod +x $BIN
KF=$(mktemp /tmp/kfsweep-XXXXXX); cp /verif/known_findings.json $KF
SVB=$(mktemp -d /tmp/sw1-sv-XXXXXX); cp $KF $SVB/known_findings.json; base=$($BIN -prop all -repo /repo -verif $SVB 2>&1 | grep -c "^VIOLATION")
( echo "# unchanged tree: $base violation lines (must be 0)"; ls /verif/seeded | grep -E "^C[0-9]+-m[0-9]+$" | xargs -P $J -n 1 -I{} /verif/tools/sweep_one.sh seed {} $BIN $KF | sort -V ) > /verif/seeded/SWEEP.tsv.new && mv /verif/seeded/SWEEP.tsv.new /verif/seeded/SWEEP.tsv
ls /verif/refactors | grep -E "^R[0-9]+-r[0-9]+$" | xargs -P $J -n 1 -I{} /verif/tools/sweep_one.sh ref {} $BIN $KF | sort -V > /verif/refactors/SWEEP.tsv.new && mv /verif/refactors/SWEEP.tsv.new /verif/refactors/SWEEP.tsv
rm -f $BIN $KF; rm -rf /tmp/sw1-sv-*
echo "seeds: $(grep -vc '^#' /verif/seeded/SWEEP.tsv) total, $(awk -F'\t' '!/^#/ && $2 !~ /^ *-? *$/ {n++} END{print n}' /verif/seeded/SWEEP.tsv) detected; refactors: $(grep -c . /verif/refactors/SWEEP.tsv) total, $(grep -vc 'silent' /verif/refactors/SWEEP.tsv) not silent"
