#!/bin/bash
# usage: import_round8.sh Cxx  — copies the sub-agent's /tmp/mut7/Cxx/.mut/mN into /verif/seeded/Cxx-m(N+16),
# confirms each with verify_seed.sh, then removes the agent's scratch worktree.
P=$1
for d in /tmp/mut7/$P/.mut/m*; do
  [ -d "$d" ] || continue
  n=$(basename $d | tr -d m); k=$((n+19))
  dst=/verif/seeded/$P-m$k
  mkdir -p $dst; cp $d/patch.diff $d/demo_test.go $d/notes.md $dst/ 2>/dev/null
  /verif/tools/verify_seed.sh $dst | tail -1
done
mkdir -p /verif/repro/round8; [ -f /tmp/mut7/$P/.mut/observations.md ] && cp /tmp/mut7/$P/.mut/observations.md /verif/repro/round8/$P-observations.md; for f in /tmp/mut7/$P/.mut/*_test.go /tmp/mut7/$P/.mut/obs*/*; do [ -f "$f" ] && cp "$f" /verif/repro/round8/$P-$(basename $f).txt; done
git -C /repo worktree remove --force /tmp/mut7/$P && rm -f /tmp/mut7/$P.property.json /tmp/mut7/prompt-$P.txt
