#!/bin/bash
# usage: try_patch.sh [-R] <patch-file> <props>   — applies (or reverse-applies) a patch in a scratch worktree of /repo HEAD, runs the named checks, removes it.
set -u
REV=""; if [ "$1" = "-R" ]; then REV="-R"; shift; fi
PATCH=$1; shift
WT=$(mktemp -d /tmp/try-wt-XXXX); SV=$(mktemp -d /tmp/try-sv-XXXX)
git -C /repo worktree add -q --detach "$WT" HEAD || exit 2
trap 'git -C /repo worktree remove --force "$WT" >/dev/null 2>&1; rm -rf "$WT" "$SV"' EXIT
cp /verif/known_findings.json "$SV/"; mkdir -p "$SV/evidence"
if ! git -C "$WT" apply $REV "$PATCH"; then echo "PATCH-DOES-NOT-APPLY"; exit 3; fi
P=$(echo "$@" | tr ' ' ',')
/verif/bin/lvcheck -prop "$P" -repo "$WT" -verif "$SV" 2>&1 | grep -v "^WARNING conda"
