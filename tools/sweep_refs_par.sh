#!/bin/bash
# usage: sweep_refs_par.sh [jobs] — the refactor half of sweep_par.sh
J=${1:-6}
BIN=$(mktemp /tmp/lvsweep-XXXXXX); cp /verif/bin/lvcheck $BIN; chmod +x $BIN
KF=$(mktemp /tmp/kfsweep-XXXXXX); cp /verif/known_findings.json $KF
ls /verif/refactors | grep -E "^R[0-9]+-r[0-9]+$" | xargs -P $J -I{} /verif/tools/sweep_one.sh ref {} $BIN $KF | sort -V > /verif/refactors/SWEEP.tsv.new && mv /verif/refactors/SWEEP.tsv.new /verif/refactors/SWEEP.tsv
rm -f $BIN $KF
echo "refactors: $(grep -c . /verif/refactors/SWEEP.tsv) total, $(grep -vc 'silent' /verif/refactors/SWEEP.tsv) not silent"
