#!/bin/bash
# usage: verify_seed.sh <mutdir> [test-packages...]
# Confirms, in a scratch worktree of /repo HEAD, that a seeded change compiles, passes the existing tests of the
# affected packages, and that its demonstration fails with the change and passes without it.
export GOFLAGS=-mod=mod GOPROXY=off GOSUMDB=off GOTOOLCHAIN=local
set -u
MUT=$(realpath "$1"); shift
NAME=$(basename "$MUT")
WT=$(mktemp -d /tmp/vs-XXXXXX)
LOG="$MUT/verify.log"
: > "$LOG"
git -C /repo worktree add -q --detach "$WT" HEAD || exit 2
cleanup(){ git -C /repo worktree remove --force "$WT" >/dev/null 2>&1; rm -rf "$WT"; }
trap cleanup EXIT
cd "$WT"
PLACE=$(grep -m1 -oE '(place in|dest): *[A-Za-z0-9_/.-]+' "$MUT/demo_test.go" | sed -E 's/(place in|dest): *//')
PLACE=${PLACE%/}
[ -z "$PLACE" ] && { echo "no place-in header" | tee -a "$LOG"; exit 2; }
DEMO="$PLACE/zz_demo_${NAME//-/_}_test.go"
cp "$MUT/demo_test.go" "$DEMO"
TESTNAMES=$(grep -oE '^func (Test[A-Za-z0-9_]+)' "$MUT/demo_test.go" | awk '{print $2}' | paste -sd'|')
echo "== demo without change (must pass): $PLACE -run '$TESTNAMES'" | tee -a "$LOG"
if ! go test -count=1 -run "^($TESTNAMES)\$" "./$PLACE/" >>"$LOG" 2>&1; then echo "RESULT $NAME: demo FAILS without the change" | tee -a "$LOG"; exit 1; fi
if ! git apply "$MUT/patch.diff" 2>>"$LOG"; then echo "RESULT $NAME: patch does not apply" | tee -a "$LOG"; exit 1; fi
echo "== build with change" | tee -a "$LOG"
if ! go build ./... >>"$LOG" 2>&1; then echo "RESULT $NAME: does not build" | tee -a "$LOG"; exit 1; fi
echo "== demo with change (must fail)" | tee -a "$LOG"
if go test -count=1 -run "^($TESTNAMES)\$" "./$PLACE/" >>"$LOG" 2>&1; then echo "RESULT $NAME: demo PASSES with the change" | tee -a "$LOG"; exit 1; fi
rm -f "$DEMO"
PKGS="$*"
if [ -z "$PKGS" ]; then
  # packages touched by the patch + their direct importers inside the module
  TOUCHED=$(grep -E '^\+\+\+ b/' "$MUT/patch.diff" | sed 's#^+++ b/##' | xargs -n1 dirname | sort -u)
  PKGS=""
  for d in $TOUCHED; do PKGS="$PKGS ./$d/..."; done
  case "$TOUCHED" in *ring*|*utils*) PKGS="$PKGS ./core/rlwe/... ./schemes/...";; esac
  case "$TOUCHED" in *core/rlwe*) PKGS="$PKGS ./schemes/... ./multiparty/... ./core/rgsw/...";; esac
fi
echo "== existing tests with change: $PKGS" | tee -a "$LOG"
if ! go test -count=1 -vet=off -timeout 25m $PKGS >>"$LOG" 2>&1; then echo "RESULT $NAME: existing tests FAIL with the change" | tee -a "$LOG"; exit 1; fi
echo "RESULT $NAME: CONFIRMED (builds, existing tests pass [$PKGS], demo fails with / passes without)" | tee -a "$LOG"
