#!/usr/bin/env python3
"""Generates /verif/MANIFEST.json from the claims table in tools/claims.json."""
import json, os, sys
here = os.path.dirname(os.path.abspath(__file__))
root = os.path.dirname(here)
claims = json.load(open(os.path.join(here, "claims.json")))
props = [json.loads(l) for l in open(os.path.join(root, "properties.jsonl")) if l.strip()]
ids = [p["id"] for p in props]
# rule catalogue straight from the checker binary, so that the claim texts name exactly the rules that run
import subprocess
rules = {}
try:
    outp = subprocess.run([os.path.join(root, "bin", "lvcheck"), "-list"], env=dict(os.environ, LV_LIST_JSON="1"), capture_output=True, text=True).stdout
    for l in outp.splitlines():
        if l.startswith("{"):
            r = json.loads(l)
            for p_ in r["props"].split(","):
                rules.setdefault(p_, []).append((r["name"], r["doc"]))
except Exception as e:
    print("warning: rule catalogue unavailable:", e)
def with_rules(pid, text):
    rs = sorted(rules.get(pid, []))
    if not rs:
        return text
    return text + " Rules run for this property: " + "; ".join(f"{n} — {d}" for n, d in rs) + "."
checks, na = [], []
for pid in ids:
    c = claims.get(pid)
    if c and c.get("claimed"):
        checks.append({
            "property_id": pid,
            "quick_cmd": f"./bin/lvcheck -prop {pid} -tier quick",
            "thorough_cmd": f"./bin/lvcheck -prop {pid} -tier thorough",
            "evidence_file": f"/verif/evidence/{pid}.json",
            "replay_cmd_template": "cat {path}",
            "engine": "lvcheck",
            "level_claimed": {"category": "other", "text": with_rules(pid, c["text"]), "design_ref": c.get("design_ref", "DESIGN.md §4 " + pid)},
            "level_note": c["note"],
            "technique": c["technique"],
        })
    else:
        na.append({"property_id": pid, "reason": (c or {}).get("reason", "no static check built for this property in this revision")})
m = {
    "version": 1,
    "setup_cmd": "./build.sh",
    "hooks": {
        "guard": "verif",
        "enable": "none needed: the checks are static and read the unmodified sources of /repo (no hook commits exist)",
        "baseline_off_cmd": "cd /repo && go test -vet=off -count=1 -timeout 25m ./...",
        "source_commits": [],
        "add_only": True,
    },
    "engines": [{
        "name": "lvcheck", "path": "/verif/checker",
        "serves_properties": [c["property_id"] for c in checks],
        "kind_free_text": "repository-specific static analyser (go/packages + go/types + go/cfg + go/ssa + VTA call graph, x/tools v0.29.0 vendored); decides structural necessary conditions of each property from /repo's current source; executes no lattigo code",
    }],
    "checks": checks,
    "not_applicable": na,
    "notes": "All checks are static (family: static analysis). Level 'other' everywhere: each check discharges an exhaustively enumerated set of structural obligations (necessary conditions of the behavioural property); see DESIGN.md for what each does and does not decide. known_findings.json lists recorded findings and fixed defects.",
}
json.dump(m, open(os.path.join(root, "MANIFEST.json"), "w"), indent=1)
print("claimed:", [c["property_id"] for c in checks])
print("not_applicable:", [n["property_id"] for n in na])
