#!/usr/bin/env python3
"""usage: add_fixed.py PROP RULE KEY COMMIT WHAT"""
import json,sys
prop,rule,key,commit,what=sys.argv[1:6]
p='/verif/known_findings.json'
k=json.load(open(p))
k['fixed'].append({"property":prop,"rule":rule,"key":key,"commit":commit,"what":f"fixed: property={prop} {commit} {what}"})
json.dump(k,open(p,'w'),indent=1)
