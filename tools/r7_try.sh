#!/bin/bash
# usage: r7_try.sh Cxx  — runs every check against the round-7 seeds of a property (m17..m19), one line per seed
for k in 17 18 19; do s=$1-m$k; [ -d /verif/seeded/$s ] || continue
 r=$(/verif/tools/try_seed.sh $s all 2>&1 | grep -E "^\S+ \[[A-Z]+\]" | sed -E 's/^\S+ \[([A-Z]+)\].*/\1/' | sort -u | tr '\n' ' ')
 echo "$s: ${r:-MISSED}  [$(tail -1 /verif/seeded/$s/verify.log | cut -c1-60)]"; done
