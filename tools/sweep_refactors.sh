#!/bin/bash
# Runs every check against every behaviour-preserving refactoring kept under /verif/refactors/<id>/patch.diff, applied in
# a scratch worktree of /repo HEAD. Any VIOLATION line is a false alarm of the machinery. Writes refactors/SWEEP.tsv.
set -u
WT=$(mktemp -d /tmp/rsweep-wt-XXXX); SV=$(mktemp -d /tmp/rsweep-sv-XXXX)
git -C /repo worktree add -q --detach "$WT" HEAD || exit 2
trap 'git -C /repo worktree remove --force "$WT" >/dev/null 2>&1; rm -rf "$WT" "$SV"' EXIT
cp /verif/known_findings.json "$SV/"; mkdir -p "$SV/evidence"; cp /verif/bin/lvcheck "$SV/lvcheck"
OUT=/verif/refactors/SWEEP.tsv; : > $OUT
for d in /verif/refactors/R*; do
  id=$(basename $d)
  if ! git -C "$WT" apply "$d/patch.diff" 2>/dev/null; then echo -e "$id\tPATCH-DOES-NOT-APPLY" >> $OUT; git -C "$WT" checkout -q -- .; continue; fi
  if ! (cd "$WT" && GOFLAGS=-mod=mod GOPROXY=off GOSUMDB=off go build ./... >/dev/null 2>&1); then echo -e "$id\tDOES-NOT-BUILD" >> $OUT; git -C "$WT" checkout -q -- .; git -C "$WT" clean -fdq; continue; fi
  res=$("$SV/lvcheck" -prop all -repo "$WT" -verif "$SV" 2>&1 | grep -E "^[a-z].*: \[[A-Z]+\]" | sed -E 's/^([^ ]*) \[([A-Z]+)\] ([^ ]*):.*/\2 \3/' | sort -u | tr '\n' ';')
  git -C "$WT" checkout -q -- .; git -C "$WT" clean -fdq
  echo -e "$id\t${res:-silent}" >> $OUT
done
cat $OUT
