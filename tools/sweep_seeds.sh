#!/bin/bash
# Runs every claimed check against every seeded change, applied in a scratch worktree of /repo HEAD (so /repo and
# /verif/evidence are left alone), and records which checks/rules report a violation in /verif/seeded/SWEEP.tsv.
set -u
WT=$(mktemp -d /tmp/sweep-wt-XXXX); SV=$(mktemp -d /tmp/sweep-verif-XXXX)
git -C /repo worktree add -q --detach "$WT" HEAD || exit 2
trap 'git -C /repo worktree remove --force "$WT" >/dev/null 2>&1; rm -rf "$WT" "$SV"' EXIT
cp /verif/known_findings.json "$SV/"; mkdir -p "$SV/evidence"
PROPS=$(python3 -c "import json;print(' '.join(c['property_id'] for c in json.load(open('/verif/MANIFEST.json'))['checks']))")
OUT=/verif/seeded/SWEEP.tsv.new; : > $OUT
for d in /verif/seeded/C*-m*; do
  id=$(basename $d)
  if ! git -C "$WT" apply "$d/patch.diff" 2>/dev/null; then echo -e "$id\tPATCH-DOES-NOT-APPLY" >> $OUT; git -C "$WT" checkout -q -- .; continue; fi
  det=""
  for p in $PROPS; do
    out=$(/verif/bin/lvcheck -prop $p -repo "$WT" -verif "$SV" 2>&1)
    if echo "$out" | grep -q "^VIOLATION"; then
      rules=$(echo "$out" | grep -oE "^[^ ]+ \[[A-Z]+\]" | grep -oE "\[[A-Z]+\]" | sort -u | tr -d '[]' | paste -sd, )
      det="$det $p:$rules"
    fi
  done
  git -C "$WT" checkout -q -- .
  echo -e "$id\t${det:- -}" >> $OUT
done
mv $OUT /verif/seeded/SWEEP.tsv
cat /verif/seeded/SWEEP.tsv
