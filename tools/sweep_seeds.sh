#!/bin/bash
# Runs every check against every seeded change, applied in a scratch worktree of /repo HEAD (so /repo and
# /verif/evidence are left alone), and records which properties/rules report a violation in /verif/seeded/SWEEP.tsv.
set -u
WT=$(mktemp -d /tmp/sweep-wt-XXXX); SV=$(mktemp -d /tmp/sweep-verif-XXXX)
git -C /repo worktree add -q --detach "$WT" HEAD || exit 2
trap 'git -C /repo worktree remove --force "$WT" >/dev/null 2>&1; rm -rf "$WT" "$SV"' EXIT
cp /verif/known_findings.json "$SV/"; mkdir -p "$SV/evidence"; cp /verif/bin/lvcheck "$SV/lvcheck"
OUT=/verif/seeded/SWEEP.tsv.new; : > $OUT
base=$("$SV/lvcheck" -prop all -repo "$WT" -verif "$SV" 2>&1 | grep -c "^VIOLATION")
echo "# unchanged tree: $base violation lines (must be 0)" >> $OUT
for d in /verif/seeded/C*-m*; do
  id=$(basename $d)
  if ! git -C "$WT" apply "$d/patch.diff" 2>/dev/null; then echo -e "$id\tPATCH-DOES-NOT-APPLY" >> $OUT; git -C "$WT" checkout -q -- .; continue; fi
  out=$("$SV/lvcheck" -prop all -repo "$WT" -verif "$SV" 2>&1)
  det=$(echo "$out" | python3 -c '
import sys,re
rules=set(); res={}
for l in sys.stdin:
    m=re.match(r"^\S* \[([A-Z]+)\]",l)
    if m: rules.add(m.group(1)); continue
    m=re.match(r"^VIOLATION property=(\S+)",l)
    if m:
        res.setdefault(m.group(1),set()).update(rules); rules=set()
print(" ".join(p+":"+",".join(sorted(r)) for p,r in sorted(res.items())))
')
  git -C "$WT" checkout -q -- .
  echo -e "$id\t${det:- -}" >> $OUT
done
mv $OUT /verif/seeded/SWEEP.tsv
cat /verif/seeded/SWEEP.tsv
