#!/usr/bin/env python3
"""Fills the generated sections of DESIGN.md (rule catalogue, fixed defects, seeded changes) between their markers."""
import json, os, re, subprocess
root = os.path.dirname(os.path.dirname(os.path.abspath(__file__)))
p = os.path.join(root, "DESIGN.md")
s = open(p).read()

def put(tag, body):
    global s
    a, b = f"<!-- BEGIN:{tag} -->", f"<!-- END:{tag} -->"
    i, j = s.index(a) + len(a), s.index(b)
    s = s[:i] + "\n" + body.rstrip() + "\n" + s[j:]

# rules
out = subprocess.run([os.path.join(root, "bin", "lvcheck"), "-list"], env=dict(os.environ, LV_LIST_JSON="1"), capture_output=True, text=True).stdout
rules = [json.loads(l) for l in out.splitlines() if l.startswith("{")]
rules.sort(key=lambda r: r["name"])
body = f"{len(rules)} rules (generated from `lvcheck -list`; the same texts are appended to the claim of each property in MANIFEST.json).\n\n| rule | properties | what is decided |\n|---|---|---|\n"
for r in rules:
    body += f"| {r['name']} | {r['props'].replace(',', ' ')} | {r['doc'].replace('|', '/')} |\n"
put("rules", body)

# fixed
k = json.load(open(os.path.join(root, "known_findings.json")))
body = f"{len(k['fixed'])} entries ({len(set(f['commit'] for f in k['fixed']))} commits).\n\n| property | found by | commit | what failed |\n|---|---|---|---|\n"
for f in k["fixed"]:
    what = re.sub(r"^fixed: property=\S+ \S+ ", "", f["what"]).replace("|", "/")
    body += f"| {f['property']} | {f['rule']} | {f['commit']} | {what} |\n"
put("fixed", body)

# seeds
S = os.path.join(root, "seeded")
rows, det = [], 0
for sid in sorted(os.listdir(S)):
    mp = os.path.join(S, sid, "meta.json")
    if not os.path.exists(mp):
        continue
    m = json.load(open(mp))
    d = " ".join(m.get("detected_by", [])) or "—"
    det += 1 if m.get("detected") else 0
    ch = m["change"].replace("|", "/").replace("\n", " ")
    if len(ch) > 150:
        ch = ch[:147] + "..."
    rows.append(f"| {sid} | {m['where'].replace('|','/')[:90]} | {ch} | {d} |")
body = f"{len(rows)} seeded changes, {det} reported by at least one check (last sweep: `seeded/SWEEP.tsv`; per-seed details in `seeded/<id>/meta.json`).\n\n| seed | where | change | reported by (property:rules) |\n|---|---|---|---|\n" + "\n".join(rows)
put("seeds", body)
open(p, "w").write(s)
print("DESIGN.md regenerated:", len(rules), "rules,", len(k["fixed"]), "fixed,", len(rows), "seeds,", det, "detected")
