#!/bin/bash
# usage: try_seed.sh <seed-id> <prop>...   applies the seeded patch to /repo, runs the checks, reverts.
S=/verif/seeded/$1; shift
cd /repo && git apply "$S/patch.diff" || exit 2
cd /verif
for p in "$@"; do ./bin/lvcheck -prop $p 2>&1 | grep -E "^(VIOLATION|lvcheck|[a-z].*\[[A-Z]+\])" | cut -c1-260; done
git -C /repo checkout -- .
