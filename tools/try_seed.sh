#!/bin/bash
# usage: try_seed.sh <seed-id> <prop...>   — applies /verif/seeded/<seed-id>/patch.diff in a scratch worktree of /repo HEAD
# (so that /repo itself, and anything running on it, is left alone), runs the named checks against it and removes it.
set -u
S=$1; shift
WT=$(mktemp -d /tmp/try-wt-XXXX); SV=$(mktemp -d /tmp/try-sv-XXXX)
git -C /repo worktree add -q --detach "$WT" HEAD || exit 2
trap 'git -C /repo worktree remove --force "$WT" >/dev/null 2>&1; rm -rf "$WT" "$SV"' EXIT
cp /verif/known_findings.json "$SV/"; mkdir -p "$SV/evidence"
if ! git -C "$WT" apply "/verif/seeded/$S/patch.diff"; then echo "PATCH-DOES-NOT-APPLY $S"; exit 3; fi
FLAGS=""; PROPS=""
for a in "$@"; do case "$a" in -*) FLAGS="$FLAGS $a";; *) PROPS="$PROPS $a";; esac; done
P=$(echo $PROPS | tr ' ' ',')
/verif/bin/lvcheck $FLAGS -prop "$P" -repo "$WT" -verif "$SV" 2>&1 | grep -v "^WARNING conda"
