#!/bin/bash
# usage: import_round5.sh Cxx  — copies the sub-agent's /tmp/mut5/Cxx/.mut/mN into /verif/seeded/Cxx-m(N+10),
# confirms each with verify_seed.sh, then removes the agent's scratch worktree.
P=$1
for d in /tmp/mut5/$P/.mut/m*; do
  [ -d "$d" ] || continue
  n=$(basename $d | tr -d m); k=$((n+13))
  dst=/verif/seeded/$P-m$k
  mkdir -p $dst; cp $d/patch.diff $d/demo_test.go $d/notes.md $dst/ 2>/dev/null
  /verif/tools/verify_seed.sh $dst | tail -1
done
git -C /repo worktree remove --force /tmp/mut5/$P && rm -f /tmp/mut5/$P.property.json /tmp/mut5/prompt-$P.txt
