package rules

import (
	"fmt"
	"go/ast"
	"go/token"
	"go/types"
	"strings"

	"golang.org/x/tools/go/packages"

	"lvcheck/internal/core"
)

// SHARED — no mutable memory is shared between an object and its shallow copy; a copy constructor never writes
// into the original.
//
//   (mut)   Mut(T) = fields of T through which some method of T other than a constructor stores (index/field
//           assignment, destination of a ring operation, receiver of an in-place method), found syntactically.
//   (share) in ShallowCopy (documented "can be used concurrently"), a field whose value is a view of a receiver
//           field (no call in between) and whose type carries pointers must not be in Mut(T).
//   (ctor)  no copy constructor stores through memory reachable from its receiver (a value receiver's own fields
//           excepted: `enc.x = ...; return &enc` modifies the copy).

func hasPointers(t types.Type, depth int) bool {
	if depth > 6 || t == nil {
		return true
	}
	switch u := t.Underlying().(type) {
	case *types.Basic:
		return u.Kind() == types.UnsafePointer || u.Kind() == types.String && false
	case *types.Pointer, *types.Slice, *types.Map, *types.Chan, *types.Interface, *types.Signature:
		return true
	case *types.Array:
		return hasPointers(u.Elem(), depth+1)
	case *types.Struct:
		for i := 0; i < u.NumFields(); i++ {
			if hasPointers(u.Field(i).Type(), depth+1) {
				return true
			}
		}
		return false
	}
	return true
}

func isCtorName(name string) bool {
	return strings.HasPrefix(name, "New") || strings.HasPrefix(name, "new") || copyCtorNames[name]
}

type mutInfo struct {
	pos token.Pos
	fn  string
	how string
}

// mutatedFields computes Mut(T) for every named struct type of the module.
func mutatedFields(p *core.Program) map[*types.TypeName]map[string]mutInfo {
	res := map[*types.TypeName]map[string]mutInfo{}
	mutMethods = map[*types.TypeName]map[string]pointeeMutInfo{}
	fieldCalls = map[*types.TypeName]map[string]map[string]bool{}
	p.FuncDecls(func(pk *packages.Package, file *ast.File, fd *ast.FuncDecl) {
		if fd.Recv == nil || fd.Body == nil || fileIsTestSupport(p, fd.Pos()) {
			return
		}
		info := pk.TypesInfo
		named, _ := core.RecvNamed(info, fd)
		recv := recvObj(info, fd)
		if named == nil || recv == nil {
			return
		}
		tn := named.Origin().Obj()
		ast.Inspect(fd.Body, func(x ast.Node) bool {
			call, ok := x.(*ast.CallExpr)
			if !ok {
				return true
			}
			m, ok := unparen(call.Fun).(*ast.SelectorExpr)
			if !ok {
				return true
			}
			f, ok := unparen(m.X).(*ast.SelectorExpr)
			if !ok {
				return true
			}
			if id, ok := unparen(f.X).(*ast.Ident); !ok || info.Uses[id] != types.Object(recv) {
				return true
			}
			if fieldCalls[tn] == nil {
				fieldCalls[tn] = map[string]map[string]bool{}
			}
			if fieldCalls[tn][f.Sel.Name] == nil {
				fieldCalls[tn][f.Sel.Name] = map[string]bool{}
			}
			fieldCalls[tn][f.Sel.Name][m.Sel.Name] = true
			return true
		})
	})
	p.FuncDecls(func(pk *packages.Package, file *ast.File, fd *ast.FuncDecl) {
		if fd.Recv == nil || isCtorName(fd.Name.Name) || fileIsTestSupport(p, fd.Pos()) {
			return
		}
		info := pk.TypesInfo
		named, _ := core.RecvNamed(info, fd)
		recv := recvObj(info, fd)
		if named == nil || recv == nil {
			return
		}
		aliases := localAliases(info, fd)
		for _, w := range collectWrites(info, fd.Body) {
			for _, r := range rootsOfWrite(info, w, aliases) {
				if r.obj != recv || r.field == "" {
					continue
				}
				// an assignment that stays inside the struct value (the field itself or a sub-field reached without
				// going through a pointer, slice or map) is not a store through shared memory
				if w.how == "assignment" && !r.deref {
					continue
				}
				tn := named.Origin().Obj()
				if res[tn] == nil {
					res[tn] = map[string]mutInfo{}
				}
				if _, ok := res[tn][r.field]; !ok {
					res[tn][r.field] = mutInfo{w.pos, core.FuncKey(pk, fd), w.how}
				}
				if mutMethods[tn] == nil {
					mutMethods[tn] = map[string]pointeeMutInfo{}
				}
				if _, ok := mutMethods[tn][fd.Name.Name]; !ok {
					mutMethods[tn][fd.Name.Name] = pointeeMutInfo{mutInfo{w.pos, core.FuncKey(pk, fd), w.how}, r.field}
				}
			}
		}
	})
	return res
}

type pointeeMutInfo struct {
	mutInfo
	field string
}

// mutMethods[U][M]: method M of U stores through a field of U. fieldCalls[T][F][M]: some method of T calls recv.F.M(…).
var mutMethods map[*types.TypeName]map[string]pointeeMutInfo
var fieldCalls map[*types.TypeName]map[string]map[string]bool

// pointeeMut: for a field of type *U (U a struct type of the module), the first field of U through which a method of
// U stores, if any.
func pointeeMut(owner *types.TypeName, field string, ft types.Type) (*pointeeMutInfo, string) {
	pt, ok := ft.Underlying().(*types.Pointer)
	if !ok {
		return nil, ""
	}
	n := namedOf(pt.Elem())
	if n == nil {
		return nil, ""
	}
	m := mutMethods[n.Origin().Obj()]
	if len(m) == 0 {
		return nil, ""
	}
	// only the methods the owner actually calls on the component while working
	var keys []string
	for k := range m {
		if fieldCalls[owner][field][k] {
			keys = append(keys, k)
		}
	}
	if len(keys) == 0 {
		return nil, ""
	}
	sortStrings(keys)
	r := m[keys[0]]
	return &r, n.Obj().Name()
}

func scanShared(c *core.Ctx) []ob {
	var out []ob
	mut := mutatedFields(c.Program)
	nShare, nCtor := 0, 0
	for _, cc := range findCopyCtors(c.Program) {
		info := cc.pk.TypesInfo
		fkey := core.FuncKey(cc.pk, cc.fd)
		recv := recvObj(info, cc.fd)
		aliases := localAliases(info, cc.fd)
		props := copyfProps(core.ShortPkg(cc.pk.PkgPath), cc.named.Obj().Name())
		// (ctor) the copy constructor must not write into the original
		nCtor++
		_, ptrRecv := core.RecvNamed(info, cc.fd)
		bad := false
		for _, w := range collectWrites(info, cc.fd.Body) {
			for _, r := range rootsOfWrite(info, w, aliases) {
				if recv == nil || r.obj != recv {
					continue
				}
				if w.how == "assignment" && !r.deref && (!ptrRecv || r.field == "" || r.field == "*") {
					continue // modifies the value receiver's own copy / a fresh object / a local copy `c := *recv`
				}
				if r.field == "" {
					continue
				}
				// storing through a pointer-free part of a value receiver also only touches the copy
				if !ptrRecv && r.field != "" {
					if st := cc.st; st != nil {
						var ft types.Type
						for i := 0; i < st.NumFields(); i++ {
							if st.Field(i).Name() == r.field {
								ft = st.Field(i).Type()
							}
						}
						if ft != nil && !hasPointers(ft, 0) {
							continue
						}
					}
				}
				if fieldRebuiltBefore(info, cc.fd, w.target, w.pos, recv, aliases) {
					continue // the copy's field was given fresh storage first: the store goes there
				}
				bad = true
				out = append(out, withProps(violOb("SHARED", fmt.Sprintf("SHARED:%s#writes(%s)", fkey, r.field), c.Rel(w.pos),
					fmt.Sprintf("copy constructor %s stores through %s, which is memory of the receiver (%s): building a copy changes the original, and races with goroutines using it", fkey, exprString(w.target), w.how)), props...))
			}
		}
		if !bad {
			out = append(out, withProps(okOb("SHARED", "SHARED:"+fkey+"#nowrite", c.Rel(cc.fd.Pos()), "the copy constructor does not store through its receiver", false), props...))
		}
		if cc.fd.Name.Name != "ShallowCopy" {
			continue
		}
		// (share) fields that view receiver memory
		ast.Inspect(cc.fd.Body, func(n ast.Node) bool {
			cl, ok := n.(*ast.CompositeLit)
			if !ok || !sameNamed(info.TypeOf(cl), cc.named) {
				return true
			}
			for _, el := range cl.Elts {
				kv, ok := el.(*ast.KeyValueExpr)
				if !ok {
					continue
				}
				k, _ := kv.Key.(*ast.Ident)
				if k == nil || !isViewExpr(kv.Value) {
					continue
				}
				if _, isLit := unparen(kv.Value).(*ast.CompositeLit); isLit {
					continue
				}
				var ft types.Type
				for i := 0; i < cc.st.NumFields(); i++ {
					if cc.st.Field(i).Name() == k.Name {
						ft = cc.st.Field(i).Type()
					}
				}
				if ft == nil || !hasPointers(ft, 0) {
					continue
				}
				for _, r := range rootsOf(info, kv.Value, aliases, 0) {
					if recv == nil || r.obj != recv || r.field == "" {
						continue
					}
					nShare++
					key := fmt.Sprintf("SHARED:%s#field=%s", fkey, k.Name)
					if m, isMut := mut[cc.named.Origin().Obj()][r.field]; isMut {
						out = append(out, withProps(violOb("SHARED", key, c.Rel(kv.Pos()),
							fmt.Sprintf("%s hands the copy the same %s as the original (field %s = %s) although %s stores through that field (%s at %s): two goroutines, each confined to its own copy, race on it", fkey, types.TypeString(ft, func(p *types.Package) string { return p.Name() }), k.Name, exprString(kv.Value), m.fn, m.how, c.Rel(m.pos))), props...))
					} else if pm, pt := pointeeMut(cc.named.Origin().Obj(), r.field, ft); pm != nil {
						// the field is a pointer to a component whose own methods store through its fields: the two
						// copies then share that component's state
						out = append(out, withProps(violOb("SHARED", key, c.Rel(kv.Pos()),
							fmt.Sprintf("%s hands the copy the same %s as the original (field %s = %s) although %s keeps state: %s stores through its field %s (%s at %s): two goroutines, each confined to its own copy, race on it", fkey, types.TypeString(ft, func(p *types.Package) string { return p.Name() }), k.Name, exprString(kv.Value), pt, pm.fn, pm.field, pm.how, c.Rel(pm.pos))), props...))
					} else {
						out = append(out, withProps(okOb("SHARED", key, c.Rel(kv.Pos()), "shared by reference and never stored through by a method of the type", true), props...))
					}
				}
			}
			return true
		})
		// (share, whole copy) `return recv` / `c := recv; …; return c`: every field not reassigned is handed over as it is
		{
			copies := map[types.Object]bool{}
			if recv != nil {
				copies[recv] = true
			}
			ast.Inspect(cc.fd.Body, func(n ast.Node) bool {
				if as, ok := n.(*ast.AssignStmt); ok && len(as.Lhs) == len(as.Rhs) {
					for i, l := range as.Lhs {
						id, ok := l.(*ast.Ident)
						if !ok {
							continue
						}
						r := unparen(as.Rhs[i])
						if st, ok := r.(*ast.StarExpr); ok {
							r = unparen(st.X)
						}
						if rid, ok := r.(*ast.Ident); ok && recv != nil && info.Uses[rid] == recv {
							if o := info.Defs[id]; o != nil {
								copies[o] = true
							}
						}
					}
				}
				return true
			})
			whole := false
			ast.Inspect(cc.fd.Body, func(n ast.Node) bool {
				if ret, ok := n.(*ast.ReturnStmt); ok {
					for _, r := range ret.Results {
						r = unparen(r)
						if u, ok := r.(*ast.UnaryExpr); ok && u.Op == token.AND {
							r = unparen(u.X)
						}
						if id, ok := r.(*ast.Ident); ok && copies[info.Uses[id]] {
							whole = true
						}
					}
				}
				return true
			})
			if whole {
				reassigned := map[string]bool{}
				ast.Inspect(cc.fd.Body, func(n ast.Node) bool {
					if as, ok := n.(*ast.AssignStmt); ok {
						for _, l := range as.Lhs {
							if se, ok := unparen(l).(*ast.SelectorExpr); ok {
								if id, ok := unparen(se.X).(*ast.Ident); ok && copies[info.Uses[id]] {
									reassigned[se.Sel.Name] = true
								}
							}
						}
					}
					// a completion method called on the copy (`cpy.allocateBuffers()`) reassigns what it assigns
					if call, ok := n.(*ast.CallExpr); ok {
						if se, ok := unparen(call.Fun).(*ast.SelectorExpr); ok {
							if id, ok := unparen(se.X).(*ast.Ident); ok && copies[info.Uses[id]] && (info.Uses[id] != types.Object(recv) || !ptrRecv) {
								if m := calleeFunc(info, call); m != nil {
									for f := range fieldsAssignedByMethod(c.Program, m, 0) {
										reassigned[f] = true
									}
								}
							}
						}
					}
					return true
				})
				for i := 0; i < cc.st.NumFields(); i++ {
					f := cc.st.Field(i)
					if reassigned[f.Name()] || !hasPointers(f.Type(), 0) {
						continue
					}
					nShare++
					key := fmt.Sprintf("SHARED:%s#field=%s", fkey, f.Name())
					if m, isMut := mut[cc.named.Origin().Obj()][f.Name()]; isMut {
						out = append(out, withProps(violOb("SHARED", key, c.Rel(cc.fd.Pos()),
							fmt.Sprintf("%s returns a copy of the whole receiver and never reassigns %s: the copy has the same %s as the original although %s stores through that field (%s at %s): two goroutines, each confined to its own copy, race on it", fkey, f.Name(), types.TypeString(f.Type(), func(p *types.Package) string { return p.Name() }), m.fn, m.how, c.Rel(m.pos))), props...))
					} else {
						out = append(out, withProps(okOb("SHARED", key, c.Rel(cc.fd.Pos()), "shared by the whole-struct copy and never stored through by a method of the type", true), props...))
					}
				}
			}
		}
	}
	c.Stats["shared_fields"] = nShare
	c.Stats["shared_ctors"] = nCtor
	return out
}

func init() {
	core.Register(&core.Rule{Name: "SHARED", Props: []string{"C10", "C18", "C16", "C14", "C17", "C20", "C07"},
		Doc: "a field that ShallowCopy shares by reference with the original is not stored through by any non-constructor method of the type (syntactic write sites: assignments, ring-operation destinations, in-place receivers, resolved through local views); no copy constructor stores through its receiver's memory",
		Run: func(c *core.Ctx) []ob {
			out := scanShared(c)
			for _, o := range core.Floor("SHARED", nil, "shared-by-reference fields", c.Stats["shared_fields"], 30) {
				out = append(out, withProps(o, "C10"))
			}
			for _, o := range control(c, "SHARED", scanShared, "#field=M") {
				out = append(out, withProps(o, "C10"))
			}
			return out
		}})
}

// fieldRebuiltBefore reports whether the store target goes through a field `v.F` of a local struct value v that a
// top-level statement of the function, placed before the store, has assigned a value not rooted at the receiver
// (`cpy := eval; cpy.index = make(…); cpy.index[k] = …`): the store then lands in the fresh storage.
func fieldRebuiltBefore(info *types.Info, fd *ast.FuncDecl, target ast.Expr, pos token.Pos, recv types.Object, aliases map[types.Object][]ast.Expr) bool {
	// innermost selector over a plain identifier
	var sel *ast.SelectorExpr
	e := unparen(target)
	for sel == nil {
		switch x := e.(type) {
		case *ast.IndexExpr:
			e = unparen(x.X)
		case *ast.StarExpr:
			e = unparen(x.X)
		case *ast.SliceExpr:
			e = unparen(x.X)
		case *ast.SelectorExpr:
			if _, ok := unparen(x.X).(*ast.Ident); ok {
				sel = x
			} else {
				e = unparen(x.X)
			}
		default:
			return false
		}
	}
	v := identObj(info, sel.X)
	if v == nil || v == recv {
		return false
	}
	for _, st := range fd.Body.List {
		as, ok := st.(*ast.AssignStmt)
		if !ok || as.Pos() >= pos || len(as.Lhs) != len(as.Rhs) {
			continue
		}
		for i, l := range as.Lhs {
			ls, ok := unparen(l).(*ast.SelectorExpr)
			if !ok || ls.Sel.Name != sel.Sel.Name || identObj(info, ls.X) != v {
				continue
			}
			fresh := true
			for _, r := range rootsOf(info, as.Rhs[i], aliases, 0) {
				if r.obj == recv {
					fresh = false
				}
			}
			if fresh {
				return true
			}
		}
	}
	return false
}
