package rules

import (
	"fmt"
	"go/ast"
	"go/token"
	"go/types"
	"strings"

	"golang.org/x/tools/go/packages"

	"lvcheck/internal/core"
)

// SCALEALL — when the scale of an element is multiplied by a factor, every component of the element is.
//
// `opOut.Scale = opOut.Scale.Mul(NewScale(r1))` relabels the plaintext the ciphertext decrypts to; it is only right if
// all the components of opOut have been multiplied by r1. The repository does this with a loop over the element's own
// components (`for i := range opOut.Value { ringQ.MulScalar(opOut.Value[i], r1, opOut.Value[i]) }`). Fusing that
// multiplication into a loop over *another* element's components (`for i := range op0.Value`) leaves the components
// opOut has beyond op0's degree unscaled while the scale says otherwise (degree-2 accumulator, degree-1 operand).
//
// Rule: in a function that updates X.Scale from itself by a factor mentioning a local r, every in-place scalar
// multiplication of a component of X by r (`MulScalar*(X.Value[i], r, X.Value[i])`, or of the value variable of a range
// over X.Value) lies in a loop over X's own components (range X.Value, or a bound mentioning X.Degree() / len(X.Value)).
func scanScaleAll(c *core.Ctx) []ob {
	var out []ob
	n := 0
	c.FuncDecls(func(pk *packages.Package, file *ast.File, fd *ast.FuncDecl) {
		rel := core.ShortPkg(pk.PkgPath)
		if fd.Body == nil || fileIsTestSupport(c.Program, fd.Pos()) || !(c.IsFixture || strings.HasPrefix(rel, "schemes/") || strings.HasPrefix(rel, "core/") || strings.HasPrefix(rel, "circuits/") || strings.HasPrefix(rel, "multiparty")) {
			return
		}
		info := pk.TypesInfo
		fkey := core.FuncKey(pk, fd)
		// X.Scale = X.Scale.Mul(E) / Div(E): element text -> factor identifiers
		factors := map[string]map[types.Object]bool{}
		ast.Inspect(fd.Body, func(x ast.Node) bool {
			as, ok := x.(*ast.AssignStmt)
			if !ok || len(as.Lhs) != 1 || len(as.Rhs) != 1 {
				return true
			}
			ls, ok := unparen(as.Lhs[0]).(*ast.SelectorExpr)
			if !ok || ls.Sel.Name != "Scale" {
				return true
			}
			call, ok := unparen(as.Rhs[0]).(*ast.CallExpr)
			if !ok || len(call.Args) != 1 {
				return true
			}
			fs, ok := unparen(call.Fun).(*ast.SelectorExpr)
			if !ok || (fs.Sel.Name != "Mul" && fs.Sel.Name != "Div") {
				return true
			}
			if exprString(fs.X) != exprString(ls) {
				return true
			}
			el := exprString(ls.X)
			ast.Inspect(call.Args[0], func(y ast.Node) bool {
				if id, ok := y.(*ast.Ident); ok {
					if v, ok := info.Uses[id].(*types.Var); ok && !v.IsField() && v.Parent() != nil && v.Parent() != pk.Types.Scope() {
						if factors[el] == nil {
							factors[el] = map[types.Object]bool{}
						}
						factors[el][v] = true
					}
				}
				return true
			})
			return true
		})
		if len(factors) == 0 {
			return
		}
		pm := parentMap(fd.Body)
		// loops: what each ranges over
		loopOver := func(nd ast.Node) (string, *ast.RangeStmt, bool) {
			switch l := nd.(type) {
			case *ast.RangeStmt:
				return exprString(l.X), l, true
			case *ast.ForStmt:
				if l.Cond != nil {
					return exprString(l.Cond), nil, true
				}
				return "", nil, true
			}
			return "", nil, false
		}
		for el, fs := range factors {
			var sites, bad []string
			var badPos token.Pos
			ast.Inspect(fd.Body, func(x ast.Node) bool {
				call, ok := x.(*ast.CallExpr)
				if !ok || len(call.Args) < 3 {
					return true
				}
				fn := calleeFunc(info, call)
				if fn == nil || !strings.HasPrefix(fn.Name(), "MulScalar") && !strings.HasPrefix(fn.Name(), "MulRNSScalar") {
					return true
				}
				first, last := exprString(call.Args[0]), exprString(call.Args[len(call.Args)-1])
				if first != last {
					return true
				}
				usesFactor := false
				for _, a := range call.Args[1 : len(call.Args)-1] {
					ast.Inspect(a, func(y ast.Node) bool {
						if id, ok := y.(*ast.Ident); ok && fs[info.Uses[id]] {
							usesFactor = true
						}
						return true
					})
				}
				if !usesFactor {
					return true
				}
				// is the scaled polynomial a component of el?
				comp := strings.HasPrefix(first, el+".Value[")
				var valueVar types.Object
				if id, ok := unparen(call.Args[0]).(*ast.Ident); ok {
					valueVar = info.Uses[id]
				}
				// enclosing loops, innermost first
				own, foreign := false, ""
				for p := pm[ast.Node(call)]; p != nil; p = pm[p] {
					txt, rs, isLoop := loopOver(p)
					if !isLoop {
						continue
					}
					if rs != nil && valueVar != nil && rs.Value != nil && info.Defs[rs.Value.(*ast.Ident)] == valueVar {
						// for _, p := range Y.Value { MulScalar(p, r, p) }
						if txt == el+".Value" {
							comp, own = true, true
						}
						break
					}
					if !comp {
						continue
					}
					if txt == el+".Value" || strings.Contains(txt, el+".Degree()") || strings.Contains(txt, "len("+el+".Value)") {
						own = true
						break
					}
					if foreign == "" && (strings.HasSuffix(txt, ".Value") || strings.Contains(txt, ".Degree()") || strings.Contains(txt, ".Value)")) {
						foreign = txt
					}
				}
				if !comp {
					return true
				}
				sites = append(sites, c.Rel(call.Pos()))
				if !own && foreign != "" {
					bad = append(bad, fmt.Sprintf("%s at %s is in a loop over %s", exprString(call), c.Rel(call.Pos()), foreign))
					if badPos == token.NoPos {
						badPos = call.Pos()
					}
				}
				return true
			})
			if len(sites) == 0 {
				continue
			}
			n++
			key := "SCALEALL:" + fkey + "#" + el
			if len(bad) > 0 {
				out = append(out, withProps(violOb("SCALEALL", key, c.Rel(badPos), fmt.Sprintf("%s multiplies the scale of %s by a factor and scales its components by the same factor, but %s: the components %s has beyond that bound keep the old scale while %s.Scale says otherwise", fkey, el, strings.Join(bad, "; "), el, el)), propsForKey(fkey)...))
			} else {
				out = append(out, withProps(okOb("SCALEALL", key, c.Rel(fd.Pos()), fmt.Sprintf("every component of %s is scaled where its scale is (%s)", el, strings.Join(sites, ", ")), true), propsForKey(fkey)...))
			}
		}
	})
	c.Stats["scaleall_sites"] = n
	return out
}

// SIBRET — sibling binary methods of a value type take each field of what they return from the same operand.
//
// `func (s Scale) Mul(s1 Scale) Scale { … return Scale{Value: *res, Mod: s.Mod} }` and its sibling Div have the same
// signature and the same shape; both keep the modulus of the receiver (the operand's may be nil: NewScale(1)). Taking the
// field from the parameter in one of them (`Mod: s1.Mod`) changes which modulus later operations reduce by.
//
// Rule: among the methods of one receiver type that have identical signatures with a parameter of the receiver's own
// type and return a keyed composite literal of that type, a field that one method takes from the receiver
// (`F: recv.F`) is not taken from the parameter (`F: param.F`) by another.
func scanSibRet(c *core.Ctx) []ob {
	var out []ob
	n := 0
	for _, pk := range c.Pkgs {
		if inExamples(pk) {
			continue
		}
		info := pk.TypesInfo
		type src struct {
			method string
			from   string // "recv" / "param"
			pos    token.Pos
		}
		// receiver type name + signature string -> field -> sources
		fam := map[string]map[string][]src{}
		var famOrder []string
		for _, f := range pk.Syntax {
			if fileIsTestSupport(c.Program, f.Pos()) {
				continue
			}
			for _, d := range f.Decls {
				fd, ok := d.(*ast.FuncDecl)
				if !ok || fd.Body == nil || fd.Recv == nil {
					continue
				}
				obj, _ := info.Defs[fd.Name].(*types.Func)
				if obj == nil {
					continue
				}
				sig := obj.Type().(*types.Signature)
				if sig.Recv() == nil || sig.Params().Len() != 1 || sig.Results().Len() != 1 {
					continue
				}
				rt := deref(sig.Recv().Type())
				if !types.Identical(deref(sig.Params().At(0).Type()), rt) || !types.Identical(deref(sig.Results().At(0).Type()), rt) {
					continue
				}
				if structOf(rt) == nil {
					continue
				}
				recv, par := sig.Recv(), sig.Params().At(0)
				fk := core.RecvTypeName(fd) + "|" + sig.Params().At(0).Type().String() + "|" + sig.Results().At(0).Type().String()
				ast.Inspect(fd.Body, func(x ast.Node) bool {
					ret, ok := x.(*ast.ReturnStmt)
					if !ok || len(ret.Results) != 1 {
						return true
					}
					e := unparen(ret.Results[0])
					if u, ok := e.(*ast.UnaryExpr); ok && u.Op == token.AND {
						e = unparen(u.X)
					}
					cl, ok := e.(*ast.CompositeLit)
					if !ok {
						return true
					}
					for _, el := range cl.Elts {
						kv, ok := el.(*ast.KeyValueExpr)
						if !ok {
							continue
						}
						fname := exprString(kv.Key)
						sel, ok := unparen(kv.Value).(*ast.SelectorExpr)
						if !ok || sel.Sel.Name != fname {
							continue
						}
						id, ok := unparen(sel.X).(*ast.Ident)
						if !ok {
							continue
						}
						from := ""
						switch info.Uses[id] {
						case types.Object(recv):
							from = "recv"
						case types.Object(par):
							from = "param"
						}
						if from == "" {
							continue
						}
						if fam[fk] == nil {
							fam[fk] = map[string][]src{}
							famOrder = append(famOrder, fk)
						}
						fam[fk][fname] = append(fam[fk][fname], src{fd.Name.Name, from, kv.Pos()})
					}
					return true
				})
			}
		}
		for _, fk := range famOrder {
			tn := strings.SplitN(fk, "|", 2)[0]
			for _, fname := range sortedKeys(fam[fk]) {
				ss := fam[fk][fname]
				methods := map[string]bool{}
				for _, s := range ss {
					methods[s.method] = true
				}
				if len(methods) < 2 {
					continue
				}
				n++
				key := fmt.Sprintf("SIBRET:%s.(%s).%s", core.ShortPkg(pk.PkgPath), tn, fname)
				var rm, pmm []string
				var ppos token.Pos
				for _, s := range ss {
					if s.from == "recv" {
						rm = append(rm, s.method)
					} else {
						pmm = append(pmm, s.method)
						if ppos == token.NoPos {
							ppos = s.pos
						}
					}
				}
				props := append(append([]string{}, propsForKey(core.ShortPkg(pk.PkgPath) + ".")...), "C05", "C06")
				if len(rm) > 0 && len(pmm) > 0 {
					out = append(out, withProps(violOb("SIBRET", key, c.Rel(ppos), fmt.Sprintf("the sibling methods %s of %s return field %s of the receiver, but %s takes it from the parameter: the two operands need not agree on it (one of them may not have it set)", strings.Join(rm, ", "), tn, fname, strings.Join(pmm, ", "))), props...))
				} else {
					out = append(out, withProps(okOb("SIBRET", key, c.Rel(ss[0].pos), fmt.Sprintf("%s: the sibling methods take field %s from the same operand", strings.Join(sortedKeys(methods), ", "), fname), true), props...))
				}
			}
		}
	}
	c.Stats["sibret_fields"] = n
	return out
}

func init() {
	core.Register(&core.Rule{Name: "SCALEALL", Wide: true, Props: []string{"C05", "C06", "C09"},
		Doc: "in a function that multiplies the scale of an element X by a factor (X.Scale = X.Scale.Mul(..r..)), every in-place scalar multiplication of a component of X by that factor lies in a loop over X's own components (range X.Value, X.Degree()), never in a loop over another element's components",
		Run: func(c *core.Ctx) []ob {
			out := scanScaleAll(c)
			for _, o := range core.Floor("SCALEALL", nil, "rescaled elements", c.Stats["scaleall_sites"], 3) {
				out = append(out, withProps(o, "C05"))
			}
			for _, o := range control(c, "SCALEALL", scanScaleAll, "lvfixture.accumulateScaled") {
				out = append(out, withProps(o, "C05"))
			}
			return out
		}})
	core.Register(&core.Rule{Name: "SIBRET", Wide: true, Props: []string{"C05", "C06"},
		Doc: "among the methods of one value type with identical binary signatures (T) T that return a keyed literal of T, a field that one sibling takes from the receiver is not taken from the parameter by another",
		Run: func(c *core.Ctx) []ob {
			out := scanSibRet(c)
			for _, o := range control(c, "SIBRET", scanSibRet, "(fxScale).Mod") {
				out = append(out, withProps(o, "C05"))
			}
			return out
		}})
}

var _ *packages.Package

// PRNGSHARE — a shallow copy never draws from the generator of the original.
//
// ShallowCopy promises an object that can be used concurrently with the receiver. A pseudo-random generator is a
// stateful stream: handing the receiver's generator (`enc.prng`) to the samplers of the copy makes the two objects race
// on its state, and makes the output of each depend on how the other is used. Every ShallowCopy of the repository
// creates a fresh generator (sampling.NewPRNG) or goes through a constructor that does.
//
// Rule: in a ShallowCopy method no expression rooted at the receiver whose type is a generator of utils/sampling
// (PRNG, *KeyedPRNG) is passed to a call, stored in a field or placed in a literal.
func scanPrngShare(c *core.Ctx) []ob {
	var out []ob
	n := 0
	isPRNG := func(t types.Type) bool {
		nm := namedOf(t)
		return nm != nil && nm.Obj().Pkg() != nil && strings.HasSuffix(nm.Obj().Pkg().Path(), "utils/sampling") && strings.Contains(nm.Obj().Name(), "PRNG")
	}
	c.FuncDecls(func(pk *packages.Package, file *ast.File, fd *ast.FuncDecl) {
		if fd.Body == nil || fd.Recv == nil || fd.Name.Name != "ShallowCopy" || fileIsTestSupport(c.Program, fd.Pos()) {
			return
		}
		info := pk.TypesInfo
		recv := recvObj(info, fd)
		if recv == nil {
			return
		}
		fkey := core.FuncKey(pk, fd)
		n++
		var bad ast.Expr
		check := func(e ast.Expr) {
			e = unparen(e)
			sel, ok := e.(*ast.SelectorExpr)
			if !ok || bad != nil {
				return
			}
			if r := rootIdent(sel); r == nil || info.Uses[r] != types.Object(recv) {
				return
			}
			if t := info.TypeOf(sel); t != nil && isPRNG(t) {
				bad = e
			}
		}
		ast.Inspect(fd.Body, func(x ast.Node) bool {
			switch v := x.(type) {
			case *ast.CallExpr:
				for _, a := range v.Args {
					check(a)
				}
			case *ast.KeyValueExpr:
				check(v.Value)
			case *ast.AssignStmt:
				for _, r := range v.Rhs {
					check(r)
				}
			}
			return true
		})
		key := "PRNGSHARE:" + fkey
		props := append([]string{"C10"}, copyfProps(core.ShortPkg(pk.PkgPath), core.RecvTypeName(fd))...)
		if bad != nil {
			out = append(out, withProps(violOb("PRNGSHARE", key, c.Rel(bad.Pos()), fmt.Sprintf("%s hands the receiver's generator %s to the copy: original and copy draw from one stateful stream (data race between the two, and the randomness of each depends on the use of the other)", fkey, exprString(bad))), props...))
		} else {
			out = append(out, withProps(okOb("PRNGSHARE", key, c.Rel(fd.Pos()), "the copy does not receive the receiver's generator", true), props...))
		}
	})
	c.Stats["prngshare_copies"] = n
	return out
}

func init() {
	core.Register(&core.Rule{Name: "PRNGSHARE", Wide: true, Props: []string{"C10", "C17"},
		Doc: "in a ShallowCopy method no generator of utils/sampling rooted at the receiver (enc.prng) is passed to a call, stored in a field or placed in a literal: the copy draws from a generator of its own",
		Run: func(c *core.Ctx) []ob {
			out := scanPrngShare(c)
			for _, o := range core.Floor("PRNGSHARE", nil, "ShallowCopy methods", c.Stats["prngshare_copies"], 24) {
				out = append(out, withProps(o, "C10"))
			}
			for _, o := range control(c, "PRNGSHARE", scanPrngShare, "(fxDrawer).ShallowCopy") {
				out = append(out, withProps(o, "C10"))
			}
			return out
		}})
}
