package rules

import (
	"fmt"
	"go/ast"
	"go/token"
	"go/types"
	"os"
	"strings"

	"golang.org/x/tools/go/packages"

	"lvcheck/internal/core"
)

// SCALEALL — when the scale of an element is multiplied by a factor, every component of the element is.
//
// `opOut.Scale = opOut.Scale.Mul(NewScale(r1))` relabels the plaintext the ciphertext decrypts to; it is only right if
// all the components of opOut have been multiplied by r1. The repository does this with a loop over the element's own
// components (`for i := range opOut.Value { ringQ.MulScalar(opOut.Value[i], r1, opOut.Value[i]) }`). Fusing that
// multiplication into a loop over *another* element's components (`for i := range op0.Value`) leaves the components
// opOut has beyond op0's degree unscaled while the scale says otherwise (degree-2 accumulator, degree-1 operand).
//
// Rule: in a function that updates X.Scale from itself by a factor mentioning a local r, every in-place scalar
// multiplication of a component of X by r (`MulScalar*(X.Value[i], r, X.Value[i])`, or of the value variable of a range
// over X.Value) lies in a loop over X's own components (range X.Value, or a bound mentioning X.Degree() / len(X.Value)).
func scanScaleAll(c *core.Ctx) []ob {
	var out []ob
	n := 0
	c.FuncDecls(func(pk *packages.Package, file *ast.File, fd *ast.FuncDecl) {
		rel := core.ShortPkg(pk.PkgPath)
		if fd.Body == nil || fileIsTestSupport(c.Program, fd.Pos()) || !(c.IsFixture || strings.HasPrefix(rel, "schemes/") || strings.HasPrefix(rel, "core/") || strings.HasPrefix(rel, "circuits/") || strings.HasPrefix(rel, "multiparty")) {
			return
		}
		info := pk.TypesInfo
		fkey := core.FuncKey(pk, fd)
		// X.Scale = X.Scale.Mul(E) / Div(E): element text -> factor identifiers
		factors := map[string]map[types.Object]bool{}
		ast.Inspect(fd.Body, func(x ast.Node) bool {
			as, ok := x.(*ast.AssignStmt)
			if !ok || len(as.Lhs) != 1 || len(as.Rhs) != 1 {
				return true
			}
			ls, ok := unparen(as.Lhs[0]).(*ast.SelectorExpr)
			if !ok || ls.Sel.Name != "Scale" {
				return true
			}
			call, ok := unparen(as.Rhs[0]).(*ast.CallExpr)
			if !ok || len(call.Args) != 1 {
				return true
			}
			fs, ok := unparen(call.Fun).(*ast.SelectorExpr)
			if !ok || (fs.Sel.Name != "Mul" && fs.Sel.Name != "Div") {
				return true
			}
			if exprString(fs.X) != exprString(ls) {
				return true
			}
			el := exprString(ls.X)
			ast.Inspect(call.Args[0], func(y ast.Node) bool {
				if id, ok := y.(*ast.Ident); ok {
					if v, ok := info.Uses[id].(*types.Var); ok && !v.IsField() && v.Parent() != nil && v.Parent() != pk.Types.Scope() {
						if factors[el] == nil {
							factors[el] = map[types.Object]bool{}
						}
						factors[el][v] = true
					}
				}
				return true
			})
			return true
		})
		if len(factors) == 0 {
			return
		}
		pm := parentMap(fd.Body)
		// loops: what each ranges over
		loopOver := func(nd ast.Node) (string, *ast.RangeStmt, bool) {
			switch l := nd.(type) {
			case *ast.RangeStmt:
				return exprString(l.X), l, true
			case *ast.ForStmt:
				if l.Cond != nil {
					return exprString(l.Cond), nil, true
				}
				return "", nil, true
			}
			return "", nil, false
		}
		for el, fs := range factors {
			var sites, bad []string
			var badPos token.Pos
			ast.Inspect(fd.Body, func(x ast.Node) bool {
				call, ok := x.(*ast.CallExpr)
				if !ok || len(call.Args) < 3 {
					return true
				}
				fn := calleeFunc(info, call)
				if fn == nil || !strings.HasPrefix(fn.Name(), "MulScalar") && !strings.HasPrefix(fn.Name(), "MulRNSScalar") {
					return true
				}
				first, last := exprString(call.Args[0]), exprString(call.Args[len(call.Args)-1])
				if first != last {
					return true
				}
				usesFactor := false
				for _, a := range call.Args[1 : len(call.Args)-1] {
					ast.Inspect(a, func(y ast.Node) bool {
						if id, ok := y.(*ast.Ident); ok && fs[info.Uses[id]] {
							usesFactor = true
						}
						return true
					})
				}
				if !usesFactor {
					return true
				}
				// is the scaled polynomial a component of el?
				comp := strings.HasPrefix(first, el+".Value[")
				var valueVar types.Object
				if id, ok := unparen(call.Args[0]).(*ast.Ident); ok {
					valueVar = info.Uses[id]
				}
				// enclosing loops, innermost first
				own, foreign := false, ""
				for p := pm[ast.Node(call)]; p != nil; p = pm[p] {
					txt, rs, isLoop := loopOver(p)
					if !isLoop {
						continue
					}
					if rs != nil && valueVar != nil && rs.Value != nil && info.Defs[rs.Value.(*ast.Ident)] == valueVar {
						// for _, p := range Y.Value { MulScalar(p, r, p) }
						if txt == el+".Value" {
							comp, own = true, true
						}
						break
					}
					if !comp {
						continue
					}
					if txt == el+".Value" || strings.Contains(txt, el+".Degree()") || strings.Contains(txt, "len("+el+".Value)") {
						own = true
						break
					}
					if foreign == "" && (strings.HasSuffix(txt, ".Value") || strings.Contains(txt, ".Degree()") || strings.Contains(txt, ".Value)")) {
						foreign = txt
					}
				}
				if !comp {
					return true
				}
				sites = append(sites, c.Rel(call.Pos()))
				if !own && foreign != "" {
					bad = append(bad, fmt.Sprintf("%s at %s is in a loop over %s", exprString(call), c.Rel(call.Pos()), foreign))
					if badPos == token.NoPos {
						badPos = call.Pos()
					}
				}
				return true
			})
			if len(sites) == 0 {
				continue
			}
			n++
			key := "SCALEALL:" + fkey + "#" + el
			if len(bad) > 0 {
				out = append(out, withProps(violOb("SCALEALL", key, c.Rel(badPos), fmt.Sprintf("%s multiplies the scale of %s by a factor and scales its components by the same factor, but %s: the components %s has beyond that bound keep the old scale while %s.Scale says otherwise", fkey, el, strings.Join(bad, "; "), el, el)), propsForKey(fkey)...))
			} else {
				out = append(out, withProps(okOb("SCALEALL", key, c.Rel(fd.Pos()), fmt.Sprintf("every component of %s is scaled where its scale is (%s)", el, strings.Join(sites, ", ")), true), propsForKey(fkey)...))
			}
		}
	})
	c.Stats["scaleall_sites"] = n
	return out
}

// SIBRET — sibling binary methods of a value type take each field of what they return from the same operand.
//
// `func (s Scale) Mul(s1 Scale) Scale { … return Scale{Value: *res, Mod: s.Mod} }` and its sibling Div have the same
// signature and the same shape; both keep the modulus of the receiver (the operand's may be nil: NewScale(1)). Taking the
// field from the parameter in one of them (`Mod: s1.Mod`) changes which modulus later operations reduce by.
//
// Rule: among the methods of one receiver type that have identical signatures with a parameter of the receiver's own
// type and return a keyed composite literal of that type, a field that one method takes from the receiver
// (`F: recv.F`) is not taken from the parameter (`F: param.F`) by another.
func scanSibRet(c *core.Ctx) []ob {
	var out []ob
	n := 0
	for _, pk := range c.Pkgs {
		if inExamples(pk) {
			continue
		}
		info := pk.TypesInfo
		type src struct {
			method string
			from   string // "recv" / "param"
			pos    token.Pos
		}
		// receiver type name + signature string -> field -> sources
		fam := map[string]map[string][]src{}
		var famOrder []string
		for _, f := range pk.Syntax {
			if fileIsTestSupport(c.Program, f.Pos()) {
				continue
			}
			for _, d := range f.Decls {
				fd, ok := d.(*ast.FuncDecl)
				if !ok || fd.Body == nil || fd.Recv == nil {
					continue
				}
				obj, _ := info.Defs[fd.Name].(*types.Func)
				if obj == nil {
					continue
				}
				sig := obj.Type().(*types.Signature)
				if sig.Recv() == nil || sig.Params().Len() != 1 || sig.Results().Len() != 1 {
					continue
				}
				rt := deref(sig.Recv().Type())
				if !types.Identical(deref(sig.Params().At(0).Type()), rt) || !types.Identical(deref(sig.Results().At(0).Type()), rt) {
					continue
				}
				if structOf(rt) == nil {
					continue
				}
				recv, par := sig.Recv(), sig.Params().At(0)
				fk := core.RecvTypeName(fd) + "|" + sig.Params().At(0).Type().String() + "|" + sig.Results().At(0).Type().String()
				ast.Inspect(fd.Body, func(x ast.Node) bool {
					ret, ok := x.(*ast.ReturnStmt)
					if !ok || len(ret.Results) != 1 {
						return true
					}
					e := unparen(ret.Results[0])
					if u, ok := e.(*ast.UnaryExpr); ok && u.Op == token.AND {
						e = unparen(u.X)
					}
					cl, ok := e.(*ast.CompositeLit)
					if !ok {
						return true
					}
					for _, el := range cl.Elts {
						kv, ok := el.(*ast.KeyValueExpr)
						if !ok {
							continue
						}
						fname := exprString(kv.Key)
						sel, ok := unparen(kv.Value).(*ast.SelectorExpr)
						if !ok || sel.Sel.Name != fname {
							continue
						}
						id, ok := unparen(sel.X).(*ast.Ident)
						if !ok {
							continue
						}
						from := ""
						switch info.Uses[id] {
						case types.Object(recv):
							from = "recv"
						case types.Object(par):
							from = "param"
						}
						if from == "" {
							continue
						}
						if fam[fk] == nil {
							fam[fk] = map[string][]src{}
							famOrder = append(famOrder, fk)
						}
						fam[fk][fname] = append(fam[fk][fname], src{fd.Name.Name, from, kv.Pos()})
					}
					return true
				})
			}
		}
		for _, fk := range famOrder {
			tn := strings.SplitN(fk, "|", 2)[0]
			for _, fname := range sortedKeys(fam[fk]) {
				ss := fam[fk][fname]
				methods := map[string]bool{}
				for _, s := range ss {
					methods[s.method] = true
				}
				if len(methods) < 2 {
					continue
				}
				n++
				key := fmt.Sprintf("SIBRET:%s.(%s).%s", core.ShortPkg(pk.PkgPath), tn, fname)
				var rm, pmm []string
				var ppos token.Pos
				for _, s := range ss {
					if s.from == "recv" {
						rm = append(rm, s.method)
					} else {
						pmm = append(pmm, s.method)
						if ppos == token.NoPos {
							ppos = s.pos
						}
					}
				}
				props := append(append([]string{}, propsForKey(core.ShortPkg(pk.PkgPath)+".")...), "C05", "C06")
				if len(rm) > 0 && len(pmm) > 0 {
					out = append(out, withProps(violOb("SIBRET", key, c.Rel(ppos), fmt.Sprintf("the sibling methods %s of %s return field %s of the receiver, but %s takes it from the parameter: the two operands need not agree on it (one of them may not have it set)", strings.Join(rm, ", "), tn, fname, strings.Join(pmm, ", "))), props...))
				} else {
					out = append(out, withProps(okOb("SIBRET", key, c.Rel(ss[0].pos), fmt.Sprintf("%s: the sibling methods take field %s from the same operand", strings.Join(sortedKeys(methods), ", "), fname), true), props...))
				}
			}
		}
	}
	c.Stats["sibret_fields"] = n
	return out
}

func init() {
	core.Register(&core.Rule{Name: "SCALEALL", Wide: true, Props: []string{"C05", "C06", "C09"},
		Doc: "in a function that multiplies the scale of an element X by a factor (X.Scale = X.Scale.Mul(..r..)), every in-place scalar multiplication of a component of X by that factor lies in a loop over X's own components (range X.Value, X.Degree()), never in a loop over another element's components",
		Run: func(c *core.Ctx) []ob {
			out := scanScaleAll(c)
			for _, o := range core.Floor("SCALEALL", nil, "rescaled elements", c.Stats["scaleall_sites"], 1) {
				out = append(out, withProps(o, "C05"))
			}
			for _, o := range control(c, "SCALEALL", scanScaleAll, "lvfixture.accumulateScaled") {
				out = append(out, withProps(o, "C05"))
			}
			return out
		}})
	core.Register(&core.Rule{Name: "SIBRET", Wide: true, Props: []string{"C05", "C06"},
		Doc: "among the methods of one value type with identical binary signatures (T) T that return a keyed literal of T, a field that one sibling takes from the receiver is not taken from the parameter by another",
		Run: func(c *core.Ctx) []ob {
			out := scanSibRet(c)
			for _, o := range control(c, "SIBRET", scanSibRet, "(fxScale).Mod") {
				out = append(out, withProps(o, "C05"))
			}
			return out
		}})
}

var _ *packages.Package

// PRNGSHARE — a shallow copy never draws from the generator of the original.
//
// ShallowCopy promises an object that can be used concurrently with the receiver. A pseudo-random generator is a
// stateful stream: handing the receiver's generator (`enc.prng`) to the samplers of the copy makes the two objects race
// on its state, and makes the output of each depend on how the other is used. Every ShallowCopy of the repository
// creates a fresh generator (sampling.NewPRNG) or goes through a constructor that does.
//
// Rule: in a ShallowCopy method no expression rooted at the receiver whose type is a generator of utils/sampling
// (PRNG, *KeyedPRNG) is passed to a call, stored in a field or placed in a literal.
func scanPrngShare(c *core.Ctx) []ob {
	var out []ob
	n := 0
	isPRNG := func(t types.Type) bool {
		nm := namedOf(t)
		return nm != nil && nm.Obj().Pkg() != nil && strings.HasSuffix(nm.Obj().Pkg().Path(), "utils/sampling") && strings.Contains(nm.Obj().Name(), "PRNG")
	}
	c.FuncDecls(func(pk *packages.Package, file *ast.File, fd *ast.FuncDecl) {
		if fd.Body == nil || fd.Recv == nil || fd.Name.Name != "ShallowCopy" || fileIsTestSupport(c.Program, fd.Pos()) {
			return
		}
		info := pk.TypesInfo
		recv := recvObj(info, fd)
		if recv == nil {
			return
		}
		fkey := core.FuncKey(pk, fd)
		n++
		var bad ast.Expr
		check := func(e ast.Expr) {
			e = unparen(e)
			// the receiver's generator seen through a type assertion is still the receiver's generator (its key, read
			// from there, starts a second generator on the same stream)
			if ta, ok := e.(*ast.TypeAssertExpr); ok && ta.Type != nil {
				e = unparen(ta.X)
			}
			sel, ok := e.(*ast.SelectorExpr)
			if !ok || bad != nil {
				return
			}
			if r := rootIdent(sel); r == nil || info.Uses[r] != types.Object(recv) {
				return
			}
			if t := info.TypeOf(sel); t != nil && isPRNG(t) {
				bad = e
			}
		}
		ast.Inspect(fd.Body, func(x ast.Node) bool {
			switch v := x.(type) {
			case *ast.CallExpr:
				for _, a := range v.Args {
					check(a)
				}
			case *ast.KeyValueExpr:
				check(v.Value)
			case *ast.AssignStmt:
				for _, r := range v.Rhs {
					check(r)
				}
			}
			return true
		})
		key := "PRNGSHARE:" + fkey
		props := append([]string{"C10"}, copyfProps(core.ShortPkg(pk.PkgPath), core.RecvTypeName(fd))...)
		if bad != nil {
			out = append(out, withProps(violOb("PRNGSHARE", key, c.Rel(bad.Pos()), fmt.Sprintf("%s hands the receiver's generator %s to the copy: original and copy draw from one stateful stream (data race between the two, and the randomness of each depends on the use of the other)", fkey, exprString(bad))), props...))
		} else {
			out = append(out, withProps(okOb("PRNGSHARE", key, c.Rel(fd.Pos()), "the copy does not receive the receiver's generator", true), props...))
		}
	})
	c.Stats["prngshare_copies"] = n
	return out
}

func init() {
	core.Register(&core.Rule{Name: "PRNGSHARE", Wide: true, Props: []string{"C10", "C17"},
		Doc: "in a ShallowCopy method no generator of utils/sampling rooted at the receiver (enc.prng) is passed to a call, stored in a field or placed in a literal: the copy draws from a generator of its own",
		Run: func(c *core.Ctx) []ob {
			out := scanPrngShare(c)
			for _, o := range core.Floor("PRNGSHARE", nil, "ShallowCopy methods", c.Stats["prngshare_copies"], 24) {
				out = append(out, withProps(o, "C10"))
			}
			for _, o := range control(c, "PRNGSHARE", scanPrngShare, "(fxDrawer).ShallowCopy") {
				out = append(out, withProps(o, "C10"))
			}
			return out
		}})
}

// VACGUARD — a guard does not compare a value with itself.
//
// `levelP := shareOut.LevelP()` followed by `if shareOut.LevelP() != levelP { return err }` can never fire: the failure
// its message describes ("min(skIn, skOut) LevelP != shareOut LevelP") is not tested at all, and the input it was meant
// to refuse goes on to an out-of-range index. Engler's contradiction rule: the code states a belief (this can fail) and
// makes it impossible to act on.
//
// Rule: an if-condition that leaves with an error or a panic and compares a local v with an expression E is reported
// when v's only definition in the function is `v := E` (same text), E is a chain of selectors and argument-less method
// calls, and no statement between the definition and the test mentions the root object of E (so that E cannot have
// changed). The same for a comparison of two texts that are identical (`a.X() != a.X()`).
func scanVacGuard(c *core.Ctx) []ob {
	var out []ob
	n := 0
	pureChain := func(e ast.Expr) bool {
		ok := true
		ast.Inspect(e, func(x ast.Node) bool {
			switch v := x.(type) {
			case *ast.CallExpr:
				if len(v.Args) != 0 {
					ok = false
				}
			case *ast.Ident, *ast.SelectorExpr, *ast.ParenExpr:
			default:
				if x != nil {
					ok = false
				}
			}
			return ok
		})
		return ok
	}
	c.FuncDecls(func(pk *packages.Package, file *ast.File, fd *ast.FuncDecl) {
		if fd.Body == nil || fileIsTestSupport(c.Program, fd.Pos()) || inExamples(pk) {
			return
		}
		info := pk.TypesInfo
		fkey := core.FuncKey(pk, fd)
		// single definitions of locals
		defs := map[types.Object][]*ast.AssignStmt{}
		defRhs := map[*ast.AssignStmt]map[types.Object]ast.Expr{}
		ast.Inspect(fd.Body, func(x ast.Node) bool {
			switch as := x.(type) {
			case *ast.AssignStmt:
				for i, l := range as.Lhs {
					id, ok := unparen(l).(*ast.Ident)
					if !ok {
						continue
					}
					o := info.Defs[id]
					if o == nil {
						o = info.Uses[id]
					}
					if o == nil {
						continue
					}
					defs[o] = append(defs[o], as)
					if len(as.Lhs) == len(as.Rhs) && as.Tok == token.DEFINE {
						if defRhs[as] == nil {
							defRhs[as] = map[types.Object]ast.Expr{}
						}
						defRhs[as][o] = as.Rhs[i]
					}
				}
			case *ast.IncDecStmt:
				if id, ok := unparen(as.X).(*ast.Ident); ok {
					if o := info.Uses[id]; o != nil {
						defs[o] = append(defs[o], nil)
					}
				}
			}
			return true
		})
		pm := parentMap(fd.Body)
		ord := 0
		ast.Inspect(fd.Body, func(x ast.Node) bool {
			is, ok := x.(*ast.IfStmt)
			if !ok {
				return true
			}
			// the branch must leave with an error or a panic
			leaves := false
			for _, st := range is.Body.List {
				switch s := st.(type) {
				case *ast.ReturnStmt:
					leaves = len(s.Results) > 0
				case *ast.ExprStmt:
					if call, ok := s.X.(*ast.CallExpr); ok {
						if id, ok := unparen(call.Fun).(*ast.Ident); ok && id.Name == "panic" {
							leaves = true
						}
					}
				}
			}
			if !leaves {
				return true
			}
			var check func(e ast.Expr)
			check = func(e ast.Expr) {
				be, ok := unparen(e).(*ast.BinaryExpr)
				if !ok {
					return
				}
				switch be.Op {
				case token.LAND, token.LOR:
					check(be.X)
					check(be.Y)
					return
				case token.EQL, token.NEQ, token.LSS, token.GTR, token.LEQ, token.GEQ:
				default:
					return
				}
				n++
				ord++
				xs, ys := exprString(be.X), exprString(be.Y)
				vac := ""
				if xs == ys && pureChain(be.X) {
					vac = fmt.Sprintf("both sides of `%s` are the same expression", exprString(be))
				}
				for _, pr := range [][2]ast.Expr{{be.X, be.Y}, {be.Y, be.X}} {
					id, ok := unparen(pr[0]).(*ast.Ident)
					if !ok || vac != "" {
						continue
					}
					o := info.Uses[id]
					if o == nil || len(defs[o]) == 0 || defs[o][0] == nil {
						continue
					}
					// the definition must be the only one that can reach the test: every other one comes after it
					// (the test is a statement of the function's top-level blocks, checked below, hence not in a loop
					// that could carry a later definition back)
					early := 0
					for _, d := range defs[o] {
						if d == nil || d.Pos() < is.Pos() {
							early++
						}
					}
					inLoop := false
					for p := pm[ast.Node(is)]; p != nil; p = pm[p] {
						switch p.(type) {
						case *ast.ForStmt, *ast.RangeStmt:
							inLoop = true
						}
					}
					if early != 1 || inLoop && len(defs[o]) > 1 {
						continue
					}
					as := defs[o][0]
					rhs := defRhs[as][o]
					if rhs == nil || exprString(rhs) != exprString(pr[1]) || !pureChain(rhs) || as.Pos() > is.Pos() {
						continue
					}
					if _, isCall := unparen(rhs).(*ast.CallExpr); !isCall {
						if _, isSel := unparen(rhs).(*ast.SelectorExpr); !isSel {
							continue
						}
					}
					root := rootIdent(rhs)
					if root == nil {
						continue
					}
					// nothing between the definition and the test may touch the root object: both must be statements of
					// one block, and the statements in between must not mention the root
					blk, _ := pm[ast.Node(as)].(*ast.BlockStmt)
					if blk == nil || pm[ast.Node(is)] != ast.Node(blk) {
						continue
					}
					touched, between := false, false
					for _, st := range blk.List {
						if st == ast.Stmt(as) {
							between = true
							continue
						}
						if st == ast.Stmt(is) {
							break
						}
						if between {
							ast.Inspect(st, func(y ast.Node) bool {
								if yid, ok := y.(*ast.Ident); ok && info.Uses[yid] == info.Uses[root] {
									touched = true
								}
								return true
							})
						}
					}
					if !touched {
						vac = fmt.Sprintf("`%s` compares %s with the expression it has just been defined as (%s)", exprString(be), id.Name, c.Rel(as.Pos()))
					}
				}
				key := fmt.Sprintf("VACGUARD:%s#%d", fkey, ord)
				if vac != "" {
					out = append(out, withProps(violOb("VACGUARD", "VACGUARD:"+fkey+"#"+exprString(be), c.Rel(be.Pos()), fmt.Sprintf("%s: %s: the guard can never fire, so the failure it is written for is not refused", fkey, vac)), propsForKey(fkey)...))
				} else {
					_ = key
				}
			}
			check(is.Cond)
			return true
		})
	})
	c.Stats["vacguard_comparisons"] = n
	out = append(out, okOb("VACGUARD", "VACGUARD:module", "", fmt.Sprintf("%d comparisons in failing guards examined, none compares a value with itself", n), true))
	return out
}

func init() {
	core.Register(&core.Rule{Name: "VACGUARD", Wide: true, Props: []string{"C14", "C04", "C19"},
		Doc: "no if-condition that leaves with an error or a panic compares a local with the very expression it has just been defined as (v := E; if E != v), or an expression with itself: such a guard never fires and the failure it is written for is not refused",
		Run: func(c *core.Ctx) []ob {
			out := scanVacGuard(c)
			for i := range out {
				if out[i].Key == "VACGUARD:module" {
					out[i] = withProps(out[i], "C14", "C04", "C19")
				}
			}
			for _, o := range core.Floor("VACGUARD", nil, "comparisons in failing guards", c.Stats["vacguard_comparisons"], 300) {
				out = append(out, withProps(o, "C14"))
			}
			for _, o := range control(c, "VACGUARD", scanVacGuard, "lvfixture.checkShareLevel") {
				out = append(out, withProps(o, "C14"))
			}
			return out
		}})
}

// NAMEFIELD — an accessor named after one component does not answer from its sibling.
//
// `func (p Parameters) DepthCoeffsToSlots() int { return p.SlotsToCoeffsParameters.Depth(true) }` and its twin
// DepthSlotsToCoeffs answer from each other's component: every caller that budgets levels per step gets the other
// step's depth (the sum is right, which is why nothing notices).
//
// Rule: take the fields of a struct whose names end in Parameters/Params/Literal; their stems (CoeffsToSlots, Mod1, …)
// name components. A method of the struct whose name contains the stem of field Fi, that reads some stemmed field, reads
// Fi — unless its name also contains the stem of the field it reads.
func scanNameField(c *core.Ctx) []ob {
	var out []ob
	n := 0
	stemOf := func(f string) string {
		for _, suf := range []string{"ParametersLiteral", "Parameters", "Params", "Literal"} {
			if strings.HasSuffix(f, suf) && len(f)-len(suf) >= 4 {
				return strings.TrimSuffix(f, suf)
			}
		}
		return ""
	}
	c.FuncDecls(func(pk *packages.Package, file *ast.File, fd *ast.FuncDecl) {
		if fd.Body == nil || fd.Recv == nil || fileIsTestSupport(c.Program, fd.Pos()) || inExamples(pk) {
			return
		}
		info := pk.TypesInfo
		named, _ := core.RecvNamed(info, fd)
		recv := recvObj(info, fd)
		if named == nil || recv == nil {
			return
		}
		st, _ := named.Underlying().(*types.Struct)
		if st == nil {
			return
		}
		stems := map[string]string{} // field -> stem
		for i := 0; i < st.NumFields(); i++ {
			if s := stemOf(st.Field(i).Name()); s != "" {
				stems[st.Field(i).Name()] = s
			}
		}
		if len(stems) < 2 {
			return
		}
		// the component the method is named after
		var own []string
		for f, s := range stems {
			if strings.Contains(fd.Name.Name, s) {
				own = append(own, f)
			}
		}
		if len(own) != 1 {
			return
		}
		used := map[string]token.Pos{}
		ast.Inspect(fd.Body, func(x ast.Node) bool {
			if sel, ok := x.(*ast.SelectorExpr); ok {
				if id, ok := unparen(sel.X).(*ast.Ident); ok && info.Uses[id] == types.Object(recv) {
					if _, stemmed := stems[sel.Sel.Name]; stemmed {
						if _, seen := used[sel.Sel.Name]; !seen {
							used[sel.Sel.Name] = sel.Pos()
						}
					}
				}
			}
			return true
		})
		if len(used) == 0 {
			return
		}
		n++
		fkey := core.FuncKey(pk, fd)
		key := "NAMEFIELD:" + fkey
		props := propsForKey(fkey)
		if _, ok := used[own[0]]; ok {
			out = append(out, withProps(okOb("NAMEFIELD", key, c.Rel(fd.Pos()), fmt.Sprintf("named after %s and reads it", own[0]), true), props...))
			return
		}
		other := sortedKeys(used)[0]
		out = append(out, withProps(violOb("NAMEFIELD", key, c.Rel(used[other]), fmt.Sprintf("%s is named after the component %s but answers from %s, which another accessor is named after: callers get the sibling component's value", fkey, own[0], other)), props...))
	})
	c.Stats["namefield_methods"] = n
	return out
}

func init() {
	core.Register(&core.Rule{Name: "NAMEFIELD", Wide: true, Props: []string{"C18", "C19"},
		Doc: "a method of a struct whose name contains the stem of one of its …Parameters/…Literal fields (CoeffsToSlots, SlotsToCoeffs, Mod1) and that reads such fields reads the one it is named after",
		Run: func(c *core.Ctx) []ob {
			out := scanNameField(c)
			for _, o := range control(c, "NAMEFIELD", scanNameField, "(fxStages).DepthEncode") {
				out = append(out, withProps(o, "C18", "C19"))
			}
			return out
		}})
}

// SCALEU64 — the approximate scheme never squeezes a scale into 64 bits.
//
// A CKKS scale is a big float: in the 128-bit precision mode one rescaling consumes two primes and scales are around
// 2^90, and ratios of scales are not integers in general. rlwe.Scale.Uint64() saturates at 2^64-1 (and truncates), so
// `eval.Mul(ct, scale.Uint64(), ct)` multiplies by a different constant than the one the scale bookkeeping records.
// (In BGV/BFV scales live modulo the 64-bit plaintext modulus and Uint64 is exact.)
//
// Rule: no function of schemes/ckks, circuits/ckks/… or multiparty/mpckks calls Uint64 on an rlwe.Scale.
func scanScaleU64(c *core.Ctx) []ob {
	var out []ob
	n := 0
	c.FuncDecls(func(pk *packages.Package, file *ast.File, fd *ast.FuncDecl) {
		rel := core.ShortPkg(pk.PkgPath)
		if fd.Body == nil || fileIsTestSupport(c.Program, fd.Pos()) || !(c.IsFixture || strings.HasPrefix(rel, "schemes/ckks") || strings.HasPrefix(rel, "circuits/ckks") || strings.HasPrefix(rel, "multiparty/mpckks")) {
			return
		}
		if c.IsFixture && !strings.HasPrefix(fd.Name.Name, "ckks") {
			return
		}
		info := pk.TypesInfo
		fkey := core.FuncKey(pk, fd)
		n++
		var bad *ast.CallExpr
		ast.Inspect(fd.Body, func(x ast.Node) bool {
			call, ok := x.(*ast.CallExpr)
			if !ok || bad != nil {
				return true
			}
			sel, ok := unparen(call.Fun).(*ast.SelectorExpr)
			if !ok || sel.Sel.Name != "Uint64" || len(call.Args) != 0 {
				return true
			}
			if nm := namedOf(info.TypeOf(sel.X)); nm != nil && nm.Obj().Name() == "Scale" && nm.Obj().Pkg() != nil && strings.HasSuffix(nm.Obj().Pkg().Path(), "core/rlwe") {
				bad = call
			}
			return true
		})
		if bad != nil {
			out = append(out, withProps(violOb("SCALEU64", "SCALEU64:"+fkey, c.Rel(bad.Pos()), fmt.Sprintf("%s converts a CKKS scale to uint64 (%s): scales exceed 64 bits in the 128-bit precision mode (Uint64 saturates) and their ratios are not integers, so the constant used differs from the scale that is recorded", fkey, exprString(bad))), propsForKey(fkey)...))
		}
	})
	c.Stats["scaleu64_funcs"] = n
	out = append(out, withProps(okOb("SCALEU64", "SCALEU64:module", "", fmt.Sprintf("%d functions of the approximate scheme examined: none converts a scale to uint64", n), true), "C06", "C13", "C18"))
	return out
}

// LAYOUTSPLIT — every consumer splits a Q||P scalar where the allocator put the boundary.
//
// ringqp.Ring.NewRNSScalar lays an RNS scalar out as the residues modulo the whole chain of Q followed by those modulo
// P: the boundary is RingQ.ModuliChainLength(), whatever the current level. A consumer that splits at the current level
// (`scalar[:r.LevelQ()+1]`) reads residues of unrelated primes for P as soon as the ring is used below its top level.
//
// Rule: in the methods of ringqp.Ring, every slice expression with exactly one bound over a parameter of type
// []uint64 / ring.RNSScalar has RingQ.ModuliChainLength() of the receiver as that bound (directly or through a local
// defined as it).
func scanLayoutSplit(c *core.Ctx) []ob {
	var out []ob
	n := 0
	c.FuncDecls(func(pk *packages.Package, file *ast.File, fd *ast.FuncDecl) {
		if fd.Body == nil || fd.Recv == nil || !(c.IsFixture && core.RecvTypeName(fd) == "fxQP" || core.ShortPkg(pk.PkgPath) == "ring/ringqp" && core.RecvTypeName(fd) == "Ring") {
			return
		}
		info := pk.TypesInfo
		fkey := core.FuncKey(pk, fd)
		params := map[types.Object]bool{}
		for _, fl := range fd.Type.Params.List {
			for _, nm := range fl.Names {
				t := info.TypeOf(nm)
				if sl, ok := t.Underlying().(*types.Slice); ok && isUint64(sl.Elem()) {
					params[info.Defs[nm]] = true
				}
			}
		}
		if len(params) == 0 {
			return
		}
		var bad ast.Expr
		sites := 0
		ast.Inspect(fd.Body, func(x ast.Node) bool {
			se, ok := x.(*ast.SliceExpr)
			if !ok || !params[identObj(info, se.X)] {
				return true
			}
			var bound ast.Expr
			switch {
			case se.Low != nil && se.High == nil:
				bound = se.Low
			case se.Low == nil && se.High != nil:
				bound = se.High
			default:
				return true
			}
			sites++
			txt := exprString(bound)
			if o := identObj(info, bound); o != nil {
				if d := singleDef(info, fd, o); d != nil {
					txt = exprString(d)
				} else {
					// a local assigned under a nil test of RingQ: every assignment must be the chain length
					all := true
					ast.Inspect(fd.Body, func(y ast.Node) bool {
						if as, ok := y.(*ast.AssignStmt); ok && len(as.Lhs) == len(as.Rhs) {
							for i, l := range as.Lhs {
								if identObj(info, l) == o && !strings.HasSuffix(exprString(as.Rhs[i]), "RingQ.ModuliChainLength()") {
									all = false
								}
							}
						}
						return true
					})
					if all {
						txt = "r.RingQ.ModuliChainLength()"
					}
				}
			}
			if !strings.HasSuffix(txt, "RingQ.ModuliChainLength()") && bad == nil {
				bad = bound
			}
			return true
		})
		if sites == 0 {
			return
		}
		n++
		key := "LAYOUTSPLIT:" + fkey
		if bad != nil {
			out = append(out, withProps(violOb("LAYOUTSPLIT", key, c.Rel(bad.Pos()), fmt.Sprintf("%s splits a Q||P scalar at %s, but the scalar is laid out with the residues modulo P after the whole chain of Q (RingQ.ModuliChainLength(), see NewRNSScalar): below the top level the P part is read from residues of other primes", fkey, exprString(bad))), "C01", "C15"))
		} else {
			out = append(out, withProps(okOb("LAYOUTSPLIT", key, c.Rel(fd.Pos()), "the scalar is split at RingQ.ModuliChainLength()", true), "C01", "C15"))
		}
	})
	c.Stats["layoutsplit_methods"] = n
	return out
}

func init() {
	core.Register(&core.Rule{Name: "SCALEU64", Wide: true, Props: []string{"C06", "C13", "C18"},
		Doc: "no function of schemes/ckks, circuits/ckks or multiparty/mpckks calls Uint64() on an rlwe.Scale: CKKS scales exceed 64 bits (two primes per rescaling) and their ratios are not integers",
		Run: func(c *core.Ctx) []ob {
			out := scanScaleU64(c)
			for _, o := range core.Floor("SCALEU64", nil, "functions of the approximate scheme", c.Stats["scaleu64_funcs"], 300) {
				out = append(out, withProps(o, "C06"))
			}
			for _, o := range control(c, "SCALEU64", scanScaleU64, "lvfixture.ckksScaleBy") {
				out = append(out, withProps(o, "C06"))
			}
			return out
		}})
	core.Register(&core.Rule{Name: "LAYOUTSPLIT", Wide: true, Props: []string{"C01", "C15"},
		Doc: "in the methods of ringqp.Ring every one-bound slice expression over a []uint64 / RNSScalar parameter (the split of a Q||P scalar) is taken at RingQ.ModuliChainLength(), the boundary NewRNSScalar allocates, never at the current level",
		Run: func(c *core.Ctx) []ob {
			out := scanLayoutSplit(c)
			for _, o := range core.Floor("LAYOUTSPLIT", nil, "methods splitting a Q||P scalar", c.Stats["layoutsplit_methods"], 4) {
				out = append(out, withProps(o, "C01"))
			}
			for _, o := range control(c, "LAYOUTSPLIT", scanLayoutSplit, "(fxQP).Mul") {
				out = append(out, withProps(o, "C01"))
			}
			return out
		}})
}

// MODCARRY — a value reduced modulo the prime of one iteration is not carried into the next.
//
// A sample (or any integer) that is written in RNS form is reduced once per prime: `c := x; if c >= qi { c %= qi }`.
// Reducing the shared variable itself (`x %= qi`) makes the next residue (x mod q_j) mod q_{j+1}: the residues no longer
// encode one integer as soon as the value exceeds a prime that is not the last one.
//
// Rule: inside a loop, `v %= m` / `v = v % m` with m bound by that loop (its range value or index, a local defined in
// its body, or an element indexed by its variable) does not assign a variable v declared outside that loop's body —
// unless the same body assigns v afresh before the reduction (v is then a per-iteration temporary).
func scanModCarry(c *core.Ctx) []ob {
	var out []ob
	n := 0
	c.FuncDecls(func(pk *packages.Package, file *ast.File, fd *ast.FuncDecl) {
		if fd.Body == nil || fileIsTestSupport(c.Program, fd.Pos()) || inExamples(pk) {
			return
		}
		info := pk.TypesInfo
		fkey := core.FuncKey(pk, fd)
		pm := parentMap(fd.Body)
		ast.Inspect(fd.Body, func(x ast.Node) bool {
			as, ok := x.(*ast.AssignStmt)
			if !ok || len(as.Lhs) != 1 || len(as.Rhs) != 1 {
				return true
			}
			vid, ok := unparen(as.Lhs[0]).(*ast.Ident)
			if !ok {
				return true
			}
			var mod ast.Expr
			switch as.Tok {
			case token.REM_ASSIGN:
				mod = as.Rhs[0]
			case token.ASSIGN:
				if be, ok := unparen(as.Rhs[0]).(*ast.BinaryExpr); ok && be.Op == token.REM {
					if l, ok := unparen(be.X).(*ast.Ident); ok && info.Uses[l] == info.Uses[vid] {
						mod = be.Y
					}
				}
			}
			if mod == nil {
				return true
			}
			v := info.Uses[vid]
			if v == nil {
				return true
			}
			// innermost enclosing loop that binds the modulus
			for p := pm[ast.Node(as)]; p != nil; p = pm[p] {
				var body *ast.BlockStmt
				bound := map[types.Object]bool{}
				switch l := p.(type) {
				case *ast.RangeStmt:
					body = l.Body
					for _, e := range []ast.Expr{l.Key, l.Value} {
						if id, ok := e.(*ast.Ident); ok && id != nil {
							if o := info.Defs[id]; o != nil {
								bound[o] = true
							}
						}
					}
				case *ast.ForStmt:
					body = l.Body
					if init, ok := l.Init.(*ast.AssignStmt); ok {
						for _, e := range init.Lhs {
							if o := identObj(info, e); o != nil {
								bound[o] = true
							}
						}
					}
				default:
					continue
				}
				// locals defined in the body count as bound by the loop
				ast.Inspect(body, func(y ast.Node) bool {
					if d, ok := y.(*ast.AssignStmt); ok && d.Tok == token.DEFINE {
						for _, e := range d.Lhs {
							if id, ok := e.(*ast.Ident); ok {
								if o := info.Defs[id]; o != nil {
									bound[o] = true
								}
							}
						}
					}
					return true
				})
				modBound := false
				ast.Inspect(mod, func(y ast.Node) bool {
					if id, ok := y.(*ast.Ident); ok && bound[info.Uses[id]] {
						modBound = true
					}
					return true
				})
				if !modBound {
					continue
				}
				n++
				key := fmt.Sprintf("MODCARRY:%s#%s%%%s", fkey, vid.Name, exprString(mod))
				if bound[v] || (v.Pos() >= body.Pos() && v.Pos() < body.End()) {
					out = append(out, withProps(okOb("MODCARRY", key, c.Rel(as.Pos()), "the reduced variable belongs to the iteration", true), propsForKey(fkey)...))
					break
				}
				// assigned afresh earlier in the same body?
				fresh := false
				ast.Inspect(body, func(y ast.Node) bool {
					if d, ok := y.(*ast.AssignStmt); ok && d.Pos() < as.Pos() && d != as && (d.Tok == token.ASSIGN) {
						for i, e := range d.Lhs {
							if identObj(info, e) == v && len(d.Lhs) == len(d.Rhs) {
								uses := false
								ast.Inspect(d.Rhs[i], func(z ast.Node) bool {
									if id, ok := z.(*ast.Ident); ok && info.Uses[id] == v {
										uses = true
									}
									return true
								})
								if !uses {
									fresh = true
								}
							}
						}
					}
					return true
				})
				if fresh {
					out = append(out, withProps(okOb("MODCARRY", key, c.Rel(as.Pos()), "the variable is assigned afresh in the iteration before it is reduced", true), propsForKey(fkey)...))
				} else {
					out = append(out, withProps(violOb("MODCARRY", key, c.Rel(as.Pos()), fmt.Sprintf("%s reduces %s, which lives across the iterations, modulo %s of the current iteration: the next iteration starts from the residue instead of the value, so the residues no longer encode one integer once the value exceeds a prime that is not the last", fkey, vid.Name, exprString(mod))), propsForKey(fkey)...))
				}
				break
			}
			return true
		})
	})
	c.Stats["modcarry_sites"] = n
	return out
}

// DIGITMAX — a loop over the digits of a jagged gadget matrix runs to the longest row.
//
// With a power-of-two decomposition the rows of a gadget ciphertext have one entry per digit of their own prime
// (BaseTwoDecompositionVectorSize[i]); the loops over the digit index j therefore run to slices.Max(sizes) and skip the
// rows that are exhausted (`if j < sizes[i]`). Bounding the digit loop by the length of row 0 drops the top digits of
// every later prime that is larger than the first.
//
// Rule: a loop over j whose body tests j against an element of a size table indexed by an inner loop variable
// (`j < sizes[i]`) is not bounded by (the length of) an element [0] of a container.
func scanDigitMax(c *core.Ctx) []ob {
	var out []ob
	n := 0
	c.FuncDecls(func(pk *packages.Package, file *ast.File, fd *ast.FuncDecl) {
		if fd.Body == nil || fileIsTestSupport(c.Program, fd.Pos()) || inExamples(pk) {
			return
		}
		info := pk.TypesInfo
		fkey := core.FuncKey(pk, fd)
		ord := 0
		ast.Inspect(fd.Body, func(x ast.Node) bool {
			var j types.Object
			var bound ast.Expr
			var body *ast.BlockStmt
			switch l := x.(type) {
			case *ast.ForStmt:
				if init, ok := l.Init.(*ast.AssignStmt); ok && len(init.Lhs) == 1 {
					j = identObj(info, init.Lhs[0])
				}
				if be, ok := l.Cond.(*ast.BinaryExpr); ok && (be.Op == token.LSS || be.Op == token.LEQ) {
					bound = be.Y
				}
				body = l.Body
			case *ast.RangeStmt:
				if id, ok := l.Key.(*ast.Ident); ok && id != nil {
					j = info.Defs[id]
				}
				bound = l.X
				body = l.Body
			}
			if j == nil || bound == nil || body == nil {
				return true
			}
			// the body tests j against sizes[i] with i bound by an inner loop
			guarded := false
			ast.Inspect(body, func(y ast.Node) bool {
				is, ok := y.(*ast.IfStmt)
				if !ok {
					return true
				}
				be, ok := unparen(is.Cond).(*ast.BinaryExpr)
				if !ok || (be.Op != token.LSS && be.Op != token.GEQ) {
					return true
				}
				if identObj(info, be.X) != j {
					return true
				}
				if be.Op == token.GEQ {
					// the skipping form `if j >= sizes[i] { continue }`
					skip := false
					if len(is.Body.List) > 0 {
						if br, ok := is.Body.List[len(is.Body.List)-1].(*ast.BranchStmt); ok && br.Tok == token.CONTINUE {
							skip = true
						}
					}
					if !skip {
						return true
					}
				}
				if ix, ok := unparen(be.Y).(*ast.IndexExpr); ok {
					if iv := identObj(info, ix.Index); iv != nil && iv.Pos() > body.Pos() && iv.Pos() < body.End() {
						guarded = true
					}
				}
				return true
			})
			if !guarded {
				return true
			}
			ord++
			n++
			key := fmt.Sprintf("DIGITMAX:%s#%d", fkey, ord)
			// resolve a local bound
			bs := exprString(bound)
			if o := identObj(info, bound); o != nil {
				if d := singleDef(info, fd, o); d != nil {
					bs = exprString(d)
				}
			}
			if strings.Contains(bs, "[0]") {
				out = append(out, withProps(violOb("DIGITMAX", key, c.Rel(bound.Pos()), fmt.Sprintf("%s bounds the loop over the digit index %s by %s, one particular row, although the rows have one entry per digit of their own prime (the body tests %s against the per-row size): the top digits of every row longer than that one are never reached", fkey, j.Name(), bs, j.Name())), propsForKey(fkey)...))
			} else {
				out = append(out, withProps(okOb("DIGITMAX", key, c.Rel(bound.Pos()), "the digit loop is bounded by "+bs, true), propsForKey(fkey)...))
			}
			return true
		})
	})
	c.Stats["digitmax_loops"] = n
	return out
}

func init() {
	core.Register(&core.Rule{Name: "MODCARRY", Wide: true, Props: []string{"C17", "C07", "C02"},
		Doc: "inside a loop, `v %= m` (or v = v % m) with m bound by that loop never reduces a variable that lives across the iterations, unless the iteration assigns it afresh first: the residues of one value modulo several primes are each taken from the value, not from the previous residue",
		Run: func(c *core.Ctx) []ob {
			out := scanModCarry(c)
			for _, o := range control(c, "MODCARRY", scanModCarry, "lvfixture.spreadSample") {
				out = append(out, withProps(o, "C17"))
			}
			return out
		}})
	core.Register(&core.Rule{Name: "DIGITMAX", Wide: true, Props: []string{"C14", "C04", "C20"},
		Doc: "a loop over a digit index j whose body tests j against a per-row size (j < sizes[i]) is not bounded by an element [0] of a container: the digit loop of a jagged gadget matrix runs to the longest row",
		Run: func(c *core.Ctx) []ob {
			out := scanDigitMax(c)
			for _, o := range core.Floor("DIGITMAX", nil, "digit loops over jagged rows", c.Stats["digitmax_loops"], 3) {
				out = append(out, withProps(o, "C14"))
			}
			for _, o := range control(c, "DIGITMAX", scanDigitMax, "lvfixture.fillDigits") {
				out = append(out, withProps(o, "C14"))
			}
			return out
		}})
}

// NILSIB — what the constructor tolerates, the With* sibling tolerates.
//
// `NewEvaluator(params, nil)` is a supported configuration (an evaluator without keys: operations that need one return
// an error): the constructor calls the key set's methods only under `!utils.IsNil(evk)`. `WithKey(evk)` stores its
// argument in the same field; calling `evk.GetGaloisKeysList()` there without the test makes `WithKey(nil)` — "drop the
// keys" — a nil-pointer panic. Engler's contradiction rule: one path believes the value may be nil, its sibling
// dereferences it unconditionally.
//
// Rule: when a New* constructor of T stores an interface-typed parameter p in a field F and calls methods on p only
// under a nil test of p, every method of T that stores a parameter in F calls that parameter's methods only under a nil
// test of it.
func scanNilSib(c *core.Ctx) []ob {
	var out []ob
	n := 0
	nilTested := func(info *types.Info, pm map[ast.Node]ast.Node, at ast.Node, p types.Object) bool {
		for _, h := range holdsAt(pm, at) {
			found := false
			ast.Inspect(h.cond, func(x ast.Node) bool {
				switch v := x.(type) {
				case *ast.CallExpr:
					if s, ok := unparen(v.Fun).(*ast.SelectorExpr); ok && s.Sel.Name == "IsNil" && len(v.Args) == 1 && identObj(info, v.Args[0]) == p {
						found = true
					}
				case *ast.BinaryExpr:
					if (v.Op == token.NEQ || v.Op == token.EQL) && (identObj(info, v.X) == p && isNilIdent(v.Y) || identObj(info, v.Y) == p && isNilIdent(v.X)) {
						found = true
					}
				}
				return true
			})
			if found {
				return true
			}
		}
		return false
	}
	// storesInto: parameter -> field name it is stored in (x.F = p, or T{F: p})
	storesInto := func(info *types.Info, fd *ast.FuncDecl, p types.Object) string {
		f := ""
		ast.Inspect(fd.Body, func(x ast.Node) bool {
			switch v := x.(type) {
			case *ast.AssignStmt:
				if len(v.Lhs) == len(v.Rhs) {
					for i, r := range v.Rhs {
						if identObj(info, r) == p {
							if s, ok := unparen(v.Lhs[i]).(*ast.SelectorExpr); ok {
								f = s.Sel.Name
							}
						}
					}
				}
			case *ast.KeyValueExpr:
				if identObj(info, v.Value) == p {
					if k, ok := v.Key.(*ast.Ident); ok {
						f = k.Name
					}
				}
			}
			return true
		})
		return f
	}
	type belief struct {
		ctor string
		pos  token.Pos
	}
	// (type name, field) -> the constructor that guards
	guards := map[string]belief{}
	c.FuncDecls(func(pk *packages.Package, file *ast.File, fd *ast.FuncDecl) {
		if fd.Body == nil || fd.Recv != nil || !strings.HasPrefix(fd.Name.Name, "New") || fileIsTestSupport(c.Program, fd.Pos()) || inExamples(pk) {
			return
		}
		info := pk.TypesInfo
		fn, _ := info.Defs[fd.Name].(*types.Func)
		if fn == nil {
			return
		}
		sig := fn.Type().(*types.Signature)
		if sig.Results().Len() == 0 {
			return
		}
		tn := namedOf(sig.Results().At(0).Type())
		if tn == nil {
			return
		}
		pm := parentMap(fd.Body)
		for i := 0; i < sig.Params().Len(); i++ {
			p := sig.Params().At(i)
			if _, isIface := p.Type().Underlying().(*types.Interface); !isIface {
				continue
			}
			field := storesInto(info, fd, p)
			if field == "" {
				continue
			}
			calls, guarded := 0, 0
			ast.Inspect(fd.Body, func(x ast.Node) bool {
				if call, ok := x.(*ast.CallExpr); ok {
					if s, ok := unparen(call.Fun).(*ast.SelectorExpr); ok && identObj(info, s.X) == types.Object(p) {
						calls++
						if nilTested(info, pm, call, p) {
							guarded++
						}
					}
				}
				return true
			})
			if calls > 0 && guarded == calls {
				guards[pk.PkgPath+"."+tn.Obj().Name()+"."+field] = belief{fd.Name.Name, fd.Pos()}
			}
		}
	})
	c.FuncDecls(func(pk *packages.Package, file *ast.File, fd *ast.FuncDecl) {
		if fd.Body == nil || fd.Recv == nil || fileIsTestSupport(c.Program, fd.Pos()) || inExamples(pk) {
			return
		}
		info := pk.TypesInfo
		named, _ := core.RecvNamed(info, fd)
		fn, _ := info.Defs[fd.Name].(*types.Func)
		if named == nil || fn == nil {
			return
		}
		sig := fn.Type().(*types.Signature)
		pm := parentMap(fd.Body)
		for i := 0; i < sig.Params().Len(); i++ {
			p := sig.Params().At(i)
			if _, isIface := p.Type().Underlying().(*types.Interface); !isIface {
				continue
			}
			field := storesInto(info, fd, p)
			if field == "" {
				continue
			}
			b, ok := guards[pk.PkgPath+"."+named.Obj().Name()+"."+field]
			if !ok {
				continue
			}
			n++
			fkey := core.FuncKey(pk, fd)
			key := "NILSIB:" + fkey + "#" + p.Name()
			var bad *ast.CallExpr
			ast.Inspect(fd.Body, func(x ast.Node) bool {
				if call, ok := x.(*ast.CallExpr); ok && bad == nil {
					if s, ok := unparen(call.Fun).(*ast.SelectorExpr); ok && identObj(info, s.X) == types.Object(p) && !nilTested(info, pm, call, p) {
						bad = call
					}
				}
				return true
			})
			props := append([]string{"C10"}, propsForKey(fkey)...)
			if bad != nil {
				out = append(out, withProps(violOb("NILSIB", key, c.Rel(bad.Pos()), fmt.Sprintf("%s stores %s in the field %s and calls %s without a nil test, although the constructor %s only calls the methods of the value it stores there under a nil test: a nil %s is a supported configuration that this method turns into a nil-pointer panic", fkey, p.Name(), field, exprString(bad.Fun), b.ctor, p.Name())), props...))
			} else {
				out = append(out, withProps(okOb("NILSIB", key, c.Rel(fd.Pos()), fmt.Sprintf("like %s, only uses %s under a nil test", b.ctor, p.Name()), true), props...))
			}
		}
	})
	c.Stats["nilsib_methods"] = n
	return out
}

func init() {
	core.Register(&core.Rule{Name: "NILSIB", Wide: true, Props: []string{"C10", "C04"},
		Doc: "when a New* constructor of T stores an interface-typed parameter in a field and calls its methods only under a nil test, every method of T that stores a parameter in that field calls that parameter's methods only under a nil test of it",
		Run: func(c *core.Ctx) []ob {
			out := scanNilSib(c)
			for _, o := range control(c, "NILSIB", scanNilSib, "(fxKeyed).WithKeys") {
				out = append(out, withProps(o, "C10"))
			}
			return out
		}})
}

// EQFIELDS — Equal compares every field that carries state.
//
// `func (p Parameters) Equal(other *Parameters) bool` that forgets a field answers "equal" for two objects that behave
// differently (bootstrapping parameters that differ only by the order of the circuit), and every round-trip test built
// on Equal is blind to that field.
//
// Rule: for every method Equal of a struct type T whose parameter is (a pointer to) T, every field of T that some other
// function of the module reads is mentioned in the body through the receiver or through the parameter (x.F), unless the
// body compares the whole values (`*x == *y`, reflect.DeepEqual, cmp.Equal) or delegates to an Equal of an embedded
// part that holds the field.
func scanEqFields(c *core.Ctx) []ob {
	var out []ob
	n := 0
	reads := fieldReads(c.Program)
	c.FuncDecls(func(pk *packages.Package, file *ast.File, fd *ast.FuncDecl) {
		if fd.Body == nil || fd.Recv == nil || fd.Name.Name != "Equal" || fileIsTestSupport(c.Program, fd.Pos()) || inExamples(pk) {
			return
		}
		info := pk.TypesInfo
		named, _ := core.RecvNamed(info, fd)
		recv := recvObj(info, fd)
		fn, _ := info.Defs[fd.Name].(*types.Func)
		if named == nil || recv == nil || fn == nil {
			return
		}
		st, _ := named.Underlying().(*types.Struct)
		sig := fn.Type().(*types.Signature)
		if st == nil || sig.Params().Len() != 1 || !sameNamed(sig.Params().At(0).Type(), named) {
			return
		}
		other := sig.Params().At(0)
		whole := false
		mentioned := map[string]bool{}
		ast.Inspect(fd.Body, func(x ast.Node) bool {
			switch v := x.(type) {
			case *ast.SelectorExpr:
				if o := identObj(info, v.X); o == types.Object(recv) || o == types.Object(other) {
					mentioned[v.Sel.Name] = true
				}
			case *ast.BinaryExpr:
				if v.Op == token.EQL || v.Op == token.NEQ {
					root := func(e ast.Expr) types.Object {
						e = unparen(e)
						if s, ok := e.(*ast.StarExpr); ok {
							e = unparen(s.X)
						}
						return identObj(info, e)
					}
					a, b := root(v.X), root(v.Y)
					if (a == types.Object(recv) && b == types.Object(other)) || (b == types.Object(recv) && a == types.Object(other)) {
						whole = true
					}
				}
			case *ast.CallExpr:
				// s.Cmp(s1): another method of the receiver applied to the parameter — the fields it mentions count
				if sel, ok := unparen(v.Fun).(*ast.SelectorExpr); ok && identObj(info, sel.X) == types.Object(recv) && len(v.Args) == 1 && identObj(info, v.Args[0]) == types.Object(other) {
					if m := calleeFunc(info, v); m != nil {
						for _, f2 := range pk.Syntax {
							for _, d2 := range f2.Decls {
								md, ok := d2.(*ast.FuncDecl)
								if !ok || md.Body == nil || md.Recv == nil {
									continue
								}
								if o, _ := info.Defs[md.Name].(*types.Func); o == nil || funcOrigin(o) != funcOrigin(m) {
									continue
								}
								mr := recvObj(info, md)
								ast.Inspect(md.Body, func(y ast.Node) bool {
									if s2, ok := y.(*ast.SelectorExpr); ok && mr != nil {
										if r := rootIdent(s2.X); r != nil && info.Uses[r] == types.Object(mr) {
											if id, ok := unparen(s2.X).(*ast.Ident); ok && info.Uses[id] == types.Object(mr) {
												mentioned[s2.Sel.Name] = true
											}
										}
									}
									return true
								})
							}
						}
					}
				}
				if f := calleeFunc(info, v); f != nil && (f.Name() == "DeepEqual" || f.Name() == "Equal" && f.Pkg() != nil && strings.Contains(f.Pkg().Path(), "cmp")) {
					for _, a := range v.Args {
						e := unparen(a)
						if u, ok := e.(*ast.UnaryExpr); ok {
							e = unparen(u.X)
						}
						if s, ok := e.(*ast.StarExpr); ok {
							e = unparen(s.X)
						}
						if o := identObj(info, e); o == types.Object(recv) || o == types.Object(other) {
							whole = true
						}
					}
				}
			}
			return true
		})
		n++
		fkey := core.FuncKey(pk, fd)
		props := append([]string{"C08", "C10"}, propsForKey(fkey)...)
		if whole {
			out = append(out, withProps(okOb("EQFIELDS", "EQFIELDS:"+fkey, c.Rel(fd.Pos()), "compares the whole values", false), props...))
			return
		}
		// a field held by an embedded part whose own Equal is called counts as compared
		for i := 0; i < st.NumFields(); i++ {
			f := st.Field(i)
			key := fmt.Sprintf("EQFIELDS:%s#%s", fkey, f.Name())
			if mentioned[f.Name()] {
				out = append(out, withProps(okOb("EQFIELDS", key, c.Rel(fd.Pos()), "compared", true), props...))
				continue
			}
			// promoted: x.Inner is mentioned through a promoted selector of one of its fields? then Inner itself is not
			// named; accept an embedded field when any of its own fields/methods is selected on the receiver
			if f.Embedded() {
				promoted := false
				ast.Inspect(fd.Body, func(x ast.Node) bool {
					if s, ok := x.(*ast.SelectorExpr); ok {
						if sel := info.Selections[s]; sel != nil && len(sel.Index()) > 1 && sel.Index()[0] == i {
							if o := identObj(info, s.X); o == types.Object(recv) || o == types.Object(other) {
								promoted = true
							}
						}
					}
					return true
				})
				if promoted {
					out = append(out, withProps(okOb("EQFIELDS", key, c.Rel(fd.Pos()), "compared through a promoted member", true), props...))
					continue
				}
			}
			if rp, used := reads[fieldOrigin(f)]; used {
				if ex := eqFieldsExempt[core.ShortPkg(pk.PkgPath)+"."+named.Obj().Name()+"."+f.Name()]; ex != "" {
					out = append(out, withProps(okOb("EQFIELDS", key, c.Rel(fd.Pos()), "exempt: "+ex, false), props...))
					continue
				}
				out = append(out, withProps(violOb("EQFIELDS", key, c.Rel(fd.Pos()), fmt.Sprintf("%s does not look at the field %s, which other code reads (e.g. %s): two values that differ only there are reported equal although they behave differently", fkey, f.Name(), c.Rel(rp))), props...))
			} else {
				out = append(out, withProps(okOb("EQFIELDS", key, c.Rel(fd.Pos()), "not compared, and never read anywhere in the module", true), props...))
			}
		}
	})
	c.Stats["eqfields_methods"] = n
	return out
}

// eqFieldsExempt: pkg.Type.Field -> reason.
var eqFieldsExempt = map[string]string{
	"core/rlwe.Parameters.ringQ":      "derived by the constructor from logN, qi, ringType, which are compared",
	"core/rlwe.Parameters.ringP":      "derived by the constructor from logN, pi, ringType, which are compared",
	"schemes/bgv.Parameters.ringT":    "derived from the plaintext modulus, which is compared",
	"schemes/bgv.Parameters.ringQMul": "derived from logN and the size of Q, which are compared through the embedded parameters",
	"core/rlwe.Scale.Mod":             "by design: scales are compared by value; the modulus belongs to the parameter set and is absent from scales built with NewScale",
}

func init() {
	core.Register(&core.Rule{Name: "EQFIELDS", Wide: true, Props: []string{"C08", "C10", "C19"},
		Doc: "every Equal method of a struct type taking (a pointer to) the same type mentions each field of the struct that other code reads, through the receiver or the parameter, unless it compares the whole values",
		Run: func(c *core.Ctx) []ob {
			out := scanEqFields(c)
			for _, o := range core.Floor("EQFIELDS", nil, "Equal methods", c.Stats["eqfields_methods"], 10) {
				out = append(out, withProps(o, "C08"))
			}
			for _, o := range control(c, "EQFIELDS", scanEqFields, "(fxSet).Equal#order") {
				out = append(out, withProps(o, "C08"))
			}
			return out
		}})
}

// ARGCACHE — what depends on an argument is not computed once and kept.
//
// `if eval.EvaluationKeySet == nil { eval.Evaluator = eval.Evaluator.WithKey(BRK.GetEvaluationKeySet()) }` loads the keys
// of the first call and keeps them: a later call with another key set runs on the first one's keys, without error. A
// nil test of receiver state is a cache test; what it guards may be derived from the receiver and from constants, not
// from a parameter that can differ from call to call.
//
// Rule: in a method, the then-branch of `if recv.… == nil` (no else) does not store into the receiver (the tested path or
// an object that contains it) a value that depends on a parameter of the method — constructors, With*/Set* methods and
// methods whose name starts with init/Init/lazy excepted (they are called once, or are the way to change the value).
func scanArgCache(c *core.Ctx) []ob {
	var out []ob
	n := 0
	c.FuncDecls(func(pk *packages.Package, file *ast.File, fd *ast.FuncDecl) {
		if fd.Body == nil || fd.Recv == nil || fileIsTestSupport(c.Program, fd.Pos()) || inExamples(pk) {
			return
		}
		nm := fd.Name.Name
		if strings.HasPrefix(nm, "With") || strings.HasPrefix(nm, "Set") || strings.HasPrefix(strings.ToLower(nm), "init") || strings.HasPrefix(nm, "lazy") || strings.HasPrefix(nm, "New") {
			return
		}
		info := pk.TypesInfo
		recv := recvObj(info, fd)
		if recv == nil {
			return
		}
		params := map[types.Object]bool{}
		for _, fl := range fd.Type.Params.List {
			for _, p := range fl.Names {
				if o := info.Defs[p]; o != nil {
					params[o] = true
				}
			}
		}
		if len(params) == 0 {
			return
		}
		fkey := core.FuncKey(pk, fd)
		// locals defined from parameters (one level: evk, err := BRK.Get())
		dependsOnParam := func(e ast.Expr, body *ast.BlockStmt) types.Object {
			var hit types.Object
			var visit func(e ast.Node, depth int)
			visit = func(e ast.Node, depth int) {
				ast.Inspect(e, func(x ast.Node) bool {
					id, ok := x.(*ast.Ident)
					if !ok || hit != nil {
						return true
					}
					o := info.Uses[id]
					if o == nil {
						return true
					}
					if params[o] {
						hit = o
						return false
					}
					if depth < 2 && body != nil {
						// a local of the guarded block defined from a parameter
						ast.Inspect(body, func(y ast.Node) bool {
							if as, ok := y.(*ast.AssignStmt); ok && as.Tok == token.DEFINE {
								for _, l := range as.Lhs {
									if lid, ok := l.(*ast.Ident); ok && info.Defs[lid] == o {
										for _, r := range as.Rhs {
											visit(r, depth+1)
										}
									}
								}
							}
							return true
						})
					}
					return true
				})
			}
			visit(e, 0)
			return hit
		}
		ast.Inspect(fd.Body, func(x ast.Node) bool {
			is, ok := x.(*ast.IfStmt)
			if !ok || is.Else != nil {
				return true
			}
			be, ok := unparen(is.Cond).(*ast.BinaryExpr)
			if !ok || be.Op != token.EQL {
				return true
			}
			var tested ast.Expr
			if isNilIdent(be.Y) {
				tested = be.X
			} else if isNilIdent(be.X) {
				tested = be.Y
			}
			if tested == nil {
				return true
			}
			if r := rootIdent(tested); r == nil || info.Uses[r] != types.Object(recv) {
				return true
			}
			if _, isSel := unparen(tested).(*ast.SelectorExpr); !isSel {
				return true
			}
			n++
			key := fmt.Sprintf("ARGCACHE:%s#%s", fkey, exprString(tested))
			var bad *ast.AssignStmt
			var badParam types.Object
			ast.Inspect(is.Body, func(y ast.Node) bool {
				as, ok := y.(*ast.AssignStmt)
				if !ok || bad != nil || len(as.Lhs) != len(as.Rhs) {
					return true
				}
				for i, l := range as.Lhs {
					ls, ok := unparen(l).(*ast.SelectorExpr)
					if !ok {
						continue
					}
					if r := rootIdent(ls); r == nil || info.Uses[r] != types.Object(recv) {
						continue
					}
					// the stored object is the tested path or contains it (promoted through an embedded field)
					lt, tt := exprString(ls), exprString(tested)
					related := lt == tt || strings.HasPrefix(tt, lt+".")
					if !related {
						if sel := info.Selections[unparen(tested).(*ast.SelectorExpr)]; sel != nil && len(sel.Index()) > 1 {
							related = true // tested through a promoted field: any store into the receiver's embedded objects
						}
					}
					if !related {
						continue
					}
					if p := dependsOnParam(as.Rhs[i], is.Body); p != nil {
						bad, badParam = as, p
					}
				}
				return true
			})
			if bad != nil {
				out = append(out, withProps(violOb("ARGCACHE", key, c.Rel(bad.Pos()), fmt.Sprintf("%s stores a value derived from its parameter %s into the receiver only when %s is nil: the value of the first call is kept and a later call with another %s silently runs on it", fkey, badParam.Name(), exprString(tested), badParam.Name())), propsForKey(fkey)...))
			} else {
				out = append(out, withProps(okOb("ARGCACHE", key, c.Rel(is.Pos()), "what the nil test guards does not depend on a parameter", true), propsForKey(fkey)...))
			}
			return true
		})
	})
	c.Stats["argcache_sites"] = n
	return out
}

func init() {
	core.Register(&core.Rule{Name: "ARGCACHE", Wide: true, Props: []string{"C20", "C10"},
		Doc: "in a method (constructors, With*/Set*/init* excepted) the then-branch of `if recv.… == nil` without else does not store into the tested receiver state a value that depends on a parameter of the method: per-call arguments are not cached by the first call",
		Run: func(c *core.Ctx) []ob {
			out := scanArgCache(c)
			for _, o := range control(c, "ARGCACHE", scanArgCache, "(fxRot).Apply") {
				out = append(out, withProps(o, "C20"))
			}
			return out
		}})
}

// RESLICEGROW — a slice is not grown into its own backing array without defining the element it takes back.
//
// `s = s[:len(s)+1]` (legal while len < cap) exposes whatever the backing array holds there: for a container that was
// shrunk earlier that is the *old* element. `Element.Resize` growing a ciphertext this way hands an accumulating
// operation (MulThenAdd on a new component) the component of a previous computation instead of a zero polynomial.
//
// Rule: an assignment `X = X[:H]` whose bound H is len(X) plus something (directly or through a local defined as
// len(X)) is followed, in the same statement list, by an assignment of the element it reveals (`X[n] = …`); bringing the
// revealed element to a size or level (`X[n].Resize(..)`) does not define its content.
func scanResliceGrow(c *core.Ctx) []ob {
	var out []ob
	n := 0
	c.FuncDecls(func(pk *packages.Package, file *ast.File, fd *ast.FuncDecl) {
		if fd.Body == nil || fileIsTestSupport(c.Program, fd.Pos()) || inExamples(pk) {
			return
		}
		info := pk.TypesInfo
		fkey := core.FuncKey(pk, fd)
		pm := parentMap(fd.Body)
		ast.Inspect(fd.Body, func(x ast.Node) bool {
			as, ok := x.(*ast.AssignStmt)
			if !ok || as.Tok != token.ASSIGN || len(as.Lhs) != 1 || len(as.Rhs) != 1 {
				return true
			}
			se, ok := unparen(as.Rhs[0]).(*ast.SliceExpr)
			if !ok || se.High == nil || se.Low != nil {
				return true
			}
			xs := exprString(as.Lhs[0])
			if exprString(se.X) != xs {
				return true
			}
			// the bound: len(X) + k, or n + k with n := len(X)
			be, ok := unparen(se.High).(*ast.BinaryExpr)
			if !ok || be.Op != token.ADD {
				return true
			}
			isLen := func(e ast.Expr) bool {
				e = unparen(e)
				if call, ok := e.(*ast.CallExpr); ok && isBuiltinCall(info, call, "len") && len(call.Args) == 1 {
					return exprString(call.Args[0]) == xs
				}
				if o := identObj(info, e); o != nil {
					// single definition, possibly in the init of an enclosing if
					var def ast.Expr
					cnt := 0
					ast.Inspect(fd.Body, func(y ast.Node) bool {
						if d, ok := y.(*ast.AssignStmt); ok && len(d.Lhs) == len(d.Rhs) {
							for i, l := range d.Lhs {
								if identObj(info, l) == o {
									def = d.Rhs[i]
									cnt++
								}
							}
						}
						return true
					})
					if cnt == 1 && def != nil {
						if call, ok := unparen(def).(*ast.CallExpr); ok && isBuiltinCall(info, call, "len") && len(call.Args) == 1 {
							return exprString(call.Args[0]) == xs
						}
					}
				}
				return false
			}
			var base ast.Expr
			switch {
			case isLen(be.X):
				base = be.X
			case isLen(be.Y):
				base = be.Y
			default:
				return true
			}
			n++
			key := fmt.Sprintf("RESLICEGROW:%s#%s", fkey, xs)
			// the revealed element is assigned later in the same statement list
			defined := false
			if blk, ok := pm[ast.Node(as)].(*ast.BlockStmt); ok {
				after := false
				for _, st := range blk.List {
					if st == ast.Stmt(as) {
						after = true
						continue
					}
					if !after {
						continue
					}
					if d, ok := st.(*ast.AssignStmt); ok {
						for _, l := range d.Lhs {
							if ix, ok := unparen(l).(*ast.IndexExpr); ok && exprString(ix.X) == xs && (exprString(ix.Index) == exprString(base) || strings.HasPrefix(exprString(ix.Index), "len("+xs+")")) {
								defined = true
							}
						}
					}
				}
			}
			props := append([]string{"C09"}, propsForKey(fkey)...)
			if defined {
				out = append(out, withProps(okOb("RESLICEGROW", key, c.Rel(as.Pos()), "the element taken back from the backing array is assigned afterwards", true), props...))
			} else {
				out = append(out, withProps(violOb("RESLICEGROW", key, c.Rel(as.Pos()), fmt.Sprintf("%s grows %s into its own backing array (%s) and never assigns the element this reveals: it still holds what an earlier, longer use of the container left there, so an operation that accumulates into the new element starts from stale data", fkey, xs, exprString(as.Rhs[0]))), props...))
			}
			return true
		})
	})
	c.Stats["reslicegrow_sites"] = n
	return out
}

func init() {
	core.Register(&core.Rule{Name: "RESLICEGROW", Wide: true, Props: []string{"C09", "C04", "C08"},
		Doc: "an assignment X = X[:len(X)+k] (the bound possibly through a local defined as len(X)) is followed in the same statement list by an assignment of the element it reveals; resizing that element does not define its content",
		Run: func(c *core.Ctx) []ob {
			out := scanResliceGrow(c)
			for _, o := range control(c, "RESLICEGROW", scanResliceGrow, "(fxStack).Grow") {
				out = append(out, withProps(o, "C09"))
			}
			return out
		}})
}

// PARAMMUT — parameter objects are not written through.
//
// The `…Parameters` value an evaluator holds (minimax/mod1 polynomials, DFT matrices literals, scheme parameters) is
// shared: with every evaluator built from the same parameters, with shallow copies, with the caller. A method that
// scales the coefficients of `evm.Mod1Poly` in place — through a struct copy whose slices still point at the shared
// coefficients — makes the next evaluation, on this or on another evaluator, start from the scaled polynomial.
//
// Rule: no method (constructors, decoders and the parameter types' own methods excepted) has a write site that reaches,
// through a pointer, slice or map, storage rooted at a field of its receiver whose type is named …Parameters… (write
// sites as in IMMUT/SHARED: assignments through, in-place big-number and polynomial methods, ring-operation and
// complex-arithmetic destinations; struct copies and local views resolved).
func scanParamMut(c *core.Ctx) []ob {
	var out []ob
	n := 0
	c.FuncDecls(func(pk *packages.Package, file *ast.File, fd *ast.FuncDecl) {
		if fd.Body == nil || fd.Recv == nil || fileIsTestSupport(c.Program, fd.Pos()) || inExamples(pk) {
			return
		}
		nm := fd.Name.Name
		if isCtorName(nm) || copyCtorNames[nm] || nm == "ReadFrom" || strings.HasPrefix(nm, "Unmarshal") || strings.HasPrefix(nm, "Set") {
			return
		}
		info := pk.TypesInfo
		named, _ := core.RecvNamed(info, fd)
		recv := recvObj(info, fd)
		if named == nil || recv == nil {
			return
		}
		st, _ := named.Underlying().(*types.Struct)
		if st == nil || strings.Contains(named.Obj().Name(), "Parameters") || strings.Contains(named.Obj().Name(), "Literal") {
			return
		}
		paramField := map[string]bool{}
		for i := 0; i < st.NumFields(); i++ {
			if tn := namedOf(st.Field(i).Type()); tn != nil && strings.Contains(tn.Obj().Name(), "Parameters") {
				paramField[st.Field(i).Name()] = true
			}
		}
		if len(paramField) == 0 {
			return
		}
		n++
		fkey := core.FuncKey(pk, fd)
		aliases := localAliases(info, fd)
		var bad *writeSite
		badField := ""
		rd := reachingDefs(info, fd)
		for _, w := range collectWrites(info, fd.Body) {
			w := w
			// flow-sensitive for the local the write goes through: only the definitions that reach this write
			al := aliases
			if ri := rootIdent(w.target); ri != nil {
				if o := info.Uses[ri]; o != nil && o != types.Object(recv) && len(aliases[o]) >= 1 {
					rhs, _, ok := rd.defsAt(ri, o)
					if os.Getenv("LV_DEBUG_PARAMMUT") != "" {
						fmt.Fprintf(os.Stderr, "PARAMMUT %s: write %s root %s defsAt ok=%v n=%d\n", fkey, exprString(w.target), ri.Name, ok, len(rhs))
					}
					if ok {
						al = map[types.Object][]ast.Expr{}
						for k, v := range aliases {
							al[k] = v
						}
						var keep []ast.Expr
						for _, e := range rhs {
							if e != nil {
								keep = append(keep, e)
							}
						}
						al[o] = keep
						// and for the locals those definitions are views of (`for _, c := range mod1Poly.Coeffs`: which
						// mod1Poly — the clone or the shared one — is decided where the view is taken), two levels deep
						frontier := keep
						for depth := 0; depth < 2; depth++ {
							var next []ast.Expr
							for _, e := range frontier {
								r2 := rootIdent(e)
								if r2 == nil {
									continue
								}
								o2 := info.Uses[r2]
								if o2 == nil || o2 == types.Object(recv) || o2 == o || len(aliases[o2]) == 0 {
									continue
								}
								if rhs2, _, ok2 := rd.defsAt(r2, o2); ok2 {
									var keep2 []ast.Expr
									for _, e2 := range rhs2 {
										if e2 != nil {
											keep2 = append(keep2, e2)
										}
									}
									al[o2] = keep2
									next = append(next, keep2...)
								}
							}
							frontier = next
						}
					}
				}
			}
			for _, r := range rootsOfWrite(info, w, al) {
				if r.obj != recv || !paramField[r.field] || !r.deref {
					continue
				}
				if bad == nil {
					bad, badField = &w, r.field
				}
			}
		}
		key := "PARAMMUT:" + fkey
		props := propsForKey(fkey)
		if bad != nil {
			out = append(out, withProps(violOb("PARAMMUT", key, c.Rel(bad.pos), fmt.Sprintf("%s writes through %s (%s), storage of the parameters held in the field %s: parameters are shared between evaluators and copies, the next evaluation starts from the modified values", fkey, exprString(bad.target), bad.how, badField)), props...))
		} else {
			out = append(out, withProps(okOb("PARAMMUT", key, c.Rel(fd.Pos()), "no write site reaches the storage of the parameters the receiver holds", true), props...))
		}
	})
	c.Stats["parammut_methods"] = n
	return out
}

func init() {
	core.Register(&core.Rule{Name: "PARAMMUT", Wide: true, Props: []string{"C13", "C18", "C10"},
		Doc: "no method (constructors, decoders, Set*, and the parameter types' own methods excepted) has a write site that reaches, through a pointer, slice or map, storage rooted at a field of its receiver whose type is named …Parameters…",
		Run: func(c *core.Ctx) []ob {
			out := scanParamMut(c)
			for _, o := range core.Floor("PARAMMUT", nil, "methods of objects holding parameters", c.Stats["parammut_methods"], 100) {
				out = append(out, withProps(o, "C13"))
			}
			for _, o := range control(c, "PARAMMUT", scanParamMut, "(fxPolyEval).Scaled") {
				out = append(out, withProps(o, "C13"))
			}
			return out
		}})
}

// RESCALETARGET — an operation that is given a scale to reach rescales *to* it.
//
// `SetScale(ct, scale)` multiplies by scale/ct.Scale and then divides by as many primes as it takes to come back to
// `scale` (RescaleTo); so does the bootstrapping `ScaleDown` with its `targetScale`. Replacing that by one `Rescale`
// (exactly one prime, or two in the 128-bit mode) is right only when the ratio happens to be one prime: otherwise the
// ciphertext ends at another scale than the one that is then recorded.
//
// Rule: a function of the CKKS packages that has a target scale in hand — a parameter of type rlwe.Scale, or a local
// named target…Scale — does not call the single-step Rescale of an evaluator.
func scanRescaleTarget(c *core.Ctx) []ob {
	var out []ob
	n := 0
	c.FuncDecls(func(pk *packages.Package, file *ast.File, fd *ast.FuncDecl) {
		rel := core.ShortPkg(pk.PkgPath)
		if fd.Body == nil || fileIsTestSupport(c.Program, fd.Pos()) || !(c.IsFixture || strings.HasPrefix(rel, "schemes/ckks") || strings.HasPrefix(rel, "circuits/ckks")) {
			return
		}
		if c.IsFixture && !strings.HasPrefix(fd.Name.Name, "ckks") {
			return
		}
		info := pk.TypesInfo
		isScale := func(t types.Type) bool {
			nm := namedOf(t)
			return nm != nil && nm.Obj().Name() == "Scale" && nm.Obj().Pkg() != nil && strings.HasSuffix(nm.Obj().Pkg().Path(), "core/rlwe")
		}
		target := ""
		if fd.Type.Params != nil {
			for _, fl := range fd.Type.Params.List {
				for _, nm := range fl.Names {
					// the scale to reach: `scale` / `targetScale`, not any scale-valued argument (a ratio, a difference)
					if low := strings.ToLower(nm.Name); isScale(info.TypeOf(nm)) && (low == "scale" || strings.HasPrefix(low, "target")) {
						target = nm.Name
					}
				}
			}
		}
		ast.Inspect(fd.Body, func(x ast.Node) bool {
			if as, ok := x.(*ast.AssignStmt); ok && as.Tok == token.DEFINE {
				for _, l := range as.Lhs {
					if id, ok := l.(*ast.Ident); ok {
						low := strings.ToLower(id.Name)
						if strings.HasPrefix(low, "target") && strings.Contains(low, "scale") {
							target = id.Name
						}
					}
				}
			}
			return true
		})
		if target == "" {
			return
		}
		fkey := core.FuncKey(pk, fd)
		var bad *ast.CallExpr
		uses := false
		ast.Inspect(fd.Body, func(x ast.Node) bool {
			call, ok := x.(*ast.CallExpr)
			if !ok {
				return true
			}
			sel, ok := unparen(call.Fun).(*ast.SelectorExpr)
			if !ok {
				return true
			}
			switch sel.Sel.Name {
			case "Rescale":
				if f := calleeFunc(info, call); f != nil && len(call.Args) == 2 && bad == nil {
					bad = call
				}
			case "RescaleTo":
				uses = true
			case "Div", "Mul", "Cmp", "Equal", "Max", "Min", "InDelta", "Float64", "Uint64", "Log2", "Errorf", "Sprintf", "NewScale", "Quo", "Set", "SetPrec", "SetFloat64", "SetInt":
				// scale arithmetic and messages do not consume the target
			default:
				// the target handed to another operation (a polynomial evaluation with a target scale): consumed there
				for _, a := range call.Args {
					ast.Inspect(a, func(y ast.Node) bool {
						if id, ok := y.(*ast.Ident); ok && id.Name == target {
							uses = true
						}
						return true
					})
				}
			}
			return true
		})
		if bad == nil && !uses {
			return
		}
		if uses {
			bad = nil // the target is reached by RescaleTo or by the operation it is handed to; single steps elsewhere are part of the circuit
		}
		n++
		key := "RESCALETARGET:" + fkey
		if bad != nil {
			out = append(out, withProps(violOb("RESCALETARGET", key, c.Rel(bad.Pos()), fmt.Sprintf("%s has the scale to reach in %s but rescales with %s, which divides by exactly one prime (two in the 128-bit mode): unless the ratio is that prime the ciphertext ends at another scale than the one recorded", fkey, target, exprString(bad.Fun))), propsForKey(fkey)...))
		} else {
			out = append(out, withProps(okOb("RESCALETARGET", key, c.Rel(fd.Pos()), "rescales to the target scale it holds", true), propsForKey(fkey)...))
		}
	})
	c.Stats["rescaletarget_funcs"] = n
	return out
}

func init() {
	core.Register(&core.Rule{Name: "RESCALETARGET", Wide: true, Props: []string{"C06", "C18", "C13"},
		Doc: "a function of the CKKS packages that holds a target scale (a parameter of type rlwe.Scale or a local named target…Scale) rescales with RescaleTo, never with the single-step Rescale",
		Run: func(c *core.Ctx) []ob {
			out := scanRescaleTarget(c)
			for _, o := range control(c, "RESCALETARGET", scanRescaleTarget, "lvfixture.ckksSetScale") {
				out = append(out, withProps(o, "C06"))
			}
			return out
		}})
}
