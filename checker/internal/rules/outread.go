package rules

import (
	"fmt"
	"go/ast"
	"go/token"
	"go/types"
	"strings"

	"golang.org/x/tools/go/packages"

	"lvcheck/internal/core"
)

// OUTREAD — an operation does not read its output before writing it (C09 third clause, structural part).
//
// For every evaluator method with an output ciphertext parameter (opOut / ctOut / ciphertextOut) that is not an
// accumulating operation (name containing ThenAdd/ThenSub/InPlace), a polynomial component of the output
// (opOut.Value[k], possibly through a local view) must not be used as a *source* operand of a ring operation,
// basis extension or copy at a point that no *initialising* write of that component can reach, unless the point is
// inside a branch guarded by a pointer-identity test of opOut against an operand (the output then *is* that operand).
// An initialising write is a write by a call that does not also read the same component (an in-place transform or
// an accumulation `Add(out, x, out)` does not initialise); handing the output, a view of it or a container built
// over its components to a module function counts as initialising (the helper fills it).
// The analysis is a may-analysis (union at joins): InnerSum-style loops initialise the output on an iteration that
// only the value of n selects, so demanding a write on every path would alarm on correct code. What is decided: the
// read has no initialising write before it on any path; what is not: that the initialising path is always taken.
// A source read of an unwritten output component makes the result depend on what the receiver object held before.

func scanOutRead(c *core.Ctx) []ob {
	var out []ob
	n := 0
	c.FuncDecls(func(pk *packages.Package, file *ast.File, fd *ast.FuncDecl) {
		rel := core.ShortPkg(pk.PkgPath)
		if !c.IsFixture && !(strings.HasPrefix(rel, "core/rlwe") || strings.HasPrefix(rel, "schemes/") || strings.HasPrefix(rel, "core/rgsw") || strings.HasPrefix(rel, "circuits/")) {
			return
		}
		if fd.Recv == nil || !strings.Contains(core.RecvTypeName(fd), "Evaluator") || fileIsTestSupport(c.Program, fd.Pos()) {
			return
		}
		nm := fd.Name.Name
		if strings.Contains(nm, "ThenAdd") || strings.Contains(nm, "ThenSub") || strings.Contains(nm, "InPlace") || strings.Contains(nm, "inPlace") {
			return
		}
		info := pk.TypesInfo
		obj := info.Defs[fd.Name].(*types.Func)
		sig := obj.Type().(*types.Signature)
		var outP types.Object
		for i := 0; i < sig.Params().Len(); i++ {
			p := sig.Params().At(i)
			if isCiphertextPtr(p.Type()) && (p.Name() == "opOut" || p.Name() == "ctOut" || p.Name() == "ciphertextOut") {
				outP = p
			}
		}
		if outP == nil {
			return
		}
		n++
		fkey := core.FuncKey(pk, fd)
		// cell naming with the NOISE machinery (single-definition views only)
		nf := &noiseFn{c: c, pk: pk, info: info, fd: fd, fkey: fkey, static: map[types.Object]ast.Expr{}, multi: map[types.Object]bool{}, checked: map[string]bool{}, scoped: map[string]bool{}, expand: map[string][]aliasTarget{}}
		defs := map[types.Object][]ast.Expr{}
		ast.Inspect(fd.Body, func(nd ast.Node) bool {
			if as, ok := nd.(*ast.AssignStmt); ok && len(as.Lhs) == len(as.Rhs) {
				for i, l := range as.Lhs {
					if id, ok := unparen(l).(*ast.Ident); ok {
						o := info.Defs[id]
						if o == nil {
							o = info.Uses[id]
						}
						if o != nil && polyish(o.Type()) {
							defs[o] = append(defs[o], as.Rhs[i])
						}
					}
				}
			}
			return true
		})
		for o, ds := range defs {
			if len(ds) == 1 {
				if _, isCall := unparen(ds[0]).(*ast.CallExpr); !isCall {
					nf.static[o] = ds[0]
					continue
				}
			}
			nf.multi[o] = true
		}
		empty := &noiseState{map[string]bool{}, map[types.Object]string{}, map[string]token.Pos{}}
		for o, ds := range defs {
			if !nf.multi[o] {
				continue
			}
			for _, d := range ds {
				if cl, ok := unparen(d).(*ast.CompositeLit); ok {
					for _, el := range cl.Elts {
						if kv, ok := el.(*ast.KeyValueExpr); ok {
							if k, ok := kv.Key.(*ast.Ident); ok {
								if t := nf.cell(kv.Value, empty, 0); t != "" {
									nf.expand[o.Name()] = append(nf.expand[o.Name()], aliasTarget{"." + k.Name, t})
								}
							}
						}
					}
					continue
				}
				if t := nf.cell(d, empty, 0); t != "" && !strings.HasPrefix(t, "var:") {
					nf.expand[o.Name()] = append(nf.expand[o.Name()], aliasTarget{"", t})
				}
			}
		}
		outPrefix := outP.Name() + ".Value["
		isOutCell := func(cell string) bool { return strings.HasPrefix(cell, outPrefix) }
		// outCells resolves an expression to the output cells it may view (directly or through a branch-assigned view)
		outCells := func(e ast.Expr) []string {
			cell := nf.cell(e, empty, 0)
			if cell == "" {
				return nil
			}
			var res []string
			if isOutCell(cell) {
				res = append(res, cell)
			}
			for _, v := range nf.viewsOf(cell) {
				if isOutCell(v) {
					res = append(res, v)
				}
			}
			return res
		}
		pm := parentMapCached(fd)
		aliases := localAliasesMode(info, fd, false)
		outs := map[types.Object]bool{outP: true}
		// locals defined from an expression that mentions the output (views, containers built over its components)
		for changed := true; changed; {
			changed = false
			ast.Inspect(fd.Body, func(nd ast.Node) bool {
				as, ok := nd.(*ast.AssignStmt)
				if !ok || len(as.Lhs) != len(as.Rhs) {
					return true
				}
				for i, l := range as.Lhs {
					id, ok := unparen(l).(*ast.Ident)
					if !ok {
						continue
					}
					o := info.Defs[id]
					if o == nil {
						o = info.Uses[id]
					}
					if o == nil || outs[o] {
						continue
					}
					if _, basic := o.Type().Underlying().(*types.Basic); basic {
						continue
					}
					if mentionsVar(info, as.Rhs[i], outs) {
						outs[o] = true
						changed = true
					}
				}
				return true
			})
		}
		guardedByIdentity := func(nd ast.Node) bool {
			for _, h := range holdsAt(pm, nd) {
				for _, be := range equalitiesOf(h.cond, h.pos) {
					for _, side := range []ast.Expr{be.X, be.Y} {
						for _, r := range rootsOf(info, side, aliases, 0) {
							if outs[r.obj] {
								return true
							}
						}
					}
				}
			}
			return false
		}
		// events per call: (reads, writes) of output cells
		type ev struct {
			reads, writes []string
			pos           token.Pos
			node          ast.Node
		}
		events := func(nd ast.Node) []ev {
			var evs []ev
			for _, call := range callsIn(nd) {
				sel, ok := unparen(call.Fun).(*ast.SelectorExpr)
				if !ok {
					continue
				}
				rt := info.TypeOf(sel.X)
				if rt == nil {
					continue
				}
				e := ev{pos: call.Pos(), node: call}
				name := sel.Sel.Name
				switch {
				case isRingLikeRecv(rt) && len(call.Args) >= 2:
					for i, a := range call.Args {
						for _, cell := range outCells(a) {
							if i == len(call.Args)-1 {
								if opAccum[name] {
									e.reads = append(e.reads, cell)
								}
								e.writes = append(e.writes, cell)
							} else if name == "ExtendBasisSmallNormAndCenter" && i == 2 {
								e.writes = append(e.writes, cell)
							} else {
								e.reads = append(e.reads, cell)
							}
						}
					}
				case (name == "Copy" || name == "CopyLvl") && polyish(rt):
					if cell := nf.cell(sel.X, empty, 0); isOutCell(cell) {
						e.writes = append(e.writes, cell)
					} else if mentionsVar(info, sel.X, outs) {
						// opOut.Copy(x): the whole output is overwritten
						e.writes = append(e.writes, "*")
					}
					if len(call.Args) > 0 {
						if cell := nf.cell(call.Args[len(call.Args)-1], empty, 0); isOutCell(cell) {
							e.reads = append(e.reads, cell)
						}
					}
				case isSamplerType(rt) && (name == "Read" || name == "ReadAndAdd") && len(call.Args) == 1:
					if cell := nf.cell(call.Args[0], empty, 0); isOutCell(cell) {
						if name == "ReadAndAdd" {
							e.reads = append(e.reads, cell)
						}
						e.writes = append(e.writes, cell)
					}
				default:
					// any other module call that receives the output itself (or a view of it) may initialise it
					if f := calleeFunc(info, call); f != nil && f.Pkg() != nil && strings.HasPrefix(f.Pkg().Path(), core.ModPath) {
						for _, a := range call.Args {
							if mentionsVar(info, a, outs) {
								if t := info.TypeOf(a); t != nil && (strings.Contains(t.String(), "Ciphertext") || strings.Contains(t.String(), "rlwe.Element[") || strings.Contains(t.String(), "Element[")) {
									e.writes = append(e.writes, "*")
								}
							}
							// a view of the output handed to a helper: the helper fills it
							e.writes = append(e.writes, outCells(a)...)
						}
						if mentionsVar(info, sel.X, outs) && name != "Degree" && name != "Level" && name != "El" && name != "LogSlots" && name != "Slots" && name != "Resize" && name != "LevelQ" && name != "LevelP" {
							e.writes = append(e.writes, "*")
						}
					}
				}
				// a call that reads the cell it writes (in-place transform, accumulation) does not initialise it
				if len(e.reads) > 0 {
					rd := map[string]bool{}
					for _, r := range e.reads {
						rd[r] = true
					}
					var ws []string
					for _, w := range e.writes {
						if !rd[w] {
							ws = append(ws, w)
						}
					}
					e.writes = ws
				}
				if len(e.reads)+len(e.writes) > 0 {
					evs = append(evs, e)
				}
			}
			return evs
		}
		type wset map[string]bool
		clone := func(s wset) wset {
			r := wset{}
			for k := range s {
				r[k] = true
			}
			return r
		}
		g := buildCFG(info, fd.Body)
		transfer := func(nd ast.Node, s wset) wset {
			evs := events(nd)
			if len(evs) == 0 {
				return s
			}
			s = clone(s)
			for _, e := range evs {
				for _, w := range e.writes {
					s[w] = true
				}
			}
			return s
		}
		in := forward(g, wset{}, nil, transfer,
			func(a, b wset) wset {
				// may-analysis: which components an initialising write can reach (data-dependent loops such as the
				// binary reading of n in InnerSum initialise the output on a path only the values select)
				r := clone(a)
				for k := range b {
					r[k] = true
				}
				return r
			},
			func(a, b wset) bool {
				if len(a) != len(b) {
					return false
				}
				for k := range a {
					if !b[k] {
						return false
					}
				}
				return true
			})
		type badRead struct {
			cell string
			pos  token.Pos
		}
		var bad []badRead
		seen := map[string]bool{}
		for _, b := range g.Blocks {
			s, ok := in[b]
			if !ok {
				continue
			}
			s = clone(s)
			for _, nd := range b.Nodes {
				for _, e := range events(nd) {
					for _, r := range e.reads {
						if s[r] || s["*"] || seen[r] || indexCovered(s, r) {
							continue
						}
						// a cell indexed by a loop variable (opOut.Value[i]) is covered by a write of the same indexed cell
						if guardedByIdentity(e.node) {
							continue
						}
						seen[r] = true
						bad = append(bad, badRead{r, e.pos})
					}
					for _, w := range e.writes {
						s[w] = true
					}
				}
			}
		}
		key := "OUTREAD:" + fkey
		if len(bad) == 0 {
			out = append(out, okOb("OUTREAD", key, c.Rel(fd.Pos()), "no output component is used as a source before this operation has written it", true))
		} else {
			for i, b := range bad {
				k := key
				if i > 0 {
					k = fmt.Sprintf("%s#%d", key, i)
				}
				out = append(out, violOb("OUTREAD", k, c.Rel(b.pos), fmt.Sprintf("%s uses %s as a source operand at %s on a path where it has not written it and where the output is not known to be one of the inputs: the result depends on what the receiver object held before the call", fkey, b.cell, c.Rel(b.pos))))
			}
		}
	})
	c.Stats["outread_ops"] = n
	return out
}

func init() {
	all := []string{"C09", "C04", "C05", "C06", "C11", "C12", "C20"}
	core.Register(&core.Rule{Name: "OUTREAD", Props: all,
		Doc: "no polynomial component of an operation's output ciphertext is used as a source operand of a ring operation / basis extension / copy at a point no initialising write of it can reach, except under a pointer-identity guard of the output against an operand (may-reach analysis over go/cfg with view resolution)",
		Run: func(c *core.Ctx) []ob {
			out := scanOutRead(c)
			out = append(out, control(c, "OUTREAD", scanOutRead, "(fixEvaluator).Fold")...)
			for i := range out {
				ps := metaProps(out[i].Key)
				out[i].Props = append([]string{"C09"}, ps...)
			}
			for _, o := range core.Floor("OUTREAD", nil, "operations with an output ciphertext", c.Stats["outread_ops"], 40) {
				out = append(out, withProps(o, all...))
			}
			return out
		}})
}

var _ = packages.NeedName

// indexCovered: a cell addressed with a variable index (opOut.Value[i]) is covered by an initialising write of any
// cell of the same vector, and a constant-index cell by a write addressed with a variable index (the loop that
// writes opOut.Value[i] for every i): the index values are not interpreted.
func indexCovered(s map[string]bool, r string) bool {
	i := strings.LastIndex(r, "[")
	if i < 0 || !strings.HasSuffix(r, "]") {
		return false
	}
	isConst := func(c string) bool {
		idx := c[strings.LastIndex(c, "[")+1 : len(c)-1]
		if idx == "" {
			return false
		}
		for _, ch := range idx {
			if ch < '0' || ch > '9' {
				return false
			}
		}
		return true
	}
	rc := isConst(r)
	for w := range s {
		if !s[w] || !strings.HasPrefix(w, r[:i+1]) || !strings.HasSuffix(w, "]") || strings.LastIndex(w, "[") != i {
			continue
		}
		if !rc || !isConst(w) {
			return true
		}
	}
	return false
}
