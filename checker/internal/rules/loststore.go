package rules

import (
	"fmt"
	"go/ast"
	"go/token"
	"go/types"
	"strings"

	"golang.org/x/tools/go/cfg"
	"golang.org/x/tools/go/packages"

	"lvcheck/internal/core"
)

// LOSTSTORE — a field assigned on a value receiver reaches somebody.
//
// Copy constructors and With* methods are declared on value receivers: `func (d Decryptor) WithKey(sk) *Decryptor`.
// Inside such a method the receiver is a private copy. Assigning one of its fields (`d.sk = sk`) changes nothing the
// caller can see unless the copy itself is used afterwards (returned, its address taken, passed on, read). A field
// store on a value receiver after which the receiver is never mentioned again on any path is therefore a lost
// update: the method was meant to install the value in the object it returns, and does not.
func scanLostStore(c *core.Ctx) []ob {
	var out []ob
	n := 0
	c.FuncDecls(func(pk *packages.Package, file *ast.File, fd *ast.FuncDecl) {
		if fd.Body == nil || fd.Recv == nil || fileIsTestSupport(c.Program, fd.Pos()) || inExamples(pk) {
			return
		}
		info := pk.TypesInfo
		_, ptrRecv := core.RecvNamed(info, fd)
		recv := recvObj(info, fd)
		if ptrRecv || recv == nil {
			return
		}
		if _, isStruct := recv.Type().Underlying().(*types.Struct); !isStruct {
			return
		}
		// field stores on the receiver value itself (not through a pointer/slice/map held by it)
		type store struct {
			as    *ast.AssignStmt
			field string
		}
		var stores []store
		ast.Inspect(fd.Body, func(x ast.Node) bool {
			as, ok := x.(*ast.AssignStmt)
			if !ok {
				return true
			}
			for _, l := range as.Lhs {
				sel, ok := unparen(l).(*ast.SelectorExpr)
				if !ok {
					continue
				}
				id, ok := unparen(sel.X).(*ast.Ident)
				if !ok || info.Uses[id] != recv {
					continue
				}
				// a promoted field reached through an embedded pointer is shared storage
				if s := info.Selections[sel]; s != nil && s.Indirect() {
					continue
				}
				stores = append(stores, store{as, sel.Sel.Name})
			}
			return true
		})
		if len(stores) == 0 {
			return
		}
		fkey := core.FuncKey(pk, fd)
		g := buildCFG(info, fd.Body)
		// uses of the receiver per CFG node, excluding the store targets themselves
		usesRecv := func(nd ast.Node, skip *ast.AssignStmt) bool {
			found := false
			ast.Inspect(nd, func(x ast.Node) bool {
				if found {
					return false
				}
				if as, ok := x.(*ast.AssignStmt); ok && as == skip {
					for _, r := range as.Rhs {
						ast.Inspect(r, func(y ast.Node) bool {
							if id, ok := y.(*ast.Ident); ok && info.Uses[id] == recv {
								found = true
							}
							return !found
						})
					}
					return false
				}
				if id, ok := x.(*ast.Ident); ok && info.Uses[id] == recv {
					found = true
				}
				return !found
			})
			return found
		}
		for _, s := range stores {
			n++
			// locate the store in the CFG
			var blk *cfg.Block
			idx := -1
			for _, b := range g.Blocks {
				for i, nd := range b.Nodes {
					if nd == ast.Node(s.as) {
						blk, idx = b, i
					}
				}
			}
			key := fmt.Sprintf("LOSTSTORE:%s#%s", fkey, s.field)
			if blk == nil {
				out = append(out, okOb("LOSTSTORE", key, c.Rel(s.as.Pos()), "store not located in the control-flow graph (inside a closure): not decided", false))
				continue
			}
			used := false
			for _, nd := range blk.Nodes[idx+1:] {
				if usesRecv(nd, nil) {
					used = true
				}
			}
			seen := map[*cfg.Block]bool{}
			work := append([]*cfg.Block{}, blk.Succs...)
			for len(work) > 0 && !used {
				b := work[0]
				work = work[1:]
				if seen[b] {
					continue
				}
				seen[b] = true
				for _, nd := range b.Nodes {
					if usesRecv(nd, nil) {
						used = true
					}
				}
				work = append(work, b.Succs...)
			}
			// a deferred closure or a named result bound to the receiver would also count; the repository has neither
			if used {
				out = append(out, withProps(okOb("LOSTSTORE", key, c.Rel(s.as.Pos()), "the receiver copy is used after the store", true), lostProps(fkey)...))
			} else {
				out = append(out, withProps(violOb("LOSTSTORE", key, c.Rel(s.as.Pos()), fmt.Sprintf("%s has a value receiver and assigns %s.%s at %s, but never uses %s afterwards: the assignment only changes the method's private copy, so the object handed back to the caller does not carry the new %s", fkey, recv.Name(), s.field, c.Rel(s.as.Pos()), recv.Name(), s.field)), lostProps(fkey)...))
			}
		}
	})
	c.Stats["loststore_sites"] = n
	return out
}

func lostProps(fkey string) []string {
	switch {
	case strings.Contains(fkey, "Encryptor") || strings.Contains(fkey, "Decryptor"):
		return []string{"C03", "C10"}
	case strings.Contains(fkey, "Sampler"):
		return []string{"C17", "C10"}
	case strings.HasPrefix(fkey, "multiparty"):
		return []string{"C14", "C10"}
	}
	return []string{"C10"}
}

var _ = token.NoPos

func init() {
	all := []string{"C03", "C04", "C10", "C11", "C14", "C17"}
	core.Register(&core.Rule{Name: "LOSTSTORE", Props: all,
		Doc: "a field assigned on a value receiver is followed, on some path, by a use of that receiver copy (otherwise the assignment is lost: the With*/copy method does not install the value in what it returns)",
		Run: func(c *core.Ctx) []ob {
			out := scanLostStore(c)
			out = append(out, scanLazyInit(c)...)
			out = append(out, scanLostVia(c)...)
			for _, o := range control(c, "LOSTSTORE", scanLostVia, "(holder).Fill#via") {
				out = append(out, withProps(o, all...))
			}
			for _, o := range control(c, "LOSTSTORE", scanLazyInit, "(Thing).remember") {
				out = append(out, withProps(o, all...))
			}
			for _, o := range control(c, "LOSTSTORE", scanLostStore, "(Thing).WithConf") {
				out = append(out, withProps(o, all...))
			}
			return out
		}})
}

// LAZYINIT — part of LOSTSTORE: lazy allocation on a value receiver.
//
// `if recv.f == nil { recv.f = make(...) }` in a method with a value receiver allocates the map/slice in the method's
// private copy: the caller's object still holds nil, what the method stores into the fresh container is gone when it
// returns, and the next reader of the field (another method of the caller's object) finds nothing. The container has
// to be allocated by the constructors (then the value receiver shares it) or the method needs a pointer receiver.
// Decided per occurrence: the store is lost unless the receiver copy itself is returned or its address escapes.
func scanLazyInit(c *core.Ctx) []ob {
	var out []ob
	n := 0
	c.FuncDecls(func(pk *packages.Package, file *ast.File, fd *ast.FuncDecl) {
		if fd.Body == nil || fd.Recv == nil || fileIsTestSupport(c.Program, fd.Pos()) || inExamples(pk) {
			return
		}
		info := pk.TypesInfo
		_, ptrRecv := core.RecvNamed(info, fd)
		recv := recvObj(info, fd)
		if ptrRecv || recv == nil {
			return
		}
		if _, isStruct := recv.Type().Underlying().(*types.Struct); !isStruct {
			return
		}
		fkey := core.FuncKey(pk, fd)
		// does the receiver copy escape (returned by value/address)? then the allocation travels with it
		escapes := false
		ast.Inspect(fd.Body, func(x ast.Node) bool {
			switch v := x.(type) {
			case *ast.ReturnStmt:
				for _, r := range v.Results {
					r = unparen(r)
					if u, ok := r.(*ast.UnaryExpr); ok && u.Op == token.AND {
						r = unparen(u.X)
					}
					if id, ok := r.(*ast.Ident); ok && info.Uses[id] == recv {
						escapes = true
					}
				}
			case *ast.UnaryExpr:
				if v.Op == token.AND {
					if id, ok := unparen(v.X).(*ast.Ident); ok && info.Uses[id] == recv {
						escapes = true
					}
				}
			}
			return true
		})
		ast.Inspect(fd.Body, func(x ast.Node) bool {
			is, ok := x.(*ast.IfStmt)
			if !ok {
				return true
			}
			be, ok := unparen(is.Cond).(*ast.BinaryExpr)
			if !ok || be.Op != token.EQL || !isNilIdent(be.Y) {
				return true
			}
			sel, ok := unparen(be.X).(*ast.SelectorExpr)
			if !ok {
				return true
			}
			id, ok := unparen(sel.X).(*ast.Ident)
			if !ok || info.Uses[id] != recv {
				return true
			}
			if s := info.Selections[sel]; s != nil && s.Indirect() {
				return true // a field of an embedded pointer: shared storage
			}
			// the then-branch assigns the same field
			assigns := false
			for _, st := range is.Body.List {
				if as, ok := st.(*ast.AssignStmt); ok {
					for _, l := range as.Lhs {
						if exprString(l) == exprString(sel) {
							assigns = true
						}
					}
				}
			}
			if !assigns {
				return true
			}
			n++
			key := fmt.Sprintf("LAZYINIT:%s#%s", fkey, sel.Sel.Name)
			if escapes {
				out = append(out, withProps(okOb("LOSTSTORE", key, c.Rel(is.Pos()), "the receiver copy is returned: the allocation travels with it", true), lostProps(fkey)...))
			} else {
				out = append(out, withProps(violOb("LOSTSTORE", key, c.Rel(is.Pos()), fmt.Sprintf("%s has a value receiver and allocates %s.%s when it is nil (%s): the allocation and everything stored into it stay in the method's private copy, the caller's object keeps a nil %s", fkey, recv.Name(), sel.Sel.Name, c.Rel(is.Pos()), sel.Sel.Name)), append(lostProps(fkey), "C04", "C11")...))
			}
			return true
		})
	})
	c.Stats["lazyinit_sites"] = n
	return out
}

// LOSTVIA — part of LOSTSTORE: a value-receiver method that calls, on (a value field of) its receiver copy, a
// pointer-receiver method which assigns fields of *its* receiver. `func (ct Ciphertext) Copy(o *Ciphertext) {
// ct.Element.Copy(&o.Element) }`: Element.Copy may set `op.MetaData = &MetaData{}`; the field it sets belongs to the
// private copy `ct`, and is gone when the method returns.
func scanLostVia(c *core.Ctx) []ob {
	var out []ob
	n := 0
	// pointer-receiver methods that assign a field of their receiver
	storers := map[*types.Func]string{}
	c.FuncDecls(func(pk *packages.Package, file *ast.File, fd *ast.FuncDecl) {
		if fd.Body == nil || fd.Recv == nil {
			return
		}
		info := pk.TypesInfo
		_, ptrRecv := core.RecvNamed(info, fd)
		recv := recvObj(info, fd)
		if !ptrRecv || recv == nil {
			return
		}
		fn, _ := info.Defs[fd.Name].(*types.Func)
		if fn == nil {
			return
		}
		ast.Inspect(fd.Body, func(x ast.Node) bool {
			as, ok := x.(*ast.AssignStmt)
			if !ok {
				return true
			}
			for _, l := range as.Lhs {
				sel, ok := unparen(l).(*ast.SelectorExpr)
				if !ok {
					continue
				}
				if id, ok := unparen(sel.X).(*ast.Ident); ok && info.Uses[id] == recv {
					if s := info.Selections[sel]; s != nil && s.Kind() == types.FieldVal {
						storers[funcOrigin(fn)] = sel.Sel.Name
					}
				}
			}
			return true
		})
	})
	c.FuncDecls(func(pk *packages.Package, file *ast.File, fd *ast.FuncDecl) {
		if fd.Body == nil || fd.Recv == nil || fileIsTestSupport(c.Program, fd.Pos()) || inExamples(pk) {
			return
		}
		info := pk.TypesInfo
		_, ptrRecv := core.RecvNamed(info, fd)
		recv := recvObj(info, fd)
		if ptrRecv || recv == nil {
			return
		}
		if _, isStruct := recv.Type().Underlying().(*types.Struct); !isStruct {
			return
		}
		fkey := core.FuncKey(pk, fd)
		ast.Inspect(fd.Body, func(x ast.Node) bool {
			call, ok := x.(*ast.CallExpr)
			if !ok {
				return true
			}
			sel, ok := unparen(call.Fun).(*ast.SelectorExpr)
			if !ok {
				return true
			}
			f := calleeFunc(info, call)
			if f == nil {
				return true
			}
			field, isStorer := storers[funcOrigin(f)]
			if !isStorer {
				return true
			}
			// the receiver of the call is the value copy or a value field of it (no pointer on the way)
			e := unparen(sel.X)
			viaPointer := false
			for {
				s2, ok := e.(*ast.SelectorExpr)
				if !ok {
					break
				}
				if t := info.TypeOf(s2.X); t != nil {
					if _, isPtr := t.Underlying().(*types.Pointer); isPtr {
						viaPointer = true
					}
				}
				e = unparen(s2.X)
			}
			id, ok := e.(*ast.Ident)
			if !ok || info.Uses[id] != recv || viaPointer {
				return true
			}
			if s := info.Selections[sel]; s != nil && s.Indirect() {
				return true
			}
			n++
			key := fmt.Sprintf("LOSTSTORE:%s#via(%s)", fkey, f.Name())
			// the copy is used afterwards (returned, read): then the store reaches somebody
			usedAfter := false
			ast.Inspect(fd.Body, func(y ast.Node) bool {
				if i2, ok := y.(*ast.Ident); ok && info.Uses[i2] == recv && i2.Pos() > call.End() {
					usedAfter = true
				}
				return true
			})
			if usedAfter {
				out = append(out, withProps(okOb("LOSTSTORE", key, c.Rel(call.Pos()), "the receiver copy is used after the call", true), lostProps(fkey)...))
			} else {
				out = append(out, withProps(violOb("LOSTSTORE", key, c.Rel(call.Pos()), fmt.Sprintf("%s has a value receiver and calls %s on its private copy; %s assigns the field %s of its receiver, and the copy is not used afterwards: what it allocates there (e.g. the metadata of an element that had none) is lost to the caller", fkey, f.Name(), f.Name(), field)), lostProps(fkey)...))
			}
			return true
		})
	})
	c.Stats["lostvia_sites"] = n
	return out
}
