package rules

import (
	"fmt"
	"go/ast"
	"go/token"
	"go/types"
	"strings"

	"golang.org/x/tools/go/packages"

	"lvcheck/internal/core"
)

// ENCRED — raw unsigned values stored into a plaintext-ring buffer are fully reduced before anything else uses them.
//
// The integer encoder accepts []uint64 values that need not be smaller than the plaintext modulus t (the signed arms
// reduce each value with BRedAdd as they store it). The unsigned arms store the values as they are, so the first ring
// operation applied to the buffer afterwards has to be one that reduces whatever it is given — Ring.Reduce, or
// Ring.MulScalar (which goes through the Montgomery form) — and it has to be applied on every path. If a transform
// (INTT/NTT), a basis conversion (RingT2Q) or the return comes first, values >= t give a plaintext that decodes to
// something else. go/cfg, must-analysis from each raw store.
func scanEncRed(c *core.Ctx) []ob {
	var out []ob
	n := 0
	c.FuncDecls(func(pk *packages.Package, file *ast.File, fd *ast.FuncDecl) {
		rel := core.ShortPkg(pk.PkgPath)
		if fd.Body == nil || fileIsTestSupport(c.Program, fd.Pos()) || !(c.IsFixture || rel == "schemes/bgv") {
			return
		}
		info := pk.TypesInfo
		fkey := core.FuncKey(pk, fd)
		// slices that view the coefficients of a polynomial: x := P.Coeffs[0]
		polyOf := map[types.Object]string{}
		ast.Inspect(fd.Body, func(x ast.Node) bool {
			as, ok := x.(*ast.AssignStmt)
			if !ok || len(as.Lhs) != len(as.Rhs) {
				return true
			}
			for i, l := range as.Lhs {
				id, ok := l.(*ast.Ident)
				if !ok {
					continue
				}
				ix, ok := unparen(as.Rhs[i]).(*ast.IndexExpr)
				if !ok {
					continue
				}
				sel, ok := unparen(ix.X).(*ast.SelectorExpr)
				if !ok || sel.Sel.Name != "Coeffs" {
					continue
				}
				o := info.Defs[id]
				if o == nil {
					o = info.Uses[id]
				}
				if o != nil {
					polyOf[o] = exprString(sel.X)
				}
			}
			return true
		})
		if len(polyOf) == 0 {
			return
		}
		// raw stores inside `case []uint64:` arms of a type switch
		type rawStore struct {
			node ast.Node
			poly string
			pos  token.Pos
		}
		var stores []rawStore
		ast.Inspect(fd.Body, func(x ast.Node) bool {
			ts, ok := x.(*ast.TypeSwitchStmt)
			if !ok {
				return true
			}
			for _, cl := range ts.Body.List {
				cc := cl.(*ast.CaseClause)
				isU64 := false
				for _, t := range cc.List {
					if exprString(t) == "[]uint64" {
						isU64 = true
					}
				}
				if !isU64 {
					continue
				}
				var valObj types.Object
				if o, ok := info.Implicits[cc]; ok {
					valObj = o
				}
				for _, st := range cc.Body {
					ast.Inspect(st, func(y ast.Node) bool {
						switch v := y.(type) {
						case *ast.CallExpr:
							if isBuiltinCall(info, v, "copy") && len(v.Args) == 2 {
								if d, ok := unparen(v.Args[0]).(*ast.Ident); ok {
									if s, ok := unparen(v.Args[1]).(*ast.Ident); ok && polyOf[info.Uses[d]] != "" && info.Uses[s] == valObj {
										stores = append(stores, rawStore{v, polyOf[info.Uses[d]], v.Pos()})
									}
								}
							}
						case *ast.RangeStmt:
							rx, ok := unparen(v.X).(*ast.Ident)
							if !ok || info.Uses[rx] != valObj || v.Value == nil {
								return true
							}
							vid, ok := v.Value.(*ast.Ident)
							if !ok {
								return true
							}
							vobj := info.Defs[vid]
							ast.Inspect(v.Body, func(z ast.Node) bool {
								as, ok := z.(*ast.AssignStmt)
								if !ok || len(as.Lhs) != 1 || len(as.Rhs) != 1 {
									return true
								}
								ix, ok := unparen(as.Lhs[0]).(*ast.IndexExpr)
								if !ok {
									return true
								}
								d, ok := unparen(ix.X).(*ast.Ident)
								if !ok || polyOf[info.Uses[d]] == "" {
									return true
								}
								// the stored value is the range value itself, possibly after local adjustments that are
								// not a full reduction (only a call to a reduction function would be)
								raw := false
								ast.Inspect(as.Rhs[0], func(w ast.Node) bool {
									if id, ok := w.(*ast.Ident); ok && info.Uses[id] == vobj {
										raw = true
									}
									return true
								})
								if call, ok := unparen(as.Rhs[0]).(*ast.CallExpr); ok {
									if f := calleeFunc(info, call); f != nil && fullReducers[f.Name()] {
										raw = false
									}
								}
								if raw {
									stores = append(stores, rawStore{v, polyOf[info.Uses[d]], as.Pos()})
								}
								return true
							})
						}
						return true
					})
				}
			}
			return true
		})
		if len(stores) == 0 {
			return
		}
		g := buildCFG(info, fd.Body)
		// classify CFG nodes with respect to a polynomial
		classify := func(nd ast.Node, poly string) (string, token.Pos) {
			res, pos := "", token.NoPos
			for _, call := range callsIn(nd) {
				sel, ok := unparen(call.Fun).(*ast.SelectorExpr)
				if !ok {
					continue
				}
				uses := false
				for _, a := range call.Args {
					if exprString(unparen(a)) == poly {
						uses = true
					}
				}
				if !uses {
					continue
				}
				rt := info.TypeOf(sel.X)
				if rt != nil && isRingLikeRecv(rt) && (sel.Sel.Name == "Reduce" || sel.Sel.Name == "MulScalar") {
					if res == "" {
						res, pos = "reduce", call.Pos()
					}
				} else if res == "" {
					res, pos = "other:"+sel.Sel.Name, call.Pos()
				}
			}
			return res, pos
		}
		for _, s := range stores {
			n++
			key := fmt.Sprintf("ENCRED:%s#%s", fkey, s.poly)
			// find the block/index of the store node (the enclosing CFG node)
			pm := parentMapCached(fd)
			inGraph := map[ast.Node]bool{}
			for _, b := range g.Blocks {
				for _, nd := range b.Nodes {
					inGraph[nd] = true
				}
			}
			var start ast.Node = s.node
			for start != nil && !inGraph[start] {
				start = pm[start]
			}
			bad, badPos := "", token.NoPos
			if start == nil {
				// a range statement is not a node itself: start from the first node positioned after it
				start = nil
			}
			// forward search from every CFG node positioned at or after the store's end, reachable from it
			type item struct {
				bi, ni int
			}
			seen := map[[2]int]bool{}
			var work []item
			if start != nil {
				for bi, b := range g.Blocks {
					for ni, nd := range b.Nodes {
						if nd == start {
							work = append(work, item{bi, ni + 1})
						}
					}
				}
			} else {
				// the store is a range loop (not a node itself): continue from the node that follows it in the source
				best, bbi, bni := token.Pos(0), -1, -1
				for bi, b := range g.Blocks {
					if !b.Live {
						continue
					}
					for ni, nd := range b.Nodes {
						if nd.Pos() >= s.node.End() && (bbi == -1 || nd.Pos() < best) {
							best, bbi, bni = nd.Pos(), bi, ni
						}
					}
				}
				if bbi >= 0 {
					work = append(work, item{bbi, bni})
				}
			}
			if len(work) == 0 {
				out = append(out, incOb("ENCRED", key, c.Rel(s.pos), "cannot locate the raw store in the control-flow graph"))
				continue
			}
			for len(work) > 0 && bad == "" {
				it := work[0]
				work = work[1:]
				b := g.Blocks[it.bi]
				done := false
				for ni := it.ni; ni < len(b.Nodes); ni++ {
					k := [2]int{it.bi, ni}
					if seen[k] {
						done = true
						break
					}
					seen[k] = true
					// skip nodes that belong to the store statement itself (loop body of the raw range)
					if b.Nodes[ni].Pos() >= s.node.Pos() && b.Nodes[ni].End() <= s.node.End() {
						continue
					}
					cl, p := classify(b.Nodes[ni], s.poly)
					if cl == "reduce" {
						done = true
						break
					}
					if strings.HasPrefix(cl, "other:") {
						bad, badPos = "the first ring operation applied to it is "+strings.TrimPrefix(cl, "other:"), p
						done = true
						break
					}
					if _, isRet := b.Nodes[ni].(*ast.ReturnStmt); isRet {
						bad, badPos = "the function returns", b.Nodes[ni].Pos()
						done = true
						break
					}
				}
				if done {
					continue
				}
				if len(b.Succs) == 0 {
					bad, badPos = "the function ends", fd.Body.Rbrace
				}
				for _, su := range b.Succs {
					work = append(work, item{int(su.Index), 0})
				}
			}
			if bad == "" {
				out = append(out, okOb("ENCRED", key, c.Rel(s.pos), "a full reduction (Reduce / MulScalar) is the first ring operation on the buffer on every path", true))
			} else {
				out = append(out, violOb("ENCRED", key, c.Rel(badPos), fmt.Sprintf("%s stores raw []uint64 values into %s at %s, and on some path %s (%s) before the buffer has gone through Ring.Reduce or Ring.MulScalar: values that are not below the plaintext modulus are then encoded as a different residue", fkey, s.poly, c.Rel(s.pos), bad, c.Rel(badPos))))
			}
		}
	})
	c.Stats["encred_stores"] = n
	return out
}

func init() {
	core.Register(&core.Rule{Name: "ENCRED", Props: []string{"C07"},
		Doc: "in the integer encoder, every raw store of []uint64 input values into a plaintext-ring buffer is followed on every path by Ring.Reduce or Ring.MulScalar on that buffer before any other ring operation, basis conversion or return (go/cfg)",
		Run: func(c *core.Ctx) []ob {
			out := scanEncRed(c)
			out = append(out, core.Floor("ENCRED", nil, "raw []uint64 stores", c.Stats["encred_stores"], 2)...)
			out = append(out, control(c, "ENCRED", scanEncRed, "encodeRaw")...)
			return out
		}})
}
