package rules

import (
	"fmt"
	"go/ast"
	"go/token"
	"go/types"
	"strings"

	"golang.org/x/tools/go/packages"

	"lvcheck/internal/core"
)

// NILELEMS — a vector of pointers that some method writes *into* is populated by whoever allocates it.
//
// `make([]*big.Int, n)` gives n nil pointers. Some consumers of such scratch vectors allocate the elements themselves
// (`ring.PolyToBigint`: `coeffs[i] = new(big.Int)`), others write into the elements they are given
// (`ring.PolyToBigintCentered`: `coeffs[i].SetUint64(0)`). A constructor — or a copy constructor, which is where it goes
// unnoticed — that only re-allocates a vector of the second kind hands out nil elements: the first method that
// touches them panics, on the copy only.
//
// Per function and per parameter of type []*T the rule computes, to a fixpoint over the module,
//
//	fills(f, i)   f assigns elements of the parameter (p[k] = …), or passes it to a function that fills it;
//	needs(f, i)   f dereferences elements (p[k].M(…), *p[k]) or passes the parameter to a function that needs them,
//	              and does not fill it;
//
// and demands of every function that binds `make([]*T, n)` (n not the constant 0) to a struct field F: it assigns the
// elements, appends, or hands the vector to a filling (or unknown) function — unless no function of the module needs the
// elements of F (no method dereferences x.F[k], none passes x.F to a function that needs them).

type nePair struct {
	fn  *types.Func
	idx int
}

type neInfo struct {
	fills map[nePair]bool
	needs map[nePair]bool
	// fields whose elements some function dereferences / passes to a needing function, with one witness
	fieldNeeds map[*types.Var]string
}

var neCache = map[*core.Program]*neInfo{}

func isPtrSlice(t types.Type) bool {
	if t == nil {
		return false
	}
	sl, ok := t.Underlying().(*types.Slice)
	if !ok {
		return false
	}
	_, ok = sl.Elem().Underlying().(*types.Pointer)
	return ok
}

func neCompute(c *core.Ctx) *neInfo {
	if r, ok := neCache[c.Program]; ok {
		return r
	}
	res := &neInfo{fills: map[nePair]bool{}, needs: map[nePair]bool{}, fieldNeeds: map[*types.Var]string{}}
	type fdecl struct {
		pk  *packages.Package
		fd  *ast.FuncDecl
		fn  *types.Func
		idx map[types.Object]int
	}
	var decls []fdecl
	c.FuncDecls(func(pk *packages.Package, file *ast.File, fd *ast.FuncDecl) {
		if fd.Body == nil {
			return
		}
		fn, _ := pk.TypesInfo.Defs[fd.Name].(*types.Func)
		if fn == nil {
			return
		}
		sig := fn.Type().(*types.Signature)
		idx := map[types.Object]int{}
		for i := 0; i < sig.Params().Len(); i++ {
			if isPtrSlice(sig.Params().At(i).Type()) {
				idx[sig.Params().At(i)] = i
			}
		}
		decls = append(decls, fdecl{pk, fd, funcOrigin(fn), idx})
	})
	// element dereference: X[k].sel / *X[k]  -> returns X
	derefBase := func(n ast.Node) ast.Expr {
		switch v := n.(type) {
		case *ast.SelectorExpr:
			if ix, ok := unparen(v.X).(*ast.IndexExpr); ok {
				return ix.X
			}
		case *ast.StarExpr:
			if ix, ok := unparen(v.X).(*ast.IndexExpr); ok {
				return ix.X
			}
		}
		return nil
	}
	for iter := 0; iter < 8; iter++ {
		changed := false
		for _, d := range decls {
			if len(d.idx) == 0 {
				continue
			}
			info := d.pk.TypesInfo
			ast.Inspect(d.fd.Body, func(x ast.Node) bool {
				switch v := x.(type) {
				case *ast.AssignStmt:
					for _, l := range v.Lhs {
						if ix, ok := unparen(l).(*ast.IndexExpr); ok {
							if i, ok := d.idx[identObj(info, ix.X)]; ok && !res.fills[nePair{d.fn, i}] {
								res.fills[nePair{d.fn, i}] = true
								changed = true
							}
						}
					}
				case *ast.CallExpr:
					if f := calleeFunc(info, v); f != nil {
						fo := funcOrigin(f)
						for ai, a := range v.Args {
							i, ok := d.idx[identObj(info, a)]
							if !ok {
								continue
							}
							if res.fills[nePair{fo, ai}] && !res.fills[nePair{d.fn, i}] {
								res.fills[nePair{d.fn, i}] = true
								changed = true
							}
							if res.needs[nePair{fo, ai}] && !res.needs[nePair{d.fn, i}] {
								res.needs[nePair{d.fn, i}] = true
								changed = true
							}
						}
					}
				}
				if b := derefBase(x); b != nil {
					if i, ok := d.idx[identObj(info, b)]; ok && !res.needs[nePair{d.fn, i}] {
						res.needs[nePair{d.fn, i}] = true
						changed = true
					}
				}
				return true
			})
		}
		if !changed {
			break
		}
	}
	// a function that fills does not need
	for p := range res.fills {
		delete(res.needs, p)
	}
	// fields
	fieldOf := func(info *types.Info, e ast.Expr) *types.Var {
		se, ok := unparen(e).(*ast.SelectorExpr)
		if !ok {
			return nil
		}
		sel := info.Selections[se]
		if sel == nil || sel.Kind() != types.FieldVal {
			return nil
		}
		v, _ := sel.Obj().(*types.Var)
		if v == nil || !isPtrSlice(v.Type()) {
			return nil
		}
		return v
	}
	for _, d := range decls {
		if fileIsTestSupport(c.Program, d.fd.Pos()) {
			continue
		}
		info := d.pk.TypesInfo
		ast.Inspect(d.fd.Body, func(x ast.Node) bool {
			if b := derefBase(x); b != nil {
				if fv := fieldOf(info, b); fv != nil {
					if _, ok := res.fieldNeeds[fv]; !ok {
						res.fieldNeeds[fv] = core.FuncKey(d.pk, d.fd) + " at " + c.Rel(x.Pos())
					}
				}
			}
			if call, ok := x.(*ast.CallExpr); ok {
				if f := calleeFunc(info, call); f != nil {
					fo := funcOrigin(f)
					for ai, a := range call.Args {
						if fv := fieldOf(info, a); fv != nil && res.needs[nePair{fo, ai}] {
							if _, ok := res.fieldNeeds[fv]; !ok {
								res.fieldNeeds[fv] = core.FuncKey(d.pk, d.fd) + " passes it to " + fo.Name() + " at " + c.Rel(call.Pos())
							}
						}
					}
				}
			}
			return true
		})
	}
	neCache[c.Program] = res
	return res
}

func scanNilElems(c *core.Ctx) []ob {
	var out []ob
	n := 0
	ne := neCompute(c)
	c.FuncDecls(func(pk *packages.Package, file *ast.File, fd *ast.FuncDecl) {
		if fd.Body == nil || fileIsTestSupport(c.Program, fd.Pos()) || inExamples(pk) {
			return
		}
		info := pk.TypesInfo
		fkey := core.FuncKey(pk, fd)
		isPtrSliceMake := func(e ast.Expr) bool {
			call, ok := unparen(e).(*ast.CallExpr)
			if !ok || len(call.Args) < 2 {
				return false
			}
			id, ok := unparen(call.Fun).(*ast.Ident)
			if !ok {
				return false
			}
			if b, ok := info.Uses[id].(*types.Builtin); !ok || b.Name() != "make" {
				return false
			}
			if !isPtrSlice(info.TypeOf(call.Args[0])) {
				return false
			}
			if tv, ok := info.Types[call.Args[1]]; ok && tv.Value != nil && tv.Value.String() == "0" {
				return false
			}
			return true
		}
		// populated: the function assigns an element of field fv, appends to it, or passes it to a filling / unknown callee
		populated := func(fv *types.Var, local types.Object) bool {
			ok := false
			isF := func(e ast.Expr) bool {
				if local != nil && identObj(info, e) == local {
					return true
				}
				se, isSel := unparen(e).(*ast.SelectorExpr)
				if !isSel {
					return false
				}
				sel := info.Selections[se]
				return sel != nil && sel.Obj() == fv
			}
			ast.Inspect(fd.Body, func(x ast.Node) bool {
				if ok {
					return false
				}
				switch v := x.(type) {
				case *ast.AssignStmt:
					for _, l := range v.Lhs {
						if ix, isIx := unparen(l).(*ast.IndexExpr); isIx && isF(ix.X) {
							ok = true
						}
					}
				case *ast.CallExpr:
					if id, isId := unparen(v.Fun).(*ast.Ident); isId {
						if b, isB := info.Uses[id].(*types.Builtin); isB {
							if (b.Name() == "append" || b.Name() == "copy") && len(v.Args) > 0 && isF(v.Args[0]) {
								ok = true
							}
							return true
						}
					}
					f := calleeFunc(info, v)
					for ai, a := range v.Args {
						if !isF(a) {
							continue
						}
						if f == nil || f.Pkg() == nil || !strings.HasPrefix(f.Pkg().Path(), core.ModPath) {
							ok = true // unknown callee: may fill
						} else if ne.fills[nePair{funcOrigin(f), ai}] {
							ok = true
						}
					}
				}
				return true
			})
			return ok
		}
		check := func(fv *types.Var, at token.Pos, mk ast.Expr, local types.Object) {
			n++
			key := fmt.Sprintf("NILELEMS:%s#%s", fkey, fv.Name())
			wit, needed := ne.fieldNeeds[fv]
			switch {
			case populated(fv, local):
				out = append(out, withProps(okOb("NILELEMS", key, c.Rel(at), "the allocated vector of pointers is populated in the same function", true), nilElemsProps(fkey)...))
			case !needed:
				out = append(out, withProps(okOb("NILELEMS", key, c.Rel(at), "no function of the module writes into the elements of this vector without allocating them itself", false), nilElemsProps(fkey)...))
			default:
				out = append(out, withProps(violOb("NILELEMS", key, c.Rel(at), fmt.Sprintf("%s sets the field %s to %s and never allocates its elements, while %s uses the elements as allocated: a nil pointer dereference for the values built here", fkey, fv.Name(), exprString(mk), wit)), nilElemsProps(fkey)...))
			}
		}
		// locals bound to a fresh vector that flow into a field: v := make(..) ... T{F: v} / x.F = v
		locals := map[types.Object]ast.Expr{}
		ast.Inspect(fd.Body, func(x ast.Node) bool {
			switch v := x.(type) {
			case *ast.AssignStmt:
				if len(v.Lhs) == len(v.Rhs) {
					for i, r := range v.Rhs {
						if isPtrSliceMake(r) {
							if id, ok := unparen(v.Lhs[i]).(*ast.Ident); ok {
								if o := identObj(info, id); o != nil {
									locals[o] = r
								}
							}
						}
					}
				}
			case *ast.ValueSpec:
				for i, r := range v.Values {
					if i < len(v.Names) && isPtrSliceMake(r) {
						if o := info.Defs[v.Names[i]]; o != nil {
							locals[o] = r
						}
					}
				}
			}
			return true
		})
		if len(locals) > 0 {
			ast.Inspect(fd.Body, func(x ast.Node) bool {
				switch v := x.(type) {
				case *ast.AssignStmt:
					if len(v.Lhs) != len(v.Rhs) {
						return true
					}
					for i, r := range v.Rhs {
						mk, isLocal := locals[identObj(info, r)]
						if !isLocal {
							continue
						}
						if se, ok := unparen(v.Lhs[i]).(*ast.SelectorExpr); ok {
							if sel := info.Selections[se]; sel != nil && sel.Kind() == types.FieldVal {
								if fv, ok := sel.Obj().(*types.Var); ok {
									check(fv, v.Pos(), mk, identObj(info, r))
								}
							}
						}
					}
				case *ast.CompositeLit:
					st := structOf(info.TypeOf(v))
					if st == nil {
						return true
					}
					for _, el := range v.Elts {
						kv, ok := el.(*ast.KeyValueExpr)
						if !ok {
							continue
						}
						mk, isLocal := locals[identObj(info, kv.Value)]
						k, isId := kv.Key.(*ast.Ident)
						if !isLocal || !isId {
							continue
						}
						for i := 0; i < st.NumFields(); i++ {
							if st.Field(i).Name() == k.Name {
								check(st.Field(i), kv.Pos(), mk, identObj(info, kv.Value))
							}
						}
					}
				}
				return true
			})
		}
		ast.Inspect(fd.Body, func(x ast.Node) bool {
			switch v := x.(type) {
			case *ast.AssignStmt:
				if len(v.Lhs) != len(v.Rhs) {
					return true
				}
				for i, r := range v.Rhs {
					if !isPtrSliceMake(r) {
						continue
					}
					if se, ok := unparen(v.Lhs[i]).(*ast.SelectorExpr); ok {
						if sel := info.Selections[se]; sel != nil && sel.Kind() == types.FieldVal {
							if fv, ok := sel.Obj().(*types.Var); ok {
								check(fv, v.Pos(), r, nil)
							}
						}
					}
				}
			case *ast.CompositeLit:
				st := structOf(info.TypeOf(v))
				if st == nil {
					return true
				}
				for _, el := range v.Elts {
					kv, ok := el.(*ast.KeyValueExpr)
					if !ok || !isPtrSliceMake(kv.Value) {
						continue
					}
					k, ok := kv.Key.(*ast.Ident)
					if !ok {
						continue
					}
					for i := 0; i < st.NumFields(); i++ {
						if st.Field(i).Name() == k.Name {
							check(st.Field(i), kv.Pos(), kv.Value, nil)
						}
					}
				}
			}
			return true
		})
	})
	c.Stats["nilelems_sites"] = n
	return out
}

func nilElemsProps(fkey string) []string {
	switch {
	case strings.Contains(fkey, "ShallowCopy") || strings.Contains(fkey, "CopyNew") || strings.Contains(fkey, "WithKey") || strings.Contains(fkey, "Clone"):
		return []string{"C10"}
	case strings.HasPrefix(fkey, "schemes/bgv") || strings.HasPrefix(fkey, "schemes/ckks"):
		if strings.Contains(strings.ToLower(fkey), "encod") {
			return []string{"C07", "C10"}
		}
		return []string{"C10"}
	}
	return []string{"C10"}
}

func init() {
	core.Register(&core.Rule{Name: "NILELEMS", Props: []string{"C07", "C10"},
		Doc: "a struct field of type []*T that some function of the module dereferences element-wise without allocating the elements (directly, or through a callee that does: fixpoint of fills/needs per pointer-slice parameter) is populated by every function that sets it to a freshly made vector",
		Run: func(c *core.Ctx) []ob {
			out := scanNilElems(c)
			for _, o := range control(c, "NILELEMS", scanNilElems, "lvfixture.newScratch#buf") {
				out = append(out, withProps(o, "C07", "C10"))
			}
			for _, o := range core.Floor("NILELEMS", nil, "fields set to a fresh vector of pointers", c.Stats["nilelems_sites"], 6) {
				out = append(out, withProps(o, "C07", "C10"))
			}
			return out
		}})
}
