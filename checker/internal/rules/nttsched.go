package rules

import (
	"fmt"
	"go/ast"
	"go/token"
	"go/types"
	"sort"
	"strings"
	"sync"

	"lvcheck/internal/core"
)

// NTTSCHED — the implementations of one transform agree on which coefficients and which twiddle factor every
// coefficient is combined with, layer after layer.
//
// ntt.go keeps two or three implementations of every transform: a generic loop nest (used below the unrolling
// threshold), a hand-unrolled one, and the dispatcher that picks one by N. The existing tests run N >= 2^10 almost
// exclusively, the unrolled code; the generic code is what a user of a small ring (or of a sub-ring in ring packing)
// gets. The rule runs every implementation reachable from an exported transform with the abstract interpreter of QRANGE
// in exact mode (all loops and indices concrete, coefficient *values* abstract) and records, for every store into a
// coefficient, the set of coefficients and table entries the stored value was computed from (pure dataflow: inlining a
// butterfly, renaming it or re-rolling a window does not change it). Input and output are analysed as one slice (a
// transform must be correct in place), stores that depend on the cell itself only (copies, final scaling and reduction)
// are not events. For every ring degree at which two implementations both run to completion, the per-coefficient
// sequences of dependency sets must be identical. This decides agreement of the butterfly/twiddle schedule between
// the siblings, not the correctness of the schedule they share nor the arithmetic inside a butterfly (QRANGE, TWIN).

const nttSchedMaxLogN = 9
const nttSchedMaxLogNThorough = 12

type schedRun struct {
	complete bool
	stores   int
	hist     map[string][]string
	pos      map[string][]token.Pos
	probs    []qProblem
}

type transformSig struct {
	slices []*ast.Ident
	n, q   *ast.Ident
	others []*ast.Ident
}

func transformSigOf(info *types.Info, fd *ast.FuncDecl) (transformSig, bool) {
	var ts transformSig
	if fd.Recv != nil || fd.Body == nil {
		return ts, false
	}
	for _, fl := range fd.Type.Params.List {
		for _, nm := range fl.Names {
			t := info.TypeOf(nm)
			if sl, ok := t.Underlying().(*types.Slice); ok && isUint64(sl.Elem()) {
				ts.slices = append(ts.slices, nm)
			} else if nm.Name == "N" && isIntLike(t) {
				ts.n = nm
			} else if nm.Name == "Q" && isUint64(t) {
				ts.q = nm
			} else {
				ts.others = append(ts.others, nm)
			}
		}
	}
	return ts, len(ts.slices) >= 3 && ts.n != nil && ts.q != nil
}

func runSched(c *core.Ctx, info *types.Info, decls map[*types.Func]*ast.FuncDecl, fd *ast.FuncDecl, ts transformSig, logN int) schedRun {
	q := &qInterp{c: c, info: info, decls: decls, cells: map[string]qitv{}, exact: true, slen: map[string]int64{}, trackDeps: true, hist: map[string][]string{}, histPos: map[string][]token.Pos{}}
	fr := newQFrame()
	outSym := ts.slices[1].Name
	for i, s := range ts.slices {
		name := s.Name
		if i == 0 {
			name = outSym // in place: the input is the output
		}
		fr.sym[info.Defs[s]] = name
		fr.base[info.Defs[s]] = ival{true, 0}
		q.cells[name] = qbelow(1)
		if i < 2 {
			q.slen[name] = 1 << uint(logN)
		}
	}
	fr.n[info.Defs[ts.n]] = ival{true, 1 << uint(logN)}
	fr.u[info.Defs[ts.q]] = qmul(1)
	for _, o := range ts.others {
		if isUint64(info.TypeOf(o)) {
			fr.u[info.Defs[o]] = qTop
		}
	}
	q.block(fr, fd.Body.List)
	res := schedRun{hist: map[string][]string{}, pos: map[string][]token.Pos{}}
	if q.steps > qStepLimit {
		res.probs = append(res.probs, qProblem{fd.Pos(), "budget", "abstract execution exceeded its step budget"})
	}
	for _, p := range q.probs {
		if p.kind == "index" {
			res.probs = append(res.probs, p)
		}
	}
	cells := 0
	for k, h := range q.hist {
		if !strings.HasPrefix(k, outSym+"#") {
			continue
		}
		cells++
		res.stores += len(h)
		for i, d := range h {
			if d == k || d == "" {
				continue // a copy or a rescaling of the cell itself
			}
			res.hist[k] = append(res.hist[k], d)
			res.pos[k] = append(res.pos[k], q.histPos[k][i])
		}
	}
	res.complete = cells == 1<<uint(logN)
	if cells != 0 && !res.complete {
		res.probs = append(res.probs, qProblem{fd.Pos(), "coverage", fmt.Sprintf("%d of the %d coefficients of %s were stored", cells, 1<<uint(logN), outSym)})
	}
	return res
}

func scanNTTSched(c *core.Ctx) []ob {
	var out []ob
	groups, compared, mirrors := 0, 0, 0
	maxLogN := nttSchedMaxLogN
	if c.Tier == "thorough" {
		maxLogN = nttSchedMaxLogNThorough
	}
	for _, pk := range c.Pkgs {
		if !(c.IsFixture || core.ShortPkg(pk.PkgPath) == "ring") {
			continue
		}
		info := pk.TypesInfo
		decls := map[*types.Func]*ast.FuncDecl{}
		sigs := map[*types.Func]transformSig{}
		var fns []*types.Func
		for _, f := range pk.Syntax {
			if fileIsTestSupport(c.Program, f.Pos()) {
				continue
			}
			for _, d := range f.Decls {
				if fd, ok := d.(*ast.FuncDecl); ok && fd.Body != nil {
					if o, ok := info.Defs[fd.Name].(*types.Func); ok {
						decls[o] = fd
						if ts, ok := transformSigOf(info, fd); ok {
							// a whole transform is determined by N: a helper that also takes a layer size, an offset or
							// a flag is a piece of one and cannot be run on its own
							whole := true
							for _, p := range ts.others {
								if t := info.TypeOf(p); isIntLike(t) || types.Identical(t.Underlying(), types.Typ[types.Bool]) {
									whole = false
								}
							}
							if whole || o.Exported() {
								sigs[o] = ts
								fns = append(fns, o)
							}
						}
					}
				}
			}
		}
		sort.Slice(fns, func(i, j int) bool { return fns[i].Name() < fns[j].Name() })
		callees := func(o *types.Func) []*types.Func {
			var r []*types.Func
			ast.Inspect(decls[o].Body, func(x ast.Node) bool {
				switch v := x.(type) {
				case *ast.CallExpr:
					if g := calleeFunc(info, v); g != nil && decls[funcOrigin(g)] != nil {
						r = append(r, funcOrigin(g))
					}
				case *ast.Ident:
					// a function mentioned by name (kept in a local, passed on) may be called
					if g, ok := info.Uses[v].(*types.Func); ok && decls[funcOrigin(g)] != nil {
						r = append(r, funcOrigin(g))
					}
				}
				return true
			})
			return r
		}
		seenGroup := map[string]bool{}
		// firstRun[entry][logN]: the schedule of the first implementation that completes, for the mirror comparison
		firstRun := map[string][]schedRun{}
		entryDecl := map[string]*ast.FuncDecl{}
		for _, e := range fns {
			if !e.Exported() {
				continue
			}
			// implementations: transform-shaped functions reachable from the exported entry point
			reach := map[*types.Func]bool{}
			var walk func(o *types.Func, d int)
			walk = func(o *types.Func, d int) {
				if reach[o] || d > 4 {
					return
				}
				reach[o] = true
				for _, g := range callees(o) {
					walk(g, d+1)
				}
			}
			walk(e, 0)
			var impls []*types.Func
			for _, o := range fns {
				if reach[o] && o != e && !o.Exported() {
					impls = append(impls, o)
				}
			}
			if len(impls) < 2 {
				continue
			}
			var names []string
			for _, o := range impls {
				names = append(names, o.Name())
			}
			gk := strings.Join(names, ",")
			if seenGroup[gk] {
				continue
			}
			seenGroup[gk] = true
			groups++
			key := "NTTSCHED:" + core.FuncKey(pk, decls[e])
			// runs[impl][logN]
			runs := make([][]schedRun, len(impls))
			var wg sync.WaitGroup
			sem := make(chan struct{}, 16)
			for i := range impls {
				runs[i] = make([]schedRun, maxLogN+1)
				for logN := 3; logN <= maxLogN; logN++ {
					wg.Add(1)
					sem <- struct{}{}
					go func(i, logN int) {
						defer wg.Done()
						defer func() { <-sem }()
						runs[i][logN] = runSched(c, info, decls, decls[impls[i]], sigs[impls[i]], logN)
					}(i, logN)
				}
			}
			wg.Wait()
			// a candidate that one of the other candidates calls and that does strictly less than its caller (a first
			// layer, a fold step with the signature of a transform) is a part of an implementation, not one
			part := make([]bool, len(impls))
			for ci, cfn := range impls {
				called := map[*types.Func]bool{}
				for _, g := range callees(cfn) {
					called[g] = true
				}
				for di, dfn := range impls {
					if di == ci || !called[dfn] {
						continue
					}
					less, cmp := true, 0
					for logN := 3; logN <= maxLogN; logN++ {
						rc, rd := runs[ci][logN], runs[di][logN]
						if !rc.complete || !rd.complete {
							continue
						}
						cmp++
						nc, nd := 0, 0
						for _, h := range rc.hist {
							nc += len(h)
						}
						for _, h := range rd.hist {
							nd += len(h)
						}
						if nd >= nc {
							less = false
						}
					}
					if cmp > 0 && less {
						part[di] = true
					}
				}
			}
			var bad, inc []string
			var badPos token.Pos
			pairs := 0
			var degrees []int
			firstRun[e.Name()] = make([]schedRun, maxLogN+1)
			entryDecl[e.Name()] = decls[e]
			for logN := 3; logN <= maxLogN; logN++ {
				ref := -1
				for i := range impls {
					if part[i] {
						continue
					}
					r := runs[i][logN]
					for _, p := range r.probs {
						if len(inc) < 4 {
							inc = append(inc, fmt.Sprintf("N=2^%d, %s: %s (%s)", logN, impls[i].Name(), p.msg, c.Rel(p.pos)))
						}
					}
					if !r.complete {
						continue
					}
					if ref < 0 {
						ref = i
						firstRun[e.Name()][logN] = r
						continue
					}
					pairs++
					a, b := runs[ref][logN], r
					if diff, pos := schedDiff(a, b, impls[ref].Name(), impls[i].Name(), ts0(sigs[impls[i]])); diff != "" {
						if len(bad) < 4 {
							bad = append(bad, fmt.Sprintf("N=2^%d: %s", logN, diff))
						}
						if badPos == token.NoPos {
							badPos = pos
						}
					}
				}
				if ref >= 0 {
					degrees = append(degrees, logN)
				}
			}
			compared += pairs
			switch {
			case len(bad) > 0:
				out = append(out, violOb("NTTSCHED", key, c.Rel(badPos), fmt.Sprintf("the implementations behind %s (%s) do not combine the same coefficients with the same table entries: %s", e.Name(), gk, strings.Join(bad, "; "))))
			case len(inc) > 0:
				out = append(out, incOb("NTTSCHED", key, c.Rel(decls[e].Pos()), fmt.Sprintf("the schedule of %s could not be established: %s", e.Name(), strings.Join(inc, "; "))))
			case pairs == 0:
				out = append(out, incOb("NTTSCHED", key, c.Rel(decls[e].Pos()), fmt.Sprintf("no ring degree in 2^3..2^%d at which two of the implementations of %s (%s) run to completion", maxLogN, e.Name(), gk)))
			default:
				out = append(out, okOb("NTTSCHED", key, c.Rel(decls[e].Pos()), fmt.Sprintf("%s: %d pairwise comparisons over log2(N) in %v, every coefficient is combined with the same coefficients and table entries in the same order by %s (input and output analysed as one slice; coefficient values abstract)", e.Name(), pairs, degrees, gk), true))
			}
		}
		// forward against inverse: the inverse undoes the layers of the forward transform in the opposite order, so every
		// coefficient meets the same partners in reverse, and the table index of an inverse butterfly is the one the forward
		// butterfly of the mirrored step used (the two tables are indexed alike: RootsBackward[k] = RootsForward[k]^-1)
		var names []string
		for n := range firstRun {
			names = append(names, n)
		}
		sort.Strings(names)
		for _, n := range names {
			inv, ok := firstRun["I"+n]
			if !ok {
				continue
			}
			fwd := firstRun[n]
			key := "NTTSCHED:" + core.FuncKey(pk, entryDecl[n]) + "#mirror"
			var bad []string
			var badPos token.Pos
			cmp := 0
			for logN := 3; logN <= maxLogN; logN++ {
				if !fwd[logN].complete || !inv[logN].complete {
					continue
				}
				cmp++
				if d, pos := mirrorDiff(fwd[logN], inv[logN], n, "I"+n); d != "" {
					if len(bad) < 3 {
						bad = append(bad, fmt.Sprintf("N=2^%d: %s", logN, d))
					}
					if badPos == token.NoPos {
						badPos = pos
					}
				}
			}
			mirrors++
			switch {
			case len(bad) > 0:
				out = append(out, violOb("NTTSCHED", key, c.Rel(badPos), fmt.Sprintf("%s does not undo the layers of %s in the opposite order: %s", "I"+n, n, strings.Join(bad, "; "))))
			case cmp == 0:
				out = append(out, incOb("NTTSCHED", key, c.Rel(entryDecl[n].Pos()), fmt.Sprintf("no ring degree at which both %s and I%s run to completion", n, n)))
			default:
				out = append(out, okOb("NTTSCHED", key, c.Rel(entryDecl[n].Pos()), fmt.Sprintf("for %d ring degrees every coefficient meets in I%s the partners it met in %s in the opposite order, with the table index of the mirrored step", cmp, n, n), true))
			}
		}
	}
	c.Stats["nttsched_mirrors"] = mirrors
	c.Stats["nttsched_groups"] = groups
	c.Stats["nttsched_pairs"] = compared
	return out
}

// splitDeps separates the coefficient cells and the table entries of a dependency set.
func splitDeps(d, self string) (cells, tabs string) {
	var cs, ts []string
	for _, p := range strings.Split(d, ",") {
		if p == "" {
			continue
		}
		if strings.HasPrefix(p, strings.SplitN(self, "#", 2)[0]+"#") {
			cs = append(cs, p)
		} else {
			ts = append(ts, p)
		}
	}
	return strings.Join(cs, ","), strings.Join(ts, ",")
}

func mirrorDiff(fwd, inv schedRun, nf, ni string) (string, token.Pos) {
	ks := make([]string, 0, len(fwd.hist))
	for k := range fwd.hist {
		ks = append(ks, k)
	}
	for k := range inv.hist {
		if _, ok := fwd.hist[k]; !ok {
			ks = append(ks, k)
		}
	}
	sort.Slice(ks, func(i, j int) bool {
		if len(ks[i]) != len(ks[j]) {
			return len(ks[i]) < len(ks[j])
		}
		return ks[i] < ks[j]
	})
	show := func(k string) string { return strings.ReplaceAll(k, "#", "[") + "]" }
	showSet := func(d string) string {
		var ps []string
		for _, p := range strings.Split(d, ",") {
			ps = append(ps, show(p))
		}
		return "{" + strings.Join(ps, ", ") + "}"
	}
	for _, k := range ks {
		hf, hi := fwd.hist[k], inv.hist[k]
		if len(hf) != len(hi) {
			pos := token.NoPos
			if len(hi) > 0 {
				pos = inv.pos[k][0]
			} else if len(hf) > 0 {
				pos = fwd.pos[k][0]
			}
			return fmt.Sprintf("%s is updated %d times by %s and %d times by %s", show(k), len(hf), nf, len(hi), ni), pos
		}
		L := len(hf)
		for s := 0; s < L; s++ {
			cf, tf := splitDeps(hf[s], k)
			ci, ti := splitDeps(hi[L-1-s], k)
			if cf != ci {
				return fmt.Sprintf("update %d of %s by %s combines %s, the mirrored update %d by %s combines %s", s+1, show(k), nf, showSet(cf), L-s, ni, showSet(ci)), inv.pos[k][L-1-s]
			}
			if ti != "" && ti != tf {
				return fmt.Sprintf("update %d of %s by %s uses %s, the mirrored update %d by %s uses %s", s+1, show(k), nf, showSet(tf), L-s, ni, showSet(ti)), inv.pos[k][L-1-s]
			}
		}
	}
	return "", token.NoPos
}

func ts0(ts transformSig) string { return ts.slices[1].Name }

// schedDiff returns the first difference between two schedules (cells in index order, then steps).
func schedDiff(a, b schedRun, na, nb, outSym string) (string, token.Pos) {
	keys := map[string]bool{}
	for k := range a.hist {
		keys[k] = true
	}
	for k := range b.hist {
		keys[k] = true
	}
	ks := make([]string, 0, len(keys))
	for k := range keys {
		ks = append(ks, k)
	}
	sort.Slice(ks, func(i, j int) bool {
		if len(ks[i]) != len(ks[j]) {
			return len(ks[i]) < len(ks[j])
		}
		return ks[i] < ks[j]
	})
	show := func(k string) string { return strings.ReplaceAll(k, "#", "[") + "]" }
	showSet := func(d string) string {
		var ps []string
		for _, p := range strings.Split(d, ",") {
			ps = append(ps, show(p))
		}
		return "{" + strings.Join(ps, ", ") + "}"
	}
	for _, k := range ks {
		ha, hb := a.hist[k], b.hist[k]
		for i := 0; i < len(ha) || i < len(hb); i++ {
			switch {
			case i >= len(ha):
				return fmt.Sprintf("%s is updated %d times by %s and %d times by %s", show(k), len(ha), na, len(hb), nb), b.pos[k][i]
			case i >= len(hb):
				return fmt.Sprintf("%s is updated %d times by %s and %d times by %s", show(k), len(ha), na, len(hb), nb), a.pos[k][i]
			case ha[i] != hb[i]:
				return fmt.Sprintf("update %d of %s is computed from %s by %s and from %s by %s", i+1, show(k), showSet(ha[i]), na, showSet(hb[i]), nb), b.pos[k][i]
			}
		}
	}
	return "", token.NoPos
}

func init() {
	core.Register(&core.Rule{Name: "NTTSCHED", Props: []string{"C01"},
		Doc: "the generic, the unrolled and the dispatching implementation behind every exported transform of ring/ntt.go combine, at every ring degree where two of them run (2^3..2^9, thorough 2^12), every coefficient with the same coefficients and the same twiddle-table entries in the same order (dataflow of the stores under the exact-index abstract interpretation of QRANGE, input and output as one slice)",
		Run: func(c *core.Ctx) []ob {
			out := scanNTTSched(c)
			if !c.IsFixture {
				out = append(out, core.Floor("NTTSCHED", nil, "transform families", c.Stats["nttsched_groups"], 4)...)
				out = append(out, core.Floor("NTTSCHED", nil, "pairwise schedule comparisons", c.Stats["nttsched_pairs"], 40)...)
				out = append(out, core.Floor("NTTSCHED", nil, "forward/inverse pairs", c.Stats["nttsched_mirrors"], 2)...)
				out = append(out, control(c, "NTTSCHED", scanNTTSched, "lvfixture.SchedToy")...)
			}
			return out
		}})
}
