package rules

import (
	"fmt"
	"go/ast"
	"go/token"
	"go/types"

	"golang.org/x/tools/go/packages"

	"lvcheck/internal/core"
)

// ASSERTZERO — the result of a failed type assertion (or map lookup) is not used.
//
// After `v, ok := x.(T)` (or `v, ok := m[k]`) the branch in which ok is false holds the zero value of T in v: a nil
// pointer, an empty struct. Code that, on that branch, forwards v where it meant to forward x
// (`if c, isRGSW = ct.(*Ciphertext); !isRGSW { return enc.Encryptor.EncryptZero(c) }`) compiles, and fails or
// silently does nothing for every input of the "other" kinds the method documents it accepts.
//
// The rule finds every two-valued assertion / lookup whose flag is tested by the enclosing or the next `if`, and
// reports a use of the value variable inside the branch where the flag is false (before any re-assignment of it).

func scanAssertZero(c *core.Ctx) []ob {
	var out []ob
	n := 0
	c.FuncDecls(func(pk *packages.Package, file *ast.File, fd *ast.FuncDecl) {
		if fd.Body == nil || fileIsTestSupport(c.Program, fd.Pos()) || inExamples(pk) {
			return
		}
		info := pk.TypesInfo
		fkey := core.FuncKey(pk, fd)
		obj := func(e ast.Expr) types.Object {
			id, ok := unparen(e).(*ast.Ident)
			if !ok || id.Name == "_" {
				return nil
			}
			if o := info.Defs[id]; o != nil {
				return o
			}
			return info.Uses[id]
		}
		// commaOk returns (value object, flag object) of `v, ok (:)= x.(T)` / `m[k]`
		commaOk := func(st ast.Stmt) (types.Object, types.Object, string) {
			as, ok := st.(*ast.AssignStmt)
			if !ok || len(as.Lhs) != 2 || len(as.Rhs) != 1 {
				return nil, nil, ""
			}
			kind := ""
			switch r := unparen(as.Rhs[0]).(type) {
			case *ast.TypeAssertExpr:
				if r.Type == nil {
					return nil, nil, ""
				}
				kind = "type assertion " + exprString(r)
			case *ast.IndexExpr:
				if tv, ok := info.Types[r.X]; ok {
					if _, isMap := tv.Type.Underlying().(*types.Map); isMap {
						kind = "map lookup " + exprString(r)
					}
				}
			}
			if kind == "" {
				return nil, nil, ""
			}
			v, f := obj(as.Lhs[0]), obj(as.Lhs[1])
			if v == nil || f == nil {
				return nil, nil, ""
			}
			return v, f, kind
		}
		// falseBranch: the block executed when flag is false, for a condition that is `!flag` or `flag`
		falseBranch := func(is *ast.IfStmt, flag types.Object) ast.Stmt {
			cond := unparen(is.Cond)
			if u, ok := cond.(*ast.UnaryExpr); ok && u.Op == token.NOT && obj(u.X) == flag {
				return is.Body
			}
			if obj(cond) == flag && is.Else != nil {
				return is.Else
			}
			return nil
		}
		check := func(v, flag types.Object, kind string, is *ast.IfStmt) {
			br := falseBranch(is, flag)
			n++
			key := fmt.Sprintf("ASSERTZERO:%s#%s", fkey, v.Name())
			if br == nil {
				return
			}
			// first use of v in the branch, unless it is assigned first
			var use *ast.Ident
			assigned := false
			ast.Inspect(br, func(x ast.Node) bool {
				if use != nil || assigned {
					return false
				}
				switch y := x.(type) {
				case *ast.CallExpr:
					// a diagnostic that prints the (zero) value or its type is not a use of it as the operand
					if isDiagnosticCall(info, y) {
						return false
					}
				case *ast.AssignStmt:
					for _, r := range y.Rhs {
						ast.Inspect(r, func(z ast.Node) bool {
							if id, ok := z.(*ast.Ident); ok && info.Uses[id] == v && use == nil {
								use = id
							}
							return true
						})
					}
					if use != nil {
						return false
					}
					for _, l := range y.Lhs {
						if obj(l) == v {
							assigned = true
						}
					}
					return false
				case *ast.Ident:
					if info.Uses[y] == v {
						use = y
					}
				}
				return true
			})
			if use != nil {
				out = append(out, withProps(violOb("ASSERTZERO", key, c.Rel(use.Pos()),
					fmt.Sprintf("%s uses %s on the branch where the %s has failed: it holds the zero value there (a nil pointer / empty value), not the operand", fkey, v.Name(), kind)), azProps(fkey)...))
			} else {
				out = append(out, withProps(okOb("ASSERTZERO", key, c.Rel(is.Pos()), "the value is not used on the branch where the "+kind+" has failed", true), azProps(fkey)...))
			}
		}
		ast.Inspect(fd.Body, func(x ast.Node) bool {
			switch y := x.(type) {
			case *ast.IfStmt:
				if y.Init != nil {
					if v, f, kind := commaOk(y.Init); v != nil {
						check(v, f, kind, y)
					}
				}
			case *ast.BlockStmt:
				for i := 0; i+1 < len(y.List); i++ {
					if v, f, kind := commaOk(y.List[i]); v != nil {
						if is, ok := y.List[i+1].(*ast.IfStmt); ok && is.Init == nil {
							check(v, f, kind, is)
						}
					}
				}
			}
			return true
		})
	})
	c.Stats["assertzero_sites"] = n
	return out
}

func init() {
	core.Register(&core.Rule{Name: "ASSERTZERO", Props: []string{"C03", "C04", "C05", "C06", "C11", "C12", "C13", "C14", "C16", "C18", "C20"},
		Doc: "the value of a two-valued type assertion or map lookup is not used on the branch where its flag is false (it is the zero value there, not the operand)",
		Run: func(c *core.Ctx) []ob {
			out := scanAssertZero(c)
			out = append(out, control(c, "ASSERTZERO", scanAssertZero, "lvfixture.zeroFwd#t")...)
			out = append(out, core.Floor("ASSERTZERO", nil, "comma-ok sites tested by an if", c.Stats["assertzero_sites"], 20)...)
			return out
		}})
}

func azProps(fkey string) []string {
	p := bufProps(fkey)
	if len(fkey) > 9 && fkey[:9] == "core/rgsw" {
		return []string{"C20", "C03"}
	}
	return p
}

func isDiagnosticCall(info *types.Info, call *ast.CallExpr) bool {
	switch f := unparen(call.Fun).(type) {
	case *ast.Ident:
		if b, ok := info.Uses[f].(*types.Builtin); ok && b.Name() == "panic" {
			return true
		}
	case *ast.SelectorExpr:
		if fn, ok := info.Uses[f.Sel].(*types.Func); ok && fn.Pkg() != nil {
			switch fn.Pkg().Path() {
			case "fmt", "errors", "log":
				return true
			}
		}
	}
	return false
}
