package rules

import (
	"fmt"
	"go/ast"
	"go/parser"
	"go/token"
	"go/types"
	"regexp"
	"sort"
	"strconv"
	"strings"

	"golang.org/x/tools/go/packages"

	"lvcheck/internal/core"
)

// KALG — kernel algebra against the documented contract.
//
// For every exported (*ring.SubRing) method that forwards to one vector kernel, the first lane of the kernel is
// evaluated symbolically in the commutative ring Z[p1,p2,p3,scalars,R,Rinv]/(R*Rinv = 1) under the abstraction
//   CRed(a,q) = BRedAdd(a) = a,  MRed(a,b) = MRedLazy(a,b) = a*b*Rinv,  BRed(a,b) = a*b,
//   MForm(a) = a*R,  IMForm(a) = a*Rinv,  modulus = twomodulus = 0 (we work modulo q),
// and the result is compared with the formula the method's own doc comment states
// ("evaluates p3 = p3 - p1*p2 (mod modulus)"). Montgomery products are documented without the R^-1 factor,
// so unless the doc formula itself mentions 2^64 the comparison is made after R = Rinv = 1.
// This decides congruence of the kernel layer given correct primitives; LANE extends lane 0 to all lanes.

// poly is a multivariate polynomial with integer coefficients: monomial (sorted var list joined by *) -> coeff.
type poly map[string]int64

func pconst(c int64) poly {
	if c == 0 {
		return poly{}
	}
	return poly{"": c}
}
func pvar(v string) poly { return poly{v: 1} }

func (a poly) add(b poly, sign int64) poly {
	r := poly{}
	for k, v := range a {
		r[k] = v
	}
	for k, v := range b {
		r[k] += sign * v
		if r[k] == 0 {
			delete(r, k)
		}
	}
	return r
}

func mulMono(a, b string) string {
	var vs []string
	if a != "" {
		vs = append(vs, strings.Split(a, "*")...)
	}
	if b != "" {
		vs = append(vs, strings.Split(b, "*")...)
	}
	// R * Rinv = 1
	for {
		ri, rinv := -1, -1
		for i, v := range vs {
			if v == "R" && ri < 0 {
				ri = i
			}
			if v == "Rinv" && rinv < 0 {
				rinv = i
			}
		}
		if ri < 0 || rinv < 0 {
			break
		}
		var nv []string
		for i, v := range vs {
			if i != ri && i != rinv {
				nv = append(nv, v)
			}
		}
		vs = nv
	}
	sort.Strings(vs)
	return strings.Join(vs, "*")
}

func (a poly) mul(b poly) poly {
	r := poly{}
	for k1, v1 := range a {
		for k2, v2 := range b {
			m := mulMono(k1, k2)
			r[m] += v1 * v2
			if r[m] == 0 {
				delete(r, m)
			}
		}
	}
	return r
}

func (a poly) subst1(vars ...string) poly {
	r := poly{}
	for k, v := range a {
		var vs []string
		if k != "" {
			for _, x := range strings.Split(k, "*") {
				drop := false
				for _, d := range vars {
					if x == d {
						drop = true
					}
				}
				if !drop {
					vs = append(vs, x)
				}
			}
		}
		m := strings.Join(vs, "*")
		r[m] += v
		if r[m] == 0 {
			delete(r, m)
		}
	}
	return r
}

func (a poly) String() string {
	if len(a) == 0 {
		return "0"
	}
	ks := make([]string, 0, len(a))
	for k := range a {
		ks = append(ks, k)
	}
	sort.Strings(ks)
	var sb strings.Builder
	for i, k := range ks {
		v := a[k]
		if v >= 0 && i > 0 {
			sb.WriteString(" + ")
		} else if v < 0 {
			sb.WriteString(" - ")
			v = -v
		}
		if k == "" {
			sb.WriteString(strconv.FormatInt(v, 10))
		} else if v == 1 {
			sb.WriteString(k)
		} else {
			sb.WriteString(strconv.FormatInt(v, 10) + "*" + k)
		}
	}
	return sb.String()
}

func (a poly) equal(b poly) bool {
	if len(a) != len(b) {
		return false
	}
	for k, v := range a {
		if b[k] != v {
			return false
		}
	}
	return true
}

// symEnv evaluates Go expressions of a kernel lane symbolically.
type symEnv struct {
	info  *types.Info
	vals  map[types.Object]poly   // scalars / temporaries
	win   map[types.Object]string // window variable -> symbol of the slice it views
	slice map[types.Object]string // slice parameter -> symbol
	out   map[string]poly         // symbol of slice -> value stored in lane 0
	err   string
}

var primAbstraction = map[string]string{
	"CRed": "id", "BRedAdd": "id", "BRedAddLazy": "id",
	"MRed": "mulRinv", "MRedLazy": "mulRinv",
	"BRed": "mul", "BRedLazy": "mul",
	"MForm": "timesR", "MFormLazy": "timesR",
	"IMForm": "timesRinv", "IMFormLazy": "timesRinv",
}

func (e *symEnv) eval(x ast.Expr) poly {
	x = unparen(x)
	switch v := x.(type) {
	case *ast.BasicLit:
		if v.Kind == token.INT {
			n, err := strconv.ParseInt(v.Value, 0, 64)
			if err == nil {
				return pconst(n)
			}
		}
	case *ast.Ident:
		o := e.info.Uses[v]
		if o == nil {
			o = e.info.Defs[v]
		}
		if p, ok := e.vals[o]; ok {
			return p
		}
		if c, ok := o.(*types.Const); ok {
			if n, err := strconv.ParseInt(c.Val().ExactString(), 0, 64); err == nil {
				return pconst(n)
			}
		}
	case *ast.IndexExpr:
		if id, ok := unparen(v.X).(*ast.Ident); ok {
			o := e.info.Uses[id]
			sym := ""
			if s, ok := e.win[o]; ok {
				sym = s
			} else if s, ok := e.slice[o]; ok {
				sym = s
			}
			if sym != "" {
				if cur, ok := e.out[sym]; ok {
					return cur // value already stored in this lane
				}
				return pvar(sym)
			}
		}
	case *ast.BinaryExpr:
		a, b := e.eval(v.X), e.eval(v.Y)
		switch v.Op {
		case token.ADD:
			return a.add(b, 1)
		case token.SUB:
			return a.add(b, -1)
		case token.MUL:
			return a.mul(b)
		case token.SHL:
			if len(b) == 1 {
				if n, ok := b[""]; ok && n >= 0 && n < 62 {
					return a.mul(pconst(1 << uint(n)))
				}
			}
			if len(b) == 0 {
				return a
			}
		}
		e.fail("unsupported operator %s in %s", v.Op, exprString(x))
		return poly{}
	case *ast.CallExpr:
		f := calleeFunc(e.info, v)
		if f != nil {
			switch primAbstraction[f.Name()] {
			case "id":
				return e.eval(v.Args[0])
			case "mulRinv":
				return e.eval(v.Args[0]).mul(e.eval(v.Args[1])).mul(pvar("Rinv"))
			case "mul":
				return e.eval(v.Args[0]).mul(e.eval(v.Args[1]))
			case "timesR":
				return e.eval(v.Args[0]).mul(pvar("R"))
			case "timesRinv":
				return e.eval(v.Args[0]).mul(pvar("Rinv"))
			}
		}
		// conversions uint64(x)
		if tv, ok := e.info.Types[v.Fun]; ok && tv.IsType() && len(v.Args) == 1 {
			return e.eval(v.Args[0])
		}
	}
	e.fail("cannot evaluate %s symbolically", exprString(x))
	return poly{}
}

func (e *symEnv) fail(f string, a ...interface{}) {
	if e.err == "" {
		e.err = fmt.Sprintf(f, a...)
	}
}

// windowTarget recognises x := (*[k]uint64)(unsafe.Pointer(&p[j])) and returns the object of p.
func windowTarget(info *types.Info, rhs ast.Expr) types.Object {
	call, ok := unparen(rhs).(*ast.CallExpr)
	if !ok || len(call.Args) != 1 {
		return nil
	}
	inner, ok := unparen(call.Args[0]).(*ast.CallExpr)
	if !ok || len(inner.Args) != 1 {
		return nil
	}
	u, ok := unparen(inner.Args[0]).(*ast.UnaryExpr)
	if !ok || u.Op != token.AND {
		return nil
	}
	ix, ok := unparen(u.X).(*ast.IndexExpr)
	if !ok {
		return nil
	}
	return identObj(info, ix.X)
}

var docFormula = regexp.MustCompile(`evaluates\s+(p\w*)\s*=\s*(.+)`)

// parseDocFormula extracts "pK = expr" from the doc comment and returns the output name and expression text.
func parseDocFormula(doc string) (string, string, bool) {
	doc = strings.ReplaceAll(doc, "\n", " ")
	m := docFormula.FindStringSubmatch(doc)
	if m == nil {
		return "", "", false
	}
	rhs := m[2]
	// cut at the first of: "(mod", " with ", ". " or end
	cut := len(rhs)
	for _, stop := range []string{"(mod", " with ", ". ", " Iteration"} {
		if i := strings.Index(rhs, stop); i >= 0 && i < cut {
			cut = i
		}
	}
	rhs = strings.TrimSpace(rhs[:cut])
	rhs = strings.TrimSuffix(rhs, ".")
	// a formula such as "p3 + (p1*p2 (mod modulus))" leaves an unmatched "(" once the "(mod" clause is cut
	for strings.Count(rhs, "(") > strings.Count(rhs, ")") {
		i := strings.Index(rhs, "(")
		rhs = rhs[:i] + rhs[i+1:]
	}
	return m[1], rhs, true
}

// docPoly turns the doc formula into a polynomial over the method's parameter names.
func docPoly(rhs string, paramNames map[string]bool) (poly, bool, string) {
	usesR := strings.Contains(rhs, "2^64")
	t := strings.ReplaceAll(rhs, "(2^64)^-1", "Rinv")
	t = strings.ReplaceAll(t, "2^64", "R")
	// implicit multiplication such as "3modulus" is not used in formulas; "2*modulus" is explicit
	ex, err := parser.ParseExpr(t)
	if err != nil {
		return nil, false, "doc formula does not parse: " + t
	}
	var bad string
	var ev func(x ast.Expr) poly
	ev = func(x ast.Expr) poly {
		switch v := x.(type) {
		case *ast.ParenExpr:
			return ev(v.X)
		case *ast.BasicLit:
			n, _ := strconv.ParseInt(v.Value, 0, 64)
			return pconst(n)
		case *ast.Ident:
			switch v.Name {
			case "modulus", "twomodulus", "q":
				return poly{}
			case "R", "Rinv":
				return pvar(v.Name)
			}
			if !paramNames[v.Name] {
				bad = "doc formula mentions " + v.Name + " which is not a parameter"
			}
			return pvar(v.Name)
		case *ast.UnaryExpr:
			if v.Op == token.SUB {
				return poly{}.add(ev(v.X), -1)
			}
		case *ast.BinaryExpr:
			a, b := ev(v.X), ev(v.Y)
			switch v.Op {
			case token.ADD:
				return a.add(b, 1)
			case token.SUB:
				return a.add(b, -1)
			case token.MUL:
				return a.mul(b)
			}
		}
		bad = "unsupported construct in doc formula"
		return poly{}
	}
	p := ev(ex)
	if bad != "" {
		return nil, usesR, bad
	}
	return p, usesR, ""
}

// kalgOverrides gives the contract for methods whose doc formula uses other names than the signature.
// One line of reason each.
var kalgOverrides = map[string][2]string{
	// doc says "(scalarMont0+p2)*scalarMont1": the signature is (p1, scalar0, scalarMont1, p2); p1 is the input vector, p2 the output.
	"AddScalarLazyThenMulScalarMontgomery": {"p2", "(scalar0+p1)*scalarMont1"},
	// doc says "scalar + p1*scalarMont": the signature names them scalar0, scalarMont1.
	"MulScalarMontgomeryThenAddScalar": {"p2", "scalar0 + p1*scalarMont1"},
}

func scanKalg(c *core.Ctx) []ob {
	var out []ob
	pk := c.Pkg("ring")
	if pk == nil || c.IsFixture {
		return nil
	}
	info := pk.TypesInfo
	decl := map[*types.Func]*ast.FuncDecl{}
	for _, f := range pk.Syntax {
		for _, d := range f.Decls {
			if fd, ok := d.(*ast.FuncDecl); ok && fd.Body != nil {
				if o, ok := info.Defs[fd.Name].(*types.Func); ok {
					decl[o] = fd
				}
			}
		}
	}
	n := 0
	for _, f := range pk.Syntax {
		for _, d := range f.Decls {
			fd, ok := d.(*ast.FuncDecl)
			if !ok || fd.Body == nil || fd.Recv == nil || !fd.Name.IsExported() || core.RecvTypeName(fd) != "SubRing" {
				continue
			}
			call0, callArgs := forwardingCall(info, fd)
			if call0 == nil {
				continue
			}
			call := &ast.CallExpr{Fun: call0.Fun, Lparen: call0.Lparen, Args: callArgs, Rparen: call0.Rparen}
			kern := calleeFunc(info, call0)
			kd := decl[kern]
			if kern == nil || kd == nil || kd.Recv != nil {
				continue
			}
			key := "KALG:" + core.FuncKey(pk, fd)
			pos := c.Rel(fd.Pos())
			// contract
			outName, rhs, ok := parseDocFormula(docText(fd))
			if ov, has := kalgOverrides[fd.Name.Name]; has {
				outName, rhs, ok = ov[0], ov[1], true
			}
			if !ok {
				out = append(out, infoOb("KALG", key, pos, "no formula in the doc comment: no contract to compare with"))
				continue
			}
			pnames := map[string]bool{}
			for _, fl := range fd.Type.Params.List {
				for _, nm := range fl.Names {
					pnames[nm.Name] = true
				}
			}
			want, usesR, bad := docPoly(rhs, pnames)
			if bad != "" {
				out = append(out, infoOb("KALG", key, pos, bad+" ("+rhs+")"))
				continue
			}
			// bind kernel parameters to the method's arguments
			env := &symEnv{info: info, vals: map[types.Object]poly{}, win: map[types.Object]string{}, slice: map[types.Object]string{}, out: map[string]poly{}}
			var kparams []types.Object
			for _, fl := range kd.Type.Params.List {
				for _, nm := range fl.Names {
					kparams = append(kparams, info.Defs[nm])
				}
			}
			if len(kparams) != len(call.Args) {
				out = append(out, incOb("KALG", key, pos, "kernel arity mismatch"))
				continue
			}
			for i, a := range call.Args {
				a = unparen(a)
				switch x := a.(type) {
				case *ast.Ident:
					if _, isSlice := info.TypeOf(x).Underlying().(*types.Slice); isSlice {
						env.slice[kparams[i]] = x.Name
					} else {
						env.vals[kparams[i]] = pvar(x.Name)
					}
				case *ast.SelectorExpr:
					switch x.Sel.Name {
					case "Modulus":
						env.vals[kparams[i]] = poly{}
					default:
						env.vals[kparams[i]] = pvar("const_" + x.Sel.Name)
					}
				default:
					env.fail("unsupported argument %s", exprString(a))
				}
			}
			// walk the kernel: top-level definitions, then the loop body (window declarations + first lane)
			var loop *ast.ForStmt
			var loopBody []ast.Stmt
			for _, st := range kd.Body.List {
				switch x := st.(type) {
				case *ast.AssignStmt:
					if len(x.Lhs) == 1 && len(x.Rhs) == 1 {
						if o := identObj(info, x.Lhs[0]); o != nil {
							if call, ok := unparen(x.Rhs[0]).(*ast.CallExpr); ok && isBuiltinCall(info, call, "len") {
								continue
							}
							env.vals[o] = env.eval(x.Rhs[0])
						}
					}
				case *ast.ForStmt:
					if loop == nil {
						loop = x
						loopBody = x.Body.List
					}
				case *ast.RangeStmt:
					// a plain element-wise kernel: `for j, c := range p1 { p2[j] = … c … }`
					if loopBody == nil {
						loopBody = x.Body.List
						if vid, ok := x.Value.(*ast.Ident); ok && vid.Name != "_" {
							if sid, ok := unparen(x.X).(*ast.Ident); ok {
								if sym, ok := env.slice[info.Uses[sid]]; ok {
									env.vals[info.Defs[vid]] = pvar(sym)
								}
							}
						}
					}
				}
			}
			if loopBody == nil {
				out = append(out, infoOb("KALG", key, pos, "kernel is not an unrolled loop: not analysed"))
				continue
			}
			// first lane: statements up to (excluding) the first statement that mentions index literal 1 on a window
			laneDone := false
			// a kernel whose lanes are re-rolled into an inner loop over the window (`for k := 0; k < 8; k++ { z[k] = … }`):
			// the body of that loop, with its index variable standing for the lane, is the lane
			var bodyStmts []ast.Stmt
			laneVars := map[types.Object]bool{}
			for _, st := range loopBody {
				switch in := st.(type) {
				case *ast.ForStmt:
					if init, ok := in.Init.(*ast.AssignStmt); ok && len(init.Lhs) == 1 {
						if o := identObj(info, init.Lhs[0]); o != nil {
							laneVars[o] = true
						}
					}
					bodyStmts = append(bodyStmts, in.Body.List...)
				case *ast.RangeStmt:
					if in.Key != nil {
						if o := identObj(info, in.Key); o != nil {
							laneVars[o] = true
						}
					}
					bodyStmts = append(bodyStmts, in.Body.List...)
				default:
					bodyStmts = append(bodyStmts, st)
				}
			}
			for _, st := range bodyStmts {
				as, ok := st.(*ast.AssignStmt)
				if !ok {
					continue
				}
				if len(as.Lhs) == 1 && len(as.Rhs) == 1 {
					if tgt := windowTarget(info, as.Rhs[0]); tgt != nil {
						if sym, ok := env.slice[tgt]; ok {
							env.win[identObj(info, as.Lhs[0])] = sym
							continue
						}
					}
				}
				if laneDone {
					continue
				}
				// does the statement belong to lane 0?  (all window indices are literal 0)
				lane0 := true
				ast.Inspect(st, func(nd ast.Node) bool {
					if ix, ok := nd.(*ast.IndexExpr); ok {
						if id, ok := unparen(ix.X).(*ast.Ident); ok {
							if _, isWin := env.win[info.Uses[id]]; isWin {
								if lv := identObj(info, ix.Index); lv != nil && laneVars[lv] {
									return true
								}
								if lit, ok := unparen(ix.Index).(*ast.BasicLit); !ok || lit.Value != "0" {
									lane0 = false
								}
							}
						}
					}
					return true
				})
				if !lane0 {
					laneDone = true
					continue
				}
				// evaluate RHS then assign
				var vals []poly
				for _, r := range as.Rhs {
					vals = append(vals, env.eval(r))
				}
				if len(vals) != len(as.Lhs) {
					env.fail("multi-value assignment in lane")
					continue
				}
				for i, l := range as.Lhs {
					l = unparen(l)
					v := vals[i]
					if as.Tok != token.ASSIGN && as.Tok != token.DEFINE {
						cur := env.eval(l)
						switch as.Tok {
						case token.ADD_ASSIGN:
							v = cur.add(v, 1)
						case token.SUB_ASSIGN:
							v = cur.add(v, -1)
						case token.MUL_ASSIGN:
							v = cur.mul(v)
						default:
							env.fail("unsupported assignment operator %s", as.Tok)
						}
					}
					switch x := l.(type) {
					case *ast.Ident:
						env.vals[identObj(info, x)] = v
					case *ast.IndexExpr:
						if id, ok := unparen(x.X).(*ast.Ident); ok {
							if sym, ok := env.win[info.Uses[id]]; ok {
								env.out[sym] = v
							} else if sym, ok := env.slice[info.Uses[id]]; ok {
								// a plain loop stores straight into the operand
								env.out[sym] = v
							}
						}
					}
				}
			}
			if env.err != "" {
				out = append(out, incOb("KALG", key, pos, "symbolic evaluation of "+kd.Name.Name+" failed: "+env.err))
				continue
			}
			got, ok := env.out[outName]
			if !ok {
				out = append(out, violOb("KALG", key, pos, fmt.Sprintf("%s documents a result in %s but its kernel %s never stores into that operand (stores: %v)", core.FuncKey(pk, fd), outName, kd.Name.Name, sortedKeys(env.out))))
				continue
			}
			n++
			if !usesR {
				got = got.subst1("R", "Rinv")
				want = want.subst1("R", "Rinv")
			}
			// other operands must be left alone by the kernel
			extra := ""
			for sym := range env.out {
				if sym != outName {
					extra = sym
				}
			}
			if !got.equal(want) {
				o := violOb("KALG", key, c.Rel(kd.Pos()), fmt.Sprintf("%s is documented to evaluate %s = %s, i.e. [%s] modulo q, but lane 0 of its kernel %s computes [%s]", core.FuncKey(pk, fd), outName, rhs, want.String(), kd.Name.Name, got.String()))
				out = append(out, o)
				continue
			}
			if extra != "" {
				out = append(out, violOb("KALG", key, c.Rel(kd.Pos()), fmt.Sprintf("kernel %s also stores into operand %s, which the contract of %s does not mention", kd.Name.Name, extra, fd.Name.Name)))
				continue
			}
			out = append(out, okOb("KALG", key, pos, fmt.Sprintf("%s = %s  ==  kernel %s lane 0 [%s]", outName, rhs, kd.Name.Name, got.String()), true))
		}
	}
	c.Stats["kalg_contracts"] = n
	return out
}

func init() {
	core.Register(&core.Rule{Name: "KALG", Props: []string{"C01", "C02"},
		Doc: "for every exported SubRing method that forwards to a vector kernel, lane 0 of the kernel, evaluated symbolically modulo q under the primitive abstraction (MRed=a*b/R, BRed=a*b, CRed=id, MForm=a*R), equals the formula stated in the method's doc comment",
		Run: func(c *core.Ctx) []ob {
			out := scanKalg(c)
			out = append(out, core.Floor("KALG", nil, "kernel contracts", c.Stats["kalg_contracts"], 25)...)
			return out
		}})
}

var _ = packages.NeedName
