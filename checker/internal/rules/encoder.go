package rules

import (
	"fmt"
	"go/ast"
	"go/token"
	"go/types"
	"strings"

	"lvcheck/internal/core"
)

// Encoder rules (C07), integer scheme.
//
// ENCFILL  — in every bgv encoder function that dispatches on `switch values := values.(type)` and records
//            valLen = len(values) in its arms, a loop `for i := valLen; i < N; i++ { buf[..] = 0 }` follows the
//            switch in the same block, so that every arm ([]uint64 and []int64) flows through it: unspecified
//            slots decode to zero whatever the operand type and whatever the encoder's buffer held before.
// ENCGUARD — every slice arm of those switches starts by rejecting len(values) larger than the capacity.
// ENCTABLE — EncodeRingT stores through buffer[table[i]] and DecodeRingT loads buffer[table[i]] with the same
//            table (the encoder's slot-permutation matrix) indexed by the loop variable, in both arms.

func scanEncoder(c *core.Ctx) []ob {
	var out []ob
	pk := c.Pkg("schemes/bgv")
	if pk == nil || c.IsFixture {
		return nil
	}
	info := pk.TypesInfo
	nSw := 0
	tableUse := map[string][]string{} // function -> tables used to index the coefficient buffer
	for _, f := range pk.Syntax {
		if !strings.HasSuffix(c.RelFile(f.Pos()), "encoder.go") {
			continue
		}
		for _, d := range f.Decls {
			fd, ok := d.(*ast.FuncDecl)
			if !ok || fd.Body == nil || fd.Recv == nil {
				continue
			}
			fkey := core.FuncKey(pk, fd)
			aliases := localAliasesMode(info, fd, false)
			// ENCTABLE bookkeeping
			if fd.Name.Name == "EncodeRingT" || fd.Name.Name == "DecodeRingT" {
				ast.Inspect(fd.Body, func(nd ast.Node) bool {
					ix, ok := nd.(*ast.IndexExpr)
					if !ok {
						return true
					}
					inner, ok := unparen(ix.Index).(*ast.IndexExpr)
					if !ok {
						return true
					}
					// buffer[ table[i] ]
					tbl := ""
					for _, r := range rootsOf(info, inner.X, aliases, 0) {
						tbl = r.path
					}
					if _, isId := unparen(inner.Index).(*ast.Ident); isId && tbl != "" {
						tableUse[fd.Name.Name] = append(tableUse[fd.Name.Name], tbl)
					}
					return true
				})
			}
			ast.Inspect(fd.Body, func(nd ast.Node) bool {
				blk, ok := nd.(*ast.BlockStmt)
				if !ok {
					return true
				}
				for si, st := range blk.List {
					ts, ok := st.(*ast.TypeSwitchStmt)
					if !ok {
						continue
					}
					// arms recording valLen = len(values)
					var lenVar types.Object
					sliceArms := 0
					for _, cl := range ts.Body.List {
						cc := cl.(*ast.CaseClause)
						ast.Inspect(cc, func(x ast.Node) bool {
							if as, ok := x.(*ast.AssignStmt); ok && len(as.Lhs) == 1 && len(as.Rhs) == 1 {
								if call, ok := unparen(as.Rhs[0]).(*ast.CallExpr); ok && isBuiltinCall(info, call, "len") {
									if o := identObj(info, as.Lhs[0]); o != nil {
										lenVar = o
									}
								}
							}
							return true
						})
						if cc.List != nil {
							if t := info.TypeOf(cc.List[0]); t != nil {
								if _, isSlice := t.Underlying().(*types.Slice); isSlice {
									sliceArms++
									// ENCGUARD
									gkey := fmt.Sprintf("ENCGUARD:%s#%s", fkey, exprString(cc.List[0]))
									guarded := false
									if len(cc.Body) > 0 {
										// `if len(values) > N`, also with the length kept in the init (`if n = len(values); n > N`)
										initLen := func(is *ast.IfStmt) bool {
											as, ok := is.Init.(*ast.AssignStmt)
											if !ok || len(as.Lhs) != 1 || len(as.Rhs) != 1 || exprString(as.Rhs[0]) != "len(values)" {
												return false
											}
											be, ok := unparen(is.Cond).(*ast.BinaryExpr)
											return ok && be.Op == token.GTR && exprString(be.X) == exprString(as.Lhs[0])
										}
										if is, ok := cc.Body[0].(*ast.IfStmt); ok && (strings.Contains(exprString(is.Cond), "len(values) >") || strings.Contains(expandLocals(fd, is.Cond, is.Cond, 0), "len(values) >") || initLen(is)) {
											for _, s2 := range is.Body.List {
												if _, ok := s2.(*ast.ReturnStmt); ok {
													guarded = true
												}
											}
										}
									}
									if strings.HasPrefix(fd.Name.Name, "Encode") {
										if guarded {
											out = append(out, okOb("ENCGUARD", gkey, c.Rel(cc.Pos()), "arm starts by rejecting vectors longer than the capacity", true))
										} else {
											out = append(out, violOb("ENCGUARD", gkey, c.Rel(cc.Pos()), fmt.Sprintf("%s: the %s arm no longer starts with the `len(values) > capacity -> error` guard: a vector that is too long indexes past the buffer instead of being refused", fkey, exprString(cc.List[0]))))
										}
									}
								}
							}
						}
					}
					if sliceArms < 2 || !strings.HasPrefix(fd.Name.Name, "Encode") {
						continue
					}
					nSw++
					key := fmt.Sprintf("ENCFILL:%s", fkey)
					found := false
					// alternative shape: every slice arm clears its own tail
					allArmsFill := true
					for _, cl := range ts.Body.List {
						cc := cl.(*ast.CaseClause)
						if cc.List == nil {
							continue
						}
						if t := info.TypeOf(cc.List[0]); t != nil {
							if _, isSlice := t.Underlying().(*types.Slice); !isSlice {
								continue
							}
						}
						fills := false
						ast.Inspect(cc, func(x ast.Node) bool {
							switch v := x.(type) {
							case *ast.CallExpr:
								if isBuiltinCall(info, v, "clear") {
									fills = true
								}
							case *ast.ForStmt:
								ast.Inspect(v.Body, func(y ast.Node) bool {
									if as, ok := y.(*ast.AssignStmt); ok && len(as.Rhs) == 1 {
										if lit, ok := unparen(as.Rhs[0]).(*ast.BasicLit); ok && lit.Value == "0" {
											if v.Init != nil && !strings.Contains(exprString(v.Init.(*ast.AssignStmt).Rhs[0]), "0") {
												fills = true
											}
										}
									}
									return true
								})
							}
							return true
						})
						if !fills {
							allArmsFill = false
						}
					}
					if lenVar == nil && allArmsFill {
						out = append(out, okOb("ENCFILL", key, c.Rel(ts.Pos()), "every slice arm clears the tail of the buffer itself", true))
						continue
					}
					if lenVar == nil {
						out = append(out, violOb("ENCFILL", key, c.Rel(ts.Pos()), fmt.Sprintf("%s: the arms of the operand type switch no longer record the number of values written, and no zero-fill loop shared by all arms follows the switch: at least one operand type leaves the slots beyond len(values) with whatever the encoder's buffer held before", fkey)))
						continue
					}
					// a view of the tail (`tail := buf[valLen:N]`) that is then zeroed, or clear(buf[valLen:..])
					tailViews := map[types.Object]bool{}
					for _, after := range blk.List[si+1:] {
						switch a := after.(type) {
						case *ast.AssignStmt:
							if len(a.Lhs) == 1 && len(a.Rhs) == 1 {
								if se, ok := unparen(a.Rhs[0]).(*ast.SliceExpr); ok && se.Low != nil && identObj(info, se.Low) == lenVar {
									if o := identObj(info, a.Lhs[0]); o != nil {
										tailViews[o] = true
									}
								}
							}
						case *ast.ExprStmt:
							if call, ok := a.X.(*ast.CallExpr); ok && isBuiltinCall(info, call, "clear") && len(call.Args) == 1 {
								if se, ok := unparen(call.Args[0]).(*ast.SliceExpr); ok && se.Low != nil && identObj(info, se.Low) == lenVar {
									found = true
								}
								if tailViews[identObj(info, call.Args[0])] {
									found = true
								}
							}
						case *ast.RangeStmt:
							if tailViews[identObj(info, a.X)] {
								ast.Inspect(a.Body, func(x ast.Node) bool {
									if as, ok := x.(*ast.AssignStmt); ok && len(as.Rhs) == 1 && len(as.Lhs) == 1 {
										if lit, ok := unparen(as.Rhs[0]).(*ast.BasicLit); ok && lit.Kind == token.INT && lit.Value == "0" {
											if ix, ok := unparen(as.Lhs[0]).(*ast.IndexExpr); ok && tailViews[identObj(info, ix.X)] {
												found = true
											}
										}
									}
									return true
								})
							}
						}
					}
					for _, after := range blk.List[si+1:] {
						fs, ok := after.(*ast.ForStmt)
						if !ok {
							continue
						}
						init, ok := fs.Init.(*ast.AssignStmt)
						if !ok || len(init.Rhs) != 1 || identObj(info, init.Rhs[0]) != lenVar {
							continue
						}
						zero := false
						ast.Inspect(fs.Body, func(x ast.Node) bool {
							if as, ok := x.(*ast.AssignStmt); ok && len(as.Rhs) == 1 {
								if lit, ok := unparen(as.Rhs[0]).(*ast.BasicLit); ok && lit.Kind == token.INT && lit.Value == "0" {
									zero = true
								}
							}
							return true
						})
						if zero {
							found = true
						}
					}
					if found {
						out = append(out, okOb("ENCFILL", key, c.Rel(ts.Pos()), "a zero-fill loop from valLen follows the type switch: every arm flows through it", true))
					} else {
						out = append(out, violOb("ENCFILL", key, c.Rel(ts.Pos()), fmt.Sprintf("%s: no `for i := %s; ...; { buf[..] = 0 }` loop follows the operand type switch in the same block, so at least one operand type leaves the slots beyond len(values) with whatever the encoder's buffer held before", fkey, lenVar.Name())))
					}
				}
				return true
			})
		}
	}
	// ENCTABLE
	enc, dec := tableUse["EncodeRingT"], tableUse["DecodeRingT"]
	key := "ENCTABLE:schemes/bgv.(Encoder).EncodeRingT~DecodeRingT"
	if len(enc) == 0 || len(dec) == 0 {
		out = append(out, incOb("ENCTABLE", key, "", fmt.Sprintf("cannot find the table-indexed accesses (encode %d, decode %d)", len(enc), len(dec))))
	} else {
		all := append(append([]string{}, enc...), dec...)
		same := true
		for _, t := range all {
			if t != all[0] {
				same = false
			}
		}
		if same && len(enc) >= 3 && len(dec) >= 2 {
			out = append(out, okOb("ENCTABLE", key, "", fmt.Sprintf("encoder (%d accesses) and decoder (%d accesses) index the coefficient buffer through the same table %s", len(enc), len(dec), all[0]), true))
		} else {
			out = append(out, violOb("ENCTABLE", key, "", fmt.Sprintf("EncodeRingT indexes the buffer through %v and DecodeRingT through %v: encoder and decoder must apply the same slot permutation, on the same side, in every arm", enc, dec)))
		}
	}
	c.Stats["encoder_switches"] = nSw
	return out
}

func init() {
	core.Register(&core.Rule{Name: "ENCODER", Props: []string{"C07"},
		Doc: "bgv encoder: a zero-fill loop from valLen follows every operand type switch in the same block (ENCFILL); every slice arm starts with the length guard (ENCGUARD); EncodeRingT and DecodeRingT index the coefficient buffer through the same permutation table in every arm (ENCTABLE)",
		Run: func(c *core.Ctx) []ob {
			out := scanEncoder(c)
			out = append(out, core.Floor("ENCODER", nil, "operand type switches with zero-fill", c.Stats["encoder_switches"], 2)...)
			return out
		}})
}
