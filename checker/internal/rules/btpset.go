package rules

import (
	"fmt"
	"go/ast"
	"go/constant"
	"go/token"
	"go/types"
	"math"
	"math/bits"
	"strconv"
	"strings"

	"golang.org/x/tools/go/packages"

	"lvcheck/internal/core"
)

// BTPSET — the exported default bootstrapping sets instantiate to what their identifiers announce.
//
// A default set pairs the residual scheme literal with the bootstrapping literal; `NewParametersFromLiteral` appends to
// the residual moduli one prime per SlotsToCoeffs level (the sum of the level's scales, plus the default scale when the
// sum stays below 61 bits), `Depth()` primes of EvalModLogScale bits, one prime per CoeffsToSlots level, and the
// auxiliary primes LogP (61 bits times floor(sqrt(#Qi)) when the bootstrapping literal names none). The ring degree is
// the bootstrapping literal's LogN — 16 when it is not set.
//
// The rule evaluates every package-level literal that holds both a ckks.ParametersLiteral and a
// bootstrapping.ParametersLiteral by constant folding, with the defaults read from the package's Default* constants,
// and demands
//   - ring degree: the bootstrapping LogN (explicit or default) equals the residual LogN (else the residual primes,
//     generated for 2N of the residual ring, are refused by the larger ring), and matches the identifier (N15, N16);
//   - modulus: the total log2(QP) so obtained is not above the identifier's own claim (QP<k>) by more than one bit.
// A literal that cannot be folded yields analysis-incomplete, never a pass.

func pkgConstInt(pk *types.Package, name string) (int, bool) {
	if pk == nil {
		return 0, false
	}
	o := pk.Scope().Lookup(name)
	c, ok := o.(*types.Const)
	if !ok {
		return 0, false
	}
	if v, ok := constant.Int64Val(constant.ToInt(c.Val())); ok {
		return int(v), true
	}
	return 0, false
}

func cvalInt(v cval, ok bool) (int, bool) {
	if !ok || v.kind != "int" || !v.i.IsInt64() {
		return 0, false
	}
	return int(v.i.Int64()), true
}

func cvalMatrix(v cval) ([][]int, bool) {
	if v.kind != "list" {
		return nil, false
	}
	var res [][]int
	for _, row := range v.list {
		l, ok := intList(row)
		if !ok {
			return nil, false
		}
		var r []int
		for _, x := range l {
			r = append(r, int(x.Int64()))
		}
		res = append(res, r)
	}
	return res, true
}

func scanBtpSet(c *core.Ctx) []ob {
	var out []ob
	ce := &constEval{p: c.Program}
	n := 0
	for _, pk := range c.Pkgs {
		info := pk.TypesInfo
		for _, file := range pk.Syntax {
			if core.IsTestSupportFile(c.Fset.Position(file.Pos()).Filename) {
				continue
			}
			for _, d := range file.Decls {
				gd, ok := d.(*ast.GenDecl)
				if !ok || gd.Tok != token.VAR {
					continue
				}
				for _, sp := range gd.Specs {
					vs := sp.(*ast.ValueSpec)
					for i, nm := range vs.Names {
						if i >= len(vs.Values) {
							continue
						}
						cl, ok := unparen(vs.Values[i]).(*ast.CompositeLit)
						if !ok {
							continue
						}
						st := structOf(info.TypeOf(cl))
						if st == nil {
							continue
						}
						var resF, btpF string
						var btpPkg *types.Package
						for k := 0; k < st.NumFields(); k++ {
							nt := namedOf(st.Field(k).Type())
							if nt == nil || nt.Obj().Pkg() == nil || nt.Obj().Name() != "ParametersLiteral" {
								continue
							}
							switch {
							case strings.HasSuffix(nt.Obj().Pkg().Path(), "schemes/ckks"):
								resF = st.Field(k).Name()
							case strings.HasSuffix(nt.Obj().Pkg().Path(), "bootstrapping") || c.IsFixture && nt.Obj().Pkg().Name() == "lvfixture":
								btpF = st.Field(k).Name()
								btpPkg = nt.Obj().Pkg()
							}
						}
						if resF == "" || btpF == "" {
							continue
						}
						n++
						name := nm.Name
						key := fmt.Sprintf("BTPSET:%s.%s", core.ShortPkg(pk.PkgPath), name)
						pos := c.Rel(cl.Pos())
						v := ce.eval(pk, cl)
						res, btp := v.fields[resF], v.fields[btpF]
						if v.kind != "struct" || res.kind != "struct" || btp.kind != "struct" {
							out = append(out, incOb("BTPSET", key, pos, name+": the set cannot be evaluated statically"))
							continue
						}
						def := func(n string, fallback int) int {
							if x, ok := pkgConstInt(btpPkg, n); ok {
								return x
							}
							return fallback
						}
						get := func(field, defName string, fallback int) (int, bool) {
							f, has := btp.fields[field]
							if !has || f.kind == "nil" {
								return def(defName, fallback), true
							}
							return cvalInt(f, true)
						}
						resLogN, ok1 := litLogN(res)
						btpLogN, ok2 := get("LogN", "DefaultLogN", 16)
						evalModLog, ok3 := get("EvalModLogScale", "DefaultEvalModLogScale", 60)
						K, ok4 := get("K", "DefaultK", 16)
						deg, ok5 := get("Mod1Degree", "DefaultMod1Degree", 30)
						dbl, ok6 := get("DoubleAngle", "DefaultDoubleAngle", 3)
						inv, ok7 := get("Mod1InvDegree", "DefaultMod1InvDegree", 0)
						logScale, ok8 := cvalInt(res.fields["LogDefaultScale"], true)
						if !(ok1 && ok2 && ok3 && ok4 && ok5 && ok6 && ok7 && ok8) {
							out = append(out, incOb("BTPSET", key, pos, name+": a scalar field of the set is not a compile-time constant"))
							continue
						}
						// Mod1Type: CosDiscrete (0, default), CosContinuous, SinContinuous
						mod1Type := 0
						if f, has := btp.fields["Mod1Type"]; has {
							if x, ok := cvalInt(f, true); ok {
								mod1Type = x
							} else {
								out = append(out, incOb("BTPSET", key, pos, name+": Mod1Type is not a compile-time constant"))
								continue
							}
						}
						sinContinuous, cosDiscrete := 2, 0
						if mp := c.Program.ByPath[strings.TrimSuffix(btpPkg.Path(), "bootstrapping")+"mod1"]; mp != nil {
							if x, ok := pkgConstInt(mp.Types, "SinContinuous"); ok {
								sinContinuous = x
							}
							if x, ok := pkgConstInt(mp.Types, "CosDiscrete"); ok {
								cosDiscrete = x
							}
						}
						depth := 0
						if mod1Type == cosDiscrete {
							m := deg
							if 2*K-1 > m {
								m = 2*K - 1
							}
							depth += bits.Len64(uint64(m))
						} else {
							depth += bits.Len64(uint64(deg))
						}
						if mod1Type != sinContinuous {
							depth += dbl
						}
						depth += bits.Len64(uint64(inv))
						// factorisations
						var s2c, c2s [][]int
						okM := true
						if f, has := btp.fields["SlotsToCoeffsFactorizationDepthAndLogScales"]; has && f.kind != "nil" {
							s2c, okM = cvalMatrix(f)
						} else {
							for k := 0; k < def("DefaultSlotsToCoeffsFactorizationDepth", 3); k++ {
								s2c = append(s2c, []int{def("DefaultSlotsToCoeffsLogScale", 39)})
							}
						}
						if f, has := btp.fields["CoeffsToSlotsFactorizationDepthAndLogScales"]; okM && has && f.kind != "nil" {
							c2s, okM = cvalMatrix(f)
						} else {
							for k := 0; k < def("DefaultCoeffsToSlotsFactorizationDepth", 4); k++ {
								c2s = append(c2s, []int{def("DefaultCoeffsToSlotsLogScale", 56)})
							}
						}
						if !okM {
							out = append(out, incOb("BTPSET", key, pos, name+": a factorisation of the set is not a compile-time constant"))
							continue
						}
						resQ, okQ := intList(res.fields["LogQ"])
						if !okQ || len(resQ) == 0 {
							out = append(out, incOb("BTPSET", key, pos, name+": the residual LogQ is not a compile-time list"))
							continue
						}
						total, nQ := 0, len(resQ)
						for _, q := range resQ {
							total += int(q.Int64())
						}
						if it, has := btp.fields["IterationsParameters"]; has && it.kind == "struct" {
							if r, ok := cvalInt(it.fields["ReservedPrimeBitSize"], true); ok && r > 0 {
								total += r
								nQ++
							}
						}
						for _, lvl := range s2c {
							qi := 0
							for _, x := range lvl {
								qi += x
							}
							if qi+logScale < 61 {
								qi += logScale
							}
							total += qi
							nQ++
						}
						total += depth * evalModLog
						nQ += depth
						for _, lvl := range c2s {
							for _, x := range lvl {
								total += x
							}
							nQ++
						}
						if f, has := btp.fields["LogP"]; has && f.kind != "nil" {
							l, ok := intList(f)
							if !ok {
								out = append(out, incOb("BTPSET", key, pos, name+": LogP is not a compile-time list"))
								continue
							}
							for _, x := range l {
								total += int(x.Int64())
							}
						} else {
							k := int(math.Sqrt(float64(nQ)))
							if k < 1 {
								k = 1
							}
							total += 61 * k
						}
						// ring degree
						kN := key + "#LogN"
						if btpLogN != resLogN {
							out = append(out, violOb("BTPSET", kN, pos, fmt.Sprintf("default set %s: the bootstrapping literal's ring degree is 2^%d (explicit or the default) but the residual parameters are over 2^%d: the residual primes are refused (not 1 mod 2N of the larger ring) and the set cannot be instantiated", name, btpLogN, resLogN)))
						} else if m := reN.FindStringSubmatch(name); m != nil && m[1] != strconv.Itoa(btpLogN) {
							out = append(out, violOb("BTPSET", kN, pos, fmt.Sprintf("default set %s announces ring degree 2^%s but instantiates at 2^%d", name, m[1], btpLogN)))
						} else {
							out = append(out, okOb("BTPSET", kN, pos, fmt.Sprintf("bootstrapping and residual ring degree 2^%d", btpLogN), true))
						}
						// modulus
						kT := key + "#total"
						if m := reQP.FindStringSubmatch(name); m != nil {
							claim, _ := strconv.Atoi(m[1])
							if total > claim+1 {
								out = append(out, violOb("BTPSET", kT, pos, fmt.Sprintf("default set %s instantiates with log2(QP)=%d (residual %d primes, %d SlotsToCoeffs, %d EvalMod x %d bits, %d CoeffsToSlots levels, plus P), above the %d its identifier claims", name, total, len(resQ), len(s2c), depth, evalModLog, len(c2s), claim)))
							} else {
								out = append(out, okOb("BTPSET", kT, pos, fmt.Sprintf("instantiated log2(QP)=%d within the identifier's claim %d", total, claim), true))
							}
						}
					}
				}
			}
		}
	}
	c.Stats["btpset_sets"] = n
	return out
}

func init() {
	core.Register(&core.Rule{Name: "BTPSET", Props: []string{"C19"},
		Doc: "every package-level default bootstrapping set (residual ckks literal + bootstrapping literal), folded statically with the package's Default* constants: bootstrapping ring degree equals the residual one and the identifier's, and the instantiated total log2(QP) (residual + SlotsToCoeffs with the scale-merging rule + Depth() x EvalModLogScale + CoeffsToSlots + P) is within the identifier's claim",
		Run: func(c *core.Ctx) []ob {
			out := scanBtpSet(c)
			out = append(out, core.Floor("BTPSET", nil, "default bootstrapping sets", c.Stats["btpset_sets"], 8)...)
			return out
		}})
}

var _ = packages.NeedName
