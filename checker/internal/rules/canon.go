package rules

import (
	"go/ast"
	"go/token"
)

// Canonical control flow. Rules that compare two pieces of code structurally (SIBTREE) first bring both to one
// spelling of their control flow, so that restyling one of them is not a difference:
//   - a tagless switch is the if / else-if chain of its clauses (default last);
//   - `if c { …; return }; rest` is `if c { … } else { rest }` (likewise for arms ending in continue/break/panic);
//   - an if with an else whose condition is a negated form (!x, !=, <=, >=) is the positive form with swapped arms;
//   - a bare `return` in tail position of the function is dropped.
// The nodes of expressions are reused (type information stays attached), statements are rebuilt.

func terminates(list []ast.Stmt) bool {
	if len(list) == 0 {
		return false
	}
	switch s := list[len(list)-1].(type) {
	case *ast.ReturnStmt:
		return true
	case *ast.BranchStmt:
		return s.Tok == token.CONTINUE || s.Tok == token.BREAK || s.Tok == token.GOTO
	case *ast.ExprStmt:
		if c, ok := s.X.(*ast.CallExpr); ok {
			if id, ok := c.Fun.(*ast.Ident); ok && id.Name == "panic" {
				return true
			}
		}
	case *ast.IfStmt:
		if s.Else == nil {
			return false
		}
		if !terminates(s.Body.List) {
			return false
		}
		switch e := s.Else.(type) {
		case *ast.BlockStmt:
			return terminates(e.List)
		case *ast.IfStmt:
			return terminates([]ast.Stmt{e})
		}
	}
	return false
}

func negatedForm(c ast.Expr) (ast.Expr, bool) {
	switch x := unparen(c).(type) {
	case *ast.UnaryExpr:
		if x.Op == token.NOT {
			return unparen(x.X), true
		}
	case *ast.BinaryExpr:
		switch x.Op {
		case token.NEQ:
			return &ast.BinaryExpr{X: x.X, Op: token.EQL, Y: x.Y}, true
		case token.LEQ:
			return &ast.BinaryExpr{X: x.X, Op: token.GTR, Y: x.Y}, true
		case token.GEQ:
			return &ast.BinaryExpr{X: x.X, Op: token.LSS, Y: x.Y}, true
		}
	}
	return c, false
}

func canonList(list []ast.Stmt, tail bool) []ast.Stmt {
	var out []ast.Stmt
	for i := 0; i < len(list); i++ {
		st := list[i]
		last := i == len(list)-1
		switch s := st.(type) {
		case *ast.ReturnStmt:
			if tail && last && len(s.Results) == 0 {
				continue
			}
			out = append(out, s)
		case *ast.BlockStmt:
			out = append(out, &ast.BlockStmt{List: canonList(s.List, tail && last)})
		case *ast.SwitchStmt:
			if s.Tag == nil && s.Init == nil {
				if chain := switchToIf(s); chain != nil {
					out = append(out, canonList([]ast.Stmt{chain}, tail && last)...)
					continue
				}
			}
			body := &ast.BlockStmt{}
			for _, cl := range s.Body.List {
				cc := cl.(*ast.CaseClause)
				body.List = append(body.List, &ast.CaseClause{List: cc.List, Body: canonList(cc.Body, false)})
			}
			out = append(out, &ast.SwitchStmt{Init: s.Init, Tag: s.Tag, Body: body})
		case *ast.ForStmt:
			out = append(out, &ast.ForStmt{Init: s.Init, Cond: s.Cond, Post: s.Post, Body: &ast.BlockStmt{List: canonList(s.Body.List, false)}})
		case *ast.RangeStmt:
			out = append(out, &ast.RangeStmt{Key: s.Key, Value: s.Value, Tok: s.Tok, X: s.X, Body: &ast.BlockStmt{List: canonList(s.Body.List, false)}})
		case *ast.LabeledStmt:
			out = append(out, &ast.LabeledStmt{Label: s.Label, Stmt: canonList([]ast.Stmt{s.Stmt}, false)[0]})
		case *ast.IfStmt:
			thenL := s.Body.List
			var elseL []ast.Stmt
			hasElse := false
			consumedRest := false
			switch e := s.Else.(type) {
			case *ast.BlockStmt:
				elseL, hasElse = e.List, true
			case *ast.IfStmt:
				elseL, hasElse = []ast.Stmt{e}, true
			}
			if !hasElse && terminates(thenL) && !last {
				elseL, hasElse, consumedRest = list[i+1:], true, true
			}
			armTail := tail && (last || consumedRest)
			cond := s.Cond
			if hasElse {
				if pos, neg := negatedForm(cond); neg {
					cond = pos
					thenL, elseL = elseL, thenL
				}
			}
			n := &ast.IfStmt{Init: s.Init, Cond: cond, Body: &ast.BlockStmt{List: canonList(thenL, armTail)}}
			if hasElse {
				n.Else = &ast.BlockStmt{List: canonList(elseL, armTail)}
			}
			out = append(out, n)
			if consumedRest {
				return out
			}
		default:
			out = append(out, st)
		}
	}
	return out
}

// switchToIf turns a tagless switch without fallthrough into the if / else-if chain of its clauses.
func switchToIf(s *ast.SwitchStmt) ast.Stmt {
	var clauses []*ast.CaseClause
	var deflt *ast.CaseClause
	for _, cl := range s.Body.List {
		cc := cl.(*ast.CaseClause)
		for _, b := range cc.Body {
			if br, ok := b.(*ast.BranchStmt); ok && br.Tok == token.FALLTHROUGH {
				return nil
			}
		}
		if cc.List == nil {
			deflt = cc
		} else {
			clauses = append(clauses, cc)
		}
	}
	if len(clauses) == 0 {
		return nil
	}
	var tailStmt ast.Stmt
	if deflt != nil {
		tailStmt = &ast.BlockStmt{List: deflt.Body}
	}
	for i := len(clauses) - 1; i >= 0; i-- {
		cc := clauses[i]
		cond := cc.List[0]
		for _, e := range cc.List[1:] {
			cond = &ast.BinaryExpr{X: cond, Op: token.LOR, Y: e}
		}
		n := &ast.IfStmt{Cond: cond, Body: &ast.BlockStmt{List: cc.Body}}
		if tailStmt != nil {
			n.Else = tailStmt
		}
		tailStmt = n
	}
	return tailStmt
}

// canonFlow is the canonical form of a function body.
func canonFlow(body *ast.BlockStmt) *ast.BlockStmt {
	return &ast.BlockStmt{List: canonList(body.List, true)}
}
