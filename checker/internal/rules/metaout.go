package rules

import (
	"fmt"
	"go/ast"
	"go/token"
	"go/types"
	"strings"

	"golang.org/x/tools/go/cfg"
	"golang.org/x/tools/go/packages"

	"lvcheck/internal/core"
)

// METAOUT — every public evaluator operation defines the metadata of its output ciphertext.
//
// For every exported method of an *Evaluator type that has an output ciphertext parameter (named opOut / ctOut /
// ciphertextOut, of type *rlwe.Ciphertext) and at least one other ciphertext-like operand: on every path to a
// success return one of the following has happened —
//   - an assignment through opOut's metadata (*opOut.MetaData = .., opOut.Scale = .., opOut.IsNTT = .., ...),
//   - opOut.Copy(..), InitOutputBinaryOp/InitOutputUnaryOp(.., opOut.El()),
//   - opOut (or opOut.El()) handed to another function of the module (which is then responsible),
//   - a comparison of opOut with an operand (the aliasing idiom: the output *is* that operand).
// Decoding with the recorded scale / flags is only right if they were written on the path actually taken.

// metaReadExempt: operations whose "output" parameter is documented as an in/out operand.
var metaReadExempt = map[string]string{
	"schemes/bgv.(Evaluator).MatchScalesAndLevel": "doc: 'updates the both input ciphertexts to ensure that their scale matches' — ct0 and opOut are both in/out",
}

func isCiphertextPtr(t types.Type) bool {
	p, ok := t.(*types.Pointer)
	if !ok {
		return false
	}
	n := namedOf(p.Elem())
	return n != nil && (n.Obj().Name() == "Ciphertext" || n.Obj().Name() == "Plaintext") && n.Obj().Pkg() != nil && strings.HasSuffix(n.Obj().Pkg().Path(), "core/rlwe")
}

var metaFields = map[string]bool{"MetaData": true, "Scale": true, "IsNTT": true, "IsMontgomery": true, "IsBatched": true, "LogDimensions": true,
	"PlaintextMetaData": true, "CiphertextMetaData": true, "IsBitReversed": true}

// metaCfg parameterises the analysis: METAOUT looks at any metadata field and accepts a comparison of the output with
// an operand anywhere on the path; SCALEOUT looks at the scale only and accepts the comparison only on the edge where
// the two are the same object.
type metaCfg struct {
	rule    string
	fields  map[string]bool
	deleg   *map[*types.Func]map[int]bool
	cmpEdge bool
	stat    string
}

var scaleFields = map[string]bool{"MetaData": true, "Scale": true, "PlaintextMetaData": true}
var scaleDeleg = map[*types.Func]map[int]bool{}
var metaCur = &metaCfg{rule: "METAOUT", fields: metaFields, deleg: &metaDeleg, cmpEdge: true, stat: "metaout_ops"}

// metaDeleg: (function, parameter index) pairs known NOT to define the metadata of the element they receive there.
// Computed as a greatest fixpoint over every function of the scope that has an output-named element parameter, so
// that handing the output to a helper only counts when the helper (transitively) does the job.
var metaDeleg = map[*types.Func]map[int]bool{}

func scanMetaOut(c *core.Ctx) []ob {
	metaCur = &metaCfg{rule: "METAOUT", fields: metaFields, deleg: &metaDeleg, cmpEdge: true, stat: "metaout_ops"}
	return scanMetaCfg(c)
}

func scanScaleOut(c *core.Ctx) []ob {
	metaCur = &metaCfg{rule: "SCALEOUT", fields: scaleFields, deleg: &scaleDeleg, cmpEdge: true, stat: "scaleout_ops"}
	defer func() {
		metaCur = &metaCfg{rule: "METAOUT", fields: metaFields, deleg: &metaDeleg, cmpEdge: true, stat: "metaout_ops"}
	}()
	return scanMetaCfg(c)
}

func scanMetaCfg(c *core.Ctx) []ob {
	*metaCur.deleg = map[*types.Func]map[int]bool{}
	metaDeleg := *metaCur.deleg
	for iter := 0; iter < 12; iter++ {
		changed := false
		scanMetaOutMode(c, func(f *types.Func, idx int, ok bool) {
			if ok {
				return
			}
			if metaDeleg[f] == nil {
				metaDeleg[f] = map[int]bool{}
			}
			if !metaDeleg[f][idx] {
				metaDeleg[f][idx] = true
				changed = true
			}
		})
		if !changed {
			break
		}
	}
	return scanMetaOutMode(c, nil)
}

func scanMetaOutMode(c *core.Ctx, collect func(f *types.Func, idx int, ok bool)) []ob {
	var out []ob
	n := 0
	mc := metaCur
	metaFields := mc.fields
	metaDeleg := *mc.deleg
	all := collect != nil
	c.FuncDecls(func(pk *packages.Package, file *ast.File, fd *ast.FuncDecl) {
		rel := core.ShortPkg(pk.PkgPath)
		if !c.IsFixture && !(strings.HasPrefix(rel, "core/rlwe") || strings.HasPrefix(rel, "schemes/") || strings.HasPrefix(rel, "core/rgsw") || strings.HasPrefix(rel, "circuits/") || strings.HasPrefix(rel, "multiparty")) {
			return
		}
		if fd.Body == nil || fileIsTestSupport(c.Program, fd.Pos()) {
			return
		}
		// reported: the exported methods of evaluators and protocols, and the exported package-level operations of
		// core/rlwe that take an input element and an output element (ring-degree switching)
		pkgLevelOp := fd.Recv == nil && fd.Name.IsExported() && (c.IsFixture || strings.HasPrefix(rel, "core/rlwe"))
		if !all && !pkgLevelOp && (fd.Recv == nil || !fd.Name.IsExported() || !(strings.Contains(core.RecvTypeName(fd), "Evaluator") || strings.Contains(core.RecvTypeName(fd), "Protocol"))) {
			return
		}
		info := pk.TypesInfo
		obj, _ := info.Defs[fd.Name].(*types.Func)
		if obj == nil {
			return
		}
		sig := obj.Type().(*types.Signature)
		var outP types.Object
		outIdx := -1
		hasIn := false
		for i := 0; i < sig.Params().Len(); i++ {
			p := sig.Params().At(i)
			if isCiphertextPtr(p.Type()) && (p.Name() == "opOut" || p.Name() == "ctOut" || p.Name() == "ciphertextOut") {
				outP = p
				outIdx = i
			} else if (all || pkgLevelOp) && outP == nil && isOutParamName(p.Name()) && (isCiphertextPtr(p.Type()) || strings.Contains(p.Type().String(), "rlwe.Element[")) {
				outP = p
				outIdx = i
			} else if isCiphertextPtr(p.Type()) || strings.Contains(p.Type().String(), "Operand") || strings.Contains(p.Type().String(), "ElementInterface") || pkgLevelOp && strings.Contains(p.Type().String(), "rlwe.Element[") {
				hasIn = true
			}
		}
		if outP == nil || (!hasIn && !all) {
			return
		}
		n++
		fkey := core.FuncKey(pk, fd)
		key := mc.rule + ":" + fkey
		_, errRes := lastResultIsError(sig)
		pm := parentMapCached(fd)
		isOut := func(e ast.Expr) bool {
			e = unparen(e)
			if call, ok := e.(*ast.CallExpr); ok {
				if s, ok := unparen(call.Fun).(*ast.SelectorExpr); ok && s.Sel.Name == "El" && len(call.Args) == 0 {
					e = unparen(s.X)
				}
			}
			if u, ok := e.(*ast.UnaryExpr); ok && u.Op == token.AND {
				e = unparen(u.X)
			}
			if identObj(info, e) == outP {
				return true
			}
			// a row of a table that is ranged over (`for _, op := range []struct{ct *Ciphertext; …}{{ct: a}, {ct: opOut}}`):
			// op.ct stands for the output in one of the iterations
			if se, ok := e.(*ast.SelectorExpr); ok {
				if rv := identObj(info, se.X); rv != nil {
					hit := false
					ast.Inspect(fd.Body, func(x ast.Node) bool {
						rs, ok := x.(*ast.RangeStmt)
						if !ok || rs.Value == nil || identObj(info, rs.Value) != rv {
							return true
						}
						if cl, ok := unparen(rs.X).(*ast.CompositeLit); ok {
							for _, row := range cl.Elts {
								rcl, ok := unparen(row).(*ast.CompositeLit)
								if !ok {
									continue
								}
								for _, el := range rcl.Elts {
									if kv, ok := el.(*ast.KeyValueExpr); ok {
										if k, ok := kv.Key.(*ast.Ident); ok && k.Name == se.Sel.Name && identObj(info, kv.Value) == outP {
											hit = true
										}
									}
								}
							}
						}
						return true
					})
					if hit {
						return true
					}
				}
			}
			// a local view of the output's metadata: metaOut := opOut.MetaData
			if o := identObj(info, e); o != nil {
				if d := singleDef(info, fd, o); d != nil {
					if ds, ok := unparen(d).(*ast.SelectorExpr); ok && ds.Sel.Name == "MetaData" && identObj(info, ds.X) == outP {
						return true
					}
				}
			}
			return false
		}
		inTable := false
		var event func(nd ast.Node) bool
		event = func(nd ast.Node) bool {
			hit := false
			ast.Inspect(nd, func(x ast.Node) bool {
				switch v := x.(type) {
				case *ast.FuncLit:
					return false
				case *ast.CompositeLit:
					// the table of a `for _, row := range []T{{…}, {…}}`: evaluated once, and every row is visited, so what
					// the body does to the row that holds the output happens on every path through the statement
					if rs, ok := pm[ast.Node(v)].(*ast.RangeStmt); ok && rs.X == ast.Expr(v) && len(v.Elts) > 0 && !inTable {
						inTable = true
						for _, st := range rs.Body.List {
							if event(st) {
								hit = true
							}
						}
						inTable = false
					}
				case *ast.AssignStmt:
					for _, l := range v.Lhs {
						// through opOut's metadata
						cur := unparen(l)
						for {
							switch y := cur.(type) {
							case *ast.StarExpr:
								cur = unparen(y.X)
								continue
							case *ast.SelectorExpr:
								if metaFields[y.Sel.Name] {
									base := unparen(y.X)
									for {
										if isOut(base) {
											hit = true
										}
										if s2, ok := base.(*ast.SelectorExpr); ok {
											base = unparen(s2.X)
											continue
										}
										break
									}
									if isOut(base) {
										hit = true
									}
								}
								cur = unparen(y.X)
								continue
							}
							break
						}
					}
				case *ast.CallExpr:
					if s, ok := unparen(v.Fun).(*ast.SelectorExpr); ok && s.Sel.Name == "Copy" && isOut(s.X) {
						hit = true
					}
					f := calleeFunc(info, v)
					if f != nil && f.Pkg() != nil && strings.HasPrefix(f.Pkg().Path(), core.ModPath) && f.Name() != "Resize" && f.Name() != "El" && f.Name() != "Degree" && f.Name() != "Level" {
						// a call that works in place on the output (the output is also one of its inputs) takes its
						// metadata from the output itself: it does not define it
						nOut := 0
						for _, a := range v.Args {
							if isOut(a) {
								nOut++
							}
						}
						for ai, a := range v.Args {
							if isOut(a) {
								if nOut == 1 {
									// the callee must itself define the metadata of what it receives there
									defines := true
									for _, cf := range effFor(c).calleesOrSelf(info, v, f) {
										if metaDeleg[cf][ai] {
											defines = false
										}
									}
									if defines {
										hit = true
									}
								}
							} else if mentionsVar(info, a, map[types.Object]bool{outP: true}) {
								// the output handed over inside a container of ciphertexts / as an element view
								if t := info.TypeOf(a); t != nil && (strings.Contains(t.String(), "Ciphertext") || strings.Contains(t.String(), "rlwe.Element[")) {
									hit = true
								}
							}
						}
					}
				case *ast.BinaryExpr:
					if !mc.cmpEdge && (v.Op == token.EQL || v.Op == token.NEQ) && (isOut(v.X) || isOut(v.Y)) && !isNilIdent(v.X) && !isNilIdent(v.Y) {
						hit = true
					}
				}
				return true
			})
			return hit
		}
		// sameEdge: the successor index of a block ending in `out == x` / `out != x` on which the two are the same object
		sameEdge := func(b *cfg.Block) int {
			if !mc.cmpEdge || len(b.Succs) != 2 || len(b.Nodes) == 0 {
				return -1
			}
			cond, ok := b.Nodes[len(b.Nodes)-1].(ast.Expr)
			if !ok {
				return -1
			}
			// a comparison kept in a local (`inPlace := ctIn == opOut; if !inPlace`): the edge on which the local says
			// "same object"
			{
				e, neg := unparen(cond), false
				for {
					u, ok := e.(*ast.UnaryExpr)
					if !ok || u.Op != token.NOT {
						break
					}
					neg = !neg
					e = unparen(u.X)
				}
				if o := identObj(info, e); o != nil {
					if d := singleDef(info, fd, o); d != nil {
						if db, ok := unparen(d).(*ast.BinaryExpr); ok && (db.Op == token.EQL || db.Op == token.NEQ) && (isOut(db.X) || isOut(db.Y)) && !isNilIdent(db.X) && !isNilIdent(db.Y) {
							same := db.Op == token.EQL // the local is true when they are the same object
							if neg {
								same = !same
							}
							if same {
								return 0
							}
							return 1
						}
					}
				}
			}
			be, ok := unparen(cond).(*ast.BinaryExpr)
			if !ok || (be.Op != token.EQL && be.Op != token.NEQ) || !(isOut(be.X) || isOut(be.Y)) || isNilIdent(be.X) || isNilIdent(be.Y) {
				return -1
			}
			if be.Op == token.EQL {
				return 0
			}
			return 1
		}
		g := buildCFG(info, fd.Body)
		// a path that returns before doing anything (only conditions evaluated) is a documented no-op / guard
		worked := func(nd ast.Node) bool {
			switch nd.(type) {
			case *ast.ExprStmt, *ast.AssignStmt, *ast.IncDecStmt, *ast.GoStmt, *ast.DeferStmt:
				return true
			}
			return false
		}
		inW := forward(g, false, nil, func(nd ast.Node, s bool) bool { return s || worked(nd) },
			func(a, b bool) bool { return a || b }, func(a, b bool) bool { return a == b })
		in := forwardEdge(g, false, func(nd ast.Node, s bool) bool { return s || event(nd) },
			func(b *cfg.Block, i int, s bool) bool { return s || sameEdge(b) == i },
			func(a, b bool) bool { return a && b }, func(a, b bool) bool { return a == b })
		var bad []token.Pos
		for _, b := range g.Blocks {
			s, ok := in[b]
			if !ok {
				continue
			}
			isRet := false
			w := inW[b]
			for _, nd := range b.Nodes {
				s = s || event(nd)
				if r, ok := nd.(*ast.ReturnStmt); ok {
					isRet = true
					if !w {
						continue
					}
					if !returnIsFailing(info, pm, r, errRes) && !swallowedFailure(info, pm, r) && !s {
						// returning the result of a module call that received opOut is covered by event(); a bare delegation too
						bad = append(bad, r.Pos())
					}
				}
				w = w || worked(nd)
			}
			if len(b.Succs) == 0 && b.Live && !isRet && !endsInPanic(info, b) && !s {
				bad = append(bad, fd.Body.Rbrace)
			}
		}
		// OUTMETAREAD: a metadata field of the output read at a point where, on some path, nothing has defined it yet.
		// (accumulating operations read their output by design)
		nm := fd.Name.Name
		if mc.rule == "METAOUT" && !(strings.Contains(nm, "ThenAdd") || strings.Contains(nm, "ThenSub") || strings.Contains(nm, "InPlace")) && metaReadExempt[fkey] == "" {
			readsOutMeta := func(nd ast.Node) (token.Pos, string) {
				var pos token.Pos
				var what string
				lhs := map[ast.Node]bool{}
				if as, ok := nd.(*ast.AssignStmt); ok {
					for _, l := range as.Lhs {
						lhs[unparen(l)] = true
					}
				}
				ast.Inspect(nd, func(x ast.Node) bool {
					if pos != token.NoPos {
						return false
					}
					switch v := x.(type) {
					case *ast.FuncLit:
						return false
					case *ast.BinaryExpr:
						// comparisons of the output's metadata with an operand's are checks, not uses
						if v.Op == token.EQL || v.Op == token.NEQ {
							return false
						}
					case *ast.CallExpr:
						if s, ok := unparen(v.Fun).(*ast.SelectorExpr); ok && (s.Sel.Name == "Equal" || s.Sel.Name == "Cmp" || s.Sel.Name == "InDelta") {
							return false
						}
					case *ast.SelectorExpr:
						if lhs[v] || !metaFieldNames[v.Sel.Name] {
							return true
						}
						base := unparen(v.X)
						if s2, ok := base.(*ast.SelectorExpr); ok && s2.Sel.Name == "MetaData" {
							base = unparen(s2.X)
						}
						if isOut(base) {
							pos, what = v.Pos(), exprString(v)
						}
					}
					return true
				})
				return pos, what
			}
			seenRead := false
			for _, b := range g.Blocks {
				s, ok := in[b]
				if !ok {
					continue
				}
				for _, nd := range b.Nodes {
					if !s && !seenRead {
						if p, what := readsOutMeta(nd); p != token.NoPos {
							guarded := false
							for _, h := range holdsAt(pm, nd) {
								for _, be := range equalitiesOf(h.cond, h.pos) {
									if isOut(be.X) || isOut(be.Y) {
										guarded = true
									}
								}
							}
							if !guarded {
								seenRead = true
								out = append(out, violOb("METAOUT", key+"#reads("+what+")", c.Rel(p), fmt.Sprintf("%s reads %s at %s on a path where nothing has yet defined the metadata of the output: the operation uses the scale/flags the receiver object happened to carry instead of the input's", fkey, what, c.Rel(p))))
							}
						}
					}
					s = s || event(nd)
				}
			}
		}
		if all {
			collect(funcOrigin(obj), outIdx, len(bad) == 0)
			return
		}
		if mc.rule == "SCALEOUT" {
			// accumulating and in-place operations keep the scale their output has by design
			if strings.Contains(nm, "ThenAdd") || strings.Contains(nm, "ThenSub") || strings.Contains(nm, "InPlace") || metaReadExempt[fkey] != "" {
				return
			}
			if len(bad) == 0 {
				out = append(out, okOb("SCALEOUT", key, c.Rel(fd.Pos()), "the scale of the output is written (or the output handed to a callee that writes it, or is the operand itself) on every success path", true))
			} else {
				out = append(out, violOb("SCALEOUT", key, c.Rel(bad[0]), fmt.Sprintf("%s reaches the success return at %s on a path where the scale of its output %s has been neither written, nor copied with the metadata, nor left to a callee that writes it, and where the output is not known to be the operand itself: a receiver other than the operand keeps the scale it happened to carry and decodes to another value", fkey, c.Rel(bad[0]), outP.Name())))
			}
			return
		}
		if len(bad) == 0 {
			out = append(out, okOb("METAOUT", key, c.Rel(fd.Pos()), "output metadata written (or delegated) on every success path", true))
		} else {
			o := violOb("METAOUT", key, c.Rel(bad[0]), fmt.Sprintf("%s reaches the success return at %s without having written the metadata (scale, NTT/Montgomery flags, dimensions) of its output %s and without handing it to a callee: the output keeps whatever metadata the receiver object had", fkey, c.Rel(bad[0]), outP.Name()))
			out = append(out, o)
		}
	})
	c.Stats[mc.stat] = n
	return out
}

func metaProps(key string) []string {
	var ps []string
	switch {
	case strings.Contains(key, "schemes/bgv"):
		ps = []string{"C05"}
	case strings.Contains(key, "schemes/ckks"):
		ps = []string{"C06"}
	case strings.Contains(key, "lintrans"):
		ps = []string{"C12"}
	case strings.Contains(key, "polynomial"):
		ps = []string{"C13"}
	case strings.Contains(key, "core/rgsw"):
		ps = []string{"C20"}
	case strings.Contains(key, "multiparty"):
		ps = []string{"C16"}
	case strings.Contains(key, "core/rlwe.(Encryptor)") || strings.Contains(key, "core/rlwe.(Decryptor)"):
		ps = []string{"C03", "C04"}
	}
	if strings.Contains(key, "inner_sum") || strings.Contains(key, "Automorphism") || strings.Contains(key, "Trace") || strings.Contains(key, "Replicate") || strings.Contains(key, "InnerSum") || strings.Contains(key, "Rotate") || strings.Contains(key, "Average") || strings.Contains(key, "InnerFunction") || strings.Contains(key, "Conjugate") {
		ps = append(ps, "C11")
		if len(ps) == 1 {
			ps = append(ps, "C04")
		}
	}
	if len(ps) == 0 {
		return []string{"C04"}
	}
	return ps
}

func init() {
	core.Register(&core.Rule{Name: "METAOUT", Props: []string{"C04", "C05", "C06", "C11", "C12", "C13", "C16", "C20"},
		Doc: "every exported evaluator method with an output ciphertext writes that output's metadata, copies into it, initialises it through InitOutput*, hands it to a callee that does, or is known to be an operand itself (the edge of `opOut == op` on which they are the same object) on every path to a success return (edge-sensitive must-analysis over go/cfg)",
		Run: func(c *core.Ctx) []ob {
			out := scanMetaOut(c)
			for i := range out {
				out[i].Props = metaProps(out[i].Key)
			}
			for _, o := range core.Floor("METAOUT", nil, "operations with an output ciphertext", c.Stats["metaout_ops"], 30) {
				out = append(out, withProps(o, "C04", "C05", "C06", "C11", "C12", "C13", "C20"))
			}
			return out
		}})
}

func init() {
	core.Register(&core.Rule{Name: "SCALEOUT", Props: []string{"C04", "C05", "C06", "C11", "C12", "C13", "C16", "C20"},
		Doc: "every exported evaluator method with an output ciphertext (accumulating *ThenAdd/*InPlace operations excepted) writes the scale of that output, copies the metadata into it, or hands it to a callee that does (greatest fixpoint over the helpers: InitOutputUnaryOp/BinaryOp do not), on every path to a success return on which the output is not known to be the operand itself (edge-sensitive must-analysis over go/cfg)",
		Run: func(c *core.Ctx) []ob {
			out := scanScaleOut(c)
			for i := range out {
				out[i].Props = metaProps(out[i].Key)
			}
			for _, o := range control(c, "SCALEOUT", scanScaleOut, "(fixEvaluator).AddConst") {
				out = append(out, withProps(o, "C04", "C05", "C06", "C11", "C12", "C13", "C20"))
			}
			for _, o := range core.Floor("SCALEOUT", nil, "operations with an output ciphertext", c.Stats["scaleout_ops"], 30) {
				out = append(out, withProps(o, "C04", "C05", "C06", "C11", "C12", "C13", "C20"))
			}
			return out
		}})
}

var _ = packages.NeedName

// swallowedFailure: a bare return, in a function without error result, directly under `if err != nil`: the helper gives
// up on a failure of a callee (the failure itself is the business of ERRDROP), it is not a success path.
func swallowedFailure(info *types.Info, pm map[ast.Node]ast.Node, ret *ast.ReturnStmt) bool {
	if len(ret.Results) != 0 {
		return false
	}
	blk, ok := pm[ast.Node(ret)].(*ast.BlockStmt)
	if !ok {
		return false
	}
	is, ok := pm[ast.Node(blk)].(*ast.IfStmt)
	if !ok || is.Body != blk {
		return false
	}
	return len(errVarsTestedNotNil(info, is.Cond)) > 0
}
