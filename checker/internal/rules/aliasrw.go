package rules

import (
	"fmt"
	"go/ast"
	"go/token"
	"go/types"
	"strings"

	"golang.org/x/tools/go/packages"

	"lvcheck/internal/core"
)

// ALIASRW — an element-wise kernel does not read an input cell after it has stored the same cell of the output.
//
// The kernels of package ring are called in place all the time (`NTT(p, p)`, `Add(a, b, a)`): every kernel with an
// input slice p1 and an output slice p2 of the same element type must be correct when both are the same slice. Within
// one iteration that means: once `p2[I]` has been stored, no later statement of the iteration reads `p1[I]` — in place
// it would read the new value. The tuple form `p2[jx], p2[jy] = f(p1[jx], p1[jy]), g(p1[jy], p1[jx])` evaluates both
// right-hand sides first and is fine; the same thing split into two statements is not.
//
// Rule: in every function of package ring with at least two []uint64 parameters, within each statement list, after a
// store to out[I] (directly or through a fixed-size view `(*[k]uint64)(unsafe.Pointer(&out[J]))`), no later statement
// of the same list reads in[I] for another parameter `in` of the same slice type that the function never stores into
// (a pure input), with the same index text (same view offset), unless the function's documentation says the operation
// cannot be done in place. Scope: every function of the module with two numeric slice parameters of one type.

type arwCell struct {
	base types.Object
	idx  string
}

func scanAliasRW(c *core.Ctx) []ob {
	var out []ob
	n := 0
	c.FuncDecls(func(pk *packages.Package, file *ast.File, fd *ast.FuncDecl) {
		if fd.Body == nil || fileIsTestSupport(c.Program, fd.Pos()) || inExamples(pk) {
			return
		}
		info := pk.TypesInfo
		fn, _ := info.Defs[fd.Name].(*types.Func)
		if fn == nil {
			return
		}
		sig := fn.Type().(*types.Signature)
		slices := map[types.Object]bool{}
		elemKinds := map[types.BasicKind]int{}
		for i := 0; i < sig.Params().Len(); i++ {
			p := sig.Params().At(i)
			if sl, ok := p.Type().Underlying().(*types.Slice); ok {
				if b, ok := sl.Elem().Underlying().(*types.Basic); ok && b.Info()&types.IsNumeric != 0 {
					slices[p] = true
					elemKinds[b.Kind()]++
				}
			}
		}
		two := false
		for _, k := range elemKinds {
			if k >= 2 {
				two = true
			}
		}
		if !two {
			return
		}
		if fd.Doc != nil {
			d := strings.ToLower(fd.Doc.Text())
			if strings.Contains(d, "cannot be in-place") || strings.Contains(d, "cannot be in place") || strings.Contains(d, "not in place") || strings.Contains(d, "not in-place") {
				return
			}
		}
		n++
		fkey := core.FuncKey(pk, fd)
		// views: local -> (base param, index text of the window start)
		type view struct {
			base types.Object
			at   string
		}
		views := map[types.Object]view{}
		ast.Inspect(fd.Body, func(x ast.Node) bool {
			as, ok := x.(*ast.AssignStmt)
			if !ok || len(as.Lhs) != len(as.Rhs) {
				return true
			}
			for i, l := range as.Lhs {
				id, ok := l.(*ast.Ident)
				if !ok {
					continue
				}
				lo := info.Defs[id]
				if lo == nil {
					lo = info.Uses[id]
				}
				if lo == nil {
					continue
				}
				// (*[k]uint64)(unsafe.Pointer(&p[J])) or (*[k]uint64)(p[J:])
				var found *ast.IndexExpr
				ast.Inspect(as.Rhs[i], func(y ast.Node) bool {
					if u, ok := y.(*ast.UnaryExpr); ok && u.Op == token.AND {
						if ie, ok := unparen(u.X).(*ast.IndexExpr); ok {
							found = ie
						}
					}
					return true
				})
				if found == nil {
					continue
				}
				if _, isPtr := info.TypeOf(as.Rhs[i]).(*types.Pointer); !isPtr {
					continue
				}
				if bid, ok := unparen(found.X).(*ast.Ident); ok && slices[info.Uses[bid]] {
					views[lo] = view{info.Uses[bid], exprString(found.Index)}
				}
			}
			return true
		})
		cellOf := func(e ast.Expr) (arwCell, bool) {
			ie, ok := unparen(e).(*ast.IndexExpr)
			if !ok {
				return arwCell{}, false
			}
			id, ok := unparen(ie.X).(*ast.Ident)
			if !ok {
				return arwCell{}, false
			}
			o := info.Uses[id]
			if slices[o] {
				return arwCell{o, exprString(ie.Index)}, true
			}
			if v, ok := views[o]; ok {
				return arwCell{v.base, v.at + "+" + exprString(ie.Index)}, true
			}
			return arwCell{}, false
		}
		// parameters the function stores into (outputs); a read only conflicts when its slice is a pure input
		storedInto := map[types.Object]bool{}
		ast.Inspect(fd.Body, func(x ast.Node) bool {
			switch v := x.(type) {
			case *ast.AssignStmt:
				for _, l := range v.Lhs {
					if cell, ok := cellOf(l); ok {
						storedInto[cell.base] = true
					}
				}
			case *ast.IncDecStmt:
				if cell, ok := cellOf(v.X); ok {
					storedInto[cell.base] = true
				}
			}
			return true
		})
		reported := false
		var walkList func(list []ast.Stmt)
		walkList = func(list []ast.Stmt) {
			written := map[string]map[types.Object]token.Pos{} // idx -> bases stored at that idx
			for _, st := range list {
				// reads of this statement (all index expressions not in store position)
				stores := map[ast.Expr]bool{}
				if as, ok := st.(*ast.AssignStmt); ok {
					for _, l := range as.Lhs {
						stores[unparen(l)] = true
					}
				}
				if !reported {
					ast.Inspect(st, func(y ast.Node) bool {
						if _, isLit := y.(*ast.FuncLit); isLit {
							return false
						}
						e, ok := y.(ast.Expr)
						if !ok || stores[e] {
							return true
						}
						if cell, ok := cellOf(e); ok {
							for b, pos := range written[cell.idx] {
								if b != cell.base && !reported && !storedInto[cell.base] && types.Identical(b.Type(), cell.base.Type()) {
									reported = true
									out = append(out, violOb("ALIASRW", "ALIASRW:"+fkey, c.Rel(e.Pos()), fmt.Sprintf("%s reads %s after the statement at %s has stored the same cell of %s: when the operation is done in place (both are the same slice) the read sees the new value", fkey, exprString(e), c.Rel(pos), b.Name())))
								}
							}
						}
						return true
					})
				}
				if as, ok := st.(*ast.AssignStmt); ok {
					for _, l := range as.Lhs {
						if cell, ok := cellOf(l); ok {
							if written[cell.idx] == nil {
								written[cell.idx] = map[types.Object]token.Pos{}
							}
							written[cell.idx][cell.base] = as.Pos()
						}
					}
					// an assignment to a variable used in index texts invalidates what is known
					for _, l := range as.Lhs {
						if id, ok := l.(*ast.Ident); ok {
							for k := range written {
								if strings.Contains(k, id.Name) {
									delete(written, k)
								}
							}
						}
					}
				}
				if inc, ok := st.(*ast.IncDecStmt); ok {
					if id, ok := inc.X.(*ast.Ident); ok {
						for k := range written {
							if strings.Contains(k, id.Name) {
								delete(written, k)
							}
						}
					}
				}
				// nested lists are separate iterations/branches
				switch v := st.(type) {
				case *ast.ForStmt:
					walkList(v.Body.List)
				case *ast.RangeStmt:
					walkList(v.Body.List)
				case *ast.IfStmt:
					walkList(v.Body.List)
					if eb, ok := v.Else.(*ast.BlockStmt); ok {
						walkList(eb.List)
					} else if ei, ok := v.Else.(*ast.IfStmt); ok {
						walkList([]ast.Stmt{ei})
					}
				case *ast.BlockStmt:
					walkList(v.List)
				case *ast.SwitchStmt:
					for _, cc := range v.Body.List {
						walkList(cc.(*ast.CaseClause).Body)
					}
				}
			}
		}
		walkList(fd.Body.List)
		if !reported {
			out = append(out, okOb("ALIASRW", "ALIASRW:"+fkey, c.Rel(fd.Pos()), "no input cell is read after the same cell of an output has been stored in the same statement list", true))
		}
	})
	c.Stats["aliasrw_fns"] = n
	return out
}

func init() {
	core.Register(&core.Rule{Name: "ALIASRW", Props: []string{"C01", "C02"},
		Doc: "in every function with two or more numeric slice parameters of one type (kernels callable in place), within a statement list no input cell in[I] is read after a previous statement has stored out[I] for the same index text (direct or through fixed-size views), unless the documentation excludes in-place use",
		Run: func(c *core.Ctx) []ob {
			out := scanAliasRW(c)
			out = append(out, control(c, "ALIASRW", scanAliasRW, "lvfixture.foldSplit")...)
			out = append(out, core.Floor("ALIASRW", nil, "kernels with two or more slice parameters", c.Stats["aliasrw_fns"], 100)...)
			return out
		}})
}

var _ = packages.NeedName
