package rules

import (
	"fmt"
	"go/ast"
	"go/constant"
	"go/token"
	"go/types"
	"regexp"
	"sort"
	"strings"

	"golang.org/x/tools/go/packages"

	"lvcheck/internal/core"
)

// ALIASRW — an element-wise kernel does not read an input cell after it has stored the same cell of the output.
//
// The kernels of package ring are called in place all the time (`NTT(p, p)`, `Add(a, b, a)`): every kernel with an
// input slice p1 and an output slice p2 of the same element type must be correct when both are the same slice. Within
// one iteration that means: once `p2[I]` has been stored, no later statement of the iteration reads `p1[I]` — in place
// it would read the new value. The tuple form `p2[jx], p2[jy] = f(p1[jx], p1[jy]), g(p1[jy], p1[jx])` evaluates both
// right-hand sides first and is fine; the same thing split into two statements is not.
//
// Rule: in every function of package ring with at least two []uint64 parameters, within each statement list, after a
// store to out[I] (directly or through a fixed-size view `(*[k]uint64)(unsafe.Pointer(&out[J]))`), no later statement
// of the same list reads in[I] for another parameter `in` of the same slice type that the function never stores into
// (a pure input), with the same index text (same view offset), unless the function's documentation says the operation
// cannot be done in place. Scope: every function of the module with two numeric slice parameters of one type.

type arwCell struct {
	base types.Object
	idx  string
}

func scanAliasRW(c *core.Ctx) []ob {
	var out []ob
	n := 0
	c.FuncDecls(func(pk *packages.Package, file *ast.File, fd *ast.FuncDecl) {
		if fd.Body == nil || fileIsTestSupport(c.Program, fd.Pos()) || inExamples(pk) {
			return
		}
		info := pk.TypesInfo
		fn, _ := info.Defs[fd.Name].(*types.Func)
		if fn == nil {
			return
		}
		sig := fn.Type().(*types.Signature)
		slices := map[types.Object]bool{}
		elemKinds := map[types.BasicKind]int{}
		for i := 0; i < sig.Params().Len(); i++ {
			p := sig.Params().At(i)
			if sl, ok := p.Type().Underlying().(*types.Slice); ok {
				if b, ok := sl.Elem().Underlying().(*types.Basic); ok && b.Info()&types.IsNumeric != 0 {
					slices[p] = true
					elemKinds[b.Kind()]++
				}
			}
		}
		two := false
		for _, k := range elemKinds {
			if k >= 2 {
				two = true
			}
		}
		if !two {
			return
		}
		if fd.Doc != nil {
			d := strings.ToLower(fd.Doc.Text())
			if strings.Contains(d, "cannot be in-place") || strings.Contains(d, "cannot be in place") || strings.Contains(d, "not in place") || strings.Contains(d, "not in-place") {
				return
			}
		}
		n++
		fkey := core.FuncKey(pk, fd)
		// views: local -> (base param, index text of the window start)
		type view struct {
			base types.Object
			at   string
		}
		views := map[types.Object]view{}
		ast.Inspect(fd.Body, func(x ast.Node) bool {
			as, ok := x.(*ast.AssignStmt)
			if !ok || len(as.Lhs) != len(as.Rhs) {
				return true
			}
			for i, l := range as.Lhs {
				id, ok := l.(*ast.Ident)
				if !ok {
					continue
				}
				lo := info.Defs[id]
				if lo == nil {
					lo = info.Uses[id]
				}
				if lo == nil {
					continue
				}
				// (*[k]uint64)(unsafe.Pointer(&p[J])) or (*[k]uint64)(p[J:])
				var found *ast.IndexExpr
				ast.Inspect(as.Rhs[i], func(y ast.Node) bool {
					if u, ok := y.(*ast.UnaryExpr); ok && u.Op == token.AND {
						if ie, ok := unparen(u.X).(*ast.IndexExpr); ok {
							found = ie
						}
					}
					return true
				})
				if found == nil {
					continue
				}
				if _, isPtr := info.TypeOf(as.Rhs[i]).(*types.Pointer); !isPtr {
					continue
				}
				if bid, ok := unparen(found.X).(*ast.Ident); ok && slices[info.Uses[bid]] {
					views[lo] = view{info.Uses[bid], exprString(found.Index)}
				}
			}
			return true
		})
		cellOf := func(e ast.Expr) (arwCell, bool) {
			ie, ok := unparen(e).(*ast.IndexExpr)
			if !ok {
				return arwCell{}, false
			}
			id, ok := unparen(ie.X).(*ast.Ident)
			if !ok {
				return arwCell{}, false
			}
			o := info.Uses[id]
			if slices[o] {
				return arwCell{o, exprString(ie.Index)}, true
			}
			if v, ok := views[o]; ok {
				return arwCell{v.base, v.at + "+" + exprString(ie.Index)}, true
			}
			return arwCell{}, false
		}
		// parameters the function stores into (outputs); a read only conflicts when its slice is a pure input
		storedInto := map[types.Object]bool{}
		ast.Inspect(fd.Body, func(x ast.Node) bool {
			switch v := x.(type) {
			case *ast.AssignStmt:
				for _, l := range v.Lhs {
					if cell, ok := cellOf(l); ok {
						storedInto[cell.base] = true
					}
				}
			case *ast.IncDecStmt:
				if cell, ok := cellOf(v.X); ok {
					storedInto[cell.base] = true
				}
			}
			return true
		})
		reported := false
		var walkList func(list []ast.Stmt)
		walkList = func(list []ast.Stmt) {
			written := map[string]map[types.Object]token.Pos{} // idx -> bases stored at that idx
			for _, st := range list {
				// reads of this statement (all index expressions not in store position)
				stores := map[ast.Expr]bool{}
				if as, ok := st.(*ast.AssignStmt); ok {
					for _, l := range as.Lhs {
						stores[unparen(l)] = true
					}
				}
				if !reported {
					ast.Inspect(st, func(y ast.Node) bool {
						if _, isLit := y.(*ast.FuncLit); isLit {
							return false
						}
						e, ok := y.(ast.Expr)
						if !ok || stores[e] {
							return true
						}
						if cell, ok := cellOf(e); ok {
							for b, pos := range written[cell.idx] {
								if b != cell.base && !reported && !storedInto[cell.base] && types.Identical(b.Type(), cell.base.Type()) {
									reported = true
									out = append(out, violOb("ALIASRW", "ALIASRW:"+fkey, c.Rel(e.Pos()), fmt.Sprintf("%s reads %s after the statement at %s has stored the same cell of %s: when the operation is done in place (both are the same slice) the read sees the new value", fkey, exprString(e), c.Rel(pos), b.Name())))
								}
							}
						}
						return true
					})
				}
				if as, ok := st.(*ast.AssignStmt); ok {
					for _, l := range as.Lhs {
						if cell, ok := cellOf(l); ok {
							if written[cell.idx] == nil {
								written[cell.idx] = map[types.Object]token.Pos{}
							}
							written[cell.idx][cell.base] = as.Pos()
						}
					}
					// an assignment to a variable used in index texts invalidates what is known
					for _, l := range as.Lhs {
						if id, ok := l.(*ast.Ident); ok {
							for k := range written {
								if strings.Contains(k, id.Name) {
									delete(written, k)
								}
							}
						}
					}
				}
				if inc, ok := st.(*ast.IncDecStmt); ok {
					if id, ok := inc.X.(*ast.Ident); ok {
						for k := range written {
							if strings.Contains(k, id.Name) {
								delete(written, k)
							}
						}
					}
				}
				// nested lists are separate iterations/branches
				switch v := st.(type) {
				case *ast.ForStmt:
					walkList(v.Body.List)
				case *ast.RangeStmt:
					walkList(v.Body.List)
				case *ast.IfStmt:
					walkList(v.Body.List)
					if eb, ok := v.Else.(*ast.BlockStmt); ok {
						walkList(eb.List)
					} else if ei, ok := v.Else.(*ast.IfStmt); ok {
						walkList([]ast.Stmt{ei})
					}
				case *ast.BlockStmt:
					walkList(v.List)
				case *ast.SwitchStmt:
					for _, cc := range v.Body.List {
						walkList(cc.(*ast.CaseClause).Body)
					}
				}
			}
		}
		walkList(fd.Body.List)
		if !reported {
			out = append(out, okOb("ALIASRW", "ALIASRW:"+fkey, c.Rel(fd.Pos()), "no input cell is read after the same cell of an output has been stored in the same statement list", true))
		}
	})
	c.Stats["aliasrw_fns"] = n
	return out
}

func init() {
	core.Register(&core.Rule{Name: "ALIASRW", Props: []string{"C01", "C02"},
		Doc: "in every function with two or more numeric slice parameters of one type (kernels callable in place), within a statement list no input cell in[I] is read after a previous statement has stored out[I] for the same index text (direct or through fixed-size views), unless the documentation excludes in-place use",
		Run: func(c *core.Ctx) []ob {
			out := scanAliasRW(c)
			out = append(out, control(c, "ALIASRW", scanAliasRW, "lvfixture.foldSplit")...)
			out = append(out, core.Floor("ALIASRW", nil, "kernels with two or more slice parameters", c.Stats["aliasrw_fns"], 100)...)
			return out
		}})
}

var _ = packages.NeedName

// LOOPCLOBBER — a loop does not overwrite, at its own index, the cell of a vector that it reads at a fixed index.
//
// `DivFloorByLastModulusNTT` keeps the inverse transform of the last residue in `buff.Coeffs[0]` and transforms it
// under every smaller prime into `buff.Coeffs[1]`. Writing the per-prime transform to `buff.Coeffs[i]` instead looks
// like the natural indexed form — and overwrites `buff.Coeffs[0]` in the first iteration, so that every later prime
// works on garbage (two-prime chains, all the tests use, are still right).
//
// Rule: in the body of a loop with index variable i, when some write goes to `B[i]` (destination of a ring operation,
// an in-place method or an assignment; B any vector expression not mentioning i) no expression of the body reads
// `B[c]` for a constant c, unless `B[c]` is also written in the body before (source order) that read, or the loop never
// reaches c before its last iteration (ascending from a constant above c; descending down to c).
func scanLoopClobber(c *core.Ctx) []ob {
	var out []ob
	n := 0
	c.FuncDecls(func(pk *packages.Package, file *ast.File, fd *ast.FuncDecl) {
		if fd.Body == nil || fileIsTestSupport(c.Program, fd.Pos()) || inExamples(pk) {
			return
		}
		info := pk.TypesInfo
		fkey := core.FuncKey(pk, fd)
		ord := 0
		ast.Inspect(fd.Body, func(x ast.Node) bool {
			var body *ast.BlockStmt
			var iv types.Object
			// safeConst(c): the cell of index c is not visited, or visited by the last iteration only
			safeConst := func(c int64) bool { return false }
			switch l := x.(type) {
			case *ast.ForStmt:
				body = l.Body
				if as, ok := l.Init.(*ast.AssignStmt); ok && len(as.Lhs) >= 1 {
					if id, ok := as.Lhs[0].(*ast.Ident); ok {
						iv = info.Defs[id]
					}
					if inc, ok := l.Post.(*ast.IncDecStmt); ok && len(as.Rhs) >= 1 {
						if inc.Tok == token.INC {
							// ascending from a constant a: cells below a are never written
							if tv, ok := info.Types[as.Rhs[0]]; ok && tv.Value != nil {
								if a, ok := constant.Int64Val(constant.ToInt(tv.Value)); ok {
									safeConst = func(c int64) bool { return c < a }
								}
							}
						} else if be, ok := l.Cond.(*ast.BinaryExpr); ok {
							// descending to a constant lower bound b (i >= b, i > b-1): cell b is the last one visited
							if tv, ok := info.Types[be.Y]; ok && tv.Value != nil {
								if b, ok := constant.Int64Val(constant.ToInt(tv.Value)); ok {
									switch be.Op {
									case token.GEQ:
										safeConst = func(c int64) bool { return c <= b }
									case token.GTR:
										safeConst = func(c int64) bool { return c <= b+1 }
									}
								}
							}
						}
					}
				}
			case *ast.RangeStmt:
				body = l.Body
				if id, ok := l.Key.(*ast.Ident); ok && id != nil {
					iv = info.Defs[id]
				}
			default:
				return true
			}
			if iv == nil || body == nil {
				return true
			}
			// writes to B[i]
			varying := map[string]ast.Node{}
			constW := map[string]token.Pos{}
			for _, w := range collectWrites(info, body) {
				ast.Inspect(w.target, func(y ast.Node) bool {
					ie, ok := y.(*ast.IndexExpr)
					if !ok {
						return true
					}
					if _, isSl := info.TypeOf(ie.X).Underlying().(*types.Slice); !isSl {
						return true
					}
					if id, ok := unparen(ie.Index).(*ast.Ident); ok && info.Uses[id] == iv {
						mentionsI := false
						ast.Inspect(ie.X, func(z ast.Node) bool {
							if u, ok := z.(*ast.Ident); ok && info.Uses[u] == iv {
								mentionsI = true
							}
							return true
						})
						if !mentionsI {
							varying[exprString(ie.X)] = w.target
						}
					}
					if tv, ok := info.Types[ie.Index]; ok && tv.Value != nil {
						k := exprString(ie)
						if p, ok := constW[k]; !ok || w.pos < p {
							constW[k] = w.pos
						}
					}
					return true
				})
			}
			if len(varying) == 0 {
				return true
			}
			n++
			ord++
			var bad *ast.IndexExpr
			writeTargets := map[ast.Node]bool{}
			for _, w := range collectWrites(info, body) {
				writeTargets[unparen(w.target)] = true
			}
			ast.Inspect(body, func(y ast.Node) bool {
				ie, ok := y.(*ast.IndexExpr)
				if !ok || bad != nil {
					return bad == nil
				}
				tv, ok := info.Types[ie.Index]
				if !ok || tv.Value == nil {
					return true
				}
				if _, isVar := varying[exprString(ie.X)]; !isVar {
					return true
				}
				if writeTargets[ie] {
					return true
				}
				if p, ok := constW[exprString(ie)]; ok && p < ie.Pos() {
					return true // defined in this iteration before it is read
				}
				if cv, ok := constant.Int64Val(constant.ToInt(tv.Value)); ok && safeConst(cv) {
					return true
				}
				bad = ie
				return true
			})
			key := fmt.Sprintf("LOOPCLOBBER:%s#%d", fkey, ord)
			if bad != nil {
				out = append(out, withProps(violOb("LOOPCLOBBER", key, c.Rel(bad.Pos()), fmt.Sprintf("%s reads %s, set before the loop, in a loop that writes %s[%s]: the iteration whose index is %s overwrites the cell every later iteration reads", fkey, exprString(bad), exprString(bad.X), iv.Name(), exprString(bad.Index))), bufPropsRing(fkey)...))
			} else {
				out = append(out, withProps(okOb("LOOPCLOBBER", key, c.Rel(x.Pos()), "no cell read at a fixed index is also written at the loop index", true), bufPropsRing(fkey)...))
			}
			return true
		})
	})
	c.Stats["loopclobber_loops"] = n
	return out
}

func init() {
	core.Register(&core.Rule{Name: "LOOPCLOBBER", Props: []string{"C02", "C01", "C04", "C07", "C18"},
		Doc: "in a loop with index variable i that writes B[i] (ring-operation destination, in-place method, assignment), no expression of the body reads B[c] at a constant index c unless B[c] is written earlier in the same body",
		Run: func(c *core.Ctx) []ob {
			out := scanLoopClobber(c)
			for _, o := range control(c, "LOOPCLOBBER", scanLoopClobber, "lvfixture.spreadResidue") {
				out = append(out, withProps(o, "C02", "C01", "C04", "C07", "C18"))
			}
			return out
		}})
}

// LOOPALIAS — a loop does not file the same buffer under every index.
//
// `coeff := NewPoly(); for i := … { sampler.Read(coeff); gen[i] = coeff }` stores, under every index, a header that
// refers to the same coefficients: after the loop all gen[i] are the last sample. (With the Shamir polynomial this
// leaves one random coefficient instead of t-1: two parties reconstruct the secret.)
//
// Rule: in a loop, an assignment `X[e] = v` (or `X = append(X, v)`) of a variable v whose type shares storage when
// copied (slice, pointer, polynomial) and all of whose definitions lie outside the loop body is not accompanied, in
// the same body, by a write *into* v (destination of a ring operation or of a sampler Read, in-place method, element
// store).
func scanLoopAlias(c *core.Ctx) []ob {
	var out []ob
	n := 0
	c.FuncDecls(func(pk *packages.Package, file *ast.File, fd *ast.FuncDecl) {
		if fd.Body == nil || fileIsTestSupport(c.Program, fd.Pos()) || inExamples(pk) {
			return
		}
		info := pk.TypesInfo
		fkey := core.FuncKey(pk, fd)
		// definition positions of locals
		defPos := map[types.Object][]token.Pos{}
		ast.Inspect(fd.Body, func(x ast.Node) bool {
			switch v := x.(type) {
			case *ast.AssignStmt:
				for _, l := range v.Lhs {
					if id, ok := l.(*ast.Ident); ok {
						o := info.Defs[id]
						if o == nil {
							o = info.Uses[id]
						}
						if o != nil {
							defPos[o] = append(defPos[o], v.Pos())
						}
					}
				}
			case *ast.ValueSpec:
				for _, id := range v.Names {
					if o := info.Defs[id]; o != nil {
						defPos[o] = append(defPos[o], v.Pos())
					}
				}
			case *ast.RangeStmt:
				for _, e := range []ast.Expr{v.Key, v.Value} {
					if id, ok := e.(*ast.Ident); ok && id != nil {
						if o := info.Defs[id]; o != nil {
							defPos[o] = append(defPos[o], v.Body.Pos()) // re-bound at every iteration
						}
					}
				}
			}
			return true
		})
		ast.Inspect(fd.Body, func(x ast.Node) bool {
			var body *ast.BlockStmt
			switch l := x.(type) {
			case *ast.ForStmt:
				body = l.Body
			case *ast.RangeStmt:
				body = l.Body
			default:
				return true
			}
			// stores of a variable into an indexed container / append
			type store struct {
				v  types.Object
				at ast.Node
			}
			var stores []store
			ast.Inspect(body, func(y ast.Node) bool {
				as, ok := y.(*ast.AssignStmt)
				if !ok || len(as.Lhs) != len(as.Rhs) {
					return true
				}
				for i, l := range as.Lhs {
					var val ast.Expr
					if _, isIdx := unparen(l).(*ast.IndexExpr); isIdx {
						val = as.Rhs[i]
					} else if call, ok := unparen(as.Rhs[i]).(*ast.CallExpr); ok {
						if id, ok := unparen(call.Fun).(*ast.Ident); ok && id.Name == "append" && len(call.Args) == 2 && !call.Ellipsis.IsValid() {
							val = call.Args[1]
						}
					}
					if val == nil {
						continue
					}
					val = unparen(val)
					if u, ok := val.(*ast.UnaryExpr); ok && u.Op == token.AND {
						val = unparen(u.X)
					}
					id, ok := val.(*ast.Ident)
					if !ok {
						continue
					}
					v, ok := info.Uses[id].(*types.Var)
					if !ok || v.IsField() || !sharesStorage(v.Type()) {
						continue
					}
					if _, isAddr := unparen(as.Rhs[i]).(*ast.UnaryExpr); !isAddr {
						// plain value: only storage-sharing types alias; &v always does
					}
					inside := false
					for _, p := range defPos[v] {
						if p >= body.Pos() && p <= body.End() {
							inside = true
						}
					}
					if inside || len(defPos[v]) == 0 {
						continue // defined per iteration, or a parameter (the caller's business)
					}
					stores = append(stores, store{v, as})
				}
				return true
			})
			for _, st := range stores {
				n++
				key := fmt.Sprintf("LOOPALIAS:%s#%s", fkey, st.v.Name())
				written := false
				var how string
				for _, w := range collectWrites(info, body) {
					if w.how == "assignment" {
						// v = … re-binds (would be a definition inside); v[i] = … writes into it
						if _, plain := unparen(w.target).(*ast.Ident); plain {
							continue
						}
					}
					if id := rootIdent(w.target); id != nil && info.Uses[id] == st.v {
						written, how = true, w.how+" at "+c.Rel(w.pos)
					}
				}
				// sampler.Read(v) / ReadNew style fills
				ast.Inspect(body, func(y ast.Node) bool {
					if call, ok := y.(*ast.CallExpr); ok {
						if se, ok := unparen(call.Fun).(*ast.SelectorExpr); ok && (se.Sel.Name == "Read" || se.Sel.Name == "ReadAndAdd" || se.Sel.Name == "Copy" || se.Sel.Name == "CopyLvl") {
							for _, a := range call.Args {
								if id := rootIdent(a); id != nil && info.Uses[id] == st.v && se.Sel.Name != "Copy" && se.Sel.Name != "CopyLvl" {
									written, how = true, se.Sel.Name+" at "+c.Rel(call.Pos())
								}
							}
							if id := rootIdent(se.X); id != nil && info.Uses[id] == st.v && (se.Sel.Name == "Copy" || se.Sel.Name == "CopyLvl") {
								written, how = true, se.Sel.Name+" at "+c.Rel(call.Pos())
							}
						}
					}
					return true
				})
				if written {
					out = append(out, withProps(violOb("LOOPALIAS", key, c.Rel(st.at.Pos()), fmt.Sprintf("%s files %s, allocated once outside the loop, under every index while the loop writes into it (%s): all the elements refer to the same storage and hold the last value", fkey, st.v.Name(), how)), propsForKey(fkey)...))
				} else {
					out = append(out, withProps(okOb("LOOPALIAS", key, c.Rel(st.at.Pos()), "the shared value is not written inside the loop", true), propsForKey(fkey)...))
				}
			}
			return true
		})
	})
	c.Stats["loopalias_sites"] = n
	if !c.IsFixture {
		out = append(out, okOb("LOOPALIAS", "LOOPALIAS:summary", "", fmt.Sprintf("%d stores of an outer storage-sharing variable into an indexed container inside a loop examined", n), true))
	}
	return out
}

func init() {
	core.Register(&core.Rule{Name: "LOOPALIAS", Wide: true, Props: []string{"C01", "C02", "C03", "C04", "C05", "C06", "C07", "C08", "C09", "C10", "C11", "C12", "C13", "C14", "C15", "C16", "C17", "C18", "C19", "C20"},
		Doc: "in a loop, a storage-sharing variable (slice, pointer, polynomial) all of whose definitions lie outside the loop body is not both stored into an indexed container (X[e] = v, append) and written into (ring destination, sampler Read, in-place method, element store) in that body",
		Run: func(c *core.Ctx) []ob {
			out := scanLoopAlias(c)
			out = append(out, control(c, "LOOPALIAS", scanLoopAlias, "lvfixture.drawCoeffs")...)
			return out
		}})
}

// propsForKey: the properties anchored in the package of a function key (for rules that apply to the whole module).
func propsForKey(fkey string) []string {
	switch {
	case strings.HasPrefix(fkey, "ring/ringqp"), strings.HasPrefix(fkey, "ring."):
		return []string{"C01", "C02", "C17"}
	case strings.HasPrefix(fkey, "core/rgsw"):
		return []string{"C20"}
	case strings.HasPrefix(fkey, "core/rlwe"):
		return []string{"C03", "C04", "C11"}
	case strings.HasPrefix(fkey, "schemes/bgv"):
		return []string{"C05", "C07"}
	case strings.HasPrefix(fkey, "schemes/ckks"):
		return []string{"C06", "C07"}
	case strings.Contains(fkey, "lintrans"):
		return []string{"C12"}
	case strings.Contains(fkey, "polynomial"), strings.Contains(fkey, "minimax"), strings.Contains(fkey, "comparison"), strings.Contains(fkey, "inverse"):
		return []string{"C13"}
	case strings.HasPrefix(fkey, "circuits/"):
		return []string{"C18"}
	case strings.HasPrefix(fkey, "multiparty/mp"):
		return []string{"C16"}
	case strings.HasPrefix(fkey, "multiparty"):
		return []string{"C14", "C15", "C16"}
	case strings.HasPrefix(fkey, "utils/sampling"):
		return []string{"C17"}
	case strings.HasPrefix(fkey, "utils"):
		return []string{"C08", "C10", "C13"}
	}
	return []string{"C04"}
}

// POLYOUT — a ring operation that is documented to *write* its result does not start by reading its output.
//
// `EvalPolyScalar(pol, pt, p3)` "writes the result in p3"; a Horner loop that begins with `MulScalar(p3, pt, p3)`
// without first copying the leading coefficient folds whatever p3 held into the result (a reused share buffer leaks
// old*pt^t into the next share).
//
// Rule: for every function of ring and ring/ringqp whose last parameter is a polynomial (the output by the package's
// convention) and that is not an accumulating operation (name with ThenAdd/ThenSub/AndAdd, or a doc comment that
// gives the output on the right-hand side of its formula), the first statement, in source order, that mentions the
// output does not use it as a source: it occurs there only as the last argument of a call, as the receiver of
// Copy/CopyLvl/Zero/Resize, or on the left of an assignment.
func scanPolyOut(c *core.Ctx) []ob {
	var out []ob
	n := 0
	c.FuncDecls(func(pk *packages.Package, file *ast.File, fd *ast.FuncDecl) {
		rel := core.ShortPkg(pk.PkgPath)
		if fd.Body == nil || fileIsTestSupport(c.Program, fd.Pos()) || !(c.IsFixture || rel == "ring" || rel == "ring/ringqp") {
			return
		}
		info := pk.TypesInfo
		fn, _ := info.Defs[fd.Name].(*types.Func)
		if fn == nil {
			return
		}
		sig := fn.Type().(*types.Signature)
		if sig.Params().Len() < 2 || sig.Results().Len() > 0 {
			return
		}
		o := sig.Params().At(sig.Params().Len() - 1)
		ts := o.Type().String()
		if !(strings.HasSuffix(ts, "ring.Poly") || strings.HasSuffix(ts, "ringqp.Poly")) {
			return
		}
		// at least one other polynomial-ish input
		name := fd.Name.Name
		for _, acc := range []string{"ThenAdd", "ThenSub", "AndAdd", "ReadAndAdd"} {
			if strings.Contains(name, acc) {
				return
			}
		}
		if fd.Doc != nil {
			d := fd.Doc.Text()
			on := regexp.QuoteMeta(o.Name())
			if regexp.MustCompile(on+`\s*=\s*[^=\n]*\b`+on+`\b`).MatchString(d) || regexp.MustCompile(on+`\s*[-+]=`).MatchString(d) || strings.Contains(d, "in place") || strings.Contains(d, "in-place") {
				return
			}
		}
		fkey := core.FuncKey(pk, fd)
		mentions := func(e ast.Node) bool {
			f := false
			ast.Inspect(e, func(x ast.Node) bool {
				if id, ok := x.(*ast.Ident); ok && info.Uses[id] == o {
					f = true
				}
				return !f
			})
			return f
		}
		// first simple statement mentioning the output
		var first ast.Stmt
		var find func(list []ast.Stmt)
		find = func(list []ast.Stmt) {
			for _, st := range list {
				if first != nil {
					return
				}
				switch v := st.(type) {
				case *ast.ForStmt:
					find(v.Body.List)
				case *ast.RangeStmt:
					// ranging over the output reads it only when the element values are taken (`for i := range p2.Coeffs`
					// reads a length); a call that files the operands in a table (`range r.parts(p1, p2, p3)`) is a
					// view of them, the uses are in the body
					_, viaCall := unparen(v.X).(*ast.CallExpr)
					if mentions(v.X) && v.Value != nil && !viaCall {
						first = st
						return
					}
					find(v.Body.List)
				case *ast.IfStmt:
					if v.Init != nil && mentions(v.Init) || mentions(v.Cond) {
						// conditions read metadata (levels, lengths, identity tests): not a data use
					}
					find(v.Body.List)
					if first == nil {
						switch e := v.Else.(type) {
						case *ast.BlockStmt:
							find(e.List)
						case *ast.IfStmt:
							find([]ast.Stmt{e})
						}
					}
				case *ast.BlockStmt:
					find(v.List)
				case *ast.SwitchStmt:
					for _, cc := range v.Body.List {
						find(cc.(*ast.CaseClause).Body)
					}
				default:
					if mentions(st) {
						first = st
					}
				}
			}
		}
		find(fd.Body.List)
		if first == nil {
			return
		}
		n++
		// source occurrences in that statement
		asSource := false
		opaque := false
		var check func(e ast.Node, dest bool)
		check = func(e ast.Node, dest bool) {
			switch v := e.(type) {
			case *ast.AssignStmt:
				for _, l := range v.Lhs {
					check(l, true)
				}
				for _, r := range v.Rhs {
					check(r, false)
				}
			case *ast.ExprStmt:
				check(v.X, false)
			case *ast.CallExpr:
				if se, ok := unparen(v.Fun).(*ast.SelectorExpr); ok {
					switch se.Sel.Name {
					case "Copy", "CopyLvl", "Zero", "Resize", "CopyValues":
						check(se.X, true)
					case "Level", "N", "Equal":
						// metadata
					default:
						check(se.X, false)
					}
				}
				// views built for the callee: len(), cap() are metadata
				if id, ok := unparen(v.Fun).(*ast.Ident); ok && (id.Name == "len" || id.Name == "cap") {
					return
				}
				// handed to a distributing helper together with a closure that says what happens to each operand
				// (`r.forEachHalf(p1, p2, Poly{}, func(h half) { op(h.ring, h.p1, h.p2) })`): the position in the argument
				// list says nothing about source or destination
				for _, a := range v.Args {
					if _, isLit := unparen(a).(*ast.FuncLit); isLit {
						opaque = true
						return
					}
				}
				// the destination is the last polynomial operand (a function value or a flag may follow it)
				lastPoly := len(v.Args) - 1
				for i := len(v.Args) - 1; i >= 0; i-- {
					if t := info.TypeOf(v.Args[i]); t != nil && (strings.HasSuffix(t.String(), "ring.Poly") || strings.HasSuffix(t.String(), "ringqp.Poly") || strings.HasSuffix(t.String(), ".Poly")) {
						lastPoly = i
						break
					}
				}
				for i, a := range v.Args {
					check(a, i == lastPoly)
				}
			case ast.Expr:
				// only the polynomial as a whole (the bare identifier) handed on as an operand: views of single
				// residues (`p2.Coeffs[i]`) are resolved by the kernels' own rules
				if id, ok := unparen(v).(*ast.Ident); ok && !dest && info.Uses[id] == o {
					asSource = true
				}
			case *ast.RangeStmt:
				check(v.X, false)
			}
		}
		check(first, false)
		key := "POLYOUT:" + fkey
		if opaque && !asSource {
			out = append(out, infoOb("POLYOUT", key, c.Rel(first.Pos()), "the output polynomial is first handed to a helper together with a closure: not decided"))
		} else if asSource {
			out = append(out, violOb("POLYOUT", key, c.Rel(first.Pos()), fmt.Sprintf("%s is documented to write its result into %s, yet the first statement that mentions %s uses it as a source (%s): the result depends on what the receiver held before", fkey, o.Name(), o.Name(), strings.SplitN(exprStringStmt(first), "\n", 2)[0])))
		} else {
			out = append(out, okOb("POLYOUT", key, c.Rel(first.Pos()), "the first use of the output polynomial is a write", true))
		}
	})
	c.Stats["polyout_fns"] = n
	return out
}

func exprStringStmt(st ast.Stmt) string {
	switch v := st.(type) {
	case *ast.ExprStmt:
		return exprString(v.X)
	case *ast.AssignStmt:
		var l, r []string
		for _, e := range v.Lhs {
			l = append(l, exprString(e))
		}
		for _, e := range v.Rhs {
			r = append(r, exprString(e))
		}
		return strings.Join(l, ", ") + " " + v.Tok.String() + " " + strings.Join(r, ", ")
	}
	return fmt.Sprintf("%T", st)
}

func init() {
	core.Register(&core.Rule{Name: "POLYOUT", Props: []string{"C01", "C02", "C15"},
		Doc: "in ring and ring/ringqp, a non-accumulating operation whose last parameter is the output polynomial does not use that polynomial as a source in the first statement that mentions it (only as last call argument, receiver of Copy/Zero/Resize, or assignment target)",
		Run: func(c *core.Ctx) []ob {
			out := scanPolyOut(c)
			out = append(out, control(c, "POLYOUT", scanPolyOut, "lvfixture.hornerInto")...)
			out = append(out, core.Floor("POLYOUT", nil, "ring operations with an output polynomial", c.Stats["polyout_fns"], 40)...)
			return out
		}})
}

// STRIDEGRID — an index that advances by gap = A / B starts on the grid: at 0 or at A.
//
// The CKKS decoder reads the real parts of a sparsely packed vector at 0, gap, 2·gap, … and the imaginary parts at
// maxCols, maxCols+gap, … with gap = maxCols / slots. Starting the second walk at `slots` (as the CRT variant, whose
// coefficients are compacted, does) is the same thing for full packing (slots = maxCols) and reads real-part
// coefficients for every sparse one.
//
// Rule: in a `for` statement whose post statement advances an index by a local `g` defined as the quotient `A / B`,
// that index starts at 0, at A, or at an expression that is a sum/multiple of A.
func scanStrideGrid(c *core.Ctx) []ob {
	var out []ob
	n := 0
	c.FuncDecls(func(pk *packages.Package, file *ast.File, fd *ast.FuncDecl) {
		if fd.Body == nil || fileIsTestSupport(c.Program, fd.Pos()) || inExamples(pk) {
			return
		}
		info := pk.TypesInfo
		fkey := core.FuncKey(pk, fd)
		// locals defined once as a quotient
		quot := map[types.Object]ast.Expr{}
		cnt := map[types.Object]int{}
		ast.Inspect(fd.Body, func(x ast.Node) bool {
			if as, ok := x.(*ast.AssignStmt); ok && len(as.Lhs) == len(as.Rhs) {
				for i, l := range as.Lhs {
					if id, ok := l.(*ast.Ident); ok {
						o := info.Defs[id]
						if o == nil {
							o = info.Uses[id]
						}
						if o == nil {
							continue
						}
						cnt[o]++
						if be, ok := unparen(as.Rhs[i]).(*ast.BinaryExpr); ok && be.Op == token.QUO {
							quot[o] = be.X
						}
					}
				}
			}
			return true
		})
		ord := 0
		ast.Inspect(fd.Body, func(x ast.Node) bool {
			fs, ok := x.(*ast.ForStmt)
			if !ok || fs.Init == nil || fs.Post == nil {
				return true
			}
			init, ok1 := fs.Init.(*ast.AssignStmt)
			post, ok2 := fs.Post.(*ast.AssignStmt)
			if !ok1 || !ok2 || len(init.Lhs) != len(init.Rhs) || len(post.Lhs) != len(post.Rhs) {
				return true
			}
			for pi, pl := range post.Lhs {
				pid, ok := pl.(*ast.Ident)
				if !ok {
					continue
				}
				idx := info.Uses[pid]
				// idx = idx + g  /  idx += g
				var g types.Object
				rhs := unparen(post.Rhs[pi])
				if post.Tok == token.ADD_ASSIGN {
					if gid, ok := rhs.(*ast.Ident); ok {
						g = info.Uses[gid]
					}
				} else if be, ok := rhs.(*ast.BinaryExpr); ok && be.Op == token.ADD {
					if l, ok := unparen(be.X).(*ast.Ident); ok && info.Uses[l] == idx {
						if gid, ok := unparen(be.Y).(*ast.Ident); ok {
							g = info.Uses[gid]
						}
					}
				}
				if g == nil || quot[g] == nil || cnt[g] != 1 {
					continue
				}
				A := exprString(quot[g])
				// initial value of idx
				var start ast.Expr
				for ii, il := range init.Lhs {
					if iid, ok := il.(*ast.Ident); ok && info.Defs[iid] == idx || ok && info.Uses[iid] == idx {
						start = init.Rhs[ii]
					}
				}
				if start == nil {
					continue
				}
				n++
				ord++
				key := fmt.Sprintf("STRIDEGRID:%s#%d", fkey, ord)
				st := exprString(start)
				onGrid := st == "0" || st == A || strings.HasPrefix(st, A+" + ") || strings.HasPrefix(st, A+" * ") || strings.HasSuffix(st, " * "+A)
				if tv, ok := info.Types[start]; ok && tv.Value != nil && tv.Value.ExactString() == "0" {
					onGrid = true
				}
				// the same for an offset added to that index inside the loop (`coeffs[idx+maxCols]`): 0 or a multiple of A
				var offBad ast.Expr
				if onGrid {
					ast.Inspect(fs.Body, func(y ast.Node) bool {
						ix, ok := y.(*ast.IndexExpr)
						if !ok || offBad != nil {
							return true
						}
						be, ok := unparen(ix.Index).(*ast.BinaryExpr)
						if !ok || be.Op != token.ADD {
							return true
						}
						var off ast.Expr
						if l, ok := unparen(be.X).(*ast.Ident); ok && info.Uses[l] == idx {
							off = be.Y
						} else if r, ok := unparen(be.Y).(*ast.Ident); ok && info.Uses[r] == idx {
							off = be.X
						}
						if off == nil {
							return true
						}
						os := exprString(unparen(off))
						okOff := os == A || strings.HasPrefix(os, A+" * ") || strings.HasSuffix(os, " * "+A) || strings.HasPrefix(os, A+" + ")
						if tv, ok := info.Types[off]; ok && tv.Value != nil {
							okOff = true // a constant lane offset
						}
						if oid, ok := unparen(off).(*ast.Ident); ok {
							if d := singleDef(info, fd, info.Uses[oid]); d != nil {
								ds := exprString(d)
								if ds == A || strings.HasPrefix(ds, A+" * ") || strings.HasSuffix(ds, " * "+A) {
									okOff = true
								}
							}
						}
						if !okOff {
							offBad = off
						}
						return true
					})
				}
				if offBad != nil {
					out = append(out, withProps(violOb("STRIDEGRID", key, c.Rel(offBad.Pos()), fmt.Sprintf("%s: the index %s advances by %s = %s / … and is used with the offset %s, which is neither a constant nor a multiple of %s: the second half of the grid starts at %s", fkey, pid.Name, g.Name(), A, exprString(offBad), A, A)), propsForKey(fkey)...))
				} else if onGrid {
					out = append(out, withProps(okOb("STRIDEGRID", key, c.Rel(fs.Pos()), fmt.Sprintf("the index that advances by %s = %s/… starts at %s", g.Name(), A, st), true), propsForKey(fkey)...))
				} else {
					out = append(out, withProps(violOb("STRIDEGRID", key, c.Rel(start.Pos()), fmt.Sprintf("%s: the index %s advances by %s = %s / … but starts at %s, which is neither 0 nor %s: it walks between the grid points for every sparse packing", fkey, pid.Name, g.Name(), A, st, A)), propsForKey(fkey)...))
				}
			}
			return true
		})
	})
	c.Stats["stridegrid_loops"] = n
	return out
}

func init() {
	core.Register(&core.Rule{Name: "STRIDEGRID", Props: []string{"C07", "C06", "C18"},
		Doc: "a for-loop index advanced by a local defined as the quotient A / B starts at 0, at A, or at a sum/multiple of A",
		Run: func(c *core.Ctx) []ob {
			out := scanStrideGrid(c)
			for _, o := range control(c, "STRIDEGRID", scanStrideGrid, "lvfixture.readHalves") {
				out = append(out, withProps(o, "C07", "C06", "C18"))
			}
			return out
		}})
}

// KERNELLEN — a vector kernel is not handed a part of a row whose length may be below its unrolling width.
//
// The kernels behind the SubRing methods process eight coefficients per step through `(*[8]uint64)(unsafe.Pointer(…))`
// windows ("all inputs must have a size which is a multiple of 8"). A whole row has N >= 8 coefficients; a *half* row
// (`p.Coeffs[i][:N/2]`) has 4 for the smallest accepted ring: the kernel then reads and writes four words past the
// half (the other half in place, foreign memory for the last row).
//
// Rule: wherever a method of SubRing receives a slice expression with a bound (`x[:k]`, `x[k:]`) of a []uint64 row, the
// enclosing function compares that bound (or the ring degree) with MinimumRingDegreeForLoopUnrolledOperations or the
// literal 8 (the guard that selects a coefficient-wise fallback). Only bounds that are a fraction of a degree (`N>>1`,
// `N/2`, directly or through a local) are concerned: a whole ring degree is at least 8 by construction.
func scanKernelLen(c *core.Ctx) []ob {
	var out []ob
	n := 0
	c.FuncDecls(func(pk *packages.Package, file *ast.File, fd *ast.FuncDecl) {
		if fd.Body == nil || fileIsTestSupport(c.Program, fd.Pos()) || inExamples(pk) {
			return
		}
		info := pk.TypesInfo
		fkey := core.FuncKey(pk, fd)
		guarded := false
		ast.Inspect(fd.Body, func(x ast.Node) bool {
			be, ok := x.(*ast.BinaryExpr)
			if !ok {
				return true
			}
			switch be.Op {
			case token.LSS, token.LEQ, token.GTR, token.GEQ:
				for _, side := range []ast.Expr{be.X, be.Y} {
					s := exprString(side)
					if strings.Contains(s, "MinimumRingDegreeForLoopUnrolled") {
						guarded = true
					}
					if tv, ok := info.Types[side]; ok && tv.Value != nil && (tv.Value.ExactString() == "8" || tv.Value.ExactString() == "16") {
						guarded = true
					}
				}
			}
			return true
		})
		var bad ast.Expr
		sites := 0
		ast.Inspect(fd.Body, func(x ast.Node) bool {
			call, ok := x.(*ast.CallExpr)
			if !ok {
				return true
			}
			se, ok := unparen(call.Fun).(*ast.SelectorExpr)
			if !ok {
				return true
			}
			rt := info.TypeOf(se.X)
			if rt == nil {
				return true
			}
			if nt := namedOf(rt); nt == nil || nt.Obj().Name() != "SubRing" {
				return true
			}
			for _, a := range call.Args {
				sl, ok := unparen(a).(*ast.SliceExpr)
				if !ok || (sl.Low == nil && sl.High == nil) {
					continue
				}
				if t, ok := info.TypeOf(sl).Underlying().(*types.Slice); !ok || t.Elem().String() != "uint64" {
					continue
				}
				// only a bound that is a *fraction* of a ring degree (N>>1, N/2, directly or through a local) can fall
				// below the unrolling width: a whole ring degree is at least 8 by construction
				fraction := false
				for _, b := range []ast.Expr{sl.Low, sl.High} {
					if b == nil {
						continue
					}
					exprs := []ast.Expr{b}
					if id, ok := unparen(b).(*ast.Ident); ok {
						if ds := kernelLenDefs(info, fd, info.Uses[id]); len(ds) > 0 {
							exprs = ds
						}
					}
					for _, e := range exprs {
						ast.Inspect(e, func(y ast.Node) bool {
							if be, ok := y.(*ast.BinaryExpr); ok && (be.Op == token.SHR || be.Op == token.QUO) {
								fraction = true
							}
							return true
						})
					}
				}
				sites++
				if fraction && !guarded && bad == nil {
					bad = sl
				}
			}
			return true
		})
		if sites == 0 {
			return
		}
		n++
		key := "KERNELLEN:" + fkey
		if bad != nil {
			out = append(out, withProps(violOb("KERNELLEN", key, c.Rel(bad.Pos()), fmt.Sprintf("%s hands %s to a vector kernel (8 coefficients per step) without comparing the length of that part with the unrolling width: for the smallest accepted ring degree the part has 4 coefficients and the kernel runs 4 words past it", fkey, exprString(bad))), propsForKey(fkey)...))
		} else {
			out = append(out, withProps(okOb("KERNELLEN", key, c.Rel(fd.Pos()), "parts of rows handed to vector kernels are guarded by a test against the unrolling width", true), propsForKey(fkey)...))
		}
	})
	c.Stats["kernellen_fns"] = n
	return out
}

func init() {
	core.Register(&core.Rule{Name: "KERNELLEN", Props: []string{"C01", "C02", "C06", "C07"},
		Doc: "a function that hands a bounded part of a []uint64 row (x[:k], x[k:]) to a SubRing vector method compares the part's length (or the ring degree) with the unrolling width (MinimumRingDegreeForLoopUnrolledOperations / 8), unless the bounds are constants",
		Run: func(c *core.Ctx) []ob {
			out := scanKernelLen(c)
			out = append(out, control(c, "KERNELLEN", scanKernelLen, "lvfixture.addHalves")...)
			return out
		}})
}

// kernelLenDefs: the right-hand sides of the assignments that define a local in fd.
func kernelLenDefs(info *types.Info, fd *ast.FuncDecl, o types.Object) []ast.Expr {
	var res []ast.Expr
	if o == nil {
		return nil
	}
	ast.Inspect(fd.Body, func(x ast.Node) bool {
		if as, ok := x.(*ast.AssignStmt); ok && len(as.Lhs) == len(as.Rhs) {
			for i, l := range as.Lhs {
				if id, ok := l.(*ast.Ident); ok && (info.Defs[id] == o || info.Uses[id] == o) {
					res = append(res, as.Rhs[i])
				}
			}
		}
		return true
	})
	return res
}

// CROSSLAZY — a lazily reduced residue of one prime is not re-read as an integer under another prime.
//
// `SubRing.…Lazy` results lie in [0, 2q) (or more): fine as residues modulo q, wrong as the *integer* x mod q. The
// division by the last modulus takes x_l = x mod q_l and transports it under every smaller prime
// (`s.NTTLazy(buff, …)` for s over the lower sub-rings): x_l + q_l instead of x_l changes floor(x/q_l) by one. With the
// standard transform the "lazy" inverse NTT happens to end on a full reduction; the conjugate-invariant one (and the
// standard one below N = 16) does not, and DivFloorByLastModulusNTT was off by one for a quarter of the coefficients.
//
// Rule: within a function, a []uint64 row written by a method named …Lazy of a sub-ring expression A is not passed as
// a source to a method of another sub-ring expression B (a different expression of type *SubRing) unless a non-lazy
// method of A has written the same row in between (source order).
func scanCrossLazy(c *core.Ctx) []ob {
	var out []ob
	n := 0
	c.FuncDecls(func(pk *packages.Package, file *ast.File, fd *ast.FuncDecl) {
		if fd.Body == nil || fileIsTestSupport(c.Program, fd.Pos()) || inExamples(pk) {
			return
		}
		info := pk.TypesInfo
		fkey := core.FuncKey(pk, fd)
		isSubRing := func(e ast.Expr) bool {
			nt := namedOf(info.TypeOf(e))
			return nt != nil && nt.Obj().Name() == "SubRing"
		}
		type ev struct {
			pos  token.Pos
			recv string
			lazy bool
			dst  string
			srcs []string
			call *ast.CallExpr
		}
		var evs []ev
		ast.Inspect(fd.Body, func(x ast.Node) bool {
			call, ok := x.(*ast.CallExpr)
			if !ok || len(call.Args) < 2 {
				return true
			}
			se, ok := unparen(call.Fun).(*ast.SelectorExpr)
			if !ok || !isSubRing(se.X) {
				return true
			}
			e := ev{pos: call.Pos(), recv: exprString(se.X), lazy: strings.HasSuffix(se.Sel.Name, "Lazy"), call: call}
			for i, a := range call.Args {
				if _, ok := info.TypeOf(a).Underlying().(*types.Slice); !ok {
					continue
				}
				if i == len(call.Args)-1 {
					e.dst = exprString(a)
				} else {
					e.srcs = append(e.srcs, exprString(a))
				}
			}
			if e.dst != "" {
				evs = append(evs, e)
			}
			return true
		})
		if len(evs) < 2 {
			return
		}
		sort.Slice(evs, func(i, j int) bool { return evs[i].pos < evs[j].pos })
		lazyOf := map[string]string{} // row text -> sub-ring expression that left it lazily reduced
		var bad *ev
		var badOwner string
		for i := range evs {
			e := &evs[i]
			for _, s := range e.srcs {
				if owner, ok := lazyOf[s]; ok && owner != e.recv && bad == nil {
					bad, badOwner = e, owner
				}
			}
			if e.lazy {
				lazyOf[e.dst] = e.recv
			} else {
				delete(lazyOf, e.dst)
			}
		}
		n++
		key := "CROSSLAZY:" + fkey
		if bad != nil {
			out = append(out, withProps(violOb("CROSSLAZY", key, c.Rel(bad.pos), fmt.Sprintf("%s passes a row that a …Lazy method of %s left in [0, 2q) to %s of the other sub-ring %s: as an integer the residue may be off by the modulus it was reduced under, and the transported value differs", fkey, badOwner, exprString(bad.call.Fun), bad.recv)), propsForKey(fkey)...))
		} else {
			out = append(out, withProps(okOb("CROSSLAZY", key, c.Rel(fd.Pos()), "no lazily reduced row of one sub-ring is read under another", true), propsForKey(fkey)...))
		}
	})
	c.Stats["crosslazy_fns"] = n
	return out
}

func init() {
	core.Register(&core.Rule{Name: "CROSSLAZY", Props: []string{"C02", "C01", "C04", "C05", "C06"},
		Doc: "within a function, a row written by a …Lazy method of one *SubRing expression is not passed as a source to a method of a different *SubRing expression unless a non-lazy method of the first has rewritten it in between",
		Run: func(c *core.Ctx) []ob {
			out := scanCrossLazy(c)
			out = append(out, control(c, "CROSSLAZY", scanCrossLazy, "lvfixture.carryLast")...)
			return out
		}})
}
