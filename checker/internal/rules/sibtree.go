package rules

import (
	"fmt"
	"go/ast"
	"go/token"
	"go/types"
	"regexp"
	"strings"

	"lvcheck/internal/core"
)

// SIBTREE — mechanical clones stay clones.
//
// A few families of functions are the same algorithm instantiated for another width or rounding mode
// (buffer.{Write,Read}Uint{16,32,64}[Slice]; Ring.Div{Floor,Round}ByLastModulusMany). After alpha-renaming of
// parameters and locals and after mapping the family parameter (the width in bytes / its log2 / the type and
// function name suffix; Floor vs Round) to a symbol, the bodies must be token-for-token identical. A member
// that deviates (a threshold written for another width, a missing level decrement) computes something else for
// inputs the sibling tests never meet.

type sibGroup struct {
	pkg     string
	members []string // function keys: "Name" or "(Recv).Name"
	// per member: literal/identifier substitutions applied before comparison
	subst []map[string]string
	props []string
	why   string
}

func widthSubst(bits int) map[string]string {
	bytes := bits / 8
	log := map[int]int{2: 1, 4: 2, 8: 3}[bytes]
	return map[string]string{
		fmt.Sprintf("lit:%d", bytes): "W", fmt.Sprintf("lit:%d", log): "LOGW",
		fmt.Sprintf("re:Uint%d", bits): "UintW", fmt.Sprintf("re:uint%d", bits): "uintW",
		fmt.Sprintf("re:/%d", bytes): "/W",
	}
}

var qSubst = map[string]string{"re:qi": "xi", "re:ringQ": "ringX", "re:Q": "X"}
var pSubst = map[string]string{"re:pi": "xi", "re:ringP": "ringX", "re:P": "X"}

var sibGroups = []sibGroup{
	{pkg: "utils/buffer", members: []string{"WriteUint16", "WriteUint32", "WriteUint64"}, subst: []map[string]string{widthSubst(16), widthSubst(32), widthSubst(64)}, props: []string{"C08"}, why: "scalar writers differ only by the width"},
	{pkg: "utils/buffer", members: []string{"WriteUint16Slice", "WriteUint32Slice", "WriteUint64Slice"}, subst: []map[string]string{widthSubst(16), widthSubst(32), widthSubst(64)}, props: []string{"C08"}, why: "slice writers differ only by the width"},
	{pkg: "utils/buffer", members: []string{"ReadUint16", "ReadUint32", "ReadUint64"}, subst: []map[string]string{widthSubst(16), widthSubst(32), widthSubst(64)}, props: []string{"C08"}, why: "scalar readers differ only by the width"},
	{pkg: "utils/buffer", members: []string{"ReadUint16Slice", "ReadUint32Slice", "ReadUint64Slice"}, subst: []map[string]string{widthSubst(16), widthSubst(32), widthSubst(64)}, props: []string{"C08"}, why: "slice readers differ only by the width"},
	{pkg: "core/rlwe", members: []string{"(Parameters).QiOverflowMargin", "(Parameters).PiOverflowMargin"}, subst: []map[string]string{qSubst, pSubst}, props: []string{"C19", "C04"}, why: "overflow margins of the Q and P bases are the same formula on their own moduli"},
	{pkg: "core/rlwe", members: []string{"(Parameters).Q", "(Parameters).P"}, subst: []map[string]string{qSubst, pSubst}, props: []string{"C19"}, why: "moduli accessors of the two bases"},
	{pkg: "core/rlwe", members: []string{"(Parameters).QCount", "(Parameters).PCount"}, subst: []map[string]string{qSubst, pSubst}, props: []string{"C19"}, why: "moduli counts of the two bases"},
	{pkg: "core/rlwe", members: []string{"(Parameters).QBigInt", "(Parameters).PBigInt"}, subst: []map[string]string{qSubst, pSubst}, props: []string{"C19"}, why: "products of the moduli of the two bases"},
	{pkg: "core/rlwe", members: []string{"(Parameters).MaxLevelQ", "(Parameters).MaxLevelP"}, subst: []map[string]string{qSubst, pSubst}, props: []string{"C19"}, why: "maximum levels of the two bases"},
	{pkg: "ring", members: []string{"(Ring).DivFloorByLastModulusMany", "(Ring).DivRoundByLastModulusMany"}, subst: []map[string]string{{"re:Floor": "MODE"}, {"re:Round": "MODE"}}, props: []string{"C02"}, why: "repeated floored / rounded division differ only by the single-step primitive"},
}

var reStringLit = regexp.MustCompile(`^".*"$`)

func sibTokens(info *types.Info, fd *ast.FuncDecl, subst map[string]string) []string {
	names := map[types.Object]string{}
	next := 0
	var toks []string
	applyRe := func(s string) string {
		for k, v := range subst {
			if strings.HasPrefix(k, "re:") {
				s = strings.ReplaceAll(s, k[3:], v)
			}
		}
		return s
	}
	ast.Inspect(canonFlow(fd.Body), func(n ast.Node) bool {
		switch x := n.(type) {
		case *ast.Ident:
			o := info.Uses[x]
			if o == nil {
				o = info.Defs[x]
			}
			if v, ok := o.(*types.Var); ok && !v.IsField() && v.Pkg() != nil && v.Parent() != v.Pkg().Scope() {
				if _, ok := names[o]; !ok {
					names[o] = fmt.Sprintf("$%d", next)
					next++
				}
				toks = append(toks, names[o])
			} else {
				toks = append(toks, applyRe(x.Name))
			}
		case *ast.BasicLit:
			if x.Kind == token.STRING {
				toks = append(toks, "STR") // messages are not behaviour
			} else if r, ok := subst["lit:"+x.Value]; ok {
				toks = append(toks, r+"|"+x.Value)
			} else {
				toks = append(toks, x.Value)
			}
		case *ast.BinaryExpr:
			toks = append(toks, x.Op.String())
		case *ast.UnaryExpr:
			toks = append(toks, "u"+x.Op.String())
		case *ast.AssignStmt:
			toks = append(toks, x.Tok.String())
		case *ast.IncDecStmt:
			toks = append(toks, x.Tok.String())
		case *ast.BranchStmt:
			toks = append(toks, x.Tok.String())
		case nil:
		case *ast.IfStmt, *ast.BlockStmt, *ast.SwitchStmt, *ast.CaseClause, *ast.ExprStmt, *ast.ParenExpr:
			// how the control structure is spelled (if/else chain or tagless switch, extra parentheses) is not
			// behaviour: the conditions and statements inside still appear, in order
		default:
			toks = append(toks, fmt.Sprintf("%T", n))
		}
		return true
	})
	return toks
}

// tokEqual compares two tokens; a literal that may stand for the family parameter ("W|8") equals the same role
// in the sibling ("W|4") and also a plain equal literal.
func tokEqual(a, b string) bool {
	if a == b {
		return true
	}
	ra, va, oka := strings.Cut(a, "|")
	rb, vb, okb := strings.Cut(b, "|")
	if oka && okb {
		return ra == rb
	}
	if oka && !okb {
		return va == b
	}
	if okb && !oka {
		return vb == a
	}
	return false
}

func scanSibTree(c *core.Ctx) []ob {
	var out []ob
	if c.IsFixture {
		return nil
	}
	n := 0
	for _, g := range sibGroups {
		pk := c.Pkg(g.pkg)
		if pk == nil {
			continue
		}
		decl := map[string]*ast.FuncDecl{}
		for _, f := range pk.Syntax {
			for _, d := range f.Decls {
				if fd, ok := d.(*ast.FuncDecl); ok && fd.Body != nil {
					k := fd.Name.Name
					if fd.Recv != nil {
						k = "(" + core.RecvTypeName(fd) + ")." + k
					}
					decl[k] = fd
				}
			}
		}
		var toks [][]string
		var present []string
		for i, m := range g.members {
			if fd, ok := decl[m]; ok {
				toks = append(toks, sibTokens(pk.TypesInfo, fd, g.subst[i]))
				present = append(present, m)
			}
		}
		key := fmt.Sprintf("SIBTREE:%s{%s}", g.pkg, strings.Join(g.members, ","))
		if len(present) < 2 {
			out = append(out, withProps(infoOb("SIBTREE", key, "", "family no longer present under these names"), g.props...))
			continue
		}
		n++
		bad := ""
		for i := 1; i < len(toks) && bad == ""; i++ {
			a, b := toks[0], toks[i]
			if len(a) != len(b) {
				// locate the first difference anyway
			}
			m := len(a)
			if len(b) < m {
				m = len(b)
			}
			for j := 0; j < m; j++ {
				if !tokEqual(a[j], b[j]) {
					bad = fmt.Sprintf("%s and %s differ at token %d: %q vs %q (context: %s | %s)", present[0], present[i], j, a[j], b[j], strings.Join(a[maxInt(0, j-4):minInt(len(a), j+4)], " "), strings.Join(b[maxInt(0, j-4):minInt(len(b), j+4)], " "))
					break
				}
			}
			if bad == "" && len(a) != len(b) {
				bad = fmt.Sprintf("%s and %s have different lengths (%d vs %d tokens)", present[0], present[i], len(a), len(b))
			}
		}
		pos := c.Rel(decl[present[0]].Pos())
		if bad == "" {
			out = append(out, withProps(okOb("SIBTREE", key, pos, fmt.Sprintf("%d members identical modulo the family parameter (%s)", len(present), g.why), true), g.props...))
		} else {
			out = append(out, withProps(violOb("SIBTREE", key, pos, fmt.Sprintf("clone family in %s (%s): %s", g.pkg, g.why, bad)), g.props...))
		}
	}
	c.Stats["sibling_families"] = n
	return out
}

func maxInt(a, b int) int {
	if a > b {
		return a
	}
	return b
}
func minInt(a, b int) int {
	if a < b {
		return a
	}
	return b
}

func init() {
	core.Register(&core.Rule{Name: "SIBTREE", Props: []string{"C08", "C02", "C19", "C04"},
		Doc: "the members of each mechanical clone family (buffer.{Write,Read}Uint{16,32,64}[Slice], Ring.Div{Floor,Round}ByLastModulusMany) are token-identical after alpha-renaming and mapping of the family parameter",
		Run: func(c *core.Ctx) []ob {
			out := scanSibTree(c)
			for _, o := range core.Floor("SIBTREE", nil, "clone families", c.Stats["sibling_families"], 4) {
				out = append(out, withProps(o, "C08", "C02"))
			}
			return out
		}})
}
