package rules

import (
	"go/ast"
	"go/token"
	"go/types"

	"golang.org/x/tools/go/cfg"
)

// buildCFG builds the control-flow graph of a function body. Calls to panic / log.Fatal are treated as non-returning.
func buildCFG(info *types.Info, body *ast.BlockStmt) *cfg.CFG {
	return cfg.New(body, func(call *ast.CallExpr) bool {
		if id, ok := unparen(call.Fun).(*ast.Ident); ok {
			if b, ok := info.Uses[id].(*types.Builtin); ok && b.Name() == "panic" {
				return false
			}
		}
		return true
	})
}

// forward runs a forward dataflow analysis to a fixpoint and returns the IN state of every live block.
// States must be treated as immutable values by transfer/join.
func forward[S any](g *cfg.CFG, entry S, bottom func() S,
	transfer func(n ast.Node, s S) S, join func(a, b S) S, equal func(a, b S) bool) map[*cfg.Block]S {

	in := map[*cfg.Block]S{}
	seen := map[*cfg.Block]bool{}
	if len(g.Blocks) == 0 {
		return in
	}
	in[g.Blocks[0]] = entry
	seen[g.Blocks[0]] = true
	work := []*cfg.Block{g.Blocks[0]}
	iter := 0
	for len(work) > 0 {
		iter++
		if iter > 200000 {
			break
		}
		b := work[0]
		work = work[1:]
		s := in[b]
		for _, n := range b.Nodes {
			s = transfer(n, s)
		}
		for _, su := range b.Succs {
			if !seen[su] {
				seen[su] = true
				in[su] = s
				work = append(work, su)
				continue
			}
			j := join(in[su], s)
			if !equal(j, in[su]) {
				in[su] = j
				work = append(work, su)
			}
		}
	}
	return in
}

// parentMap records the parent of every node under root.
func parentMap(root ast.Node) map[ast.Node]ast.Node {
	pm := map[ast.Node]ast.Node{}
	var stack []ast.Node
	ast.Inspect(root, func(n ast.Node) bool {
		if n == nil {
			stack = stack[:len(stack)-1]
			return true
		}
		if len(stack) > 0 {
			pm[n] = stack[len(stack)-1]
		}
		stack = append(stack, n)
		return true
	})
	return pm
}

// condMentionsNotNil reports whether cond contains the conjunct/disjunct `v != nil` for the given object.
func condMentionsNotNil(info *types.Info, cond ast.Expr, v types.Object) bool {
	found := false
	ast.Inspect(cond, func(n ast.Node) bool {
		be, ok := n.(*ast.BinaryExpr)
		if !ok || be.Op != token.NEQ {
			return true
		}
		if isNilIdent(be.Y) && identObj(info, be.X) == v {
			found = true
		}
		if isNilIdent(be.X) && identObj(info, be.Y) == v {
			found = true
		}
		return true
	})
	if found {
		return true
	}
	// `!ok(…)` where ok is a closure of the function that files its error argument under v and reports `e == nil`
	// (`written := func(inc int64, e error) bool { n += inc; err = e; return e == nil }`)
	ast.Inspect(cond, func(n ast.Node) bool {
		ue, ok := n.(*ast.UnaryExpr)
		if !ok || ue.Op != token.NOT {
			return true
		}
		call, ok := unparen(ue.X).(*ast.CallExpr)
		if !ok {
			return true
		}
		id, ok := unparen(call.Fun).(*ast.Ident)
		if !ok {
			return true
		}
		lv, _ := info.Uses[id].(*types.Var)
		lit := localFnLits[lv]
		if lit == nil || lit.Type.Results == nil || len(lit.Type.Results.List) != 1 {
			return true
		}
		// the literal: every return is `x == nil` with x == v or a parameter stored into v
		stored := map[types.Object]bool{v: true}
		ast.Inspect(lit.Body, func(m ast.Node) bool {
			if as, ok := m.(*ast.AssignStmt); ok && len(as.Lhs) == len(as.Rhs) {
				for i, l := range as.Lhs {
					if identObj(info, l) == v {
						if o := identObj(info, as.Rhs[i]); o != nil {
							stored[o] = true
						}
					}
				}
			}
			return true
		})
		rets, good := 0, true
		ast.Inspect(lit.Body, func(m ast.Node) bool {
			if _, ok := m.(*ast.FuncLit); ok {
				return false
			}
			if r, ok := m.(*ast.ReturnStmt); ok {
				rets++
				if len(r.Results) != 1 {
					good = false
					return true
				}
				// `return true` lets the caller go on; `return false` must stand under a test of the error
				if id, ok := unparen(r.Results[0]).(*ast.Ident); ok && (id.Name == "true" || id.Name == "false") {
					if id.Name == "false" {
						under := false
						ast.Inspect(lit.Body, func(q ast.Node) bool {
							if is, ok := q.(*ast.IfStmt); ok && is.Body.Pos() <= r.Pos() && r.End() <= is.Body.End() {
								if be, ok := unparen(is.Cond).(*ast.BinaryExpr); ok && be.Op == token.NEQ {
									if (isNilIdent(be.Y) && stored[identObj(info, be.X)]) || (isNilIdent(be.X) && stored[identObj(info, be.Y)]) {
										under = true
									}
								}
							}
							return true
						})
						if !under {
							good = false
						}
					}
					return true
				}
				be, ok := unparen(r.Results[0]).(*ast.BinaryExpr)
				if !ok || be.Op != token.EQL {
					good = false
					return true
				}
				var x ast.Expr
				if isNilIdent(be.Y) {
					x = be.X
				} else if isNilIdent(be.X) {
					x = be.Y
				}
				if x == nil || !stored[identObj(info, x)] {
					good = false
				}
			}
			return true
		})
		if rets > 0 && good {
			found = true
		}
		return true
	})
	return found
}

func isNilIdent(e ast.Expr) bool {
	id, ok := unparen(e).(*ast.Ident)
	return ok && id.Name == "nil"
}

// anyErrNotNil reports whether cond contains `x != nil` where x has type error; returns the objects.
func errVarsTestedNotNil(info *types.Info, cond ast.Expr) []types.Object {
	var out []types.Object
	ast.Inspect(cond, func(n ast.Node) bool {
		be, ok := n.(*ast.BinaryExpr)
		if !ok || be.Op != token.NEQ {
			return true
		}
		var x ast.Expr
		if isNilIdent(be.Y) {
			x = be.X
		} else if isNilIdent(be.X) {
			x = be.Y
		}
		if x == nil {
			return true
		}
		if o := identObj(info, x); o != nil && isErrorType(o.Type()) {
			out = append(out, o)
		}
		return true
	})
	return out
}

// errTested reports error variables tested against nil with == or != in cond.
func errVarsTested(info *types.Info, cond ast.Expr) []types.Object {
	var out []types.Object
	ast.Inspect(cond, func(n ast.Node) bool {
		be, ok := n.(*ast.BinaryExpr)
		if !ok || (be.Op != token.NEQ && be.Op != token.EQL) {
			return true
		}
		var x ast.Expr
		if isNilIdent(be.Y) {
			x = be.X
		} else if isNilIdent(be.X) {
			x = be.Y
		}
		if x == nil {
			return true
		}
		if o := identObj(info, x); o != nil && isErrorType(o.Type()) {
			out = append(out, o)
		}
		return true
	})
	return out
}

// returnIsFailing classifies a return statement of a function whose last result is an error:
// true when the returned error is certainly non-nil (fmt.Errorf / errors.New call, or an error
// variable returned inside the then-branch of an `if v != nil`).
func returnIsFailing(info *types.Info, pm map[ast.Node]ast.Node, ret *ast.ReturnStmt, errResult types.Object) bool {
	var e ast.Expr
	if len(ret.Results) > 0 {
		e = unparen(ret.Results[len(ret.Results)-1])
	}
	var v types.Object
	if e == nil {
		v = errResult // bare return of named result
		if v == nil {
			return false
		}
	} else {
		if call, ok := e.(*ast.CallExpr); ok {
			if f := calleeFunc(info, call); f != nil && f.Pkg() != nil {
				full := f.Pkg().Path() + "." + f.Name()
				if full == "fmt.Errorf" || full == "errors.New" {
					return true
				}
			}
			return false
		}
		if isNilIdent(e) {
			return false
		}
		v = identObj(info, e)
		if v == nil {
			return false
		}
	}
	// climb: is the return inside the then-block of an if whose cond tests v != nil, with no reassignment in between (approximation: direct then-block)
	var child ast.Node = ret
	for p := pm[child]; p != nil; child, p = p, pm[p] {
		switch x := p.(type) {
		case *ast.IfStmt:
			if x.Body == child && condMentionsNotNil(info, x.Cond, v) {
				// make sure v is not reassigned between the test and the return inside the block
				reassigned := false
				ast.Inspect(x.Body, func(n ast.Node) bool {
					if as, ok := n.(*ast.AssignStmt); ok && as.End() <= ret.Pos() {
						for _, l := range as.Lhs {
							if identObj(info, l) == v {
								reassigned = true
							}
						}
					}
					return true
				})
				return !reassigned
			}
		case *ast.FuncLit, *ast.FuncDecl:
			return false
		}
	}
	return false
}

// lastResultIsError reports whether the function's last result is of type error, and returns its named object if any.
func lastResultIsError(sig *types.Signature) (bool, types.Object) {
	n := sig.Results().Len()
	if n == 0 {
		return false, nil
	}
	r := sig.Results().At(n - 1)
	if !isErrorType(r.Type()) {
		return false, nil
	}
	if r.Name() != "" && r.Name() != "_" {
		return true, r
	}
	return true, nil
}

// forwardEdge is forward with an additional transfer applied to the state flowing along the i-th out-edge of a block.
func forwardEdge[S any](g *cfg.CFG, entry S, transfer func(n ast.Node, s S) S, edge func(b *cfg.Block, i int, s S) S,
	join func(a, b S) S, equal func(a, b S) bool) map[*cfg.Block]S {

	in := map[*cfg.Block]S{}
	seen := map[*cfg.Block]bool{}
	if len(g.Blocks) == 0 {
		return in
	}
	in[g.Blocks[0]] = entry
	seen[g.Blocks[0]] = true
	work := []*cfg.Block{g.Blocks[0]}
	for iter := 0; len(work) > 0 && iter < 200000; iter++ {
		b := work[0]
		work = work[1:]
		s := in[b]
		for _, n := range b.Nodes {
			s = transfer(n, s)
		}
		for i, su := range b.Succs {
			se := edge(b, i, s)
			if !seen[su] {
				seen[su] = true
				in[su] = se
				work = append(work, su)
				continue
			}
			j := join(in[su], se)
			if !equal(j, in[su]) {
				in[su] = j
				work = append(work, su)
			}
		}
	}
	return in
}
