package rules

import (
	"fmt"
	"go/ast"
	"go/token"
	"go/types"
	"strings"

	"golang.org/x/tools/go/packages"

	"lvcheck/internal/core"
)

// OUTDEG — an operation that fills the components of its output from its operands accounts for every component the
// output has.
//
// The receivers of the evaluators keep their own degree when it exceeds what the operation needs
// (InitOutputBinaryOp returns max(op0.Degree, op1.Degree, opOut.Degree) and the callers resize to that): a receiver
// that held a degree-2 product and then receives the sum of two degree-1 ciphertexts is still of degree 2. A routine
// that writes `out.Value[i]` in loops bounded by the degrees of the *operands* leaves the higher components of such a
// receiver as they were, and the result decrypts with the stale c2*s^2 term.
//
// Rule, for every function with an output element parameter X that writes X.Value[i] inside a loop over i: one of
//   - the function resizes X to a degree that does not depend on X (X.Resize(d, ..) with d free of X);
//   - some loop or range of the function is bounded by X itself (X.Degree(), len(X.Value), range X.Value) — the
//     zeroing / copying loop over the remaining components;
//   - (unexported helpers) every caller has resized the argument to a degree that does not depend on it.

func scanOutDeg(c *core.Ctx) []ob {
	var out []ob
	n := 0
	type fdecl struct {
		pk *packages.Package
		fd *ast.FuncDecl
		fn *types.Func
	}
	var decls []fdecl
	byFn := map[*types.Func]fdecl{}
	c.FuncDecls(func(pk *packages.Package, file *ast.File, fd *ast.FuncDecl) {
		if fd.Body == nil || fileIsTestSupport(c.Program, fd.Pos()) || inExamples(pk) {
			return
		}
		rel := core.ShortPkg(pk.PkgPath)
		if !c.IsFixture && !(strings.HasPrefix(rel, "schemes/") || strings.HasPrefix(rel, "core/rlwe") || strings.HasPrefix(rel, "core/rgsw") || strings.HasPrefix(rel, "circuits/")) {
			return
		}
		fn, _ := pk.TypesInfo.Defs[fd.Name].(*types.Func)
		if fn == nil {
			return
		}
		d := fdecl{pk, fd, funcOrigin(fn)}
		decls = append(decls, d)
		byFn[d.fn] = d
	})
	mentions := func(info *types.Info, e ast.Node, o types.Object) bool {
		found := false
		ast.Inspect(e, func(x ast.Node) bool {
			if id, ok := x.(*ast.Ident); ok && info.Uses[id] == o {
				found = true
			}
			return !found
		})
		return found
	}
	// dependsOn: e mentions o directly or through a local whose definition mentions o
	var dependsOn func(info *types.Info, fd *ast.FuncDecl, e ast.Node, o types.Object, depth int) bool
	dependsOn = func(info *types.Info, fd *ast.FuncDecl, e ast.Node, o types.Object, depth int) bool {
		if mentions(info, e, o) {
			return true
		}
		if depth > 3 {
			return false
		}
		dep := false
		ast.Inspect(e, func(x ast.Node) bool {
			id, ok := x.(*ast.Ident)
			if !ok || dep {
				return !dep
			}
			v, ok := info.Uses[id].(*types.Var)
			if !ok || v.IsField() || v == o {
				return true
			}
			// definitions of v in the function
			ast.Inspect(fd.Body, func(y ast.Node) bool {
				as, ok := y.(*ast.AssignStmt)
				if !ok || dep {
					return !dep
				}
				for i, l := range as.Lhs {
					lid, ok := l.(*ast.Ident)
					if !ok {
						continue
					}
					lo := info.Defs[lid]
					if lo == nil {
						lo = info.Uses[lid]
					}
					if lo != v {
						continue
					}
					var rhs ast.Expr
					if len(as.Rhs) == len(as.Lhs) {
						rhs = as.Rhs[i]
					} else if len(as.Rhs) == 1 {
						rhs = as.Rhs[0]
					}
					if rhs != nil && dependsOn(info, fd, rhs, o, depth+1) {
						dep = true
					}
				}
				return true
			})
			return true
		})
		return dep
	}
	// resizedFreeOf: the function calls X.Resize(d, ..) (X the object, possibly through .El()) with d not depending on X
	resizedFreeIn := func(info *types.Info, fd *ast.FuncDecl, x types.Object, before ast.Node, scope []ast.Node) bool {
		ok := false
		if scope == nil {
			scope = []ast.Node{fd.Body}
		}
		for _, sc := range scope {
			ast.Inspect(sc, func(y ast.Node) bool {
				call, isCall := y.(*ast.CallExpr)
				if !isCall || ok || len(call.Args) == 0 {
					return !ok
				}
				if before != nil && call.Pos() > before.Pos() {
					return true
				}
				// a helper of the module that resizes the element it receives there to constant degrees on every
				// path of its body (`c2 = eval.tensorReceiver(relin, level, opOut)`)
				if hf := calleeFunc(info, call); hf != nil {
					if hd, isMod := byFn[funcOrigin(hf)]; isMod && !hd.fd.Name.IsExported() {
						for ai, a := range call.Args {
							if identObj(info, unparen(a)) == x && helperResizesConst(hd.pk.TypesInfo, hd.fd, ai) {
								ok = true
							}
						}
					}
				}
				sel, isSel := unparen(call.Fun).(*ast.SelectorExpr)
				if !isSel || sel.Sel.Name != "Resize" {
					return true
				}
				base := unparen(sel.X)
				if c2, isC := base.(*ast.CallExpr); isC {
					if s2, isS := unparen(c2.Fun).(*ast.SelectorExpr); isS && s2.Sel.Name == "El" {
						base = unparen(s2.X)
					}
				}
				if identObj(info, base) != x {
					return true
				}
				if !dependsOn(info, fd, call.Args[0], x, 0) {
					ok = true
				}
				return true
			})
		}
		return ok
	}
	resizedFree := func(info *types.Info, fd *ast.FuncDecl, x types.Object, before ast.Node) bool {
		return resizedFreeIn(info, fd, x, before, nil)
	}
	// boundedByParam: the callee has a loop bounded by its idx-th parameter (Degree(), len(Value), range Value)
	boundedByParam := func(fn *types.Func, idx int) bool {
		cd, ok := byFn[funcOrigin(fn)]
		if !ok {
			return false
		}
		sig := cd.fn.Type().(*types.Signature)
		if idx >= sig.Params().Len() {
			return false
		}
		p := sig.Params().At(idx)
		found := false
		ast.Inspect(cd.fd.Body, func(y ast.Node) bool {
			var header []ast.Node
			switch l := y.(type) {
			case *ast.ForStmt:
				if l.Cond != nil {
					header = append(header, l.Cond)
				}
				if l.Init != nil {
					header = append(header, l.Init)
				}
			case *ast.RangeStmt:
				header = append(header, l.X)
			}
			for _, h := range header {
				ast.Inspect(h, func(z ast.Node) bool {
					if v, ok := z.(*ast.SelectorExpr); ok && (v.Sel.Name == "Degree" || v.Sel.Name == "Value") && mentions(cd.pk.TypesInfo, v.X, p) {
						found = true
					}
					return true
				})
			}
			return !found
		})
		return found
	}
	delegatesToBounded := func(info *types.Info, scope []ast.Node, x types.Object) bool {
		ok := false
		for _, sc := range scope {
			ast.Inspect(sc, func(y ast.Node) bool {
				call, isCall := y.(*ast.CallExpr)
				if !isCall || ok {
					return !ok
				}
				fn := calleeFunc(info, call)
				if fn == nil {
					return true
				}
				for ai, a := range call.Args {
					b := unparen(a)
					if c2, isC := b.(*ast.CallExpr); isC {
						if s2, isS := unparen(c2.Fun).(*ast.SelectorExpr); isS && s2.Sel.Name == "El" {
							b = unparen(s2.X)
						}
					}
					if identObj(info, b) == x && boundedByParam(fn, ai) {
						ok = true
					}
				}
				return true
			})
		}
		return ok
	}
	callers := map[*types.Func][]struct {
		d    fdecl
		call *ast.CallExpr
	}{}
	for _, d := range decls {
		ast.Inspect(d.fd.Body, func(y ast.Node) bool {
			if call, ok := y.(*ast.CallExpr); ok {
				if f := calleeFunc(d.pk.TypesInfo, call); f != nil {
					fo := funcOrigin(f)
					if _, ok := byFn[fo]; ok {
						callers[fo] = append(callers[fo], struct {
							d    fdecl
							call *ast.CallExpr
						}{d, call})
					}
				}
			}
			return true
		})
	}
	for _, d := range decls {
		info := d.pk.TypesInfo
		sig := d.fn.Type().(*types.Signature)
		for pi := 0; pi < sig.Params().Len(); pi++ {
			x := sig.Params().At(pi)
			if !isOutParamName(x.Name()) || !isMetaCarrier(x.Type()) {
				continue
			}
			if _, isPtr := x.Type().(*types.Pointer); !isPtr {
				continue
			}
			// units: the arms of a type switch that is a direct statement of the body are decided one by one (each with
			// the statements around the switch), otherwise the whole body is one unit
			type unit struct {
				scope []ast.Node
				tag   string
			}
			var units []unit
			for si, st := range d.fd.Body.List {
				ts, ok := st.(*ast.TypeSwitchStmt)
				if !ok {
					continue
				}
				var around []ast.Node
				for sj, o := range d.fd.Body.List {
					if sj != si {
						around = append(around, o)
					}
				}
				for _, cc := range ts.Body.List {
					cl := cc.(*ast.CaseClause)
					var tys []string
					for _, e := range cl.List {
						tys = append(tys, exprString(e))
					}
					if len(tys) == 0 {
						tys = []string{"default"}
					}
					sc := append([]ast.Node{}, around...)
					for _, b := range cl.Body {
						sc = append(sc, b)
					}
					units = append(units, unit{sc, "/case " + strings.Join(tys, ",")})
				}
				break
			}
			if len(units) == 0 {
				units = []unit{{[]ast.Node{d.fd.Body}, ""}}
			}
			for _, un := range units {
				inspectScope := func(f func(ast.Node) bool) {
					for _, sc := range un.scope {
						ast.Inspect(sc, f)
					}
				}
				// component loops writing X.Value[i]
				writesInLoop, boundByX := false, false
				inspectScope(func(y ast.Node) bool {
					var body *ast.BlockStmt
					var header []ast.Node
					switch l := y.(type) {
					case *ast.ForStmt:
						body = l.Body
						if l.Cond != nil {
							header = append(header, l.Cond)
						}
						if l.Init != nil {
							header = append(header, l.Init)
						}
					case *ast.RangeStmt:
						body = l.Body
						header = append(header, l.X)
					default:
						return true
					}
					for _, h := range header {
						// bounded by X: X.Degree(), len(X.Value), range X.Value
						ast.Inspect(h, func(z ast.Node) bool {
							switch v := z.(type) {
							case *ast.SelectorExpr:
								if (v.Sel.Name == "Degree" || v.Sel.Name == "Value") && mentions(info, v.X, x) {
									boundByX = true
								}
							}
							return true
						})
					}
					ast.Inspect(body, func(z ast.Node) bool {
						ie, ok := z.(*ast.IndexExpr)
						if !ok {
							return true
						}
						if se, ok := unparen(ie.X).(*ast.SelectorExpr); ok && se.Sel.Name == "Value" && mentions(info, se.X, x) {
							if _, isConst := unparen(ie.Index).(*ast.BasicLit); !isConst {
								writesInLoop = true
							}
						}
						return true
					})
					return true
				})
				// components addressed one by one: X.Value[0], X.Value[1] handed to a callee that writes them / copied into
				writesConst := false
				if !writesInLoop {
					eff := effFor(c)
					isXValueConst := func(e ast.Expr) bool {
						ie, ok := unparen(e).(*ast.IndexExpr)
						if !ok {
							return false
						}
						if _, isConst := unparen(ie.Index).(*ast.BasicLit); !isConst {
							return false
						}
						se, ok := unparen(ie.X).(*ast.SelectorExpr)
						return ok && se.Sel.Name == "Value" && identObj(info, se.X) == x
					}
					// views taken for writing: c0 := opOut.Value[0] / ringqp.Poly{Q: opOut.Value[0], ..}
					inspectScope(func(y ast.Node) bool {
						switch v := y.(type) {
						case *ast.KeyValueExpr:
							if isXValueConst(v.Value) {
								writesConst = true
							}
						case *ast.AssignStmt:
							for _, r := range v.Rhs {
								if isXValueConst(r) {
									writesConst = true
								}
							}
						}
						return true
					})
					inspectScope(func(y ast.Node) bool {
						call, ok := y.(*ast.CallExpr)
						if !ok {
							return true
						}
						if se, ok := unparen(call.Fun).(*ast.SelectorExpr); ok && isXValueConst(se.X) && (strings.HasPrefix(se.Sel.Name, "Copy") || se.Sel.Name == "Zero") {
							writesConst = true
						}
						for _, cf := range eff.callees(info, call) {
							if sm := eff.sums[cf]; sm != nil {
								for ai, a := range call.Args {
									if sm.wParams[ai] && isXValueConst(a) {
										writesConst = true
									}
								}
							}
						}
						return true
					})
				}
				if !writesInLoop && !writesConst {
					continue
				}
				// a guard on the output's degree that refuses anything else
				degreeGuard := false
				inspectScope(func(y ast.Node) bool {
					is, ok := y.(*ast.IfStmt)
					if !ok || degreeGuard {
						return !degreeGuard
					}
					if !leavesWithError(is.Body) {
						return true
					}
					ast.Inspect(is.Cond, func(z ast.Node) bool {
						if se, ok := z.(*ast.SelectorExpr); ok && se.Sel.Name == "Degree" && mentions(info, se.X, x) {
							degreeGuard = true
						}
						return true
					})
					return true
				})
				// accumulating operations add into the output: its higher components are part of the accumulator
				if accumulatingName(d.fd.Name.Name) {
					continue
				}
				n++
				fkey := core.FuncKey(d.pk, d.fd)
				key := fmt.Sprintf("OUTDEG:%s#%s%s", fkey, x.Name(), un.tag)
				props := metaProps(fkey)
				switch {
				case degreeGuard:
					out = append(out, withProps(okOb("OUTDEG", key, c.Rel(d.fd.Pos()), "an output of another degree is refused with an error", true), props...))
					continue
				case boundByX:
					out = append(out, withProps(okOb("OUTDEG", key, c.Rel(d.fd.Pos()), "a loop of the function is bounded by the output's own degree", true), props...))
					continue
				case delegatesToBounded(info, un.scope, x):
					out = append(out, withProps(okOb("OUTDEG", key, c.Rel(d.fd.Pos()), "the output is handed to a callee that loops over the components the output itself has", true), props...))
					continue
				case resizedFreeIn(info, d.fd, x, nil, un.scope):
					out = append(out, withProps(okOb("OUTDEG", key, c.Rel(d.fd.Pos()), "the output is resized to a degree that does not depend on its previous degree", true), props...))
					continue
				}
				// unexported helper: every caller resizes the argument to a degree free of it
				var outAccounted func(cd fdecl, v types.Object, depth int) bool
				outAccounted = func(cd fdecl, v types.Object, depth int) bool {
					cfn, ok := cd.pk.TypesInfo.Defs[cd.fd.Name].(*types.Func)
					if !ok || depth > 3 || len(callers[cfn]) == 0 {
						return false
					}
					csig := cfn.Type().(*types.Signature)
					idx := -1
					for q := 0; q < csig.Params().Len(); q++ {
						if csig.Params().At(q) == v {
							idx = q
						}
					}
					if idx < 0 {
						return false
					}
					for _, cl := range callers[cfn] {
						if idx >= len(cl.call.Args) {
							return false
						}
						arg := unparen(cl.call.Args[idx])
						if c2, isC := arg.(*ast.CallExpr); isC {
							if s2, isS := unparen(c2.Fun).(*ast.SelectorExpr); isS && s2.Sel.Name == "El" {
								arg = unparen(s2.X)
							}
						}
						ao := identObj(cl.d.pk.TypesInfo, arg)
						if ao == nil {
							return false
						}
						isParam := false
						if f2, ok := cl.d.pk.TypesInfo.Defs[cl.d.fd.Name].(*types.Func); ok {
							s2 := f2.Type().(*types.Signature)
							for q := 0; q < s2.Params().Len(); q++ {
								if s2.Params().At(q) == ao {
									isParam = true
								}
							}
						}
						if !isParam || resizedFree(cl.d.pk.TypesInfo, cl.d.fd, ao, cl.call) || degreeGuarded(cl.d.pk.TypesInfo, cl.d.fd, ao) || accumulatingName(cl.d.fd.Name.Name) {
							continue
						}
						if !cl.d.fd.Name.IsExported() && outAccounted(cl.d, ao, depth+1) {
							continue
						}
						return false
					}
					return true
				}
				cs := callers[d.fn]
				allOK := len(cs) > 0 && !d.fd.Name.IsExported()
				bad := ""
				for _, cl := range cs {
					if pi >= len(cl.call.Args) {
						allOK = false
						break
					}
					arg := unparen(cl.call.Args[pi])
					if c2, isC := arg.(*ast.CallExpr); isC {
						if s2, isS := unparen(c2.Fun).(*ast.SelectorExpr); isS && s2.Sel.Name == "El" {
							arg = unparen(s2.X)
						}
					}
					ao := identObj(cl.d.pk.TypesInfo, arg)
					// an element the caller has built itself (not one of its parameters) has the degree the caller chose
					if ao != nil {
						isParam := false
						if cfn, ok := cl.d.pk.TypesInfo.Defs[cl.d.fd.Name].(*types.Func); ok {
							csig := cfn.Type().(*types.Signature)
							for q := 0; q < csig.Params().Len(); q++ {
								if csig.Params().At(q) == ao {
									isParam = true
								}
							}
						}
						if !isParam {
							continue
						}
						// the caller is an accumulating operation (…ThenAdd): the higher components of its output are part of
						// the accumulator, exactly as when the loop stood in the caller itself
						if accumulatingName(cl.d.fd.Name.Name) {
							continue
						}
					}
					if ao != nil && !(resizedFree(cl.d.pk.TypesInfo, cl.d.fd, ao, cl.call) || degreeGuarded(cl.d.pk.TypesInfo, cl.d.fd, ao)) && !cl.d.fd.Name.IsExported() && outAccounted(cl.d, ao, 0) {
						continue // the caller is itself an unexported helper handing its own parameter on: its callers decide
					}
					if ao == nil || !(resizedFree(cl.d.pk.TypesInfo, cl.d.fd, ao, cl.call) || degreeGuarded(cl.d.pk.TypesInfo, cl.d.fd, ao)) {
						allOK = false
						bad = core.FuncKey(cl.d.pk, cl.d.fd) + " at " + c.Rel(cl.call.Pos())
						break
					}
				}
				if allOK {
					out = append(out, withProps(okOb("OUTDEG", key, c.Rel(d.fd.Pos()), "every caller resizes the output to a degree that does not depend on its previous degree", true), props...))
					continue
				}
				where := "it is exported and may receive an output of any degree"
				if bad != "" {
					where = "its caller " + bad + " passes an output whose degree includes its previous degree"
				}
				out = append(out, withProps(violOb("OUTDEG", key, c.Rel(d.fd.Pos()), fmt.Sprintf("%s%s writes the components of %s up to the degree of the operands (or by constant index) only, never resizes it to a degree of its own choosing and has no loop over the components %s itself has; %s: the components above the operands' degree keep what the receiver held before", fkey, un.tag, x.Name(), x.Name(), where)), props...))
			}
		}
	}
	c.Stats["outdeg_fns"] = n
	return out
}

func init() {
	all := []string{"C04", "C05", "C06", "C09", "C11", "C12", "C13", "C20"}
	core.Register(&core.Rule{Name: "OUTDEG", Props: all,
		Doc: "a function that writes the components out.Value[i] of an output element in loops either resizes the output to a degree that does not depend on the output's previous degree, or has a loop bounded by the output's own degree (the zeroing/copying of the remaining components), or is an unexported helper all of whose callers have so resized the argument",
		Run: func(c *core.Ctx) []ob {
			out := scanOutDeg(c)
			for i := range out {
				has := false
				for _, p := range out[i].Props {
					if p == "C09" {
						has = true
					}
				}
				if !has {
					out[i].Props = append(append([]string{}, out[i].Props...), "C09")
				}
			}
			for _, o := range control(c, "OUTDEG", scanOutDeg, "(fixEvaluator).SumLow") {
				out = append(out, withProps(o, all...))
			}
			for _, o := range core.Floor("OUTDEG", nil, "functions writing output components in loops", c.Stats["outdeg_fns"], 8) {
				out = append(out, withProps(o, all...))
			}
			return out
		}})
}

// degreeGuarded: the function refuses, with an error, an element o whose degree is not the expected one.
func accumulatingName(name string) bool {
	return strings.Contains(name, "ThenAdd") || strings.Contains(name, "ThenSub")
}

func degreeGuarded(info *types.Info, fd *ast.FuncDecl, o types.Object) bool {
	found := false
	ast.Inspect(fd.Body, func(y ast.Node) bool {
		is, ok := y.(*ast.IfStmt)
		if !ok || found {
			return !found
		}
		if !leavesWithError(is.Body) {
			return true
		}
		ast.Inspect(is.Cond, func(z ast.Node) bool {
			if se, ok := z.(*ast.SelectorExpr); ok && se.Sel.Name == "Degree" {
				if identObj(info, se.X) == o {
					found = true
				}
			}
			return true
		})
		return true
	})
	return found
}

// RESIZEFIRST — the components of an output are not addressed before the output has been given its degree.
//
// `c1 := opOut.Value[1]` followed by `opOut.Resize(1, level)` indexes whatever the receiver is when it comes in: a
// receiver of degree 0 panics (index out of range) where the documentation promises the result or an error.
//
// Rule: in a function that resizes an output parameter X, no index expression X.Value[k] with a constant k >= 1 occurs
// before the first X.Resize call (source order), unless the function refuses outputs of another degree with an error
// first.
func scanResizeFirst(c *core.Ctx) []ob {
	var out []ob
	n := 0
	c.FuncDecls(func(pk *packages.Package, file *ast.File, fd *ast.FuncDecl) {
		rel := core.ShortPkg(pk.PkgPath)
		if fd.Body == nil || fileIsTestSupport(c.Program, fd.Pos()) || !(c.IsFixture || strings.HasPrefix(rel, "schemes/") || strings.HasPrefix(rel, "core/") || strings.HasPrefix(rel, "circuits/")) {
			return
		}
		info := pk.TypesInfo
		fn, _ := info.Defs[fd.Name].(*types.Func)
		if fn == nil {
			return
		}
		sig := fn.Type().(*types.Signature)
		for pi := 0; pi < sig.Params().Len(); pi++ {
			x := sig.Params().At(pi)
			if !isOutParamName(x.Name()) || !isMetaCarrier(x.Type()) {
				continue
			}
			firstResize := token.NoPos
			ast.Inspect(fd.Body, func(y ast.Node) bool {
				call, ok := y.(*ast.CallExpr)
				if !ok {
					return true
				}
				// a helper that resizes what it receives there on every path of its body
				if hf := calleeFunc(info, call); hf != nil && hf.Pkg() == pk.Types && !hf.Exported() {
					for _, f2 := range pk.Syntax {
						for _, d2 := range f2.Decls {
							hd, ok := d2.(*ast.FuncDecl)
							if !ok || hd.Body == nil || info.Defs[hd.Name] != types.Object(funcOrigin(hf)) {
								continue
							}
							for ai, a := range call.Args {
								if identObj(info, unparen(a)) == x && helperResizesConst(info, hd, ai) && (firstResize == token.NoPos || call.Pos() < firstResize) {
									firstResize = call.Pos()
								}
							}
						}
					}
				}
				if sel, ok := unparen(call.Fun).(*ast.SelectorExpr); ok && sel.Sel.Name == "Resize" {
					base := unparen(sel.X)
					if c2, isC := base.(*ast.CallExpr); isC {
						if s2, isS := unparen(c2.Fun).(*ast.SelectorExpr); isS && s2.Sel.Name == "El" {
							base = unparen(s2.X)
						}
					}
					if identObj(info, base) == x && (firstResize == token.NoPos || call.Pos() < firstResize) {
						firstResize = call.Pos()
					}
				}
				return true
			})
			if firstResize == token.NoPos {
				continue
			}
			n++
			fkey := core.FuncKey(pk, fd)
			key := fmt.Sprintf("RESIZEFIRST:%s#%s", fkey, x.Name())
			var early *ast.IndexExpr
			ast.Inspect(fd.Body, func(y ast.Node) bool {
				ie, ok := y.(*ast.IndexExpr)
				if !ok || early != nil || ie.Pos() > firstResize {
					return early == nil
				}
				se, ok := unparen(ie.X).(*ast.SelectorExpr)
				if !ok || se.Sel.Name != "Value" || identObj(info, se.X) != x {
					return true
				}
				if tv, ok := info.Types[ie.Index]; ok && tv.Value != nil && tv.Value.String() != "0" {
					early = ie
				}
				return true
			})
			props := append(metaProps(fkey), "C09")
			if early == nil || degreeGuarded(info, fd, x) {
				out = append(out, withProps(okOb("RESIZEFIRST", key, c.Rel(fd.Pos()), "no component beyond the first is addressed before the output is resized", true), props...))
			} else {
				out = append(out, withProps(violOb("RESIZEFIRST", key, c.Rel(early.Pos()), fmt.Sprintf("%s addresses %s before it resizes %s at %s: a receiver that comes in with a smaller degree makes the operation panic (index out of range) instead of being resized", fkey, exprString(early), x.Name(), c.Rel(firstResize))), props...))
			}
		}
	})
	c.Stats["resizefirst_fns"] = n
	return out
}

func init() {
	all := []string{"C04", "C05", "C06", "C09", "C11", "C12", "C13", "C20"}
	core.Register(&core.Rule{Name: "RESIZEFIRST", Props: all,
		Doc: "in a function that resizes an output parameter, no component out.Value[k], k >= 1, is addressed before the first Resize (unless outputs of another degree are refused with an error first)",
		Run: func(c *core.Ctx) []ob {
			out := scanResizeFirst(c)
			for _, o := range control(c, "RESIZEFIRST", scanResizeFirst, "(fixEvaluator).ViewThenResize") {
				out = append(out, withProps(o, all...))
			}
			for _, o := range core.Floor("RESIZEFIRST", nil, "functions resizing an output", c.Stats["resizefirst_fns"], 30) {
				out = append(out, withProps(o, all...))
			}
			return out
		}})
}

// helperResizesConst: every path through the body of the helper resizes its idx-th parameter to a constant degree
// (the statement list contains such a Resize, or an if whose arms all do).
func helperResizesConst(info *types.Info, fd *ast.FuncDecl, idx int) bool {
	var p types.Object
	i := 0
	for _, fl := range fd.Type.Params.List {
		for _, nm := range fl.Names {
			if i == idx {
				p = info.Defs[nm]
			}
			i++
		}
	}
	if p == nil {
		return false
	}
	isResize := func(st ast.Stmt) bool {
		es, ok := st.(*ast.ExprStmt)
		if !ok {
			return false
		}
		call, ok := es.X.(*ast.CallExpr)
		if !ok || len(call.Args) < 1 {
			return false
		}
		sel, ok := unparen(call.Fun).(*ast.SelectorExpr)
		if !ok || sel.Sel.Name != "Resize" {
			return false
		}
		base := unparen(sel.X)
		if c2, isC := base.(*ast.CallExpr); isC {
			if s2, isS := unparen(c2.Fun).(*ast.SelectorExpr); isS && s2.Sel.Name == "El" {
				base = unparen(s2.X)
			}
		}
		if identObj(info, base) != p {
			return false
		}
		tv, ok := info.Types[call.Args[0]]
		return ok && tv.Value != nil
	}
	var all func(list []ast.Stmt) bool
	all = func(list []ast.Stmt) bool {
		for _, st := range list {
			if isResize(st) {
				return true
			}
			if is, ok := st.(*ast.IfStmt); ok {
				thenOK := all(is.Body.List)
				switch e := is.Else.(type) {
				case *ast.BlockStmt:
					if thenOK && all(e.List) {
						return true
					}
				case nil:
					// `if c { Resize; return }` followed by the other arm
					if thenOK && terminates(is.Body.List) {
						continue
					}
				}
			}
		}
		return false
	}
	// with an early-returning arm, the rest of the list must resize as well
	return all(fd.Body.List)
}
