package rules

import (
	"fmt"
	"go/ast"
	"go/token"
	"go/types"
	"strings"

	"golang.org/x/tools/go/cfg"
	"golang.org/x/tools/go/packages"

	"lvcheck/internal/core"
)

// Path rules over the codec methods (C08): FLUSH, ERRPROP, NCOUNT, DEFASSIGN, RECVPTR, SHORTREAD, OKFLAG, TAINTALLOC.

type codecFn struct {
	pk   *packages.Package
	fd   *ast.FuncDecl
	obj  *types.Func
	sig  *types.Signature
	kind string // WriteTo ReadFrom UnmarshalBinary UnmarshalJSON MarshalBinary MarshalJSON BinarySize
	key  string
}

var codecNames = map[string]bool{"WriteTo": true, "ReadFrom": true, "UnmarshalBinary": true, "UnmarshalJSON": true,
	"MarshalBinary": true, "MarshalJSON": true, "BinarySize": true}

func findCodecFns(p *core.Program) []codecFn {
	var out []codecFn
	p.FuncDecls(func(pk *packages.Package, file *ast.File, fd *ast.FuncDecl) {
		if fd.Recv == nil || !codecNames[fd.Name.Name] {
			return
		}
		if fileIsTestSupport(p, fd.Pos()) || inExamples(pk) {
			return
		}
		obj, _ := pk.TypesInfo.Defs[fd.Name].(*types.Func)
		if obj == nil {
			return
		}
		out = append(out, codecFn{pk, fd, obj, obj.Type().(*types.Signature), fd.Name.Name, core.FuncKey(pk, fd)})
	})
	return out
}

func isNamedType(t types.Type, pkgPath, name string) bool {
	n, ok := t.(*types.Named)
	if !ok {
		if a, ok2 := t.(*types.Alias); ok2 {
			return isNamedType(types.Unalias(a), pkgPath, name)
		}
		return false
	}
	return n.Obj().Name() == name && n.Obj().Pkg() != nil && n.Obj().Pkg().Path() == pkgPath
}

const bufferPkg = core.ModPath + "/utils/buffer"

func isWriterType(t types.Type) bool {
	return isNamedType(t, "io", "Writer") || isNamedType(t, bufferPkg, "Writer")
}
func isReaderType(t types.Type) bool {
	return isNamedType(t, "io", "Reader") || isNamedType(t, bufferPkg, "Reader")
}

// streamVars returns the objects standing for the stream parameter inside fd: the parameter itself
// and the per-clause implicit objects of `switch w := w.(type)`.
func streamVars(info *types.Info, fd *ast.FuncDecl, isStream func(types.Type) bool) map[types.Object]bool {
	vars := map[types.Object]bool{}
	for _, f := range fd.Type.Params.List {
		for _, nm := range f.Names {
			if o := info.Defs[nm]; o != nil && isStream(o.Type()) {
				vars[o] = true
			}
		}
	}
	if len(vars) == 0 {
		return vars
	}
	ast.Inspect(fd.Body, func(n ast.Node) bool {
		ts, ok := n.(*ast.TypeSwitchStmt)
		if !ok {
			return true
		}
		as, ok := ts.Assign.(*ast.AssignStmt)
		if !ok || len(as.Rhs) != 1 {
			return true
		}
		ta, ok := unparen(as.Rhs[0]).(*ast.TypeAssertExpr)
		if !ok || !vars[identObj(info, ta.X)] {
			return true
		}
		for _, cl := range ts.Body.List {
			if o := info.Implicits[cl]; o != nil {
				vars[o] = true
			}
		}
		return true
	})
	// other names of the stream: a comma-ok assertion (bw, ok := w.(buffer.Writer)), a plain alias, a bufio wrapper
	for changed := true; changed; {
		changed = false
		ast.Inspect(fd.Body, func(n ast.Node) bool {
			as, ok := n.(*ast.AssignStmt)
			if !ok || len(as.Rhs) != 1 || len(as.Lhs) == 0 {
				return true
			}
			var src ast.Expr
			switch r := unparen(as.Rhs[0]).(type) {
			case *ast.TypeAssertExpr:
				if r.Type != nil {
					src = r.X
				}
			case *ast.Ident:
				if len(as.Lhs) == 1 {
					src = r
				}
			case *ast.CallExpr:
				if f := calleeFunc(info, r); f != nil && f.Pkg() != nil && f.Pkg().Path() == "bufio" && len(r.Args) >= 1 {
					src = r.Args[0]
				}
			}
			if src == nil || !vars[identObj(info, src)] {
				return true
			}
			if o := identObj(info, as.Lhs[0]); o != nil && !vars[o] && isStream(o.Type()) {
				vars[o] = true
				changed = true
			}
			return true
		})
	}
	return vars
}

func mentionsVar(info *types.Info, e ast.Node, vars map[types.Object]bool) bool {
	found := false
	ast.Inspect(e, func(n ast.Node) bool {
		if id, ok := n.(*ast.Ident); ok {
			if o := info.Uses[id]; o != nil && vars[o] {
				found = true
			}
		}
		return !found
	})
	return found
}

// callsIn lists call expressions under n in source order, innermost first for nested calls, not descending into func literals.
func callsIn(n ast.Node) []*ast.CallExpr {
	var out []*ast.CallExpr
	var visit func(ast.Node)
	visit = func(m ast.Node) {
		ast.Inspect(m, func(x ast.Node) bool {
			if x == nil {
				return false
			}
			if _, ok := x.(*ast.FuncLit); ok {
				return false
			}
			if c, ok := x.(*ast.CallExpr); ok && x != m {
				visit(c)
				out = append(out, c)
				return false
			}
			return true
		})
	}
	if c, ok := n.(*ast.CallExpr); ok {
		visit(c)
		out = append(out, c)
		return out
	}
	visit(n)
	return out
}

// ---------------------------------------------------------------- FLUSH

type flushState int

const (
	fsFlushed flushState = iota
	fsDirty
)

type flushAnalyser struct {
	p      *core.Program
	declOf map[*types.Func]struct {
		pk *packages.Package
		fd *ast.FuncDecl
	}
	memo     map[*types.Func][2]flushState // result from entry Flushed / Dirty
	progress map[*types.Func]bool
	// tables: the value variable of a loop over a literal table of functions (closures over the stream, method
	// values of the fields) -> the rows, in order
	tables map[types.Object][]ast.Expr
	// tableAt: the operand of such a loop -> the rows (a loop over a non-empty literal table runs: its rows are
	// applied where the operand is evaluated, so that the path around the loop does not count as a path)
	tableAt map[ast.Node][]ast.Expr
}

func newFlushAnalyser(p *core.Program) *flushAnalyser {
	fa := &flushAnalyser{p: p, memo: map[*types.Func][2]flushState{}, progress: map[*types.Func]bool{}}
	fa.declOf = map[*types.Func]struct {
		pk *packages.Package
		fd *ast.FuncDecl
	}{}
	p.FuncDecls(func(pk *packages.Package, file *ast.File, fd *ast.FuncDecl) {
		if o, ok := pk.TypesInfo.Defs[fd.Name].(*types.Func); ok {
			fa.declOf[o] = struct {
				pk *packages.Package
				fd *ast.FuncDecl
			}{pk, fd}
		}
	})
	return fa
}

// effect of one call on the flush state.
func (fa *flushAnalyser) callEffect(info *types.Info, call *ast.CallExpr, vars map[types.Object]bool, s flushState) flushState {
	// a row of a table of field writers: all rows are called in order, the state after the loop is the one after the
	// last row
	if id, ok := unparen(call.Fun).(*ast.Ident); ok {
		if rows, ok := fa.tables[info.Uses[id]]; ok && len(rows) > 0 {
			return fa.rowsEffect(info, rows, vars, s)
		}
	}
	return fa.callEffect2(info, call, vars, s)
}

// rowsEffect applies the rows of a table of field writers in order.
func (fa *flushAnalyser) rowsEffect(info *types.Info, rows []ast.Expr, vars map[types.Object]bool, s flushState) flushState {
	{
		{
			for _, row := range rows {
				switch r := unparen(row).(type) {
				case *ast.FuncLit:
					for _, c := range callsIn(r.Body) {
						s = fa.callEffect(info, c, vars, s)
					}
				case *ast.SelectorExpr:
					// a method value x.f.WriteTo called with the stream
					if r.Sel.Name == "WriteTo" {
						if sel := info.Selections[r]; sel != nil {
							if f, ok := sel.Obj().(*types.Func); ok {
								if d, ok := fa.declOf[funcOrigin(f)]; ok {
									s = fa.summary(funcOrigin(f), d.pk, d.fd)[fsDirty]
									continue
								}
							}
						}
						s = fsFlushed
					} else {
						s = fsDirty
					}
				default:
					s = fsDirty
				}
			}
			return s
		}
	}
}

func (fa *flushAnalyser) callEffect2(info *types.Info, call *ast.CallExpr, vars map[types.Object]bool, s flushState) flushState {
	// method on the stream itself
	if sel, ok := unparen(call.Fun).(*ast.SelectorExpr); ok {
		if o := identObj(info, sel.X); o != nil && vars[o] {
			switch sel.Sel.Name {
			case "Flush":
				return fsFlushed
			case "Write", "WriteString", "WriteByte", "WriteRune", "ReadFrom":
				return fsDirty
			}
			return s
		}
	}
	touches := false
	for _, a := range call.Args {
		if mentionsVar(info, a, vars) {
			touches = true
		}
	}
	if !touches {
		return s
	}
	f := funcOrigin(calleeFunc(info, call))
	if f == nil {
		return fsDirty
	}
	if f.Pkg() != nil && (f.Pkg().Path() == "bufio") {
		return s // wrapping only
	}
	if f.Name() == "WriteTo" {
		if d, ok := fa.declOf[f]; ok {
			r := fa.summary(f, d.pk, d.fd)
			// handed a writer created in the argument list (`ct.WriteTo(bufio.NewWriter(w))`): the callee starts on an
			// empty buffer, whatever this function has pending is not in it
			if len(call.Args) == 1 {
				if ac, ok := unparen(call.Args[0]).(*ast.CallExpr); ok {
					if af := calleeFunc(info, ac); af != nil && af.Pkg() != nil && af.Pkg().Path() == "bufio" && af.Name() == "NewWriter" {
						return r[fsFlushed]
					}
				}
			}
			return r[fsDirty]
		}
		// dynamic (interface) callee: every module WriteTo is itself obliged to end flushed
		return fsFlushed
	}
	if d, ok := fa.declOf[f]; ok {
		if f.Pkg().Path() == bufferPkg {
			return fsDirty
		}
		r := fa.summary(f, d.pk, d.fd)
		return r[s]
	}
	return fsDirty
}

type flushViolation struct {
	pos  token.Pos
	desc string
}

// run computes the state at each success return starting from entry; returns worst state and violation sites.
func (fa *flushAnalyser) run(pk *packages.Package, fd *ast.FuncDecl, entry flushState) (flushState, []flushViolation) {
	info := pk.TypesInfo
	vars := streamVars(info, fd, isWriterType)
	if len(vars) == 0 {
		return entry, nil
	}
	obj := info.Defs[fd.Name].(*types.Func)
	sig := obj.Type().(*types.Signature)
	_, errRes := lastResultIsError(sig)
	savedTables, savedAt := fa.tables, fa.tableAt
	fa.tables = map[types.Object][]ast.Expr{}
	fa.tableAt = map[ast.Node][]ast.Expr{}
	defer func() { fa.tables, fa.tableAt = savedTables, savedAt }()
	ast.Inspect(fd.Body, func(x ast.Node) bool {
		rs, ok := x.(*ast.RangeStmt)
		if !ok {
			return true
		}
		vid, ok := rs.Value.(*ast.Ident)
		if !ok {
			return true
		}
		cl, _ := unparen(rs.X).(*ast.CompositeLit)
		if cl == nil {
			if id, ok := unparen(rs.X).(*ast.Ident); ok {
				if d := singleDefOf(info, fd, info.Uses[id]); d != nil {
					cl, _ = unparen(d).(*ast.CompositeLit)
				}
			}
		}
		if cl == nil || len(cl.Elts) == 0 {
			return true
		}
		if _, isFn := info.TypeOf(vid).Underlying().(*types.Signature); !isFn {
			return true
		}
		if o := info.Defs[vid]; o != nil {
			fa.tables[o] = cl.Elts
			fa.tableAt[rs.X] = cl.Elts
		}
		return true
	})
	pm := parentMap(fd)
	g := buildCFG(info, fd.Body)
	transfer := func(n ast.Node, s flushState) flushState {
		if rows, ok := fa.tableAt[n]; ok {
			s = fa.rowsEffect(info, rows, vars, s)
		}
		for _, c := range callsIn(n) {
			s = fa.callEffect(info, c, vars, s)
		}
		return s
	}
	in := forward(g, entry, func() flushState { return fsFlushed }, transfer,
		func(a, b flushState) flushState {
			if a == fsDirty || b == fsDirty {
				return fsDirty
			}
			return fsFlushed
		},
		func(a, b flushState) bool { return a == b })
	worst := fsFlushed
	var viol []flushViolation
	sawReturn := false
	for _, b := range g.Blocks {
		s, ok := in[b]
		if !ok {
			continue
		}
		for _, n := range b.Nodes {
			s = transfer(n, s)
			if r, ok := n.(*ast.ReturnStmt); ok {
				sawReturn = true
				if returnIsFailing(info, pm, r, errRes) {
					continue
				}
				if s == fsDirty {
					worst = fsDirty
					viol = append(viol, flushViolation{r.Pos(), "success return reached with unflushed data"})
				}
			}
		}
		if len(b.Succs) == 0 && len(b.Nodes) > 0 {
			if _, isRet := b.Nodes[len(b.Nodes)-1].(*ast.ReturnStmt); !isRet && b.Live {
				// falls off the end of the function
				if s == fsDirty && !endsInPanic(info, b) {
					worst = fsDirty
					viol = append(viol, flushViolation{fd.Body.Rbrace, "end of function reached with unflushed data"})
				}
			}
		}
	}
	_ = sawReturn
	return worst, viol
}

func endsInPanic(info *types.Info, b *cfg.Block) bool {
	if len(b.Nodes) == 0 {
		return false
	}
	es, ok := b.Nodes[len(b.Nodes)-1].(*ast.ExprStmt)
	if !ok {
		return false
	}
	c, ok := es.X.(*ast.CallExpr)
	return ok && isBuiltinCall(info, c, "panic")
}

func (fa *flushAnalyser) summary(f *types.Func, pk *packages.Package, fd *ast.FuncDecl) [2]flushState {
	if r, ok := fa.memo[f]; ok {
		return r
	}
	if fa.progress[f] {
		return [2]flushState{fsFlushed, fsFlushed} // optimistic for recursion (the default: arm re-enters with a fresh bufio writer)
	}
	fa.progress[f] = true
	a, _ := fa.run(pk, fd, fsFlushed)
	b, _ := fa.run(pk, fd, fsDirty)
	delete(fa.progress, f)
	r := [2]flushState{a, b}
	fa.memo[f] = r
	return r
}

func wrapsInBufio(info *types.Info, fd *ast.FuncDecl, name string) bool {
	found := false
	ast.Inspect(fd.Body, func(n ast.Node) bool {
		if c, ok := n.(*ast.CallExpr); ok {
			if f := calleeFunc(info, c); f != nil && f.Pkg() != nil && f.Pkg().Path() == "bufio" && f.Name() == name {
				found = true
			}
		}
		return !found
	})
	return found
}

func scanFlush(c *core.Ctx) []ob {
	var out []ob
	fa := newFlushAnalyser(c.Program)
	n := 0
	for _, cf := range findCodecFns(c.Program) {
		if cf.kind != "WriteTo" {
			continue
		}
		key := "FLUSH:" + cf.key
		pos := c.Rel(cf.fd.Pos())
		if !wrapsInBufio(cf.pk.TypesInfo, cf.fd, "NewWriter") {
			r := fa.summary(cf.obj, cf.pk, cf.fd)
			if r[fsDirty] == fsFlushed {
				out = append(out, okOb("FLUSH", key, pos, "pure delegation to a flush-ending WriteTo", false))
			} else {
				out = append(out, infoOb("FLUSH", key, pos, "writes straight to the io.Writer it is given without wrapping it in bufio: no flush obligation of its own (callers must not end on it)"))
			}
			continue
		}
		n++
		_, viol := fa.run(cf.pk, cf.fd, fsFlushed)
		if len(viol) == 0 {
			out = append(out, okOb("FLUSH", key, pos, "every success path ends with Flush or a flush-ending nested WriteTo", true))
			continue
		}
		for i, v := range viol {
			k := key
			if i > 0 {
				k = fmt.Sprintf("%s#%d", key, i)
			}
			o := violOb("FLUSH", k, c.Rel(v.pos), fmt.Sprintf("%s: %s; a plain io.Writer is wrapped in a bufio.Writer by the default arm, so bytes still buffered at return are lost while the byte count says they were written", cf.key, v.desc))
			o.Path = []string{"entry " + pos, "offending exit " + c.Rel(v.pos)}
			out = append(out, o)
		}
	}
	c.Stats["flush_writers"] = n
	return out
}

// ---------------------------------------------------------------- ERRPROP / NCOUNT (pending-value dataflow)

type pendSet map[types.Object]token.Pos

func (p pendSet) clone() pendSet {
	q := pendSet{}
	for k, v := range p {
		q[k] = v
	}
	return q
}

func pendJoin(a, b pendSet) pendSet {
	q := a.clone()
	for k, v := range b {
		if _, ok := q[k]; !ok {
			q[k] = v
		}
	}
	return q
}

func pendEqual(a, b pendSet) bool {
	if len(a) != len(b) {
		return false
	}
	for k := range a {
		if _, ok := b[k]; !ok {
			return false
		}
	}
	return true
}

// usesOf lists objects read (not purely assigned) under n.
func readsIn(info *types.Info, n ast.Node) map[types.Object]bool {
	reads := map[types.Object]bool{}
	lhsIdents := map[*ast.Ident]bool{}
	ast.Inspect(n, func(x ast.Node) bool {
		if as, ok := x.(*ast.AssignStmt); ok && (as.Tok == token.ASSIGN || as.Tok == token.DEFINE) {
			for _, l := range as.Lhs {
				if id, ok := unparen(l).(*ast.Ident); ok {
					lhsIdents[id] = true
				}
			}
		}
		return true
	})
	ast.Inspect(n, func(x ast.Node) bool {
		if _, ok := x.(*ast.FuncLit); ok {
			// closures reading the variable count as reads
			return true
		}
		if id, ok := x.(*ast.Ident); ok && !lhsIdents[id] {
			if o := info.Uses[id]; o != nil {
				reads[o] = true
			}
		}
		return true
	})
	return reads
}

type pendViolation struct {
	pos   token.Pos
	at    token.Pos
	what  string
	vname string
}

// pendingAnalysis tracks variables that received a value of interest from a call and must be read before being
// overwritten or before a (success) return.
//   - source(call, resultIndex) says whether the i-th result of call is of interest
//   - onlySuccessReturns: do not check at failing returns
func pendingAnalysis(info *types.Info, fd *ast.FuncDecl, interesting func(call *ast.CallExpr, res int, lhs types.Object) bool,
	onlySuccessReturns bool, flagBlank func(call *ast.CallExpr, res int) bool) []pendViolation {

	obj := info.Defs[fd.Name].(*types.Func)
	sig := obj.Type().(*types.Signature)
	_, errRes := lastResultIsError(sig)
	named := map[types.Object]bool{}
	for i := 0; i < sig.Results().Len(); i++ {
		if r := sig.Results().At(i); r.Name() != "" {
			named[r] = true
		}
	}
	pm := parentMap(fd)
	g := buildCFG(info, fd.Body)
	var viols []pendViolation
	seenViol := map[string]bool{}
	addViol := func(v pendViolation) {
		k := fmt.Sprintf("%d|%d|%s", v.pos, v.at, v.what)
		if !seenViol[k] {
			seenViol[k] = true
			viols = append(viols, v)
		}
	}
	var record bool
	transfer := func(n ast.Node, s pendSet) pendSet {
		s = s.clone()
		// reads clear
		switch st := n.(type) {
		case *ast.ReturnStmt:
			rd := readsIn(info, st)
			for o := range rd {
				delete(s, o)
			}
			if len(st.Results) == 0 {
				for o := range named {
					delete(s, o)
				}
			}
			if record {
				failing := returnIsFailing(info, pm, st, errRes)
				if !(onlySuccessReturns && failing) {
					for o, p := range s {
						addViol(pendViolation{p, st.Pos(), "return", o.Name()})
					}
				}
			}
			return s
		}
		// evaluation order for `x, err = f(err)`: reads first
		rd := readsIn(info, n)
		for o := range rd {
			delete(s, o)
		}
		// assignments from calls
		handleAssign := func(lhs []ast.Expr, rhs []ast.Expr) {
			if len(rhs) == 1 {
				call, ok := unparen(rhs[0]).(*ast.CallExpr)
				if !ok {
					// plain overwrite of a pending var by a non-call
					for _, l := range lhs {
						if o := identObj(info, l); o != nil {
							if p, pend := s[o]; pend {
								if _, isId := unparen(l).(*ast.Ident); isId {
									if record {
										addViol(pendViolation{p, l.Pos(), "overwritten", o.Name()})
									}
									delete(s, o)
								}
							}
						}
					}
					return
				}
				for i, l := range lhs {
					id, isId := unparen(l).(*ast.Ident)
					if !isId {
						continue
					}
					if id.Name == "_" {
						if record && flagBlank != nil && flagBlank(call, i) {
							addViol(pendViolation{call.Pos(), l.Pos(), "discarded", "_"})
						}
						continue
					}
					o := identObj(info, id)
					if o == nil {
						continue
					}
					if p, pend := s[o]; pend {
						if record {
							addViol(pendViolation{p, l.Pos(), "overwritten", o.Name()})
						}
						delete(s, o)
					}
					if interesting(call, i, o) {
						s[o] = call.Pos()
					}
				}
			}
		}
		switch st := n.(type) {
		case *ast.AssignStmt:
			if st.Tok == token.ASSIGN || st.Tok == token.DEFINE {
				handleAssign(st.Lhs, st.Rhs)
			}
		case *ast.ValueSpec:
			var lhs []ast.Expr
			for _, nm := range st.Names {
				lhs = append(lhs, nm)
			}
			if len(st.Values) > 0 {
				handleAssign(lhs, st.Values)
			}
		case *ast.ExprStmt:
			if call, ok := unparen(st.X).(*ast.CallExpr); ok && record && flagBlank != nil {
				if tv, ok := info.Types[call]; ok {
					switch t := tv.Type.(type) {
					case *types.Tuple:
						for i := 0; i < t.Len(); i++ {
							if flagBlank(call, i) {
								addViol(pendViolation{call.Pos(), call.Pos(), "discarded", "(unassigned)"})
							}
						}
					default:
						if flagBlank(call, 0) {
							addViol(pendViolation{call.Pos(), call.Pos(), "discarded", "(unassigned)"})
						}
					}
				}
			}
		}
		return s
	}
	in := forward(g, pendSet{}, func() pendSet { return pendSet{} }, transfer, pendJoin, pendEqual)
	record = true
	for _, b := range g.Blocks {
		s, ok := in[b]
		if !ok {
			continue
		}
		for _, n := range b.Nodes {
			s = transfer(n, s)
		}
		if len(b.Succs) == 0 && b.Live {
			isRet := false
			if len(b.Nodes) > 0 {
				_, isRet = b.Nodes[len(b.Nodes)-1].(*ast.ReturnStmt)
			}
			if !isRet && !endsInPanic(info, b) {
				for o, p := range s {
					if named[o] {
						continue
					}
					addViol(pendViolation{p, fd.Body.Rbrace, "end of function", o.Name()})
				}
			}
		}
	}
	return viols
}

func resultType(info *types.Info, call *ast.CallExpr, i int) types.Type {
	tv, ok := info.Types[call]
	if !ok {
		return nil
	}
	if t, ok := tv.Type.(*types.Tuple); ok {
		if i < t.Len() {
			return t.At(i).Type()
		}
		return nil
	}
	if i == 0 {
		return tv.Type
	}
	return nil
}

func scanErrProp(c *core.Ctx) []ob {
	var out []ob
	n := 0
	for _, cf := range findCodecFns(c.Program) {
		if cf.kind == "BinarySize" {
			continue
		}
		info := cf.pk.TypesInfo
		n++
		// in-memory builders never fail: strings.Builder and bytes.Buffer document that their Write* methods always
		// return a nil error
		neverFails := func(call *ast.CallExpr) bool {
			f := calleeFunc(info, call)
			if f == nil {
				return false
			}
			if sig, ok := f.Type().(*types.Signature); ok && sig.Recv() != nil {
				if nm := namedOf(sig.Recv().Type()); nm != nil && nm.Obj().Pkg() != nil {
					full := nm.Obj().Pkg().Path() + "." + nm.Obj().Name()
					return full == "strings.Builder" || full == "bytes.Buffer"
				}
			}
			return false
		}
		interesting := func(call *ast.CallExpr, res int, lhs types.Object) bool {
			t := resultType(info, call, res)
			return t != nil && isErrorType(t) && !neverFails(call)
		}
		flagBlank := func(call *ast.CallExpr, res int) bool {
			t := resultType(info, call, res)
			if t == nil || !isErrorType(t) || neverFails(call) {
				return false
			}
			// only stream/codec calls: skip fmt.Print-like helpers
			f := calleeFunc(info, call)
			if f != nil && f.Pkg() != nil && f.Pkg().Path() == "fmt" {
				return false
			}
			return true
		}
		viols := pendingAnalysis(info, cf.fd, interesting, false, flagBlank)
		key := "ERRPROP:" + cf.key
		if len(viols) == 0 {
			out = append(out, okOb("ERRPROP", key, c.Rel(cf.fd.Pos()), "every error produced inside the codec method is tested or returned before it is overwritten or the method returns", true))
			continue
		}
		for i, v := range viols {
			k := key
			if i > 0 {
				k = fmt.Sprintf("%s#%d", key, i)
			}
			o := violOb("ERRPROP", k, c.Rel(v.pos), fmt.Sprintf("%s: error assigned to %q at %s is %s at %s without having been tested or returned: a failing read/write would be silently accepted", cf.key, v.vname, c.Rel(v.pos), v.what, c.Rel(v.at)))
			out = append(out, o)
		}
	}
	c.Stats["errprop_methods"] = n
	return out
}

func scanNCount(c *core.Ctx) []ob {
	var out []ob
	n := 0
	for _, cf := range findCodecFns(c.Program) {
		if cf.kind != "WriteTo" && cf.kind != "ReadFrom" {
			continue
		}
		if cf.sig.Results().Len() != 2 {
			continue
		}
		info := cf.pk.TypesInfo
		wv := streamVars(info, cf.fd, func(t types.Type) bool { return isWriterType(t) || isReaderType(t) })
		if len(wv) == 0 {
			continue
		}
		n++
		interesting := func(call *ast.CallExpr, res int, lhs types.Object) bool {
			if res != 0 {
				return false
			}
			t := resultType(info, call, 0)
			b, ok := t.(*types.Basic)
			if !ok || (b.Kind() != types.Int64 && b.Kind() != types.Int) {
				return false
			}
			tup, ok := info.Types[call].Type.(*types.Tuple)
			if !ok || tup.Len() != 2 || !isErrorType(tup.At(1).Type()) {
				return false
			}
			// call must touch the stream
			touch := false
			for _, a := range call.Args {
				if mentionsVar(info, a, wv) {
					touch = true
				}
			}
			if sel, ok := unparen(call.Fun).(*ast.SelectorExpr); ok && mentionsVar(info, sel.X, wv) {
				touch = true
			}
			return touch
		}
		viols := pendingAnalysis(info, cf.fd, interesting, true, nil)
		key := "NCOUNT:" + cf.key
		if len(viols) == 0 {
			out = append(out, okOb("NCOUNT", key, c.Rel(cf.fd.Pos()), "every byte count returned by a stream call is added to (or returned with) the method's own count on success paths", true))
			continue
		}
		for i, v := range viols {
			k := key
			if i > 0 {
				k = fmt.Sprintf("%s#%d", key, i)
			}
			out = append(out, violOb("NCOUNT", k, c.Rel(v.pos), fmt.Sprintf("%s: byte count stored in %q at %s is %s at %s without being accumulated: the method reports fewer bytes than it consumed/produced, so back-to-back objects on one stream desynchronise", cf.key, v.vname, c.Rel(v.pos), v.what, c.Rel(v.at))))
		}
	}
	c.Stats["ncount_methods"] = n
	return out
}

// ---------------------------------------------------------------- DEFASSIGN

// recvPath renders an lvalue rooted at the receiver as an access path; elem reports whether an index/slice step occurs,
// in which case the returned path is the container's path.
func recvPath(info *types.Info, e ast.Expr, recv types.Object) (path string, elem bool, ok bool) {
	e = unparen(e)
	switch x := e.(type) {
	case *ast.Ident:
		if identObj(info, x) == recv {
			return "recv", false, true
		}
		return "", false, false
	case *ast.StarExpr:
		return recvPath(info, x.X, recv)
	case *ast.UnaryExpr:
		if x.Op == token.AND {
			return recvPath(info, x.X, recv)
		}
	case *ast.SelectorExpr:
		if sel := info.Selections[x]; sel != nil && sel.Kind() == types.FieldVal {
			p, el, ok := recvPath(info, x.X, recv)
			if !ok {
				return "", false, false
			}
			if el {
				return p, true, true
			}
			return p + "." + x.Sel.Name, false, true
		}
	case *ast.IndexExpr:
		p, el, ok := recvPath(info, x.X, recv)
		if ok && !el {
			// indexing a fixed-size array is a field-like step: there is no container to reset
			if t := info.TypeOf(x.X); t != nil {
				if _, isArr := deref(t).Underlying().(*types.Array); isArr {
					return p + "[" + exprString(x.Index) + "]", false, true
				}
			}
		}
		return p, true, ok
	case *ast.SliceExpr:
		p, _, ok := recvPath(info, x.X, recv)
		return p, true, ok
	case *ast.CallExpr:
		// conversions like []T(*v) or any(x)
		if len(x.Args) == 1 {
			if tv, ok := info.Types[x.Fun]; ok && tv.IsType() {
				return recvPath(info, x.Args[0], recv)
			}
		}
	case *ast.TypeAssertExpr:
		return recvPath(info, x.X, recv)
	}
	return "", false, false
}

type daState struct {
	must map[string]bool
	may  map[string]token.Pos
}

func (s daState) clone() daState {
	n := daState{map[string]bool{}, map[string]token.Pos{}}
	for k := range s.must {
		n.must[k] = true
	}
	for k, v := range s.may {
		n.may[k] = v
	}
	return n
}

func covered(must map[string]bool, p string) bool {
	for {
		if must[p] {
			return true
		}
		i := strings.LastIndex(p, ".")
		if i < 0 {
			return false
		}
		p = p[:i]
	}
}

var decoderNames = map[string]bool{"ReadFrom": true, "UnmarshalBinary": true, "UnmarshalJSON": true, "UnmarshalText": true, "Decode": true}

func scanDefAssign(c *core.Ctx) []ob {
	var out []ob
	n := 0
	for _, cf := range findCodecFns(c.Program) {
		if cf.kind != "ReadFrom" && cf.kind != "UnmarshalBinary" && cf.kind != "UnmarshalJSON" {
			continue
		}
		info := cf.pk.TypesInfo
		recv := recvObj(info, cf.fd)
		if recv == nil {
			continue
		}
		n++
		key := "DEFASSIGN:" + cf.key
		_, errRes := lastResultIsError(cf.sig)
		pm := parentMap(cf.fd)
		g := buildCFG(info, cf.fd.Body)
		type elemReq struct {
			path string
			pos  token.Pos
		}
		var record bool
		var elemViol []elemReq
		seenElem := map[string]bool{}
		assign := func(s *daState, e ast.Expr) {
			p, el, ok := recvPath(info, e, recv)
			if !ok {
				return
			}
			if el {
				if record && !covered(s.must, p) {
					k := fmt.Sprintf("%s|%d", p, e.Pos())
					if !seenElem[k] {
						seenElem[k] = true
						elemViol = append(elemViol, elemReq{p, e.Pos()})
					}
				}
				return
			}
			s.must[p] = true
			if _, ok := s.may[p]; !ok {
				s.may[p] = e.Pos()
			}
		}
		transfer := func(nd ast.Node, s daState) daState {
			s = s.clone()
			// calls first (RHS evaluated before assignment)
			for _, call := range callsIn(nd) {
				// nested decoder on a receiver-rooted target
				if sel, ok := unparen(call.Fun).(*ast.SelectorExpr); ok {
					if decoderNames[sel.Sel.Name] || strings.HasPrefix(sel.Sel.Name, "Set") {
						if decoderNames[sel.Sel.Name] {
							assign(&s, sel.X)
						}
					}
				}
				// out-parameters: &recv.path or receiver-rooted slices handed to a reader function
				f := calleeFunc(info, call)
				isReaderCall := false
				if f != nil {
					nm := f.Name()
					if strings.HasPrefix(nm, "Read") || nm == "Unmarshal" || nm == "Decode" || nm == "ReadFull" {
						isReaderCall = true
					}
				}
				if isReaderCall {
					for _, a := range call.Args {
						a = unparen(a)
						if u, ok := a.(*ast.UnaryExpr); ok && u.Op == token.AND {
							assign(&s, u.X)
							continue
						}
						if t := info.TypeOf(a); t != nil {
							switch t.Underlying().(type) {
							case *types.Slice:
								if p, _, ok := recvPath(info, a, recv); ok {
									// writes the elements of a receiver-rooted slice
									if record && !covered(s.must, p) {
										k := fmt.Sprintf("%s|%d", p, a.Pos())
										if !seenElem[k] {
											seenElem[k] = true
											elemViol = append(elemViol, elemReq{p, a.Pos()})
										}
									}
								}
							case *types.Pointer:
								if _, _, ok := recvPath(info, a, recv); ok {
									assign(&s, a)
								}
							}
						}
					}
				}
			}
			switch st := nd.(type) {
			case *ast.AssignStmt:
				for _, l := range st.Lhs {
					assign(&s, l)
				}
			case *ast.IncDecStmt:
				assign(&s, st.X)
			}
			return s
		}
		join := func(a, b daState) daState {
			r := daState{map[string]bool{}, map[string]token.Pos{}}
			for k := range a.must {
				if b.must[k] {
					r.must[k] = true
				}
			}
			for k, v := range a.may {
				r.may[k] = v
			}
			for k, v := range b.may {
				if _, ok := r.may[k]; !ok {
					r.may[k] = v
				}
			}
			return r
		}
		equal := func(a, b daState) bool {
			if len(a.must) != len(b.must) || len(a.may) != len(b.may) {
				return false
			}
			for k := range a.must {
				if !b.must[k] {
					return false
				}
			}
			for k := range a.may {
				if _, ok := b.may[k]; !ok {
					return false
				}
			}
			return true
		}
		in := forward(g, daState{map[string]bool{}, map[string]token.Pos{}}, nil, transfer, join, equal)
		record = true
		type pv struct {
			path string
			pos  token.Pos
			ret  token.Pos
		}
		var viols []pv
		seen := map[string]bool{}
		checkExit := func(s daState, at token.Pos) {
			for p, pos := range s.may {
				if !covered(s.must, p) && !seen[p] {
					seen[p] = true
					viols = append(viols, pv{p, pos, at})
				}
			}
		}
		for _, b := range g.Blocks {
			s, ok := in[b]
			if !ok {
				continue
			}
			isRet := false
			for _, nd := range b.Nodes {
				s = transfer(nd, s)
				if r, ok := nd.(*ast.ReturnStmt); ok {
					isRet = true
					if !returnIsFailing(info, pm, r, errRes) {
						// a return that delegates entirely (return x.ReadFrom(...)) carries the callee's verdict
						checkExit(s, r.Pos())
					}
				}
			}
			if len(b.Succs) == 0 && b.Live && !isRet && !endsInPanic(info, b) {
				checkExit(s, cf.fd.Body.Rbrace)
			}
		}
		if len(viols) == 0 && len(elemViol) == 0 {
			out = append(out, okOb("DEFASSIGN", key, c.Rel(cf.fd.Pos()), "every piece of receiver state the decoder can set is set on every success path", true))
			continue
		}
		sortPV := func(i, j int) bool { return viols[i].path < viols[j].path }
		_ = sortPV
		for _, v := range viols {
			k := key + "#" + v.path
			o := violOb("DEFASSIGN", k, c.Rel(v.pos), fmt.Sprintf("%s: receiver state %s is assigned on some success paths (e.g. %s) but not on the path to the success return at %s: a reused receiver keeps the value of the object it held before", cf.key, v.path, c.Rel(v.pos), c.Rel(v.ret)))
			o.Path = []string{"assigned at " + c.Rel(v.pos), "not assigned on path to " + c.Rel(v.ret)}
			out = append(out, o)
		}
		seenP := map[string]bool{}
		for _, v := range elemViol {
			if seenP[v.path] {
				continue
			}
			seenP[v.path] = true
			k := key + "#elems(" + v.path + ")"
			out = append(out, violOb("DEFASSIGN", k, c.Rel(v.pos), fmt.Sprintf("%s: elements are decoded into the container %s at %s although the container itself is not (re)assigned on every path reaching that point: entries of the previous value survive", cf.key, v.path, c.Rel(v.pos))))
		}
	}
	c.Stats["decoders"] = n
	return out
}

// ---------------------------------------------------------------- RECVPTR

func scanRecvPtr(c *core.Ctx) []ob {
	var out []ob
	n := 0
	for _, cf := range findCodecFns(c.Program) {
		if cf.kind != "ReadFrom" && cf.kind != "UnmarshalBinary" && cf.kind != "UnmarshalJSON" {
			continue
		}
		n++
		key := "RECVPTR:" + cf.key
		rt := cf.sig.Recv().Type()
		if _, ok := rt.(*types.Pointer); ok {
			out = append(out, okOb("RECVPTR", key, c.Rel(cf.fd.Pos()), "pointer receiver", true))
			continue
		}
		switch rt.Underlying().(type) {
		case *types.Map, *types.Chan, *types.Pointer:
			out = append(out, okOb("RECVPTR", key, c.Rel(cf.fd.Pos()), "reference-typed value receiver", true))
			continue
		}
		out = append(out, violOb("RECVPTR", key, c.Rel(cf.fd.Pos()), fmt.Sprintf("%s decodes into a value receiver (%s): the caller's object is never updated and the call reports success", cf.key, types.TypeString(rt, nil))))
	}
	c.Stats["recvptr_decoders"] = n
	return out
}

// ---------------------------------------------------------------- SHORTREAD

func scanShortRead(c *core.Ctx) []ob {
	var out []ob
	n := 0
	c.FuncDecls(func(pk *packages.Package, file *ast.File, fd *ast.FuncDecl) {
		if fileIsTestSupport(c.Program, fd.Pos()) || inExamples(pk) {
			return
		}
		info := pk.TypesInfo
		pm := parentMap(fd)
		ast.Inspect(fd.Body, func(nd ast.Node) bool {
			call, ok := nd.(*ast.CallExpr)
			if !ok {
				return true
			}
			sel, ok := unparen(call.Fun).(*ast.SelectorExpr)
			if !ok || sel.Sel.Name != "Read" || len(call.Args) != 1 {
				return true
			}
			t := info.TypeOf(sel.X)
			if t == nil || !isReaderType(t) {
				return true
			}
			n++
			// accepted: inside a for loop (re-read until full)
			for p := pm[call]; p != nil; p = pm[p] {
				if _, ok := p.(*ast.ForStmt); ok {
					out = append(out, okOb("SHORTREAD", fmt.Sprintf("SHORTREAD:%s#Read(%s)", core.FuncKey(pk, fd), exprString(call.Args[0])), c.Rel(call.Pos()), "raw Read inside a retry loop", true))
					return true
				}
			}
			out = append(out, violOb("SHORTREAD", fmt.Sprintf("SHORTREAD:%s#Read(%s)", core.FuncKey(pk, fd), exprString(call.Args[0])), c.Rel(call.Pos()),
				fmt.Sprintf("%s calls %s.Read once and trusts the slice to be full: io.Reader may return fewer bytes without error (fragmented transport), so the object is silently decoded from a partly-filled buffer or a spurious error is raised; use io.ReadFull", core.FuncKey(pk, fd), exprString(sel.X))))
			return true
		})
	})
	c.Stats["raw_reader_reads"] = n
	return out
}

// ---------------------------------------------------------------- OKFLAG

func isBigSetString(info *types.Info, call *ast.CallExpr) bool {
	f := calleeFunc(info, call)
	if f == nil || f.Pkg() == nil || f.Pkg().Path() != "math/big" {
		return false
	}
	return f.Name() == "SetString" || f.Name() == "ParseFloat" || f.Name() == "Parse"
}

func scanOkFlag(c *core.Ctx) []ob {
	var out []ob
	// scope: decoders and the module functions they call directly
	type fn struct {
		pk *packages.Package
		fd *ast.FuncDecl
	}
	declOf := map[*types.Func]fn{}
	c.FuncDecls(func(pk *packages.Package, file *ast.File, fd *ast.FuncDecl) {
		if o, ok := pk.TypesInfo.Defs[fd.Name].(*types.Func); ok {
			declOf[o] = fn{pk, fd}
		}
	})
	scope := map[*ast.FuncDecl]fn{}
	for _, cf := range findCodecFns(c.Program) {
		if cf.kind == "ReadFrom" || cf.kind == "UnmarshalBinary" || cf.kind == "UnmarshalJSON" {
			scope[cf.fd] = fn{cf.pk, cf.fd}
			ast.Inspect(cf.fd.Body, func(nd ast.Node) bool {
				if call, ok := nd.(*ast.CallExpr); ok {
					if f := funcOrigin(calleeFunc(cf.pk.TypesInfo, call)); f != nil {
						if d, ok := declOf[f]; ok && !decoderNames[f.Name()] {
							scope[d.fd] = d
						}
					}
				}
				return true
			})
		}
	}
	n := 0
	for _, f := range scope {
		info := f.pk.TypesInfo
		pm := parentMap(f.fd)
		ast.Inspect(f.fd.Body, func(nd ast.Node) bool {
			call, ok := nd.(*ast.CallExpr)
			if !ok || !isBigSetString(info, call) {
				return true
			}
			n++
			key := fmt.Sprintf("OKFLAG:%s#%s", core.FuncKey(f.pk, f.fd), exprString(call))
			pos := c.Rel(call.Pos())
			as, ok := pm[call].(*ast.AssignStmt)
			if !ok || len(as.Lhs) != 2 || len(as.Rhs) != 1 {
				out = append(out, violOb("OKFLAG", key, pos, fmt.Sprintf("%s: the success flag of %s is dropped: on malformed input the big number is left undefined (and the returned pointer is nil) yet decoding continues", core.FuncKey(f.pk, f.fd), exprString(call))))
				return true
			}
			okId, _ := unparen(as.Lhs[1]).(*ast.Ident)
			if okId == nil || okId.Name == "_" {
				out = append(out, violOb("OKFLAG", key, pos, fmt.Sprintf("%s: the success flag of %s is discarded", core.FuncKey(f.pk, f.fd), exprString(call))))
				return true
			}
			okObj := identObj(info, okId)
			ptrObj := identObj(info, as.Lhs[0])
			// the pointer result must not be used before a condition mentions the ok flag
			g := buildCFG(info, f.fd.Body)
			type st struct{ pending bool }
			var bad token.Pos
			var record bool
			transfer := func(x ast.Node, s bool) bool {
				if x == ast.Node(as) {
					return true
				}
				if !s {
					return s
				}
				rd := readsIn(info, x)
				if _, isExpr := x.(ast.Expr); isExpr && rd[okObj] {
					return false // a condition tests the flag
				}
				if rd[okObj] {
					if _, isIf := x.(*ast.IfStmt); isIf {
						return false
					}
				}
				if ptrObj != nil && rd[ptrObj] {
					if record && bad == token.NoPos {
						bad = x.Pos()
					}
				}
				return s
			}
			in := forward(g, false, nil, transfer, func(a, b bool) bool { return a || b }, func(a, b bool) bool { return a == b })
			record = true
			for _, b := range g.Blocks {
				s, ok := in[b]
				if !ok {
					continue
				}
				for _, x := range b.Nodes {
					s = transfer(x, s)
				}
			}
			if bad != token.NoPos {
				out = append(out, violOb("OKFLAG", key, pos, fmt.Sprintf("%s: the result of %s is used at %s before its success flag %q has been tested: on malformed input the pointer is nil and the use panics", core.FuncKey(f.pk, f.fd), exprString(call), c.Rel(bad), okId.Name)))
			} else {
				out = append(out, okOb("OKFLAG", key, pos, "success flag tested before the result is used", true))
			}
			return true
		})
	}
	c.Stats["setstring_sites_in_decoders"] = n
	return out
}

func withControl(rule string, scan func(*core.Ctx) []ob, floorStat string, floorWhat string, floor int, wanted ...string) func(*core.Ctx) []ob {
	return func(c *core.Ctx) []ob {
		out := scan(c)
		if floor > 0 {
			out = append(out, core.Floor(rule, nil, floorWhat, c.Stats[floorStat], floor)...)
		}
		out = append(out, control(c, rule, scan, wanted...)...)
		return out
	}
}

func init() {
	core.Register(&core.Rule{Name: "FLUSH", Props: []string{"C08"}, Run: withControl("FLUSH", scanFlush, "flush_writers", "buffered writers", 12, "FLUSH:"),
		Doc: "in every WriteTo that wraps its io.Writer in a bufio.Writer, every success path ends with Flush or with a nested WriteTo whose own paths all end flushed (forward dataflow over go/cfg, summaries for nested static callees)"})
	core.Register(&core.Rule{Name: "ERRPROP", Props: []string{"C08"}, Run: withControl("ERRPROP", scanErrProp, "errprop_methods", "codec methods", 100, "ERRPROP:"),
		Doc: "inside every codec method, an error value produced by a call is tested or returned before it is overwritten or the method returns (pending-value dataflow over go/cfg)"})
	core.Register(&core.Rule{Name: "NCOUNT", Props: []string{"C08"}, Run: withControl("NCOUNT", scanNCount, "ncount_methods", "stream codec methods", 40, "NCOUNT:"),
		Doc: "inside every WriteTo/ReadFrom, the byte count returned by each call on the stream is accumulated or returned before it is overwritten or a success return is reached"})
	core.Register(&core.Rule{Name: "DEFASSIGN", Props: []string{"C08"}, Run: withControl("DEFASSIGN", scanDefAssign, "decoders", "decoders", 60, "#recv.B", "#recv.Flag", "#elems(recv.M)"),
		Doc: "in every decoder (ReadFrom/UnmarshalBinary/UnmarshalJSON) the set of receiver access paths assigned on some success path equals the set assigned on every success path; element decodes require the container to be reassigned on all paths first (must/may dataflow over go/cfg)"})
	core.Register(&core.Rule{Name: "RECVPTR", Props: []string{"C08"}, Run: withControl("RECVPTR", scanRecvPtr, "recvptr_decoders", "decoders", 60, "RECVPTR:"),
		Doc: "every decoder has a pointer (or reference-typed) receiver"})
	core.Register(&core.Rule{Name: "SHORTREAD", Props: []string{"C08"}, Run: withControl("SHORTREAD", scanShortRead, "", "", 0, "SHORTREAD:"),
		Doc: "no single Read call on an io.Reader/buffer.Reader outside a retry loop (io.ReadFull or Peek/Discard must be used)"})
	core.Register(&core.Rule{Name: "OKFLAG", Props: []string{"C08"}, Run: withControl("OKFLAG", scanOkFlag, "", "", 0, "OKFLAG:"),
		Doc: "in decoders and their direct helpers, the success flag of big.{Int,Float,Rat}.SetString is captured and tested before the result is used"})
}

// ---------------------------------------------------------------- TAINTALLOC

// scanTaintAlloc reports allocations whose size comes straight from the stream without an upper-bound test.
func scanTaintAlloc(c *core.Ctx) []ob {
	var out []ob
	n := 0
	for _, cf := range findCodecFns(c.Program) {
		if cf.kind != "ReadFrom" {
			continue
		}
		info := cf.pk.TypesInfo
		// stream-derived locals: &X handed to a Read* function
		tainted := map[types.Object]token.Pos{}
		ast.Inspect(cf.fd.Body, func(nd ast.Node) bool {
			call, ok := nd.(*ast.CallExpr)
			if !ok {
				return true
			}
			f := calleeFunc(info, call)
			if f == nil || !strings.HasPrefix(f.Name(), "Read") {
				return true
			}
			for _, a := range call.Args {
				if u, ok := unparen(a).(*ast.UnaryExpr); ok && u.Op == token.AND {
					if o := identObj(info, u.X); o != nil {
						if _, isVar := o.(*types.Var); isVar && o.Parent() != nil && o.Parent() != cf.pk.Types.Scope() {
							tainted[o] = call.Pos()
						}
					}
				}
			}
			return true
		})
		if len(tainted) == 0 {
			continue
		}
		// guards: if statements comparing a tainted var relationally and leaving the function
		guarded := map[types.Object][]token.Pos{}
		ast.Inspect(cf.fd.Body, func(nd ast.Node) bool {
			is, ok := nd.(*ast.IfStmt)
			if !ok {
				return true
			}
			leaves := false
			for _, st := range is.Body.List {
				if _, ok := st.(*ast.ReturnStmt); ok {
					leaves = true
				}
			}
			if !leaves {
				return true
			}
			ast.Inspect(is.Cond, func(x ast.Node) bool {
				be, ok := x.(*ast.BinaryExpr)
				if !ok {
					return true
				}
				switch be.Op {
				case token.GTR, token.GEQ, token.LSS, token.LEQ:
					for o := range tainted {
						if mentionsVar(info, be, map[types.Object]bool{o: true}) {
							guarded[o] = append(guarded[o], is.End())
						}
					}
				}
				return true
			})
			return true
		})
		ast.Inspect(cf.fd.Body, func(nd ast.Node) bool {
			call, ok := nd.(*ast.CallExpr)
			if !ok || !isBuiltinCall(info, call, "make") || len(call.Args) < 2 {
				return true
			}
			for o := range tainted {
				if !mentionsVar(info, call.Args[1], map[types.Object]bool{o: true}) {
					continue
				}
				n++
				key := fmt.Sprintf("TAINTALLOC:%s#make(%s,%s)", cf.key, exprString(call.Args[0]), exprString(call.Args[1]))
				ok := false
				for _, g := range guarded[o] {
					if g <= call.Pos() {
						ok = true
					}
				}
				if ok {
					out = append(out, okOb("TAINTALLOC", key, c.Rel(call.Pos()), "allocation size read from the stream is bounded by a preceding test", true))
				} else {
					out = append(out, violOb("TAINTALLOC", key, c.Rel(call.Pos()), fmt.Sprintf("%s allocates %s elements where %s was read from the stream and is never compared with a bound: a corrupted length field triggers an unbounded allocation or a makeslice panic instead of an error", cf.key, exprString(call.Args[1]), o.Name())))
				}
			}
			return true
		})
	}
	c.Stats["stream_sized_allocations"] = n
	return out
}

func init() {
	core.Register(&core.Rule{Name: "TAINTALLOC", Props: []string{"C08"}, Run: withControl("TAINTALLOC", scanTaintAlloc, "", "", 0, "TAINTALLOC:"),
		Doc: "in every ReadFrom, a make() whose length mentions a variable filled by a Read* call must be preceded by a relational test of that variable that leaves the function"})
}
