package rules

import (
	"fmt"
	"go/ast"
	"go/constant"
	"go/token"
	"go/types"
	"os"
	"regexp"
	"sort"
	"strings"

	"golang.org/x/tools/go/cfg"
	"golang.org/x/tools/go/packages"

	"lvcheck/internal/core"
)

// Interprocedural write-effect summaries and the BUFSTATE typestate rule built on them.
//
// Every evaluator-like object of the library owns scratch polynomials (BuffQP, BuffCt, BuffDecompQP, BuffInvNTT,
// buffQ, ...). Methods use them freely, and callers sometimes park a value in one of them across calls — the hoisted
// RNS decomposition of a ciphertext in BuffDecompQP is the prime example: it is computed once and then consumed by
// many hoisted automorphisms. That is only sound if nothing called in between uses the same buffer as scratch.
//
// Summaries (fixpoint over the whole module, static callees; interface methods are resolved by name to every module
// method of that name):
//
//	wParams(f)  parameter positions through which f (transitively) writes polynomial/slice storage
//	wBufs(f)    paths of receiver-owned scratch buffers f (transitively) writes without being handed them,
//	            e.g. "BuffDecompQP[0].Q", "BuffQP[2]"
//	retBuf(f)   for getters: the receiver buffer the method returns
//
// BUFSTATE then runs, per function, a may-analysis over go/cfg with three states per receiver buffer B that the
// function passes around explicitly:
//
//	unknown  --explicit write of B (B passed at a written parameter, or stored to directly)-->  owned
//	owned    --hidden write: a call on the receiver whose wBufs overlap B, B not among its arguments-->  clobbered
//	clobbered --B passed as an input (a parameter the callee does not write)-->  VIOLATION
//
// i.e. the function established the content of B itself, something it called then scribbled over B behind its back,
// and B's content is consumed again. A re-initialisation of B located inside the same loop before the use is trusted
// even when it is conditional (the condition is not interpreted).

var bufNameRe = regexp.MustCompile(`(?i)^(buf|pool)`)

type fnSummary struct {
	wParams   map[int]bool
	wParamWit map[int]string
	// uParams: parameters handed (directly or through module callees) to a function value the analysis cannot resolve;
	// they may be written there. Only rules that ask "is it ever written" use it (OUTPARAMW), never those that accuse.
	uParams map[int]bool
	wBufs     map[string]string // path -> witness
	retBuf    string
}

type effects struct {
	site   map[token.Pos][]*types.Func // thorough tier: call site ('(' position) -> callees according to VTA
	prog   *core.Program
	sums   map[*types.Func]*fnSummary
	decls  map[*types.Func]*effDecl
	byName map[string][]*types.Func
}

type effDecl struct {
	pk   *packages.Package
	fd   *ast.FuncDecl
	fn   *types.Func
	recv types.Object
	pidx map[types.Object]int
	defs map[types.Object][]ast.Expr
}

type origin struct {
	recv  bool
	param int
	path  string
}

var effCache = map[*core.Program]*effects{}
var effCacheDeep = map[*core.Program]*effects{}

// effectsDeep is switched on by the rules when they run in the thorough tier: calls through function values
// (`evaluate(a, b, out)` with evaluate a parameter, method values stored in fields) are then resolved with the VTA
// call graph built over go/ssa, so that their write effects enter the summaries as well.
var effectsDeep bool

func effectsOf(p *core.Program) *effects {
	cache := effCache
	if effectsDeep && !p.IsFixture {
		cache = effCacheDeep
	}
	if e, ok := cache[p]; ok {
		return e
	}
	e := &effects{prog: p, sums: map[*types.Func]*fnSummary{}, decls: map[*types.Func]*effDecl{}, byName: map[string][]*types.Func{}}
	if effectsDeep && !p.IsFixture {
		e.site = map[token.Pos][]*types.Func{}
		cg := p.CallGraph()
		for _, nd := range cg.Nodes {
			for _, ed := range nd.Out {
				if ed.Site == nil || ed.Callee == nil || ed.Callee.Func == nil {
					continue
				}
				fn := ed.Callee.Func
				if o := fn.Origin(); o != nil {
					fn = o
				}
				obj, ok := fn.Object().(*types.Func)
				if !ok || obj == nil {
					continue
				}
				pos := ed.Site.Pos()
				dup := false
				for _, x := range e.site[pos] {
					if x == funcOrigin(obj) {
						dup = true
					}
				}
				if !dup {
					e.site[pos] = append(e.site[pos], funcOrigin(obj))
				}
			}
		}
		p.Stats["vta_call_sites"] = len(e.site)
	}
	p.FuncDecls(func(pk *packages.Package, file *ast.File, fd *ast.FuncDecl) {
		if fd.Body == nil || fileIsTestSupport(p, fd.Pos()) || inExamples(pk) {
			return
		}
		fn, _ := pk.TypesInfo.Defs[fd.Name].(*types.Func)
		if fn == nil {
			return
		}
		d := &effDecl{pk: pk, fd: fd, fn: fn, recv: recvObj(pk.TypesInfo, fd), pidx: map[types.Object]int{}, defs: map[types.Object][]ast.Expr{}}
		sig := fn.Type().(*types.Signature)
		for i := 0; i < sig.Params().Len(); i++ {
			d.pidx[sig.Params().At(i)] = i
		}
		info := pk.TypesInfo
		ast.Inspect(fd.Body, func(x ast.Node) bool {
			switch as := x.(type) {
			case *ast.AssignStmt:
				for i, l := range as.Lhs {
					id, ok := unparen(l).(*ast.Ident)
					if !ok {
						continue
					}
					o := info.Defs[id]
					if o == nil {
						o = info.Uses[id]
					}
					if o == nil {
						continue
					}
					if len(as.Lhs) == len(as.Rhs) {
						d.defs[o] = append(d.defs[o], as.Rhs[i])
					}
				}
			case *ast.RangeStmt:
				if id, ok := as.Value.(*ast.Ident); ok && as.Tok == token.DEFINE {
					if o := info.Defs[id]; o != nil {
						d.defs[o] = append(d.defs[o], &ast.IndexExpr{X: as.X, Index: ast.NewIdent("_")})
					}
				}
			}
			return true
		})
		e.decls[fn] = d
		e.sums[fn] = &fnSummary{wParams: map[int]bool{}, wParamWit: map[int]string{}, wBufs: map[string]string{}, uParams: map[int]bool{}}
		if fd.Recv != nil {
			e.byName[fn.Name()] = append(e.byName[fn.Name()], fn)
		}
		// getter: a single `return recv.<...buf...>`
		if fd.Recv != nil && len(fd.Body.List) == 1 {
			if rs, ok := fd.Body.List[0].(*ast.ReturnStmt); ok && len(rs.Results) == 1 {
				for _, o := range e.origins(d, rs.Results[0], 0) {
					if o.recv {
						if bp := bufPath(o.path); bp != "" {
							e.sums[fn].retBuf = bp
						}
					}
				}
			}
		}
	})
	e.solve()
	if sub := os.Getenv("LV_EFFDUMP"); sub != "" {
		for fn, sm := range e.sums {
			if strings.Contains(fn.FullName(), sub) {
				fmt.Fprintf(os.Stderr, "EFF %s wParams=%v wBufs=%v\n", fn.FullName(), sm.wParams, sm.wBufs)
			}
		}
	}
	cache[p] = e
	return e
}

// bufPath cuts a receiver-rooted path at the first component that names a scratch buffer; "" if there is none.
func bufPath(path string) string {
	comps := splitPath(path)
	for i, c := range comps {
		if c[0] == '.' && bufNameRe.MatchString(c[1:]) {
			return strings.TrimPrefix(strings.Join(comps[i:], ""), ".")
		}
	}
	return ""
}

func splitPath(p string) []string {
	var out []string
	cur := ""
	for _, r := range p {
		if r == '.' || r == '[' {
			if cur != "" {
				out = append(out, cur)
			}
			cur = ""
		}
		cur += string(r)
	}
	if cur != "" {
		out = append(out, cur)
	}
	return out
}

// overlap: one path is a prefix of the other, component-wise, with [*] matching any index.
func pathsOverlap(a, b string) bool {
	ca, cb := splitPath("."+a), splitPath("."+b)
	n := len(ca)
	if len(cb) < n {
		n = len(cb)
	}
	for i := 0; i < n; i++ {
		if ca[i] == cb[i] {
			continue
		}
		if ca[i][0] == '[' && cb[i][0] == '[' && (ca[i] == "[*]" || cb[i] == "[*]") {
			continue
		}
		return false
	}
	return true
}

func (e *effects) callees(info *types.Info, call *ast.CallExpr) []*types.Func {
	f := calleeFunc(info, call)
	if f == nil {
		// a call through a function value: resolved only in the thorough tier
		if e.site != nil {
			var res []*types.Func
			for _, g := range e.site[call.Lparen] {
				if _, ok := e.sums[g]; ok {
					res = append(res, g)
				}
			}
			return res
		}
		return nil
	}
	f = funcOrigin(f)
	if _, ok := e.sums[f]; ok {
		return []*types.Func{f}
	}
	// interface method of the module: every module method of that name
	if sig, ok := f.Type().(*types.Signature); ok && sig.Recv() != nil {
		if _, isIface := sig.Recv().Type().Underlying().(*types.Interface); isIface {
			return e.byName[f.Name()]
		}
	}
	return nil
}

// calleesOrSelf: the summarised callees of a call, or the statically resolved function itself when it has no summary.
func (e *effects) calleesOrSelf(info *types.Info, call *ast.CallExpr, f *types.Func) []*types.Func {
	if cs := e.callees(info, call); len(cs) > 0 {
		return cs
	}
	if f != nil {
		return []*types.Func{funcOrigin(f)}
	}
	return nil
}

// origins resolves an expression to the receiver paths / parameters whose storage it views.
func (e *effects) origins(d *effDecl, x ast.Expr, depth int) []origin {
	if depth > 8 || x == nil {
		return nil
	}
	info := d.pk.TypesInfo
	switch y := unparen(x).(type) {
	case *ast.Ident:
		o := info.Uses[y]
		if o == nil {
			o = info.Defs[y]
		}
		if o == nil {
			return nil
		}
		if o == d.recv {
			return []origin{{recv: true}}
		}
		pi, isParam := d.pidx[o]
		// flow-sensitive: only the definitions that reach this use
		if rhs, initial, ok := reachingDefs(info, d.fd).defsAt(y, o); ok {
			var res []origin
			if isParam && initial {
				res = append(res, origin{param: pi})
			}
			for _, df := range rhs {
				if df != nil {
					res = append(res, e.origins(d, df, depth+1)...)
				}
			}
			return res
		}
		if isParam {
			// a parameter that the function rebinds (op1 = new(big.Int).Set(op1)) is treated as the local it becomes
			if len(d.defs[o]) > 0 {
				var res []origin
				for _, df := range d.defs[o] {
					res = append(res, e.origins(d, df, depth+1)...)
				}
				return res
			}
			return []origin{{param: pi}}
		}
		var res []origin
		for _, df := range d.defs[o] {
			res = append(res, e.origins(d, df, depth+1)...)
		}
		return res
	case *ast.SelectorExpr:
		if s := info.Selections[y]; s != nil && s.Kind() != types.FieldVal {
			return nil
		}
		rs := e.origins(d, y.X, depth+1)
		// field of a struct-literal local: only the matching key
		if id, ok := unparen(y.X).(*ast.Ident); ok {
			if defs := d.defs[info.Uses[id]]; len(defs) > 0 {
				var lit []origin
				all := true
				for _, df := range defs {
					df = unparen(df)
					if u, ok := df.(*ast.UnaryExpr); ok && u.Op == token.AND {
						df = unparen(u.X)
					}
					cl, ok := df.(*ast.CompositeLit)
					if !ok {
						all = false
						break
					}
					for _, el := range cl.Elts {
						if kv, ok := el.(*ast.KeyValueExpr); ok {
							if k, ok := kv.Key.(*ast.Ident); ok && k.Name == y.Sel.Name {
								lit = append(lit, e.origins(d, kv.Value, depth+1)...)
							}
						}
					}
				}
				if all {
					return lit
				}
			}
		}
		out := make([]origin, len(rs))
		for i, r := range rs {
			r.path += "." + y.Sel.Name
			out[i] = r
		}
		return out
	case *ast.IndexExpr:
		rs := e.origins(d, y.X, depth+1)
		idx := "[*]"
		if tv, ok := info.Types[y.Index]; ok && tv.Value != nil && tv.Value.Kind() == constant.Int {
			idx = "[" + tv.Value.ExactString() + "]"
		}
		out := make([]origin, len(rs))
		for i, r := range rs {
			r.path += idx
			out[i] = r
		}
		return out
	case *ast.SliceExpr:
		return e.origins(d, y.X, depth+1)
	case *ast.StarExpr:
		return e.origins(d, y.X, depth+1)
	case *ast.UnaryExpr:
		if y.Op == token.AND {
			return e.origins(d, y.X, depth+1)
		}
	case *ast.TypeAssertExpr:
		return e.origins(d, y.X, depth+1)
	case *ast.CompositeLit:
		var rs []origin
		for _, el := range y.Elts {
			if kv, ok := el.(*ast.KeyValueExpr); ok {
				rs = append(rs, e.origins(d, kv.Value, depth+1)...)
			} else {
				rs = append(rs, e.origins(d, el, depth+1)...)
			}
		}
		return rs
	case *ast.CallExpr:
		// a conversion views its operand, also through unsafe.Pointer: (*[8]uint64)(unsafe.Pointer(&p[j]))
		if tv, ok := info.Types[y.Fun]; ok && tv.IsType() && len(y.Args) == 1 {
			return e.origins(d, y.Args[0], depth+1)
		}
		sel, ok := unparen(y.Fun).(*ast.SelectorExpr)
		if !ok {
			return nil
		}
		if len(y.Args) == 0 && sel.Sel.Name == "El" {
			return e.origins(d, sel.X, depth+1)
		}
		// getter of a receiver buffer
		if len(y.Args) == 0 {
			ret := ""
			for _, f := range e.callees(info, y) {
				if s := e.sums[f]; s != nil && s.retBuf != "" {
					ret = s.retBuf
				}
			}
			if ret == "" && strings.HasPrefix(sel.Sel.Name, "GetBuff") {
				ret = strings.TrimPrefix(sel.Sel.Name, "Get")
			}
			if ret != "" {
				var out []origin
				for _, r := range e.origins(d, sel.X, depth+1) {
					if r.recv {
						out = append(out, origin{recv: true, path: "." + ret})
					}
				}
				return out
			}
		}
	}
	return nil
}

func storageType(t types.Type) bool {
	if t == nil {
		return false
	}
	if polyish(t) || isScalarSlice(t) {
		return true
	}
	s := t.String()
	return strings.Contains(s, "ringqp.Poly") || strings.Contains(s, "ring.Poly") || strings.Contains(s, "rlwe.Element") || strings.Contains(s, "rlwe.Ciphertext") || strings.Contains(s, "rlwe.Plaintext") || strings.Contains(s, "GadgetCiphertext")
}

// recvRooted: the call is made on (a part of) the function's own receiver
func (e *effects) recvRooted(d *effDecl, call *ast.CallExpr) bool {
	sel, ok := unparen(call.Fun).(*ast.SelectorExpr)
	if !ok {
		return false
	}
	for _, o := range e.origins(d, sel.X, 0) {
		if o.recv {
			return true
		}
	}
	return false
}

func (e *effects) solve() {
	var order []*types.Func
	for f := range e.decls {
		order = append(order, f)
	}
	sort.Slice(order, func(i, j int) bool { return order[i].Pos() < order[j].Pos() })
	for iter := 0; iter < 40; iter++ {
		changed := false
		for _, f := range order {
			d := e.decls[f]
			s := e.sums[f]
			info := d.pk.TypesInfo
			sig := f.Type().(*types.Signature)
			outObjs := map[types.Object]bool{}
			for i := 0; i < sig.Params().Len(); i++ {
				if isOutParamName(sig.Params().At(i).Name()) {
					outObjs[sig.Params().At(i)] = true
				}
			}
			pm := parentMapCached(d.fd)
			aliases := localAliasesMode(info, d.fd, true)
			var curNode ast.Node
			addO := func(os []origin, wit string) {
				for _, o := range os {
					// a write that only happens when the caller passed the same object as input and output
					if !o.recv && curNode != nil && o.param < sig.Params().Len() && !outObjs[sig.Params().At(o.param)] &&
						identityGuarded(info, pm, curNode, sig.Params().At(o.param), outObjs, aliases) {
						continue
					}
					if o.recv {
						if bp := bufPath(o.path); bp != "" {
							if _, ok := s.wBufs[bp]; !ok {
								s.wBufs[bp] = wit
								changed = true
							}
						}
					} else if !s.wParams[o.param] {
						s.wParams[o.param] = true
						s.wParamWit[o.param] = wit
						changed = true
					}
				}
			}
			for _, w := range collectWrites(info, d.fd.Body) {
				// rebinding a header (x.f = y on a value) is not a store into shared storage; element/poly stores are
				if w.how == "assignment" {
					if _, isIdx := unparen(w.target).(*ast.IndexExpr); !isIdx {
						continue
					}
				}
				curNode = w.target
				addO(e.origins(d, w.target, 0), e.prog.Rel(w.pos))
			}
			ast.Inspect(d.fd.Body, func(x ast.Node) bool {
				call, ok := x.(*ast.CallExpr)
				if !ok {
					return true
				}
				cs := e.callees(info, call)
				addU := func(a ast.Expr) {
					for _, o := range e.origins(d, a, 0) {
						if !o.recv && !s.uParams[o.param] {
							s.uParams[o.param] = true
							changed = true
						}
					}
				}
				if len(cs) == 0 {
					// a call through a function value (a parameter, a closure kept in a local)
					if tv, ok := info.Types[call.Fun]; ok && !tv.IsType() && !tv.IsBuiltin() {
						if _, isSig := tv.Type.Underlying().(*types.Signature); isSig && calleeFunc(info, call) == nil {
							for _, a := range call.Args {
								addU(a)
							}
						}
					}
					return true
				}
				onRecv := e.recvRooted(d, call)
				for _, cf := range cs {
					cs := e.sums[cf]
					if cs == nil {
						continue
					}
					for j := range cs.uParams {
						if j < len(call.Args) {
							addU(call.Args[j])
						}
					}
					for j := range cs.wParams {
						if j < len(call.Args) {
							w := fmt.Sprintf("%s at %s", cf.Name(), e.prog.Rel(call.Pos()))
							if cw := cs.wParamWit[j]; cw != "" && len(cw) < 300 {
								w += " <- " + cw
							}
							curNode = call
							addO(e.origins(d, call.Args[j], 0), w)
						}
					}
					if onRecv {
						for bp, wit := range cs.wBufs {
							if _, ok := s.wBufs[bp]; !ok {
								s.wBufs[bp] = fmt.Sprintf("%s at %s <- %s", cf.Name(), e.prog.Rel(call.Pos()), wit)
								changed = true
							}
						}
					}
				}
				return true
			})
		}
		if !changed {
			break
		}
	}
}

// ---- BUFSTATE

const (
	bsUnknown = iota
	bsOwned
	bsClobbered
)

type bsState map[string]int
type bsWit map[string]string

func scanBufState(c *core.Ctx) []ob {
	var out []ob
	e := effFor(c)
	debug := os.Getenv("LV_DEBUG_BUFSTATE")
	nFuncs, nUses := 0, 0
	var fns []*types.Func
	for f := range e.decls {
		fns = append(fns, f)
	}
	sort.Slice(fns, func(i, j int) bool { return fns[i].Pos() < fns[j].Pos() })
	for _, f := range fns {
		d := e.decls[f]
		if d.recv == nil {
			continue
		}
		info := d.pk.TypesInfo
		fkey := core.FuncKey(d.pk, d.fd)
		type event struct {
			kind int // 0 init, 1 use, 2 clobber
			buf  string
			wit  string
			pos  token.Pos
		}
		eventsOf := func(nd ast.Node) []event {
			var evs []event
			// direct stores
			for _, w := range collectWrites(info, nd) {
				if w.how == "assignment" {
					if _, isIdx := unparen(w.target).(*ast.IndexExpr); !isIdx {
						continue
					}
				}
				for _, o := range e.origins(d, w.target, 0) {
					if o.recv {
						if bp := bufPath(o.path); bp != "" {
							evs = append(evs, event{0, bp, "", w.pos})
						}
					}
				}
			}
			for _, call := range callsIn(nd) {
				cs := e.callees(info, call)
				if len(cs) == 0 {
					continue
				}
				explicit := map[string]bool{}
				var uses, inits []event
				for j, a := range call.Args {
					if !storageType(info.TypeOf(a)) {
						continue
					}
					written := false
					for _, cf := range cs {
						if s := e.sums[cf]; s != nil && s.wParams[j] {
							written = true
						}
					}
					for _, o := range e.origins(d, a, 0) {
						if !o.recv {
							continue
						}
						bp := bufPath(o.path)
						if bp == "" {
							continue
						}
						explicit[bp] = true
						if written {
							inits = append(inits, event{0, bp, "", call.Pos()})
						} else {
							uses = append(uses, event{1, bp, cs[0].Name(), call.Pos()})
						}
					}
				}
				evs = append(evs, uses...)
				if e.recvRooted(d, call) {
					for _, cf := range cs {
						s := e.sums[cf]
						if s == nil {
							continue
						}
						for bp, wit := range s.wBufs {
							skip := false
							for ex := range explicit {
								if pathsOverlap(ex, bp) {
									skip = true
								}
							}
							if !skip {
								evs = append(evs, event{2, bp, fmt.Sprintf("%s (%s)", cf.Name(), wit), call.Pos()})
							}
						}
					}
				}
				evs = append(evs, inits...)
			}
			return evs
		}
		// does the function pass receiver buffers explicitly at all?
		interesting := false
		ast.Inspect(d.fd.Body, func(x ast.Node) bool {
			if call, ok := x.(*ast.CallExpr); ok && !interesting {
				for _, a := range call.Args {
					if storageType(info.TypeOf(a)) {
						for _, o := range e.origins(d, a, 0) {
							if o.recv && bufPath(o.path) != "" {
								interesting = true
							}
						}
					}
				}
			}
			return !interesting
		})
		if !interesting {
			continue
		}
		nFuncs++
		g := buildCFG(info, d.fd.Body)
		clone := func(s bsState) bsState {
			r := bsState{}
			for k, v := range s {
				r[k] = v
			}
			return r
		}
		wits := bsWit{}
		type viol struct {
			buf, by, clob string
			pos           token.Pos
		}
		var viols []viol
		step := func(nd ast.Node, s bsState, record bool) bsState {
			evs := eventsOf(nd)
			if len(evs) == 0 {
				return s
			}
			s = clone(s)
			for _, ev := range evs {
				switch ev.kind {
				case 0:
					for k := range s {
						if pathsOverlap(k, ev.buf) {
							s[k] = bsOwned
						}
					}
					s[ev.buf] = bsOwned
				case 2:
					for k, v := range s {
						if v == bsOwned && pathsOverlap(k, ev.buf) {
							s[k] = bsClobbered
							wits[k] = ev.wit
						}
					}
				case 1:
					if record {
						nUses++
					}
					for k, v := range s {
						if v == bsClobbered && pathsOverlap(k, ev.buf) && record {
							viols = append(viols, viol{k, ev.wit, wits[k], ev.pos})
						}
					}
				}
			}
			return s
		}
		in := forward(g, bsState{}, nil,
			func(nd ast.Node, s bsState) bsState { return step(nd, s, false) },
			func(a, b bsState) bsState {
				r := clone(a)
				for k, v := range b {
					if v > r[k] {
						r[k] = v
					}
				}
				return r
			},
			func(a, b bsState) bool {
				if len(a) != len(b) {
					return false
				}
				for k, v := range a {
					if b[k] != v {
						return false
					}
				}
				return true
			})
		var blocks []*cfg.Block
		blocks = append(blocks, g.Blocks...)
		for _, b := range blocks {
			s, ok := in[b]
			if !ok {
				continue
			}
			for _, nd := range b.Nodes {
				s = step(nd, s, true)
			}
		}
		if debug != "" && strings.Contains(fkey, debug) {
			fmt.Fprintf(os.Stderr, "BUFSTATE-DEBUG %s wBufs=%v wParams=%v viols=%d\n", fkey, e.sums[f].wBufs, e.sums[f].wParams, len(viols))
			for ff, dd := range e.decls {
				if strings.Contains(core.FuncKey(dd.pk, dd.fd), debug) {
					fmt.Fprintf(os.Stderr, "   sum %s wParams=%v\n", ff.Name(), e.sums[ff].wParams)
				}
			}
		}
		// trusted re-initialisation: an init of the buffer inside the innermost loop containing the use, before the use
		pm := parentMapCached(d.fd)
		trusted := func(v viol) bool {
			var useNode ast.Node
			ast.Inspect(d.fd.Body, func(x ast.Node) bool {
				if call, ok := x.(*ast.CallExpr); ok && call.Pos() == v.pos {
					useNode = call
				}
				return useNode == nil
			})
			if useNode == nil {
				return false
			}
			for p := pm[useNode]; p != nil; p = pm[p] {
				var body *ast.BlockStmt
				switch l := p.(type) {
				case *ast.ForStmt:
					body = l.Body
				case *ast.RangeStmt:
					body = l.Body
				}
				if body == nil {
					continue
				}
				found := false
				ast.Inspect(body, func(x ast.Node) bool {
					st, ok := x.(ast.Stmt)
					if !ok || st.Pos() >= v.pos {
						return true
					}
					if _, isBlock := st.(*ast.BlockStmt); isBlock {
						return true
					}
					switch st.(type) {
					case *ast.ExprStmt, *ast.AssignStmt:
						for _, ev := range eventsOf(st) {
							if ev.kind == 0 && pathsOverlap(ev.buf, v.buf) && reinitPrecedes(pm, st, useNode) {
								found = true
							}
						}
					}
					return true
				})
				if found {
					return true
				}
			}
			return false
		}
		key := "BUFSTATE:" + fkey
		props := bufProps(fkey)
		var real []viol
		nTrusted := 0
		seen := map[string]bool{}
		for _, v := range viols {
			k := fmt.Sprintf("%s@%d", v.buf, v.pos)
			if seen[k] {
				continue
			}
			seen[k] = true
			if trusted(v) {
				nTrusted++
				continue
			}
			real = append(real, v)
		}
		if len(real) == 0 {
			detail := "no receiver buffer is consumed after a callee wrote it behind the function's back"
			if nTrusted > 0 {
				detail += fmt.Sprintf(" (%d use(s) rely on a re-initialisation inside the loop, taken on trust)", nTrusted)
			}
			out = append(out, withProps(okOb("BUFSTATE", key, c.Rel(d.fd.Pos()), detail, true), props...))
			continue
		}
		sort.Slice(real, func(i, j int) bool { return real[i].pos < real[j].pos })
		v := real[0]
		out = append(out, withProps(violOb("BUFSTATE", key+"#"+v.buf, c.Rel(v.pos), fmt.Sprintf("%s fills %s itself and hands it to %s at %s as an input, but on a path to that call %s has used the same buffer as scratch in between: the content consumed is no longer the one the function computed", fkey, v.buf, v.by, c.Rel(v.pos), v.clob)), props...))
	}
	c.Stats["bufstate_funcs"] = nFuncs
	c.Stats["bufstate_uses"] = nUses
	return out
}

func bufProps(fkey string) []string {
	switch {
	case strings.Contains(fkey, "lintrans"):
		return []string{"C12"}
	case strings.Contains(fkey, "polynomial"):
		return []string{"C13"}
	case strings.Contains(fkey, "bootstrapping") || strings.Contains(fkey, "dft"):
		return []string{"C18"}
	case strings.HasPrefix(fkey, "schemes/bgv"):
		return []string{"C05"}
	case strings.HasPrefix(fkey, "schemes/ckks"):
		return []string{"C06"}
	case strings.HasPrefix(fkey, "core/rgsw"):
		return []string{"C20"}
	case strings.HasPrefix(fkey, "multiparty"):
		return []string{"C14", "C16"}
	case strings.Contains(fkey, "inner_sum") || strings.Contains(fkey, "Trace") || strings.Contains(fkey, "InnerSum") || strings.Contains(fkey, "Automorphism"):
		return []string{"C11", "C04"}
	}
	return []string{"C04"}
}

func init() {
	all := []string{"C04", "C05", "C06", "C11", "C12", "C13", "C14", "C16", "C18", "C20"}
	core.Register(&core.Rule{Name: "BUFSTATE", Props: all,
		Doc: "typestate over go/cfg with interprocedural write-effect summaries: a receiver-owned scratch buffer that a function fills explicitly is not consumed as an input after a callee on the same receiver has (transitively) used it as scratch, unless it is re-initialised in the same loop before the use",
		Run: func(c *core.Ctx) []ob {
			out := scanBufState(c)
			for _, o := range core.Floor("BUFSTATE", nil, "functions passing receiver buffers explicitly", c.Stats["bufstate_funcs"], 20) {
				out = append(out, withProps(o, all...))
			}
			for _, o := range control(c, "BUFSTATE", scanBufState, "(bufOwner).Twice") {
				out = append(out, withProps(o, all...))
			}
			return out
		}})
}

// ---- IMMUTX: the interprocedural cross-check of IMMUT

// IMMUT looks at the write sites of an operation and of the helpers it inherits operands to, with a name-based notion
// of which callee parameters are outputs. IMMUTX asks the same question of the write-effect summaries: an input operand
// of an exported operation must not be among the parameters the operation (transitively, through any static or
// by-name-resolved callee) writes through.
func scanImmutX(c *core.Ctx) []ob {
	var out []ob
	e := effFor(c)
	n := 0
	var fns []*types.Func
	for f := range e.decls {
		fns = append(fns, f)
	}
	sort.Slice(fns, func(i, j int) bool { return fns[i].Pos() < fns[j].Pos() })
	for _, f := range fns {
		d := e.decls[f]
		rel := core.ShortPkg(d.pk.PkgPath)
		inScope := c.IsFixture
		for _, s := range immutScope {
			if strings.HasPrefix(rel, s) {
				inScope = true
			}
		}
		fd := d.fd
		if !inScope || fd.Recv == nil || !fd.Name.IsExported() || !immutRecv.MatchString(core.RecvTypeName(fd)) {
			continue
		}
		if isCtorName(fd.Name.Name) && !copyCtorNames[fd.Name.Name] {
			continue
		}
		sig := f.Type().(*types.Signature)
		outs := outputParams(sig)
		fkey := core.FuncKey(d.pk, fd)
		sum := e.sums[f]
		for i := 0; i < sig.Params().Len(); i++ {
			p := sig.Params().At(i)
			if outs[i] || !pointerLike(p.Type()) || p.Name() == "" || p.Name() == "_" {
				continue
			}
			if _, isFunc := p.Type().Underlying().(*types.Signature); isFunc {
				continue
			}
			if immutInPlaceOnly[fkey][p.Name()] != nil {
				continue // decided write site by write site in IMMUT
			}
			if ex := immutInPlace[fkey]; ex != nil && (ex[p.Name()] != "" || ex["*"] != "") {
				continue
			}
			if pn := namedOf(p.Type()); pn != nil {
				if !pn.Obj().Exported() || immutRecv.MatchString(pn.Obj().Name()) {
					continue
				}
			}
			if !storageType(p.Type()) && !isBigNumber(deref(p.Type())) {
				continue
			}
			n++
			key := fmt.Sprintf("IMMUTX:%s#%s", fkey, p.Name())
			if sum.wParams[i] {
				out = append(out, violOb("IMMUTX", key, c.Rel(fd.Pos()), fmt.Sprintf("%s writes through its input operand %s: %s", fkey, p.Name(), sum.wParamWit[i])))
			} else {
				out = append(out, okOb("IMMUTX", key, c.Rel(fd.Pos()), "not among the parameters the operation transitively writes through", true))
			}
		}
	}
	c.Stats["immutx_inputs"] = n
	return out
}

func init() {
	core.Register(&core.Rule{Name: "IMMUTX", Props: []string{"C09"},
		Doc: "interprocedural cross-check of IMMUT: no input operand of an exported evaluator/encoder/protocol method is among the parameters through which the method transitively writes (write-effect summaries over the whole module)",
		Run: func(c *core.Ctx) []ob {
			out := scanImmutX(c)
			out = append(out, core.Floor("IMMUTX", nil, "input operands", c.Stats["immutx_inputs"], 200)...)
			out = append(out, control(c, "IMMUTX", scanImmutX, "AddScaled#op0")...)
			return out
		}})
}

// ---- BUFALIAS: a receiver-owned scratch buffer never becomes a view of an operand

// `evkg.buff[0].Q = skIn.Value.Q` rebinds a scratch polynomial of the protocol/evaluator object to the storage of a
// caller's operand. Every later in-place operation on the buffer (in this call and in every following one, since the
// field outlives the call) then modifies the operand — the caller's secret key share, ciphertext or plaintext. Scratch
// fields are filled by copying (CopyLvl, ring operations with the buffer as destination), never by assignment from a
// parameter.
func scanBufAlias(c *core.Ctx) []ob {
	var out []ob
	e := effFor(c)
	n := 0
	var fns []*types.Func
	for f := range e.decls {
		fns = append(fns, f)
	}
	sort.Slice(fns, func(i, j int) bool { return fns[i].Pos() < fns[j].Pos() })
	for _, f := range fns {
		d := e.decls[f]
		if d.recv == nil || isCtorName(d.fd.Name.Name) {
			continue
		}
		info := d.pk.TypesInfo
		fkey := core.FuncKey(d.pk, d.fd)
		sig := f.Type().(*types.Signature)
		var bad []string
		var badPos token.Pos
		ast.Inspect(d.fd.Body, func(x ast.Node) bool {
			as, ok := x.(*ast.AssignStmt)
			if !ok || len(as.Lhs) != len(as.Rhs) || as.Tok != token.ASSIGN {
				return true
			}
			for i, l := range as.Lhs {
				if _, isIdent := unparen(l).(*ast.Ident); isIdent {
					continue
				}
				if !storageType(info.TypeOf(l)) {
					continue
				}
				// a field of a local struct *value* (`c0QP := eval.BuffQP[1]; c0QP.Q = opOut.Value[0]`): the assignment changes
				// the local copy of the header, the receiver's buffer keeps pointing where it did
				if localStructValueField(info, l) {
					continue
				}
				isBuf := false
				for _, o := range e.origins(d, l, 0) {
					if o.recv && bufPath(o.path) != "" {
						isBuf = true
					}
				}
				if !isBuf {
					continue
				}
				n++
				if !isViewExpr(as.Rhs[i]) {
					continue
				}
				for _, o := range e.origins(d, as.Rhs[i], 0) {
					if !o.recv && o.param < sig.Params().Len() {
						p := sig.Params().At(o.param)
						bad = append(bad, fmt.Sprintf("%s = %s (a view of parameter %s) at %s", exprString(l), exprString(as.Rhs[i]), p.Name(), c.Rel(as.Pos())))
						if badPos == token.NoPos {
							badPos = as.Pos()
						}
					}
				}
			}
			return true
		})
		if len(bad) > 0 {
			out = append(out, withProps(violOb("BUFALIAS", "BUFALIAS:"+fkey, c.Rel(badPos), fmt.Sprintf("%s rebinds a scratch buffer of its receiver to an operand's storage: %s — later in-place work on the buffer modifies the caller's object, in this call and in the following ones", fkey, strings.Join(bad, "; "))), append(bufProps(fkey), "C09")...))
		}
	}
	c.Stats["bufalias_stores"] = n
	if len(out) == 0 {
		out = append(out, okOb("BUFALIAS", "BUFALIAS:module", "", fmt.Sprintf("%d assignments to receiver scratch buffers, none from a view of a parameter", n), n > 0))
	}
	return out
}

func init() {
	all := []string{"C04", "C05", "C06", "C09", "C11", "C12", "C13", "C14", "C16", "C18", "C20"}
	core.Register(&core.Rule{Name: "BUFALIAS", Props: all,
		Doc: "no method assigns a view of one of its parameters to a scratch buffer field of its receiver (buffers are filled by copying): otherwise later in-place work on the buffer modifies the caller's operand",
		Run: func(c *core.Ctx) []ob {
			out := scanBufAlias(c)
			for i := range out {
				if len(out[i].Props) == 0 {
					out[i].Props = all
				}
			}
			for _, o := range control(c, "BUFALIAS", scanBufAlias, "(bufOwner).Park") {
				out = append(out, withProps(o, all...))
			}
			return out
		}})
}

// ---- OUTPARAMW: every parameter named as an output is written

// A polynomial / element parameter whose name says it is an output (polyOutQ, opOut, p2Out, ctOut, ...) has to be
// among the parameters the function writes through (directly or through a callee). A function that no longer does —
// because the copy into it was dropped, or a refactor routed the result elsewhere — leaves its caller with whatever
// the receiver held.
var outParamRe = regexp.MustCompile(`(^out$|Out$|Out[A-Z0-9]|^out[A-Z])`)

func scanOutParamW(c *core.Ctx) []ob {
	var out []ob
	e := effFor(c)
	n := 0
	var fns []*types.Func
	for f := range e.decls {
		fns = append(fns, f)
	}
	sort.Slice(fns, func(i, j int) bool { return fns[i].Pos() < fns[j].Pos() })
	for _, f := range fns {
		d := e.decls[f]
		sig := f.Type().(*types.Signature)
		fkey := core.FuncKey(d.pk, d.fd)
		for i := 0; i < sig.Params().Len(); i++ {
			p := sig.Params().At(i)
			if !outParamRe.MatchString(p.Name()) || p.Name() == "skOut" || p.Name() == "skOutput" {
				continue
			}
			if !(polyish(p.Type()) || isMetaCarrier(p.Type()) || strings.Contains(p.Type().String(), "ringqp.Poly") || strings.Contains(p.Type().String(), "ring.Poly")) {
				continue
			}
			// an unexported function that computes a value (a level, a size) from the operands, the receiver-to-be
			// among them, is a query, not an operation with an output
			if !d.fd.Name.IsExported() && sig.Results().Len() > 0 {
				if b, ok := sig.Results().At(0).Type().Underlying().(*types.Basic); ok && b.Info()&(types.IsNumeric|types.IsBoolean) != 0 {
					continue
				}
				// … or that returns views of it (`accumulators(distinct, opOut) (c0, c1 ringqp.Poly)`): a builder
				if t := sig.Results().At(0).Type(); !isErrorType(t) && (polyish(t) || strings.Contains(t.String(), "Poly")) {
					continue
				}
			}
			n++
			key := fmt.Sprintf("OUTPARAMW:%s#%s", fkey, p.Name())
			if e.sums[f].wParams[i] {
				out = append(out, okOb("OUTPARAMW", key, c.Rel(d.fd.Pos()), "written: "+e.sums[f].wParamWit[i], true))
				continue
			}
			if e.sums[f].uParams[i] {
				out = append(out, okOb("OUTPARAMW", key, c.Rel(d.fd.Pos()), "handed to a function value (through a helper of the module) that may write it", false))
				continue
			}
			// a metadata-only or header-only result (Resize, field stores) also counts as producing the output
			wrote := false
			ast.Inspect(d.fd.Body, func(x ast.Node) bool {
				switch v := x.(type) {
				case *ast.AssignStmt:
					for _, l := range v.Lhs {
						if id := rootIdent(l); id != nil && d.pk.TypesInfo.Uses[id] == types.Object(p) {
							if _, plain := unparen(l).(*ast.Ident); !plain {
								wrote = true
							}
						}
					}
					// components of the output filed in a literal (`ct.Value = []ring.Poly{out.Value[0], out.Value[1]}`):
					// the element built on them is what the callees write
					for _, r := range v.Rhs {
						ast.Inspect(r, func(y ast.Node) bool {
							cl, ok := y.(*ast.CompositeLit)
							if !ok {
								return true
							}
							for _, el := range cl.Elts {
								e := el
								if kv, ok := el.(*ast.KeyValueExpr); ok {
									e = kv.Value
								}
								if id := rootIdent(e); id != nil && d.pk.TypesInfo.Uses[id] == types.Object(p) {
									wrote = true
								}
							}
							return true
						})
					}
				case *ast.CallExpr:
					// handed to a callee outside the module's summaries (interface of another package, func value)
					for _, a := range v.Args {
						if id := rootIdent(a); id != nil && d.pk.TypesInfo.Uses[id] == types.Object(p) && len(e.callees(d.pk.TypesInfo, v)) == 0 {
							wrote = true
						}
					}
					if s, ok := unparen(v.Fun).(*ast.SelectorExpr); ok {
						if id := rootIdent(s.X); id != nil && d.pk.TypesInfo.Uses[id] == types.Object(p) && (inPlaceRecvMethods[s.Sel.Name] || s.Sel.Name == "Resize") {
							wrote = true
						}
					}
				}
				return !wrote
			})
			if wrote {
				out = append(out, okOb("OUTPARAMW", key, c.Rel(d.fd.Pos()), "written through a field store, an in-place method or a callee without summary", false))
			} else {
				out = append(out, withProps(violOb("OUTPARAMW", key, c.Rel(d.fd.Pos()), fmt.Sprintf("%s never writes through its output parameter %s (neither directly nor through any callee): the caller's receiver keeps whatever it held", fkey, p.Name())), outParamProps(fkey)...))
			}
		}
	}
	c.Stats["outparamw_params"] = n
	return out
}

func outParamProps(fkey string) []string {
	switch {
	case strings.HasPrefix(fkey, "ring/ringqp") || strings.HasPrefix(fkey, "ring."):
		return []string{"C01", "C02"}
	case strings.HasPrefix(fkey, "utils/"):
		return []string{"C08"}
	}
	return bufProps(fkey)
}

func init() {
	all := []string{"C01", "C02", "C04", "C05", "C06", "C07", "C11", "C12", "C13", "C14", "C16", "C18", "C20"}
	core.Register(&core.Rule{Name: "OUTPARAMW", Props: all,
		Doc: "every polynomial/element parameter whose name marks it as an output (…Out, out…) is among the parameters the function transitively writes through (write-effect summaries), or is written through a field store / in-place method",
		Run: func(c *core.Ctx) []ob {
			out := scanOutParamW(c)
			for i := range out {
				if len(out[i].Props) == 0 {
					out[i].Props = outParamProps(strings.TrimPrefix(out[i].Key, "OUTPARAMW:"))
				}
			}
			for _, o := range core.Floor("OUTPARAMW", nil, "output-named parameters", c.Stats["outparamw_params"], 100) {
				out = append(out, withProps(o, all...))
			}
			for _, o := range control(c, "OUTPARAMW", scanOutParamW, "halfDone#bOut") {
				out = append(out, withProps(o, all...))
			}
			return out
		}})
}

// effFor returns the summaries for the context's tier (thorough: with VTA-resolved function values).
func effFor(c *core.Ctx) *effects {
	effectsDeep = c.Tier == "thorough"
	return effectsOf(c.Program)
}

// reinitPrecedes reports whether the re-initialising statement r can stand for the use u: their nearest common ancestor
// is a statement list in which the statement holding r comes before the one holding u (`if cond { r }` followed by the
// branches that use the buffer). A re-initialisation in one arm of an if does not serve a use in the other arm.
func reinitPrecedes(pm map[ast.Node]ast.Node, r, u ast.Node) bool {
	anc := map[ast.Node]ast.Node{} // ancestor of r -> its child on the way to r
	var child ast.Node = r
	for p := pm[r]; p != nil; child, p = p, pm[p] {
		anc[p] = child
	}
	child = u
	for p := pm[u]; p != nil; child, p = p, pm[p] {
		rc, ok := anc[p]
		if !ok {
			continue
		}
		blk, isBlock := p.(*ast.BlockStmt)
		if !isBlock {
			// a case clause body is a statement list as well
			if cc, ok := p.(*ast.CaseClause); ok {
				ri, ui := -1, -1
				for i, st := range cc.Body {
					if ast.Node(st) == rc {
						ri = i
					}
					if ast.Node(st) == child {
						ui = i
					}
				}
				return ri >= 0 && ui >= 0 && ri < ui
			}
			return false
		}
		ri, ui := -1, -1
		for i, st := range blk.List {
			if ast.Node(st) == rc {
				ri = i
			}
			if ast.Node(st) == child {
				ui = i
			}
		}
		return ri >= 0 && ui >= 0 && ri < ui
	}
	return false
}

// localStructValueField: e is x.f1.f2… with x a local variable (not a parameter's pointee, not the receiver) of struct
// type, reached through value fields only (no pointer dereference, no index).
func localStructValueField(info *types.Info, e ast.Expr) bool {
	cur := unparen(e)
	for {
		se, ok := cur.(*ast.SelectorExpr)
		if !ok {
			break
		}
		if sel := info.Selections[se]; sel == nil || sel.Kind() != types.FieldVal || sel.Indirect() {
			return false
		}
		cur = unparen(se.X)
	}
	id, ok := cur.(*ast.Ident)
	if !ok || cur == unparen(e) {
		return false
	}
	v, ok := info.Uses[id].(*types.Var)
	if !ok || v.IsField() || v.Pkg() == nil || v.Parent() == v.Pkg().Scope() {
		return false
	}
	_, isStruct := v.Type().Underlying().(*types.Struct)
	return isStruct
}
