package rules

import (
	"go/ast"
	"go/token"
	"go/types"
	"strings"
)

// Syntactic write sites: the lvalues a function stores through, as far as the repository's idioms make them
// visible in the function's own body — assignment targets, the destination operand of ring operations, the
// receiver of in-place methods (Copy, Resize, big.Int arithmetic), the target of sampler reads and of copy().
// Shared by SHARED (C10) and IMMUT (C09).

type writeSite struct {
	target ast.Expr
	pos    token.Pos
	how    string
}

// destLastArg: methods whose last argument is the destination polynomial/scalar.
func isRingLikeRecv(t types.Type) bool {
	n := namedOf(t)
	if n == nil || n.Obj().Pkg() == nil {
		return false
	}
	p := n.Obj().Pkg().Path()
	if !(strings.HasSuffix(p, "/ring") || strings.HasSuffix(p, "/ring/ringqp")) {
		return false
	}
	switch n.Obj().Name() {
	case "Ring", "SubRing", "BasisExtender", "Decomposer":
		return true
	}
	return false
}

var inPlaceRecvMethods = map[string]bool{"Copy": true, "CopyLvl": true, "Resize": true, "Zero": true, "ReadFrom": true,
	"UnmarshalBinary": true, "UnmarshalJSON": true}

// methods of ring types that only read their arguments
var ringReadOnly = map[string]bool{"Equal": false, "Log2OfStandardDeviation": true, "PolyToBigint": true, "PolyToBigintCentered": true,
	"PolyToString": true, "N": true, "Level": true, "NewPoly": true, "AtLevel": true}

var bigRecvMutators = map[string]bool{"Add": true, "Sub": true, "Mul": true, "Mod": true, "Quo": true, "Rem": true, "Div": true, "Set": true,
	"SetInt64": true, "SetUint64": true, "SetString": true, "SetBit": true, "Lsh": true, "Rsh": true, "Neg": true, "Abs": true, "Exp": true,
	"ModInverse": true, "SetPrec": true, "SetInt": true, "SetFloat64": true, "Sqrt": true, "And": true, "Or": true, "Not": true, "DivMod": true, "QuoRem": true, "SetBytes": true, "SetMode": true}

func isBigNumber(t types.Type) bool {
	n := namedOf(t)
	if n == nil || n.Obj().Pkg() == nil {
		return false
	}
	if n.Obj().Pkg().Path() == "math/big" {
		return true
	}
	return strings.HasSuffix(n.Obj().Pkg().Path(), "utils/bignum") && n.Obj().Name() == "Complex"
}

func collectWrites(info *types.Info, body ast.Node) []writeSite {
	var out []writeSite
	add := func(e ast.Expr, pos token.Pos, how string) {
		if e != nil {
			out = append(out, writeSite{e, pos, how})
		}
	}
	ast.Inspect(body, func(n ast.Node) bool {
		switch x := n.(type) {
		case *ast.AssignStmt:
			for _, l := range x.Lhs {
				l = unparen(l)
				switch l.(type) {
				case *ast.IndexExpr, *ast.SelectorExpr, *ast.StarExpr:
					add(l, l.Pos(), "assignment")
				}
			}
		case *ast.IncDecStmt:
			switch unparen(x.X).(type) {
			case *ast.IndexExpr, *ast.SelectorExpr, *ast.StarExpr:
				add(x.X, x.Pos(), "assignment")
			}
		case *ast.CallExpr:
			if isBuiltinCall(info, x, "copy") && len(x.Args) == 2 {
				add(x.Args[0], x.Pos(), "copy() destination")
				return true
			}
			if isBuiltinCall(info, x, "delete") && len(x.Args) == 2 {
				add(x.Args[0], x.Pos(), "delete from map")
				return true
			}
			if isBuiltinCall(info, x, "clear") && len(x.Args) == 1 {
				add(x.Args[0], x.Pos(), "clear()")
				return true
			}
			sel, ok := unparen(x.Fun).(*ast.SelectorExpr)
			if !ok {
				return true
			}
			name := sel.Sel.Name
			rt := info.TypeOf(sel.X)
			if rt == nil {
				return true
			}
			switch {
			case isSamplerType(rt) && (name == "Read" || name == "ReadAndAdd") && len(x.Args) == 1:
				add(x.Args[0], x.Pos(), "sampler "+name+" target")
			case isRingLikeRecv(rt) && len(x.Args) >= 2 && !ringReadOnly[name]:
				last := x.Args[len(x.Args)-1]
				if lt := info.TypeOf(last); lt != nil && (polyish(lt) || isScalarSlice(lt)) {
					add(last, x.Pos(), "destination of "+name)
				}
				// ExtendBasisSmallNormAndCenter(in, levelP, outQ, outP): two destinations
				if name == "ExtendBasisSmallNormAndCenter" && len(x.Args) == 4 {
					add(x.Args[2], x.Pos(), "destination of "+name)
				}
			case inPlaceRecvMethods[name] && polyish(rt):
				add(sel.X, x.Pos(), "receiver of "+name)
			case isBigNumber(rt) && bigRecvMutators[name]:
				add(sel.X, x.Pos(), "receiver of big-number "+name)
			}
		}
		return true
	})
	return out
}

func isScalarSlice(t types.Type) bool {
	s, ok := t.Underlying().(*types.Slice)
	if !ok {
		return false
	}
	b, ok := s.Elem().Underlying().(*types.Basic)
	return ok && b.Info()&types.IsInteger != 0
}

// localAliases maps single-definition locals to their defining expression when that expression is a view
// (selector/index/slice/star/address chain, x.El(), type assertion) — not a call producing a fresh value.
func localAliases(info *types.Info, fd *ast.FuncDecl) map[types.Object][]ast.Expr {
	return localAliasesMode(info, fd, true)
}

// localAliasesMode: with multi=false only single-definition locals are followed (no may-alias union).
func localAliasesMode(info *types.Info, fd *ast.FuncDecl, multi bool) map[types.Object][]ast.Expr {
	defs := map[types.Object][]ast.Expr{}
	ast.Inspect(fd.Body, func(n ast.Node) bool {
		switch x := n.(type) {
		case *ast.AssignStmt:
			if len(x.Lhs) == len(x.Rhs) {
				for i, l := range x.Lhs {
					if id, ok := unparen(l).(*ast.Ident); ok {
						o := info.Defs[id]
						if o == nil {
							o = info.Uses[id]
						}
						if o != nil {
							defs[o] = append(defs[o], x.Rhs[i])
						}
					}
				}
			} else {
				for _, l := range x.Lhs {
					if id, ok := unparen(l).(*ast.Ident); ok {
						o := info.Defs[id]
						if o == nil {
							o = info.Uses[id]
						}
						if o != nil {
							defs[o] = append(defs[o], nil)
						}
					}
				}
			}
		case *ast.RangeStmt:
			// for _, v := range X : v views the elements of X when they are reference-like
			if id, ok := x.Value.(*ast.Ident); ok && x.Tok == token.DEFINE {
				if o := info.Defs[id]; o != nil {
					defs[o] = append(defs[o], &ast.IndexExpr{X: x.X, Index: ast.NewIdent("_")})
				}
			}
		}
		return true
	})
	out := map[types.Object][]ast.Expr{}
	for o, ds := range defs {
		if !multi && len(ds) != 1 {
			continue
		}
		for _, d := range ds {
			if d != nil && isViewExpr(d) {
				out[o] = append(out[o], d)
			}
		}
	}
	return out
}

func isViewExpr(e ast.Expr) bool {
	e = unparen(e)
	switch x := e.(type) {
	case *ast.Ident:
		return x.Name != "nil"
	case *ast.SelectorExpr:
		return isViewExpr(x.X)
	case *ast.IndexExpr:
		return isViewExpr(x.X)
	case *ast.SliceExpr:
		return isViewExpr(x.X)
	case *ast.StarExpr:
		return isViewExpr(x.X)
	case *ast.UnaryExpr:
		return x.Op == token.AND && isViewExpr(x.X)
	case *ast.TypeAssertExpr:
		return isViewExpr(x.X)
	case *ast.CallExpr:
		if sel, ok := unparen(x.Fun).(*ast.SelectorExpr); ok && len(x.Args) == 0 && (sel.Sel.Name == "El") {
			return isViewExpr(sel.X)
		}
		// conversions
		return false
	case *ast.CompositeLit:
		// a struct literal of views (ringqp.Poly{Q: a, P: b}) is a view of its parts: handled by rootsOf
		return true
	}
	return false
}

// rootStep describes what an expression is rooted at: the object and the first field selected on it.
type rootInfo struct {
	obj   types.Object
	field string // first field name selected on obj ("" if none)
	path  string
	// deref: beyond the first field, the expression goes through a pointer, slice or map (so that a store to it
	// lands in memory that a plain struct copy shares)
	deref bool
	// copied: the expression went through a local variable holding a struct *value* copied out of the root;
	// deref then only records pointer traversals made after that copy.
	copied bool
}

// rootsOf resolves an lvalue expression to the objects (parameters, receiver, package vars) it is rooted at, following
// local view aliases. A struct literal view yields the roots of each of its parts.
func rootsOf(info *types.Info, e ast.Expr, aliases map[types.Object][]ast.Expr, depth int) []rootInfo {
	if depth > 10 || e == nil {
		return nil
	}
	e = unparen(e)
	switch x := e.(type) {
	case *ast.Ident:
		o := info.Uses[x]
		if o == nil {
			o = info.Defs[x]
		}
		if o == nil {
			return nil
		}
		if as, ok := aliases[o]; ok {
			var rs []rootInfo
			for _, a := range as {
				rs = append(rs, rootsOf(info, a, aliases, depth+1)...)
			}
			if _, isStruct := o.Type().Underlying().(*types.Struct); isStruct {
				for i := range rs {
					rs[i].copied = true
					rs[i].deref = false
					if rs[i].field == "" {
						rs[i].field = "*"
					}
				}
			}
			return rs
		}
		return []rootInfo{{obj: o}}
	case *ast.SelectorExpr:
		rs := rootsOf(info, x.X, aliases, depth+1)
		// field of a struct-literal alias
		if id, ok := unparen(x.X).(*ast.Ident); ok {
			if as, ok := aliases[info.Uses[id]]; ok {
				var lit []rootInfo
				isLit := false
				for _, a := range as {
					a = unparen(a)
					if u, ok := a.(*ast.UnaryExpr); ok && u.Op == token.AND {
						a = unparen(u.X)
					}
					if cl, ok := a.(*ast.CompositeLit); ok {
						isLit = true
						for _, el := range cl.Elts {
							if kv, ok := el.(*ast.KeyValueExpr); ok {
								if k, ok := kv.Key.(*ast.Ident); ok && k.Name == x.Sel.Name {
									lit = append(lit, rootsOf(info, kv.Value, aliases, depth+1)...)
								}
							}
						}
					}
				}
				if isLit && len(as) == 1 {
					return lit // (nil when the literal does not set the field: a fresh zero value)
				}
			}
		}
		first := x.Sel.Name
		if sel := info.Selections[x]; sel != nil {
			if sel.Kind() != types.FieldVal {
				return rs
			}
			if len(sel.Index()) > 1 {
				if st := structOf(sel.Recv()); st != nil {
					first = st.Field(sel.Index()[0]).Name()
				}
			}
		}
		_, throughPtr := info.TypeOf(x.X).(*types.Pointer)
		if t := info.TypeOf(x.X); t != nil {
			_, throughPtr = t.Underlying().(*types.Pointer)
		}
		for i := range rs {
			if rs[i].field == "" {
				rs[i].field = first
			} else if throughPtr {
				rs[i].deref = true
			}
			rs[i].path += "." + x.Sel.Name
		}
		return rs
	case *ast.IndexExpr:
		rs := rootsOf(info, x.X, aliases, depth+1)
		isArr := false
		if t := info.TypeOf(x.X); t != nil {
			_, isArr = deref(t).Underlying().(*types.Array)
		}
		for i := range rs {
			rs[i].path += "[]"
			if !isArr {
				rs[i].deref = true
			}
		}
		return rs
	case *ast.SliceExpr:
		return rootsOf(info, x.X, aliases, depth+1)
	case *ast.StarExpr:
		rs := rootsOf(info, x.X, aliases, depth+1)
		for i := range rs {
			if rs[i].field != "" {
				rs[i].deref = true
			}
		}
		return rs
	case *ast.UnaryExpr:
		if x.Op == token.AND {
			return rootsOf(info, x.X, aliases, depth+1)
		}
	case *ast.TypeAssertExpr:
		return rootsOf(info, x.X, aliases, depth+1)
	case *ast.CallExpr:
		if sel, ok := unparen(x.Fun).(*ast.SelectorExpr); ok && len(x.Args) == 0 && sel.Sel.Name == "El" {
			return rootsOf(info, sel.X, aliases, depth+1)
		}
		if tv, ok := info.Types[x.Fun]; ok && tv.IsType() && len(x.Args) == 1 {
			return rootsOf(info, x.Args[0], aliases, depth+1)
		}
	case *ast.CompositeLit:
		var rs []rootInfo
		for _, el := range x.Elts {
			if kv, ok := el.(*ast.KeyValueExpr); ok {
				rs = append(rs, rootsOf(info, kv.Value, aliases, depth+1)...)
			} else {
				rs = append(rs, rootsOf(info, el, aliases, depth+1)...)
			}
		}
		return rs
	}
	return nil
}
