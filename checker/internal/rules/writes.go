package rules

import (
	"golang.org/x/tools/go/cfg"

	"go/ast"
	"go/token"
	"go/types"
	"strings"
)

// Syntactic write sites: the lvalues a function stores through, as far as the repository's idioms make them
// visible in the function's own body — assignment targets, the destination operand of ring operations, the
// receiver of in-place methods (Copy, Resize, big.Int arithmetic), the target of sampler reads and of copy().
// Shared by SHARED (C10) and IMMUT (C09).

type writeSite struct {
	target ast.Expr
	pos    token.Pos
	how    string
}

// destLastArg: methods whose last argument is the destination polynomial/scalar.
func isRingLikeRecv(t types.Type) bool {
	n := namedOf(t)
	if n == nil || n.Obj().Pkg() == nil {
		return false
	}
	p := n.Obj().Pkg().Path()
	if !(strings.HasSuffix(p, "/ring") || strings.HasSuffix(p, "/ring/ringqp")) {
		return false
	}
	switch n.Obj().Name() {
	case "Ring", "SubRing", "BasisExtender", "Decomposer":
		return true
	}
	return false
}

var inPlaceRecvMethods = map[string]bool{"Copy": true, "CopyLvl": true, "Resize": true, "Zero": true, "ReadFrom": true,
	"UnmarshalBinary": true, "UnmarshalJSON": true}

// methods of ring types that only read their arguments
var ringReadOnly = map[string]bool{"Equal": false, "Log2OfStandardDeviation": true, "PolyToBigint": true, "PolyToBigintCentered": true,
	"PolyToString": true, "N": true, "Level": true, "NewPoly": true, "AtLevel": true}

var bigRecvMutators = map[string]bool{"Add": true, "Sub": true, "Mul": true, "Mod": true, "Quo": true, "Rem": true, "Div": true, "Set": true,
	"SetInt64": true, "SetUint64": true, "SetString": true, "SetBit": true, "Lsh": true, "Rsh": true, "Neg": true, "Abs": true, "Exp": true,
	"ModInverse": true, "SetPrec": true, "SetInt": true, "SetFloat64": true, "Sqrt": true, "And": true, "Or": true, "Not": true, "DivMod": true, "QuoRem": true, "SetBytes": true, "SetMode": true}

func isBigNumber(t types.Type) bool {
	n := namedOf(t)
	if n == nil || n.Obj().Pkg() == nil {
		return false
	}
	if n.Obj().Pkg().Path() == "math/big" {
		return true
	}
	return strings.HasSuffix(n.Obj().Pkg().Path(), "utils/bignum") && n.Obj().Name() == "Complex"
}

func collectWrites(info *types.Info, body ast.Node) []writeSite {
	var out []writeSite
	add := func(e ast.Expr, pos token.Pos, how string) {
		if e != nil {
			out = append(out, writeSite{e, pos, how})
		}
	}
	ast.Inspect(body, func(n ast.Node) bool {
		switch x := n.(type) {
		case *ast.AssignStmt:
			for _, l := range x.Lhs {
				l = unparen(l)
				switch l.(type) {
				case *ast.IndexExpr, *ast.SelectorExpr, *ast.StarExpr:
					add(l, l.Pos(), "assignment")
				}
			}
		case *ast.IncDecStmt:
			switch unparen(x.X).(type) {
			case *ast.IndexExpr, *ast.SelectorExpr, *ast.StarExpr:
				add(x.X, x.Pos(), "assignment")
			}
		case *ast.CallExpr:
			if isBuiltinCall(info, x, "copy") && len(x.Args) == 2 {
				add(x.Args[0], x.Pos(), "copy() destination")
				return true
			}
			if isBuiltinCall(info, x, "delete") && len(x.Args) == 2 {
				add(x.Args[0], x.Pos(), "delete from map")
				return true
			}
			if isBuiltinCall(info, x, "clear") && len(x.Args) == 1 {
				add(x.Args[0], x.Pos(), "clear()")
				return true
			}
			// arbitrary-precision complex arithmetic, also through a method value held in a local (mul := m.Mul):
			// (a, b, c): c = a op b
			if f := calleeFunc(info, x); f != nil && f.Pkg() != nil && strings.HasSuffix(f.Pkg().Path(), "utils/bignum") && (f.Name() == "Mul" || f.Name() == "Quo") && len(x.Args) == 3 {
				if sig, ok := f.Type().(*types.Signature); ok && sig.Recv() != nil {
					if nm := namedOf(sig.Recv().Type()); nm != nil && nm.Obj().Name() == "ComplexMultiplier" {
						add(x.Args[2], x.Pos(), "destination of ComplexMultiplier."+f.Name())
						return true
					}
				}
			}
			sel, ok := unparen(x.Fun).(*ast.SelectorExpr)
			if !ok {
				return true
			}
			name := sel.Sel.Name
			rt := info.TypeOf(sel.X)
			if rt == nil {
				return true
			}
			switch {
			case isSamplerType(rt) && (name == "Read" || name == "ReadAndAdd") && len(x.Args) == 1:
				add(x.Args[0], x.Pos(), "sampler "+name+" target")
			case isRingLikeRecv(rt) && len(x.Args) >= 2 && !ringReadOnly[name]:
				last := x.Args[len(x.Args)-1]
				if lt := info.TypeOf(last); lt != nil && (polyish(lt) || isScalarSlice(lt)) {
					add(last, x.Pos(), "destination of "+name)
				}
				// ExtendBasisSmallNormAndCenter(in, levelP, outQ, outP): two destinations
				if name == "ExtendBasisSmallNormAndCenter" && len(x.Args) == 4 {
					add(x.Args[2], x.Pos(), "destination of "+name)
				}
			case inPlaceRecvMethods[name] && polyish(rt):
				add(sel.X, x.Pos(), "receiver of "+name)
			case isBigNumber(rt) && bigRecvMutators[name]:
				add(sel.X, x.Pos(), "receiver of big-number "+name)
			}
		}
		return true
	})
	return out
}

func isScalarSlice(t types.Type) bool {
	s, ok := t.Underlying().(*types.Slice)
	if !ok {
		return false
	}
	b, ok := s.Elem().Underlying().(*types.Basic)
	return ok && b.Info()&types.IsInteger != 0
}

// localAliases maps single-definition locals to their defining expression when that expression is a view
// (selector/index/slice/star/address chain, x.El(), type assertion) — not a call producing a fresh value.
func localAliases(info *types.Info, fd *ast.FuncDecl) map[types.Object][]ast.Expr {
	return localAliasesMode(info, fd, true)
}

// localAliasesMode: with multi=false only single-definition locals are followed (no may-alias union).
func localAliasesMode(info *types.Info, fd *ast.FuncDecl, multi bool) map[types.Object][]ast.Expr {
	defs := map[types.Object][]ast.Expr{}
	ast.Inspect(fd.Body, func(n ast.Node) bool {
		switch x := n.(type) {
		case *ast.AssignStmt:
			if len(x.Lhs) == len(x.Rhs) {
				for i, l := range x.Lhs {
					if id, ok := unparen(l).(*ast.Ident); ok {
						o := info.Defs[id]
						if o == nil {
							o = info.Uses[id]
						}
						if o != nil {
							defs[o] = append(defs[o], x.Rhs[i])
						}
					}
					// `tmp.Value[0] = ctIn.Value[0]`: the element of the local now *is* the operand's polynomial (the header
					// is copied, the coefficients are shared)
					if ie, ok := unparen(l).(*ast.IndexExpr); ok && x.Tok == token.ASSIGN && isViewExpr(x.Rhs[i]) {
						if _, lit := unparen(x.Rhs[i]).(*ast.CompositeLit); !lit && sharesStorage(info.TypeOf(x.Rhs[i])) {
							if r := rootIdent(ie); r != nil {
								if o := info.Uses[r]; o != nil {
									if elemAlias[o] == nil {
										elemAlias[o] = map[string][]elemView{}
									}
									dup := false
									for _, ev := range elemAlias[o][exprString(ie)] {
										if ev.view == x.Rhs[i] {
											dup = true
										}
									}
									if !dup {
										elemAlias[o][exprString(ie)] = append(elemAlias[o][exprString(ie)], elemView{x.Rhs[i], reachAfter(info, fd, x.Pos())})
									}
								}
							}
						}
					}
				}
			} else {
				for _, l := range x.Lhs {
					if id, ok := unparen(l).(*ast.Ident); ok {
						o := info.Defs[id]
						if o == nil {
							o = info.Uses[id]
						}
						if o != nil {
							defs[o] = append(defs[o], nil)
						}
					}
				}
			}
		case *ast.RangeStmt:
			// for _, v := range X : v views the elements of X when they are reference-like
			if id, ok := x.Value.(*ast.Ident); ok && x.Tok == token.DEFINE {
				if o := info.Defs[id]; o != nil {
					defs[o] = append(defs[o], &ast.IndexExpr{X: x.X, Index: ast.NewIdent("_")})
				}
			}
		}
		return true
	})
	out := map[types.Object][]ast.Expr{}
	for o, ds := range defs {
		if !multi && len(ds) != 1 {
			continue
		}
		for _, d := range ds {
			if d != nil && isViewExpr(d) {
				out[o] = append(out[o], d)
			}
		}
	}
	return out
}

// elemAliasTop: the expression resolved at depth 0 is written *through* (ring-operation destination, in-place
// method), not replaced by an assignment — only then does an element that holds a view stand for the view.
var elemAliasTop bool

// rootsOfWrite resolves the target of a write site.
func rootsOfWrite(info *types.Info, w writeSite, aliases map[types.Object][]ast.Expr) []rootInfo {
	elemAliasTop = w.how != "assignment"
	elemAliasAt = w.pos
	defer func() { elemAliasTop, elemAliasAt = false, token.NoPos }()
	return rootsOf(info, w.target, aliases, 0)
}

// elemAlias: element stores of views into composite locals, per root object and textual element (`tmp.Value[0]`).
var elemAlias = map[types.Object]map[string][]elemView{}

// elemView: the stored view and the program points that can execute after the store (go/cfg reachability).
type elemView struct {
	view    ast.Expr
	reaches func(pos token.Pos) bool
}

// elemAliasAt: position of the write site being resolved (token.NoPos: unknown, every store counts).
var elemAliasAt token.Pos

// reachAfter returns a predicate telling whether a position of fd's body can execute after the statement at `from`.
func reachAfter(info *types.Info, fd *ast.FuncDecl, from token.Pos) func(token.Pos) bool {
	g := buildCFG(info, fd.Body)
	if g == nil {
		return func(token.Pos) bool { return true }
	}
	blockOf := func(pos token.Pos) (*cfg.Block, int) {
		var best *cfg.Block
		bi := -1
		var bestLen token.Pos = 1 << 40
		for _, b := range g.Blocks {
			for i, n := range b.Nodes {
				if n.Pos() <= pos && pos < n.End() && n.End()-n.Pos() < bestLen {
					best, bi, bestLen = b, i, n.End()-n.Pos()
				}
			}
		}
		return best, bi
	}
	fb, fi := blockOf(from)
	if fb == nil {
		return func(token.Pos) bool { return true }
	}
	seen := map[*cfg.Block]bool{}
	var stack []*cfg.Block
	for _, s := range fb.Succs {
		stack = append(stack, s)
	}
	for len(stack) > 0 {
		b := stack[len(stack)-1]
		stack = stack[:len(stack)-1]
		if seen[b] {
			continue
		}
		seen[b] = true
		stack = append(stack, b.Succs...)
	}
	return func(pos token.Pos) bool {
		tb, ti := blockOf(pos)
		if tb == nil {
			return true
		}
		if tb == fb && ti > fi {
			return true
		}
		return seen[tb]
	}
}

// sharesStorage: a value of this type copied by assignment still refers to the same coefficients (polynomials, slices,
// pointers, maps).
func sharesStorage(t types.Type) bool {
	if t == nil {
		return false
	}
	switch u := t.Underlying().(type) {
	case *types.Slice, *types.Pointer, *types.Map:
		return true
	case *types.Struct:
		for i := 0; i < u.NumFields(); i++ {
			if sharesStorage(u.Field(i).Type()) {
				return true
			}
		}
	}
	return false
}

func isViewExpr(e ast.Expr) bool {
	e = unparen(e)
	switch x := e.(type) {
	case *ast.Ident:
		return x.Name != "nil"
	case *ast.SelectorExpr:
		return isViewExpr(x.X)
	case *ast.IndexExpr:
		return isViewExpr(x.X)
	case *ast.SliceExpr:
		return isViewExpr(x.X)
	case *ast.StarExpr:
		return isViewExpr(x.X)
	case *ast.UnaryExpr:
		return x.Op == token.AND && isViewExpr(x.X)
	case *ast.TypeAssertExpr:
		return isViewExpr(x.X)
	case *ast.CallExpr:
		if sel, ok := unparen(x.Fun).(*ast.SelectorExpr); ok && len(x.Args) == 0 && (sel.Sel.Name == "El") {
			return isViewExpr(sel.X)
		}
		// conversions
		return false
	case *ast.CompositeLit:
		// a struct literal of views (ringqp.Poly{Q: a, P: b}) is a view of its parts: handled by rootsOf
		return true
	}
	return false
}

// rootStep describes what an expression is rooted at: the object and the first field selected on it.
type rootInfo struct {
	obj   types.Object
	field string // first field name selected on obj ("" if none)
	path  string
	// deref: beyond the first field, the expression goes through a pointer, slice or map (so that a store to it
	// lands in memory that a plain struct copy shares)
	deref bool
	// copied: the expression went through a local variable holding a struct *value* copied out of the root;
	// deref then only records pointer traversals made after that copy.
	copied bool
}

// rootsOf resolves an lvalue expression to the objects (parameters, receiver, package vars) it is rooted at, following
// local view aliases. A struct literal view yields the roots of each of its parts.
func rootsOf(info *types.Info, e ast.Expr, aliases map[types.Object][]ast.Expr, depth int) []rootInfo {
	if depth > 10 || e == nil {
		return nil
	}
	e = unparen(e)
	switch x := e.(type) {
	case *ast.Ident:
		o := info.Uses[x]
		if o == nil {
			o = info.Defs[x]
		}
		if o == nil {
			return nil
		}
		if as, ok := aliases[o]; ok {
			var rs []rootInfo
			for _, a := range as {
				rs = append(rs, rootsOf(info, a, aliases, depth+1)...)
			}
			if _, isStruct := o.Type().Underlying().(*types.Struct); isStruct {
				for i := range rs {
					rs[i].copied = true
					rs[i].deref = false
					if rs[i].field == "" {
						rs[i].field = "*"
					}
				}
			}
			return rs
		}
		return []rootInfo{{obj: o}}
	case *ast.SelectorExpr:
		rs := rootsOf(info, x.X, aliases, depth+1)
		// field of a struct-literal alias
		if id, ok := unparen(x.X).(*ast.Ident); ok {
			if as, ok := aliases[info.Uses[id]]; ok {
				var lit []rootInfo
				isLit := false
				for _, a := range as {
					a = unparen(a)
					if u, ok := a.(*ast.UnaryExpr); ok && u.Op == token.AND {
						a = unparen(u.X)
					}
					if cl, ok := a.(*ast.CompositeLit); ok {
						isLit = true
						for _, el := range cl.Elts {
							if kv, ok := el.(*ast.KeyValueExpr); ok {
								if k, ok := kv.Key.(*ast.Ident); ok && k.Name == x.Sel.Name {
									lit = append(lit, rootsOf(info, kv.Value, aliases, depth+1)...)
								}
							}
						}
					}
				}
				if isLit && len(as) == 1 {
					return lit // (nil when the literal does not set the field: a fresh zero value)
				}
			}
		}
		first := x.Sel.Name
		if sel := info.Selections[x]; sel != nil {
			if sel.Kind() != types.FieldVal {
				return rs
			}
			if len(sel.Index()) > 1 {
				if st := structOf(sel.Recv()); st != nil {
					first = st.Field(sel.Index()[0]).Name()
				}
			}
		}
		_, throughPtr := info.TypeOf(x.X).(*types.Pointer)
		if t := info.TypeOf(x.X); t != nil {
			_, throughPtr = t.Underlying().(*types.Pointer)
		}
		for i := range rs {
			if rs[i].field == "" {
				rs[i].field = first
			} else if throughPtr {
				rs[i].deref = true
			}
			rs[i].path += "." + x.Sel.Name
		}
		return rs
	case *ast.IndexExpr:
		rs := rootsOf(info, x.X, aliases, depth+1)
		if r := rootIdent(x); r != nil && (depth > 0 || elemAliasTop) {
			if views := elemAlias[info.Uses[r]][exprString(x)]; len(views) > 0 {
				for _, ev := range views {
					if elemAliasAt != token.NoPos && !ev.reaches(elemAliasAt) {
						continue // the write cannot execute after the element received the view
					}
					for _, ri := range rootsOf(info, ev.view, aliases, depth+1) {
						ri.deref = true
						rs = append(rs, ri)
					}
				}
			}
		}
		isArr := false
		if t := info.TypeOf(x.X); t != nil {
			_, isArr = deref(t).Underlying().(*types.Array)
		}
		for i := range rs {
			rs[i].path += "[]"
			if !isArr {
				rs[i].deref = true
			}
		}
		return rs
	case *ast.SliceExpr:
		return rootsOf(info, x.X, aliases, depth+1)
	case *ast.StarExpr:
		rs := rootsOf(info, x.X, aliases, depth+1)
		for i := range rs {
			if rs[i].field != "" {
				rs[i].deref = true
			}
		}
		return rs
	case *ast.UnaryExpr:
		if x.Op == token.AND {
			return rootsOf(info, x.X, aliases, depth+1)
		}
	case *ast.TypeAssertExpr:
		return rootsOf(info, x.X, aliases, depth+1)
	case *ast.CallExpr:
		if sel, ok := unparen(x.Fun).(*ast.SelectorExpr); ok && len(x.Args) == 0 && sel.Sel.Name == "El" {
			return rootsOf(info, sel.X, aliases, depth+1)
		}
		if tv, ok := info.Types[x.Fun]; ok && tv.IsType() && len(x.Args) == 1 {
			return rootsOf(info, x.Args[0], aliases, depth+1)
		}
	case *ast.CompositeLit:
		var rs []rootInfo
		for _, el := range x.Elts {
			if kv, ok := el.(*ast.KeyValueExpr); ok {
				rs = append(rs, rootsOf(info, kv.Value, aliases, depth+1)...)
			} else {
				rs = append(rs, rootsOf(info, el, aliases, depth+1)...)
			}
		}
		return rs
	}
	return nil
}
