package rules

import (
	"fmt"
	"go/ast"
	"go/constant"
	"go/token"
	"go/types"
	"os"
	"sort"
	"strings"

	"golang.org/x/tools/go/packages"

	"lvcheck/internal/core"
)

// ALIASHAZ — an operation that may be called with its receiver equal to one of its operands does not overwrite a
// component of the receiver and read the same component of that operand afterwards.
//
// The evaluators allow `Add(ct0, ct1, ct1)`: the receiver may be any of the operands. Element-wise code is safe under
// that aliasing as long as every component is read in the very call that writes it (`Add(a[i], b[i], out[i])`). A
// function that first writes out.Value[i] from one operand and only later reads b.Value[i] has lost b when out == b,
// unless it tested the identity of b and out and took another route. The rule works per function, over go/cfg:
// W(out[k]) by a ring operation that does not read b, then a reachable R(b[k']) with k, k' possibly equal, in a function
// that never compares b (or its El()) with out.
// aliasHazExempt: helpers whose callers exclude the aliasing.
var aliasHazExempt = map[string]string{
	"schemes/ckks.(Evaluator).mulRelinThenAdd": "its two callers MulThenAdd / MulRelinThenAdd return the error 'opOut must be different from op0 and op1' before calling it",
	"schemes/bgv.(Evaluator).mulRelinThenAdd":  "MulThenAdd / MulRelinThenAdd return an error when op0 == opOut or op1 == opOut before calling it (documented: 'will return an error if either op0 == opOut or op1 == opOut')",
}

func scanAliasHaz(c *core.Ctx) []ob {
	var out []ob
	n := 0
	c.FuncDecls(func(pk *packages.Package, file *ast.File, fd *ast.FuncDecl) {
		rel := core.ShortPkg(pk.PkgPath)
		if fd.Body == nil || fd.Recv == nil || fileIsTestSupport(c.Program, fd.Pos()) {
			return
		}
		if !c.IsFixture && !(strings.HasPrefix(rel, "schemes/") || strings.HasPrefix(rel, "core/rlwe") || strings.HasPrefix(rel, "core/rgsw") || strings.HasPrefix(rel, "circuits/")) {
			return
		}
		if !strings.Contains(core.RecvTypeName(fd), "Evaluator") {
			return
		}
		info := pk.TypesInfo
		fn, _ := info.Defs[fd.Name].(*types.Func)
		if fn == nil {
			return
		}
		sig := fn.Type().(*types.Signature)
		var outs, ins []*types.Var
		for i := 0; i < sig.Params().Len(); i++ {
			p := sig.Params().At(i)
			if !isMetaCarrier(p.Type()) {
				continue
			}
			if isOutParamName(p.Name()) {
				outs = append(outs, p)
			} else {
				ins = append(ins, p)
			}
		}
		if len(outs) != 1 || len(ins) == 0 {
			return
		}
		outP := outs[0]
		fkey := core.FuncKey(pk, fd)
		// an unexported helper only sees aliased arguments when a caller hands it its own operand and receiver: when
		// every call in the package passes a local of the caller (a freshly built element) as the receiver, or no caller
		// passes one of its own parameters there, the helper's operands are distinct by construction
		if !fd.Name.IsExported() && !c.IsFixture {
			outIdx := -1
			for i := 0; i < sig.Params().Len(); i++ {
				if sig.Params().At(i) == outP {
					outIdx = i
				}
			}
			exposed, calls := false, 0
			exposedIn := map[int]bool{}
			for _, file := range pk.Syntax {
				for _, d := range file.Decls {
					cfd, ok := d.(*ast.FuncDecl)
					if !ok || cfd.Body == nil {
						continue
					}
					cparams := map[types.Object]bool{}
					if cfd.Type.Params != nil {
						for _, fl := range cfd.Type.Params.List {
							for _, nm := range fl.Names {
								cparams[info.Defs[nm]] = true
							}
						}
					}
					// the variable of a type switch over a parameter is the parameter
					ast.Inspect(cfd.Body, func(x ast.Node) bool {
						ts, ok := x.(*ast.TypeSwitchStmt)
						if !ok {
							return true
						}
						as, ok := ts.Assign.(*ast.AssignStmt)
						if !ok || len(as.Rhs) != 1 {
							return true
						}
						ta, ok := unparen(as.Rhs[0]).(*ast.TypeAssertExpr)
						if !ok {
							return true
						}
						if r := rootIdent(ta.X); r == nil || !cparams[info.Uses[r]] {
							return true
						}
						for _, cl := range ts.Body.List {
							if o := info.Implicits[cl]; o != nil {
								cparams[o] = true
							}
						}
						return true
					})
					ast.Inspect(cfd.Body, func(x ast.Node) bool {
						call, ok := x.(*ast.CallExpr)
						if !ok || outIdx < 0 || outIdx >= len(call.Args) {
							return true
						}
						if f := calleeFunc(info, call); f == nil || funcOrigin(f) != funcOrigin(fn) {
							return true
						}
						calls++
						if r := rootIdent(call.Args[outIdx]); r != nil && cparams[info.Uses[r]] {
							exposed = true
							for ai, a := range call.Args {
								// op1.El() is op1
								if ce, ok := unparen(a).(*ast.CallExpr); ok && len(ce.Args) == 0 {
									if se, ok := unparen(ce.Fun).(*ast.SelectorExpr); ok && se.Sel.Name == "El" {
										a = se.X
									}
								}
								if ra := rootIdent(a); ra != nil && cparams[info.Uses[ra]] {
									exposedIn[ai] = true
								}
							}
						}
						return true
					})
				}
			}
			if calls > 0 && !exposed {
				return
			}
			if calls > 0 {
				// only the operands for which a caller passes one of its own parameters can be the receiver
				var keep []*types.Var
				for _, in := range ins {
					for i := 0; i < sig.Params().Len(); i++ {
						if sig.Params().At(i) == in && exposedIn[i] {
							keep = append(keep, in)
						}
					}
				}
				ins = keep
				if len(ins) == 0 {
					return
				}
			}
		}
		if d := os.Getenv("LV_DEBUG_ALIASHAZ"); d != "" && strings.Contains(fkey, d) {
			var nm []string
			for _, in := range ins {
				nm = append(nm, in.Name())
			}
			fmt.Fprintf(os.Stderr, "ALIASHAZ %s: ins=%v out=%s\n", fkey, nm, outP.Name())
		}
		// component reference: root param + index key ("c:<k>" constant, "v" variable)
		type comp struct {
			root types.Object
			idx  string
		}
		rd := reachingDefs(info, fd)
		var compOf func(e ast.Expr, depth int) []comp
		compOf = func(e ast.Expr, depth int) []comp {
			if depth > 6 {
				return nil
			}
			switch x := unparen(e).(type) {
			case *ast.SliceExpr:
				// op0.Value[:1]: some components of op0
				if sel, ok := unparen(x.X).(*ast.SelectorExpr); ok && sel.Sel.Name == "Value" {
					return compOf(&ast.IndexExpr{X: x.X, Index: ast.NewIdent("_")}, depth+1)
				}
				return nil
			case *ast.IndexExpr:
				sel, ok := unparen(x.X).(*ast.SelectorExpr)
				if !ok || sel.Sel.Name != "Value" {
					return nil
				}
				base := unparen(sel.X)
				if call, ok := base.(*ast.CallExpr); ok {
					if s2, ok := unparen(call.Fun).(*ast.SelectorExpr); ok && s2.Sel.Name == "El" {
						base = unparen(s2.X)
					}
				}
				id, ok := base.(*ast.Ident)
				if !ok {
					return nil
				}
				o := info.Uses[id]
				idx := "v"
				if tv, ok := info.Types[x.Index]; ok && tv.Value != nil && tv.Value.Kind() == constant.Int {
					idx = "c:" + tv.Value.ExactString()
				}
				// local element aliases (tmp0 := op0) resolve through reaching definitions
				if _, isParam := o.(*types.Var); isParam {
					isP := false
					for i := 0; i < sig.Params().Len(); i++ {
						if sig.Params().At(i) == o {
							isP = true
						}
					}
					if isP {
						return []comp{{o, idx}}
					}
				}
				if rhs, _, ok := rd.defsAt(id, o); ok {
					var res []comp
					for _, r := range rhs {
						if r == nil {
							continue
						}
						r = unparen(r)
						if call, ok := r.(*ast.CallExpr); ok {
							if s2, ok := unparen(call.Fun).(*ast.SelectorExpr); ok && s2.Sel.Name == "El" {
								r = unparen(s2.X)
							}
						}
						if rid, ok := r.(*ast.Ident); ok {
							for i := 0; i < sig.Params().Len(); i++ {
								if sig.Params().At(i) == info.Uses[rid] {
									res = append(res, comp{info.Uses[rid], idx})
								}
							}
						}
					}
					return res
				}
			case *ast.Ident:
				// a local polynomial view: c0 := op0.Value[0]
				o := info.Uses[x]
				for i := 0; i < sig.Params().Len(); i++ {
					if sig.Params().At(i) == o && isMetaCarrier(o.Type()) {
						return []comp{{o, "v"}} // the whole element
					}
				}
				if rhs, _, ok := rd.defsAt(x, o); ok {
					var res []comp
					for _, r := range rhs {
						if r != nil {
							res = append(res, compOf(r, depth+1)...)
						}
					}
					return res
				}
			}
			return nil
		}
		// identity awareness: any comparison between an input (or its El()) and the output
		aware := map[types.Object]bool{}
		rootOf := func(e ast.Expr) types.Object {
			e = unparen(e)
			if u, ok := e.(*ast.UnaryExpr); ok && u.Op == token.AND {
				e = unparen(u.X)
			}
			for {
				switch y := e.(type) {
				case *ast.CallExpr:
					if s, ok := unparen(y.Fun).(*ast.SelectorExpr); ok && s.Sel.Name == "El" {
						e = unparen(s.X)
						continue
					}
				case *ast.SelectorExpr:
					e = unparen(y.X)
					continue
				}
				break
			}
			if id, ok := e.(*ast.Ident); ok {
				return info.Uses[id]
			}
			return nil
		}
		ast.Inspect(fd.Body, func(x ast.Node) bool {
			if be, ok := x.(*ast.BinaryExpr); ok && (be.Op == token.EQL || be.Op == token.NEQ) {
				a, b := rootOf(be.X), rootOf(be.Y)
				if a == types.Object(outP) && b != nil {
					aware[b] = true
				}
				if b == types.Object(outP) && a != nil {
					aware[a] = true
				}
			}
			return true
		})
		type ev struct {
			writes, reads []comp
			pos           token.Pos
		}
		eventsOf := func(nd ast.Node) []ev {
			var evs []ev
			for _, call := range callsIn(nd) {
				var e ev
				e.pos = call.Pos()
				sel, ok := unparen(call.Fun).(*ast.SelectorExpr)
				if ok && len(call.Args) >= 2 {
					if rt := info.TypeOf(sel.X); rt != nil && isRingLikeRecv(rt) && !ringReadOnly[sel.Sel.Name] {
						for i, a := range call.Args {
							cs := compOf(a, 0)
							if i == len(call.Args)-1 {
								e.writes = append(e.writes, cs...)
								if opAccum[sel.Sel.Name] {
									e.reads = append(e.reads, cs...)
								}
							} else {
								e.reads = append(e.reads, cs...)
							}
						}
					}
				}
				// calls of module functions: written arguments according to the write-effect summaries
				if len(e.reads)+len(e.writes) == 0 {
					if cs := effFor(c).callees(info, call); len(cs) > 0 {
						for i, a := range call.Args {
							comps := compOf(a, 0)
							if len(comps) == 0 {
								continue
							}
							w := false
							for _, cf := range cs {
								if sm := effFor(c).sums[cf]; sm != nil && sm.wParams[i] {
									w = true
								}
							}
							if w {
								e.writes = append(e.writes, comps...)
								// an in-place call also reads what it writes
								for j, b := range call.Args {
									if j != i && exprString(unparen(b)) == exprString(unparen(a)) {
										e.reads = append(e.reads, comps...)
									}
								}
							} else {
								e.reads = append(e.reads, comps...)
							}
						}
						// a helper that receives the receiver alone (it resizes it, hands out a view of it) moves no
						// data from an operand into it
						if len(e.reads) == 0 {
							e.writes = nil
						}
					}
				}
				// function-valued operation parameters: evaluate(a, b, out) / evaluate(a, r, out)
				if id, ok := unparen(call.Fun).(*ast.Ident); ok && len(call.Args) >= 2 {
					if v, ok := info.Uses[id].(*types.Var); ok {
						if _, isFunc := v.Type().Underlying().(*types.Signature); isFunc {
							for i, a := range call.Args {
								cs := compOf(a, 0)
								if i == len(call.Args)-1 {
									e.writes = append(e.writes, cs...)
								} else {
									e.reads = append(e.reads, cs...)
								}
							}
						}
					}
				}
				if len(e.reads)+len(e.writes) > 0 {
					evs = append(evs, e)
				}
			}
			return evs
		}
		type st map[string]token.Pos // written out components: idx key -> position
		clone := func(s st) st {
			r := st{}
			for k, v := range s {
				r[k] = v
			}
			return r
		}
		mayEq := func(a, b string) bool { return a == "v" || b == "v" || a == b }
		type haz struct {
			in       types.Object
			wpos, rp token.Pos
		}
		var hz []haz
		step := func(nd ast.Node, s st, record bool) st {
			// a comparison of an operand with the receiver evaluated on the way makes the rest of the path aware
			if cond, isExpr := nd.(ast.Expr); isExpr {
				var seen []types.Object
				ast.Inspect(cond, func(x ast.Node) bool {
					if be, ok := x.(*ast.BinaryExpr); ok && (be.Op == token.EQL || be.Op == token.NEQ) {
						a, b := rootOf(be.X), rootOf(be.Y)
						if a == types.Object(outP) && b != nil {
							seen = append(seen, b)
						}
						if b == types.Object(outP) && a != nil {
							seen = append(seen, a)
						}
					}
					return true
				})
				if len(seen) > 0 {
					s = clone(s)
					for _, o := range seen {
						delete(s, "@unaware|"+o.Name())
					}
				}
			}
			evs := eventsOf(nd)
			if len(evs) == 0 {
				return s
			}
			s = clone(s)
			for _, e := range evs {
				if record {
					for _, r := range e.reads {
						if r.root == types.Object(outP) {
							continue
						}
						if _, unaware := s["@unaware|"+r.root.Name()]; !unaware {
							continue
						}
						isIn := false
						for _, p := range ins {
							if types.Object(p) == r.root {
								isIn = true
							}
						}
						if !isIn {
							continue
						}
						for k, wp := range s {
							if strings.HasPrefix(k, "@") {
								continue
							}
							parts := strings.SplitN(k, "|", 2)
							// the write must not have come from a call that read this very operand, and must have happened on
							// a path that had not yet compared this operand with the receiver (the set after "U:")
							if mayEq(parts[0], r.idx) && !strings.Contains(strings.SplitN(parts[1], "U:", 2)[0], "|"+r.root.Name()+"|") && strings.Contains(k, "U:") && strings.Contains(strings.SplitN(k, "U:", 2)[1], "|"+r.root.Name()+"|") {
								hz = append(hz, haz{r.root, wp, e.pos})
							}
						}
					}
				}
				for _, w := range e.writes {
					if w.root != types.Object(outP) {
						continue
					}
					readers := "|"
					for _, r := range e.reads {
						readers += r.root.Name() + "|"
					}
					unaware := "|"
					for _, p := range ins {
						if _, u := s["@unaware|"+p.Name()]; u {
							unaware += p.Name() + "|"
						}
					}
					s[w.idx+"|"+readers+"U:"+unaware] = e.pos
				}
			}
			return s
		}
		g := buildCFG(info, fd.Body)
		entry := st{}
		for _, p := range ins {
			entry["@unaware|"+p.Name()] = token.NoPos
		}
		_ = aware
		in := forward(g, entry, nil, func(nd ast.Node, s st) st { return step(nd, s, false) },
			func(a, b st) st {
				r := clone(a)
				for k, v := range b {
					if _, ok := r[k]; !ok {
						r[k] = v
					}
				}
				return r
			},
			func(a, b st) bool {
				if len(a) != len(b) {
					return false
				}
				for k := range a {
					if _, ok := b[k]; !ok {
						return false
					}
				}
				return true
			})
		for _, b := range g.Blocks {
			s, ok := in[b]
			if !ok {
				continue
			}
			for _, nd := range b.Nodes {
				s = step(nd, s, true)
			}
		}
		n++
		key := "ALIASHAZ:" + fkey
		props := metaProps(fkey)
		if ex := aliasHazExempt[fkey]; ex != "" && len(hz) > 0 {
			out = append(out, withProps(okOb("ALIASHAZ", key, c.Rel(fd.Pos()), "exempt: "+ex, false), append(props, "C09")...))
			return
		}
		if len(hz) == 0 {
			out = append(out, withProps(okOb("ALIASHAZ", key, c.Rel(fd.Pos()), "no operand component is read after the same component of the receiver was written from another operand (or the function tests the identity of operand and receiver)", true), append(props, "C09")...))
			return
		}
		sort.Slice(hz, func(i, j int) bool { return hz[i].rp < hz[j].rp })
		h := hz[0]
		out = append(out, withProps(violOb("ALIASHAZ", key+"#"+h.in.Name(), c.Rel(h.rp), fmt.Sprintf("%s writes components of %s at %s from other operands and reads the components of %s afterwards at %s, and never tests whether %s is %s: when the caller passes the same object as operand and receiver (the API allows it) the operand is destroyed before it is read", fkey, outP.Name(), c.Rel(h.wpos), h.in.Name(), c.Rel(h.rp), h.in.Name(), outP.Name())), append(props, "C09")...))
	})
	c.Stats["aliashaz_funcs"] = n
	return out
}

func init() {
	all := []string{"C04", "C05", "C06", "C09", "C11", "C12", "C13", "C20"}
	core.Register(&core.Rule{Name: "ALIASHAZ", Props: all,
		Doc: "in evaluator methods with one receiver element and element operands, no component of an operand is read by a ring operation after a possibly-equal component of the receiver was written by an operation that did not read that operand, unless the function compares the operand with the receiver (go/cfg, reaching definitions for local views)",
		Run: func(c *core.Ctx) []ob {
			out := scanAliasHaz(c)
			for _, o := range core.Floor("ALIASHAZ", nil, "evaluator methods with a receiver element and operands", c.Stats["aliashaz_funcs"], 40) {
				out = append(out, withProps(o, all...))
			}
			for _, o := range control(c, "ALIASHAZ", scanAliasHaz, "(fixEvaluator).Lin2") {
				out = append(out, withProps(o, all...))
			}
			return out
		}})
}
