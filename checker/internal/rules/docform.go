package rules

import (
	"fmt"
	"go/ast"
	"go/token"
	"go/types"
	"math"
	"regexp"
	"strconv"
	"strings"

	"golang.org/x/tools/go/packages"

	"lvcheck/internal/core"
)

// DOCFORM — a documented closed formula is the formula the code computes.
//
// `ChangeOfBasis` documents `Chebyshev: scalar=2/(b-a), constant = (-a-b)/(b-a)`. The body builds these with a chain of
// big.Float operations; a "simplification" `constant = new(big.Float).Add(&p.A, &p.B)` flips the sign of the offset and
// is invisible on the symmetric intervals every test and example uses (a+b = 0).
//
// The rule interprets, without running anything, the straight-line big.Float code of the documented case (Set, Neg, Add,
// Sub, Mul, Quo, SetInt64, SetFloat64 on fresh or named values; `&p.A`, `&p.B` are the symbols a, b) as rational
// functions of the symbols, evaluates both the interpreted program and the documented formula at a few fixed sample
// points, and demands that they agree (polynomial identity testing over the rationals). A statement the interpreter does
// not know makes the obligation analysis-incomplete, never a pass.
//
// Frozen table: (function, case label in the doc comment and in the switch).
var docFormTable = []struct{ fn, label string }{
	{"utils/bignum.(Polynomial).ChangeOfBasis", "Chebyshev"},
}

type dfParser struct {
	s   string
	pos int
	env map[string]float64
	err error
}

func (p *dfParser) ws() {
	for p.pos < len(p.s) && (p.s[p.pos] == ' ' || p.s[p.pos] == '\t') {
		p.pos++
	}
}

func (p *dfParser) expr() float64 {
	v := p.term()
	for {
		p.ws()
		if p.pos < len(p.s) && (p.s[p.pos] == '+' || p.s[p.pos] == '-') {
			op := p.s[p.pos]
			p.pos++
			r := p.term()
			if op == '+' {
				v += r
			} else {
				v -= r
			}
			continue
		}
		return v
	}
}

func (p *dfParser) term() float64 {
	v := p.factor()
	for {
		p.ws()
		if p.pos < len(p.s) && (p.s[p.pos] == '*' || p.s[p.pos] == '/') {
			op := p.s[p.pos]
			p.pos++
			r := p.factor()
			if op == '*' {
				v *= r
			} else {
				v /= r
			}
			continue
		}
		return v
	}
}

func (p *dfParser) factor() float64 {
	p.ws()
	if p.pos >= len(p.s) {
		p.err = fmt.Errorf("unexpected end")
		return 0
	}
	switch c := p.s[p.pos]; {
	case c == '-':
		p.pos++
		return -p.factor()
	case c == '(':
		p.pos++
		v := p.expr()
		p.ws()
		if p.pos < len(p.s) && p.s[p.pos] == ')' {
			p.pos++
		} else {
			p.err = fmt.Errorf("missing )")
		}
		return v
	case c >= '0' && c <= '9':
		st := p.pos
		for p.pos < len(p.s) && (p.s[p.pos] >= '0' && p.s[p.pos] <= '9' || p.s[p.pos] == '.') {
			p.pos++
		}
		v, _ := strconv.ParseFloat(p.s[st:p.pos], 64)
		return v
	case c >= 'a' && c <= 'z' || c >= 'A' && c <= 'Z':
		st := p.pos
		for p.pos < len(p.s) && (p.s[p.pos] >= 'a' && p.s[p.pos] <= 'z' || p.s[p.pos] >= 'A' && p.s[p.pos] <= 'Z') {
			p.pos++
		}
		if v, ok := p.env[strings.ToLower(p.s[st:p.pos])]; ok {
			return v
		}
		p.err = fmt.Errorf("unknown symbol %s", p.s[st:p.pos])
		return 0
	}
	p.err = fmt.Errorf("unexpected %q", p.s[p.pos])
	return 0
}

func scanDocForm(c *core.Ctx) []ob {
	var out []ob
	n := 0
	c.FuncDecls(func(pk *packages.Package, file *ast.File, fd *ast.FuncDecl) {
		if fd.Body == nil || fd.Doc == nil {
			return
		}
		fkey := core.FuncKey(pk, fd)
		for _, te := range docFormTable {
			if te.fn != fkey && !(c.IsFixture && strings.HasSuffix(fkey, "changeOfBasis")) {
				continue
			}
			info := pk.TypesInfo
			n++
			key := fmt.Sprintf("DOCFORM:%s#%s", fkey, te.label)
			// documented formulas: "<label>: name=expr, name = expr."
			doc := fd.Doc.Text()
			var line string
			for _, l := range strings.Split(doc, "\n") {
				if strings.Contains(l, te.label+":") {
					line = l[strings.Index(l, te.label+":")+len(te.label)+1:]
				}
			}
			formulas := map[string]string{}
			for _, m := range regexp.MustCompile(`([A-Za-z]+)\s*=\s*([^,;]+?)\s*(?:,|;|\.?\s*$)`).FindAllStringSubmatch(line, -1) {
				formulas[m[1]] = strings.TrimSuffix(strings.TrimSpace(m[2]), ".")
			}
			if len(formulas) == 0 {
				out = append(out, infoOb("DOCFORM", key, c.Rel(fd.Pos()), "the doc comment no longer states formulas for this case: not decided"))
				continue
			}
			// the case clause with that label
			var clause *ast.CaseClause
			ast.Inspect(fd.Body, func(x ast.Node) bool {
				if cc, ok := x.(*ast.CaseClause); ok {
					for _, e := range cc.List {
						if strings.HasSuffix(exprString(e), te.label) {
							clause = cc
						}
					}
				}
				return true
			})
			if clause == nil {
				out = append(out, incOb("DOCFORM", key, c.Rel(fd.Pos()), "no case clause for "+te.label))
				continue
			}
			// interpret at sample points
			samples := [][2]float64{{1, 5}, {-3, 2}, {0.5, 7.25}}
			mismatch, unknown := "", ""
			for _, sp := range samples {
				sym := map[string]float64{"a": sp[0], "b": sp[1]}
				env := map[types.Object]float64{}
				var eval func(e ast.Expr) (float64, bool)
				eval = func(e ast.Expr) (float64, bool) {
					e = unparen(e)
					switch x := e.(type) {
					case *ast.UnaryExpr:
						if x.Op == token.AND {
							return eval(x.X)
						}
					case *ast.SelectorExpr:
						if v, ok := sym[strings.ToLower(x.Sel.Name)]; ok && len(x.Sel.Name) == 1 {
							return v, true
						}
					case *ast.Ident:
						if v, ok := env[info.Uses[x]]; ok {
							return v, true
						}
					case *ast.BasicLit:
						if v, err := strconv.ParseFloat(x.Value, 64); err == nil {
							return v, true
						}
					case *ast.CallExpr:
						// new(big.Float)
						if id, ok := unparen(x.Fun).(*ast.Ident); ok && id.Name == "new" {
							return 0, true
						}
						se, ok := unparen(x.Fun).(*ast.SelectorExpr)
						if !ok {
							return 0, false
						}
						var args []float64
						for _, a := range x.Args {
							v, ok := eval(a)
							if !ok {
								return 0, false
							}
							args = append(args, v)
						}
						if _, ok := eval(se.X); !ok {
							return 0, false
						}
						var r float64
						switch se.Sel.Name {
						case "Set", "SetInt64", "SetFloat64", "Copy":
							if len(args) != 1 {
								return 0, false
							}
							r = args[0]
						case "Neg":
							if len(args) != 1 {
								return 0, false
							}
							r = -args[0]
						case "Add", "Sub", "Mul", "Quo":
							if len(args) != 2 {
								return 0, false
							}
							switch se.Sel.Name {
							case "Add":
								r = args[0] + args[1]
							case "Sub":
								r = args[0] - args[1]
							case "Mul":
								r = args[0] * args[1]
							default:
								r = args[0] / args[1]
							}
						default:
							return 0, false
						}
						// in-place on a named value
						if id, ok := unparen(se.X).(*ast.Ident); ok {
							if o := info.Uses[id]; o != nil {
								env[o] = r
							}
						}
						return r, true
					}
					return 0, false
				}
				for _, st := range clause.Body {
					switch v := st.(type) {
					case *ast.AssignStmt:
						if len(v.Lhs) != 1 || len(v.Rhs) != 1 {
							unknown = exprStringStmt(st)
							break
						}
						id, ok := v.Lhs[0].(*ast.Ident)
						val, ok2 := eval(v.Rhs[0])
						if !ok || !ok2 {
							unknown = exprStringStmt(st)
							break
						}
						o := info.Defs[id]
						if o == nil {
							o = info.Uses[id]
						}
						env[o] = val
					case *ast.ExprStmt:
						if _, ok := eval(v.X); !ok {
							unknown = exprStringStmt(st)
						}
					default:
						unknown = fmt.Sprintf("%T", st)
					}
				}
				if unknown != "" {
					break
				}
				for name, f := range formulas {
					p := &dfParser{s: f, env: sym}
					want := p.expr()
					if p.err != nil || p.pos < len(strings.TrimSpace(f)) {
						unknown = "documented formula " + name + "=" + f
						break
					}
					got, found := 0.0, false
					for o, v := range env {
						if o != nil && o.Name() == name {
							got, found = v, true
						}
					}
					if !found {
						unknown = "no value named " + name
						break
					}
					if math.Abs(got-want) > 1e-9*(1+math.Abs(want)) {
						mismatch = fmt.Sprintf("%s: documented %s gives %.6g at a=%g, b=%g, the code computes %.6g", name, f, want, sp[0], sp[1], got)
					}
				}
			}
			switch {
			case unknown != "":
				out = append(out, incOb("DOCFORM", key, c.Rel(clause.Pos()), "the interpreter does not know "+unknown))
			case mismatch != "":
				out = append(out, violOb("DOCFORM", key, c.Rel(clause.Pos()), fmt.Sprintf("%s (%s): %s", fkey, te.label, mismatch)))
			default:
				out = append(out, okOb("DOCFORM", key, c.Rel(clause.Pos()), fmt.Sprintf("the code computes the documented formulas %v (identity tested at %d sample points)", formulas, len(samples)), true))
			}
		}
	})
	c.Stats["docform_sites"] = n
	return out
}

func init() {
	core.Register(&core.Rule{Name: "DOCFORM", Props: []string{"C13"},
		Doc: "for the functions of a frozen table, the straight-line big.Float code of the documented case, interpreted as rational functions of the symbols a, b, agrees with the closed formulas stated in the doc comment at fixed sample points (polynomial identity testing; unknown statements make the obligation incomplete)",
		Run: func(c *core.Ctx) []ob {
			out := scanDocForm(c)
			out = append(out, control(c, "DOCFORM", scanDocForm, "changeOfBasis")...)
			out = append(out, core.Floor("DOCFORM", nil, "documented formulas", c.Stats["docform_sites"], 1)...)
			return out
		}})
}

// DIRMAX — the level at which the input of several linear transformations is decomposed is the *largest* of their levels.
//
// `EvaluateMany` hoists one RNS decomposition of the input and reuses it for every transformation; each transformation
// then works at min(its own level, …). The shared decomposition therefore has to exist at the highest level any of
// them needs: `levelQ = max(levelQ, lt.LevelQ)` over the list, then min with the input's level. The same loop with
// `min` passes every test that encodes all transformations at one level and gives garbage for the others; it was
// written three times by the seeding agents.
//
// Frozen table (function, accumulator, element selector): inside the function, every update of the accumulator from
// the element in a loop over the list takes the larger of the two — `utils.Max(acc, x)`, `max(acc, x)`,
// `if x > acc { acc = x }` / `if acc < x { acc = x }` — never the smaller.
var dirMaxTable = []struct{ fn, acc, elem, why string }{
	{"circuits/common/lintrans.(Evaluator).EvaluateMany", "levelQ", "LevelQ", "the hoisted decomposition of the input must exist at the highest level any transformation of the list works at"},
}

func scanDirMax(c *core.Ctx) []ob {
	var out []ob
	n := 0
	c.FuncDecls(func(pk *packages.Package, file *ast.File, fd *ast.FuncDecl) {
		if fd.Body == nil {
			return
		}
		fkey := core.FuncKey(pk, fd)
		for _, te := range dirMaxTable {
			if te.fn != fkey && !(c.IsFixture && strings.HasSuffix(fkey, "hoistLevel")) {
				continue
			}
			info := pk.TypesInfo
			n++
			key := fmt.Sprintf("DIRMAX:%s#%s", fkey, te.acc)
			isAcc := func(e ast.Expr) bool {
				id, ok := unparen(e).(*ast.Ident)
				return ok && id.Name == te.acc
			}
			isElem := func(e ast.Expr) bool {
				se, ok := unparen(e).(*ast.SelectorExpr)
				return ok && se.Sel.Name == te.elem
			}
			var good, bad []ast.Node
			ast.Inspect(fd.Body, func(x ast.Node) bool {
				loop, ok := x.(*ast.RangeStmt)
				if !ok {
					return true
				}
				ast.Inspect(loop.Body, func(y ast.Node) bool {
					switch v := y.(type) {
					case *ast.AssignStmt:
						if len(v.Lhs) != 1 || len(v.Rhs) != 1 || !isAcc(v.Lhs[0]) {
							return true
						}
						if call, ok := unparen(v.Rhs[0]).(*ast.CallExpr); ok && len(call.Args) == 2 {
							nm := calleeName(info, call)
							if nm == "" {
								if id, ok := unparen(call.Fun).(*ast.Ident); ok {
									nm = id.Name
								}
							}
							if (isAcc(call.Args[0]) && isElem(call.Args[1])) || (isAcc(call.Args[1]) && isElem(call.Args[0])) {
								switch strings.ToLower(nm) {
								case "max":
									good = append(good, v)
								case "min":
									bad = append(bad, v)
								}
							}
						}
					case *ast.IfStmt:
						be, ok := unparen(v.Cond).(*ast.BinaryExpr)
						if !ok || len(v.Body.List) != 1 {
							return true
						}
						as, ok := v.Body.List[0].(*ast.AssignStmt)
						if !ok || len(as.Lhs) != 1 || !isAcc(as.Lhs[0]) || len(as.Rhs) != 1 || !isElem(as.Rhs[0]) {
							return true
						}
						// acc = x when x > acc (larger) / x < acc (smaller)
						larger := (isElem(be.X) && isAcc(be.Y) && (be.Op == token.GTR || be.Op == token.GEQ)) || (isAcc(be.X) && isElem(be.Y) && (be.Op == token.LSS || be.Op == token.LEQ))
						smaller := (isElem(be.X) && isAcc(be.Y) && (be.Op == token.LSS || be.Op == token.LEQ)) || (isAcc(be.X) && isElem(be.Y) && (be.Op == token.GTR || be.Op == token.GEQ))
						if larger {
							good = append(good, v)
						} else if smaller {
							bad = append(bad, v)
						}
					}
					return true
				})
				return true
			})
			switch {
			case len(bad) > 0:
				out = append(out, violOb("DIRMAX", key, c.Rel(bad[0].Pos()), fmt.Sprintf("%s takes the smaller of %s and the element's %s over the list: %s", fkey, te.acc, te.elem, te.why)))
			case len(good) > 0:
				out = append(out, okOb("DIRMAX", key, c.Rel(good[0].Pos()), "the accumulator takes the larger value over the list", true))
			default:
				out = append(out, infoOb("DIRMAX", key, c.Rel(fd.Pos()), "no update of the accumulator from the list elements was recognised: not decided"))
			}
		}
	})
	c.Stats["dirmax_sites"] = n
	return out
}

func init() {
	core.Register(&core.Rule{Name: "DIRMAX", Props: []string{"C12"},
		Doc: "in EvaluateMany (frozen table) the level of the hoisted decomposition is updated from the transformations' levels with a maximum (utils.Max/max or an if that keeps the larger), never a minimum",
		Run: func(c *core.Ctx) []ob {
			out := scanDirMax(c)
			out = append(out, control(c, "DIRMAX", scanDirMax, "hoistLevel")...)
			return out
		}})
}

// PARAMSTORE — a constructor stores the parameter it is given under the field of the same name.
//
// `cmb.threshold = min(threshold, len(others))` ("defensive clamp") makes a Combiner built with t = N and the documented
// list of the *other* parties work with t-1: it accepts too few parties and reconstructs a wrong key.
//
// Rule: in every function named New… / new…, an assignment `x.f = E` or literal element `f: E` whose field name is also
// the name of a parameter of the function has E equal to that parameter — the identifier itself, a conversion or a
// dereference/address of it, or a method call on it without further operands (`params.GetRLWEParameters()`), or a copy
// (`slices.Clone(p)`, `append([]T{}, p...)`) — not an expression that combines it with something else.
func scanParamStore(c *core.Ctx) []ob {
	var out []ob
	n := 0
	c.FuncDecls(func(pk *packages.Package, file *ast.File, fd *ast.FuncDecl) {
		if fd.Body == nil || fileIsTestSupport(c.Program, fd.Pos()) || inExamples(pk) {
			return
		}
		if !strings.HasPrefix(fd.Name.Name, "New") && !strings.HasPrefix(fd.Name.Name, "new") {
			return
		}
		info := pk.TypesInfo
		fn, _ := info.Defs[fd.Name].(*types.Func)
		if fn == nil {
			return
		}
		sig := fn.Type().(*types.Signature)
		params := map[string]types.Object{}
		for i := 0; i < sig.Params().Len(); i++ {
			p := sig.Params().At(i)
			if p.Name() != "" && p.Name() != "_" {
				params[p.Name()] = p
			}
		}
		if len(params) == 0 {
			return
		}
		fkey := core.FuncKey(pk, fd)
		// isParam: E is the parameter itself, possibly wrapped without other operands
		var isParam func(e ast.Expr, p types.Object) bool
		isParam = func(e ast.Expr, p types.Object) bool {
			switch x := unparen(e).(type) {
			case *ast.Ident:
				return info.Uses[x] == p
			case *ast.StarExpr:
				return isParam(x.X, p)
			case *ast.UnaryExpr:
				return x.Op == token.AND && isParam(x.X, p)
			case *ast.SliceExpr:
				return isParam(x.X, p)
			case *ast.CallExpr:
				// conversion T(p), method p.M() without operands, Clone(p), append(x, p...), or the parameter is a factory
				// that is called to make the field
				if id, ok := unparen(x.Fun).(*ast.Ident); ok && info.Uses[id] == p {
					return true
				}
				if tv, ok := info.Types[x.Fun]; ok && tv.IsType() && len(x.Args) == 1 {
					return isParam(x.Args[0], p)
				}
				if se, ok := unparen(x.Fun).(*ast.SelectorExpr); ok {
					if len(x.Args) == 0 && isParam(se.X, p) {
						return true
					}
					if len(x.Args) == 1 && (strings.Contains(se.Sel.Name, "Clone") || strings.Contains(se.Sel.Name, "Copy")) {
						return isParam(x.Args[0], p)
					}
				}
				if id, ok := unparen(x.Fun).(*ast.Ident); ok && id.Name == "append" && len(x.Args) == 2 {
					return isParam(x.Args[1], p)
				}
			}
			return false
		}
		mentions := func(e ast.Expr, p types.Object) bool {
			f := false
			ast.Inspect(e, func(y ast.Node) bool {
				if id, ok := y.(*ast.Ident); ok && info.Uses[id] == p {
					f = true
				}
				return !f
			})
			return f
		}
		reassigned := map[types.Object]bool{}
		ast.Inspect(fd.Body, func(x ast.Node) bool {
			switch v := x.(type) {
			case *ast.AssignStmt:
				for _, l := range v.Lhs {
					if id, ok := l.(*ast.Ident); ok {
						if o := info.Uses[id]; o != nil {
							reassigned[o] = true
						}
					}
				}
			case *ast.IncDecStmt:
				if id, ok := v.X.(*ast.Ident); ok {
					if o := info.Uses[id]; o != nil {
						reassigned[o] = true
					}
				}
			}
			return true
		})
		check := func(field string, e ast.Expr, at ast.Node) {
			p, ok := params[field]
			if !ok || !mentions(e, p) {
				return // another source (a default, a derived object): not this rule's business
			}
			n++
			key := fmt.Sprintf("PARAMSTORE:%s#%s", fkey, field)
			if reassigned[p] {
				out = append(out, withProps(violOb("PARAMSTORE", key, c.Rel(at.Pos()), fmt.Sprintf("%s assigns to its parameter %s before storing it under the field of that name: the object works with another value than the one the caller asked for", fkey, field)), propsForKey(fkey)...))
				return
			}
			if isParam(e, p) {
				out = append(out, withProps(okOb("PARAMSTORE", key, c.Rel(at.Pos()), "the field receives the parameter of the same name as it is", true), propsForKey(fkey)...))
			} else {
				out = append(out, withProps(violOb("PARAMSTORE", key, c.Rel(at.Pos()), fmt.Sprintf("%s stores %s under the field %s although the parameter of that name is given: the object works with another value than the one the caller asked for", fkey, exprString(e), field)), propsForKey(fkey)...))
			}
		}
		ast.Inspect(fd.Body, func(x ast.Node) bool {
			switch v := x.(type) {
			case *ast.AssignStmt:
				if len(v.Lhs) != len(v.Rhs) || v.Tok != token.ASSIGN {
					return true
				}
				for i, l := range v.Lhs {
					if se, ok := unparen(l).(*ast.SelectorExpr); ok {
						if sel := info.Selections[se]; sel != nil && sel.Kind() == types.FieldVal {
							check(se.Sel.Name, v.Rhs[i], v)
						}
					}
				}
			case *ast.KeyValueExpr:
				if id, ok := v.Key.(*ast.Ident); ok {
					if _, isField := info.Uses[id].(*types.Var); isField || info.Uses[id] == nil {
						check(id.Name, v.Value, v)
					}
				}
			}
			return true
		})
	})
	c.Stats["paramstore_sites"] = n
	return out
}

func init() {
	core.Register(&core.Rule{Name: "PARAMSTORE", Wide: true, Props: []string{"C01", "C02", "C03", "C04", "C05", "C06", "C07", "C08", "C09", "C10", "C11", "C12", "C13", "C14", "C15", "C16", "C17", "C18", "C19", "C20"},
		Doc: "in every New…/new… function, a field that has the name of a parameter and is assigned an expression mentioning that parameter receives the parameter itself (identifier, conversion, address, operand-free method call, copy), not a combination of it with something else",
		Run: func(c *core.Ctx) []ob {
			out := scanParamStore(c)
			out = append(out, control(c, "PARAMSTORE", scanParamStore, "lvfixture.newQuorum")...)
			out = append(out, core.Floor("PARAMSTORE", nil, "parameters stored under a field of the same name", c.Stats["paramstore_sites"], 20)...)
			return out
		}})
}

// NEGBOUND — a level that may be -1 is normalised before `level+1` bounds a loop.
//
// "No auxiliary modulus" is levelP = -1. Code that branches on it (`if levelP > -1 { … } else { levelP = 0; … }`) and then
// runs `for k := 0; k < levelP+1; k++` over the primes of one digit relies on the assignment in the else arm: without it
// the loop runs zero times and, for the collective evaluation key, the term sk_in·w is never added (the key encrypts 0).
//
// Rule: when a function tests an integer variable v against -1 (`v > -1`, `v >= 0`, `v != -1`, `v == -1`, `v < 0`) in an
// `if` with both arms, and a later `for` statement has `v+1` in its condition, the arm in which v is -1 assigns v.
func scanNegBound(c *core.Ctx) []ob {
	var out []ob
	n := 0
	c.FuncDecls(func(pk *packages.Package, file *ast.File, fd *ast.FuncDecl) {
		if fd.Body == nil || fileIsTestSupport(c.Program, fd.Pos()) || inExamples(pk) {
			return
		}
		info := pk.TypesInfo
		fkey := core.FuncKey(pk, fd)
		ast.Inspect(fd.Body, func(x ast.Node) bool {
			is, ok := x.(*ast.IfStmt)
			if !ok {
				return true
			}
			eb, ok := is.Else.(*ast.BlockStmt)
			if !ok {
				return true
			}
			cond := unparen(is.Cond)
			// `hasP := levelP > -1; if hasP {…}`: the test through a boolean local with a single definition
			if cid, ok := cond.(*ast.Ident); ok {
				if ds := kernelLenDefs(info, fd, info.Uses[cid]); len(ds) == 1 {
					cond = unparen(ds[0])
				}
			}
			be, ok := cond.(*ast.BinaryExpr)
			if !ok {
				return true
			}
			id, ok := unparen(be.X).(*ast.Ident)
			if !ok {
				return true
			}
			v, ok := info.Uses[id].(*types.Var)
			if !ok || v.IsField() {
				return true
			}
			tv, ok := info.Types[be.Y]
			if !ok || tv.Value == nil {
				return true
			}
			cst := tv.Value.ExactString()
			// which arm has v == -1 (v < 0)?
			var negArm *ast.BlockStmt
			switch {
			case (be.Op == token.GTR && cst == "-1") || (be.Op == token.GEQ && cst == "0") || (be.Op == token.NEQ && cst == "-1"):
				negArm = eb
			case (be.Op == token.EQL && cst == "-1") || (be.Op == token.LSS && cst == "0") || (be.Op == token.LEQ && cst == "-1"):
				negArm = is.Body
			default:
				return true
			}
			// a later loop bounded by v+1
			var loop *ast.ForStmt
			ast.Inspect(fd.Body, func(y ast.Node) bool {
				fs, ok := y.(*ast.ForStmt)
				if !ok || fs.Pos() < is.End() || fs.Cond == nil || loop != nil {
					return true
				}
				ast.Inspect(fs.Cond, func(z ast.Node) bool {
					if b2, ok := z.(*ast.BinaryExpr); ok && b2.Op == token.ADD {
						if i2, ok := unparen(b2.X).(*ast.Ident); ok && info.Uses[i2] == v {
							if t2, ok := info.Types[b2.Y]; ok && t2.Value != nil && t2.Value.ExactString() == "1" {
								loop = fs
							}
						}
					}
					return true
				})
				return true
			})
			if loop == nil {
				return true
			}
			n++
			key := fmt.Sprintf("NEGBOUND:%s#%s", fkey, v.Name())
			assigned, leaves := false, false
			ast.Inspect(negArm, func(y ast.Node) bool {
				switch s := y.(type) {
				case *ast.AssignStmt:
					for _, l := range s.Lhs {
						if i3, ok := l.(*ast.Ident); ok && info.Uses[i3] == v {
							assigned = true
						}
					}
				case *ast.ReturnStmt:
					leaves = true
				}
				return true
			})
			if assigned || leaves {
				out = append(out, withProps(okOb("NEGBOUND", key, c.Rel(is.Pos()), "the arm in which the level is -1 assigns it (or leaves) before it bounds a loop", true), propsForKey(fkey)...))
			} else {
				out = append(out, withProps(violOb("NEGBOUND", key, c.Rel(loop.Pos()), fmt.Sprintf("%s tests %s against -1 at %s and later bounds a loop by %s+1 without assigning %s in the arm where it is -1: the loop runs zero times there", fkey, v.Name(), c.Rel(is.Pos()), v.Name(), v.Name())), propsForKey(fkey)...))
			}
			return true
		})
	})
	c.Stats["negbound_sites"] = n
	return out
}

func init() {
	core.Register(&core.Rule{Name: "NEGBOUND", Props: []string{"C14", "C04", "C16", "C03"},
		Doc: "when an if/else tests an integer variable against -1 and a later for statement has `v+1` in its condition, the arm in which v is -1 assigns v (or returns)",
		Run: func(c *core.Ctx) []ob {
			out := scanNegBound(c)
			for _, o := range control(c, "NEGBOUND", scanNegBound, "lvfixture.digitsOf") {
				out = append(out, withProps(o, "C14", "C04"))
			}
			return out
		}})
}

// ROTSIGN — a rotation index is not tested by its sign.
//
// Rotations are signed (`Replicate` is the inner sum with a negative batch) and are reduced by GaloisElement; only
// "no rotation" (0) is special. An advertiser that files a rotation `if k > 0` ("drop the identity") silently drops
// every negative rotation: the key list for Replicate misses all partial rotations (n = 7, 11, 13, …).
//
// Rule: in every function that stores rotations into an index set or list from which Galois elements are computed
// (a map[int]bool / []int that reaches `GaloisElements(…)`, or direct `GaloisElement(k)` calls), no `if` condition
// compares such a rotation variable with 0 by an ordering operator (<, <=, >, >=); tests against zero are `== 0` / `!= 0`.
func scanRotSign(c *core.Ctx) []ob {
	var out []ob
	n := 0
	c.FuncDecls(func(pk *packages.Package, file *ast.File, fd *ast.FuncDecl) {
		if fd.Body == nil || fileIsTestSupport(c.Program, fd.Pos()) || inExamples(pk) {
			return
		}
		info := pk.TypesInfo
		// rotation variables: int locals/params used as argument of GaloisElement(…) or as key of a map[int]bool
		// that is turned into the argument of GaloisElements(…), or appended to an []int that is
		rot := map[types.Object]bool{}
		usesGal := false
		ast.Inspect(fd.Body, func(x ast.Node) bool {
			switch v := x.(type) {
			case *ast.CallExpr:
				nm := calleeName(info, v)
				if (nm == "GaloisElement") && len(v.Args) == 1 {
					usesGal = true
					ast.Inspect(v.Args[0], func(y ast.Node) bool {
						if id, ok := y.(*ast.Ident); ok {
							if o, ok := info.Uses[id].(*types.Var); ok && !o.IsField() {
								if b, ok := o.Type().Underlying().(*types.Basic); ok && b.Kind() == types.Int {
									rot[o] = true
								}
							}
						}
						return true
					})
				}
				if nm == "GaloisElements" {
					usesGal = true
				}
			}
			return true
		})
		if !usesGal {
			return
		}
		ast.Inspect(fd.Body, func(x ast.Node) bool {
			as, ok := x.(*ast.AssignStmt)
			if !ok {
				return true
			}
			for _, l := range as.Lhs {
				if ie, ok := unparen(l).(*ast.IndexExpr); ok {
					if m, ok := info.TypeOf(ie.X).Underlying().(*types.Map); ok {
						if b, ok := m.Key().Underlying().(*types.Basic); ok && b.Kind() == types.Int {
							if id, ok := unparen(ie.Index).(*ast.Ident); ok {
								if o, ok := info.Uses[id].(*types.Var); ok {
									rot[o] = true
								}
							}
						}
					}
				}
			}
			return true
		})
		if len(rot) == 0 {
			return
		}
		fkey := core.FuncKey(pk, fd)
		n++
		var bad *ast.BinaryExpr
		ast.Inspect(fd.Body, func(x ast.Node) bool {
			is, ok := x.(*ast.IfStmt)
			if !ok {
				return true
			}
			ast.Inspect(is.Cond, func(y ast.Node) bool {
				be, ok := y.(*ast.BinaryExpr)
				if !ok || bad != nil {
					return true
				}
				switch be.Op {
				case token.LSS, token.LEQ, token.GTR, token.GEQ:
				default:
					return true
				}
				for _, pair := range [][2]ast.Expr{{be.X, be.Y}, {be.Y, be.X}} {
					id, ok := unparen(pair[0]).(*ast.Ident)
					if !ok || !rot[info.Uses[id]] {
						continue
					}
					if tv, ok := info.Types[pair[1]]; ok && tv.Value != nil && tv.Value.ExactString() == "0" {
						bad = be
					}
				}
				return true
			})
			return true
		})
		key := "ROTSIGN:" + fkey
		props := []string{"C11", "C12"}
		if bad != nil {
			out = append(out, withProps(violOb("ROTSIGN", key, c.Rel(bad.Pos()), fmt.Sprintf("%s tests the rotation index with `%s`: rotations are signed (a replication is an inner sum with a negative step), an ordering test against 0 drops or mistreats every negative one; only `!= 0` singles out the identity", fkey, exprString(bad))), props...))
		} else {
			out = append(out, withProps(okOb("ROTSIGN", key, c.Rel(fd.Pos()), "no rotation index is compared with 0 by an ordering operator", true), props...))
		}
	})
	c.Stats["rotsign_fns"] = n
	return out
}

func init() {
	core.Register(&core.Rule{Name: "ROTSIGN", Props: []string{"C11", "C12"},
		Doc: "in a function that turns rotation indexes into Galois elements (GaloisElement(k), or an int-keyed set handed to GaloisElements), no if condition compares such an index with 0 by <, <=, >, >=",
		Run: func(c *core.Ctx) []ob {
			out := scanRotSign(c)
			for _, o := range control(c, "ROTSIGN", scanRotSign, "lvfixture.rotationsFor") {
				out = append(out, withProps(o, "C11", "C12"))
			}
			for _, o := range core.Floor("ROTSIGN", nil, "functions turning rotation indexes into Galois elements", c.Stats["rotsign_fns"], 5) {
				out = append(out, withProps(o, "C11", "C12"))
			}
			return out
		}})
}

// FLAGAFTER — an element whose components are transformed in place has its IsNTT flag updated in the same block.
//
// `ringQ.INTT(res[index].Value[0], res[index].Value[0])` (both components) leaves the element in the coefficient
// domain; the `res[index].IsNTT = false` that goes with it is one forgotten line away from a ciphertext that every
// consumer reads in the wrong domain. NTTDOM follows named paths; this rule covers the elements it cannot name (map and
// slice elements) with a local, purely structural check.
//
// Rule (for elements that are members of a map or slice, `res[index]`, `cts[i]` — named elements are NTTDOM's): in a
// statement list, when every component transform of an element expression E is done in place
// (`r.NTT(E.Value[k], E.Value[k])` / `r.INTT(…)`, same expression as source and destination) the same list contains an
// assignment `E.IsNTT = …` (or to E's whole MetaData) after the first of these calls. Elements whose flag is never
// part of their contract (plain polynomials, buffers that are not metadata carriers) are out of scope.
func scanFlagAfter(c *core.Ctx) []ob {
	var out []ob
	n := 0
	c.FuncDecls(func(pk *packages.Package, file *ast.File, fd *ast.FuncDecl) {
		if fd.Body == nil || fileIsTestSupport(c.Program, fd.Pos()) || inExamples(pk) {
			return
		}
		info := pk.TypesInfo
		fkey := core.FuncKey(pk, fd)
		ord := 0
		var visit func(list []ast.Stmt)
		visit = func(list []ast.Stmt) {
			type site struct {
				pos token.Pos
				op  string
			}
			first := map[string]site{}
			flagSet := map[string]token.Pos{}
			for _, st := range list {
				switch v := st.(type) {
				case *ast.ExprStmt:
					call, ok := v.X.(*ast.CallExpr)
					if !ok || len(call.Args) != 2 {
						break
					}
					se, ok := unparen(call.Fun).(*ast.SelectorExpr)
					if !ok || (se.Sel.Name != "NTT" && se.Sel.Name != "INTT") {
						break
					}
					if exprString(call.Args[0]) != exprString(call.Args[1]) {
						break
					}
					ie, ok := unparen(call.Args[0]).(*ast.IndexExpr)
					if !ok {
						break
					}
					vs, ok := unparen(ie.X).(*ast.SelectorExpr)
					if !ok || vs.Sel.Name != "Value" || !isMetaCarrier(info.TypeOf(vs.X)) {
						break
					}
					// only elements NTTDOM cannot name: members of a map or slice of elements (`res[index]`, `cts[i]`)
					if _, isIdx := unparen(vs.X).(*ast.IndexExpr); !isIdx {
						break
					}
					e := exprString(vs.X)
					if _, seen := first[e]; !seen {
						first[e] = site{call.Pos(), se.Sel.Name}
					}
				case *ast.AssignStmt:
					for _, l := range v.Lhs {
						ls := exprString(l)
						for _, suf := range []string{".IsNTT", ".MetaData", ".MetaData.IsNTT"} {
							if strings.HasSuffix(ls, suf) {
								flagSet[strings.TrimSuffix(ls, suf)] = v.Pos()
							}
						}
						if st, ok := unparen(l).(*ast.StarExpr); ok && strings.HasSuffix(exprString(st.X), ".MetaData") {
							flagSet[strings.TrimSuffix(exprString(st.X), ".MetaData")] = v.Pos()
						}
					}
				}
				// nested lists
				switch v := st.(type) {
				case *ast.IfStmt:
					visit(v.Body.List)
					if eb, ok := v.Else.(*ast.BlockStmt); ok {
						visit(eb.List)
					} else if ei, ok := v.Else.(*ast.IfStmt); ok {
						visit([]ast.Stmt{ei})
					}
				case *ast.ForStmt:
					visit(v.Body.List)
				case *ast.RangeStmt:
					visit(v.Body.List)
				case *ast.BlockStmt:
					visit(v.List)
				case *ast.SwitchStmt:
					for _, cc := range v.Body.List {
						visit(cc.(*ast.CaseClause).Body)
					}
				case *ast.TypeSwitchStmt:
					for _, cc := range v.Body.List {
						visit(cc.(*ast.CaseClause).Body)
					}
				}
			}
			for e, s := range first {
				n++
				ord++
				key := fmt.Sprintf("FLAGAFTER:%s#%s@%d", fkey, e, ord)
				if p, ok := flagSet[e]; ok && p > s.pos {
					out = append(out, withProps(okOb("FLAGAFTER", key, c.Rel(s.pos), "the flag of the element is assigned after its components are transformed in place", true), propsForKey(fkey)...))
				} else {
					out = append(out, withProps(violOb("FLAGAFTER", key, c.Rel(s.pos), fmt.Sprintf("%s applies %s in place to the components of %s and the same block never assigns %s.IsNTT afterwards: the element leaves with the flag of the domain it came in with", fkey, s.op, e, e)), propsForKey(fkey)...))
				}
			}
		}
		visit(fd.Body.List)
	})
	c.Stats["flagafter_sites"] = n
	return out
}

func init() {
	core.Register(&core.Rule{Name: "FLAGAFTER", Props: []string{"C20", "C04", "C03", "C11", "C05", "C06", "C16", "C14", "C18", "C12", "C13"},
		Doc: "in a statement list, a member of a map/slice of elements whose components are transformed in place by NTT/INTT (same expression as source and destination) has its IsNTT flag (or whole MetaData) assigned later in the same list",
		Run: func(c *core.Ctx) []ob {
			out := scanFlagAfter(c)
			for _, o := range control(c, "FLAGAFTER", scanFlagAfter, "(fixEvaluator).ToCoeffs") {
				out = append(out, withProps(o, "C20", "C04"))
			}
			return out
		}})
}

// depGraph: flow-insensitive value dependences inside a block — `x = E` makes x depend on the variables of E; a call
// `r.M(a, b)` (other than read-only big-number methods) makes r and every pointer-like argument depend on all operands.
func depGraph(info *types.Info, body ast.Node) map[types.Object]map[types.Object]bool {
	deps := map[types.Object]map[types.Object]bool{}
	add := func(dst types.Object, src ast.Node) {
		if dst == nil {
			return
		}
		if deps[dst] == nil {
			deps[dst] = map[types.Object]bool{}
		}
		ast.Inspect(src, func(x ast.Node) bool {
			if id, ok := x.(*ast.Ident); ok {
				if v, ok := info.Uses[id].(*types.Var); ok && !v.IsField() {
					deps[dst][v] = true
				}
			}
			return true
		})
	}
	ast.Inspect(body, func(x ast.Node) bool {
		switch v := x.(type) {
		case *ast.AssignStmt:
			for i, l := range v.Lhs {
				id := rootIdent(l)
				if id == nil {
					continue
				}
				o := info.Defs[id]
				if o == nil {
					o = info.Uses[id]
				}
				if len(v.Rhs) == len(v.Lhs) {
					add(o, v.Rhs[i])
				} else if len(v.Rhs) == 1 {
					add(o, v.Rhs[0])
				}
			}
		case *ast.CallExpr:
			se, ok := unparen(v.Fun).(*ast.SelectorExpr)
			if ok {
				switch se.Sel.Name {
				case "Cmp", "CmpAbs", "Sign", "BitLen", "Uint64", "Int64", "IsInt64", "IsUint64", "String", "Float64", "Text":
					return true
				}
			}
			var ptrs []types.Object
			var all []ast.Node
			if ok {
				all = append(all, se.X)
				if id := rootIdent(se.X); id != nil {
					if o, ok := info.Uses[id].(*types.Var); ok && !o.IsField() {
						ptrs = append(ptrs, o)
					}
				}
			}
			for _, a := range v.Args {
				all = append(all, a)
				if id, ok := unparen(a).(*ast.Ident); ok {
					if o, ok := info.Uses[id].(*types.Var); ok && pointerLike(o.Type()) {
						ptrs = append(ptrs, o)
					}
				}
			}
			for _, p := range ptrs {
				for _, a := range all {
					add(p, a)
				}
			}
		}
		return true
	})
	return deps
}

func depReaches(deps map[types.Object]map[types.Object]bool, from types.Object, targets map[types.Object]bool, seen map[types.Object]bool) bool {
	if targets[from] {
		return true
	}
	if seen[from] {
		return false
	}
	seen[from] = true
	for d := range deps[from] {
		if depReaches(deps, d, targets, seen) {
			return true
		}
	}
	return false
}

// ITERACC — the error of iteration i of the iterated bootstrapping is scaled by the precision reached so far.
//
// META-BTS bootstraps the residual error e_i, which after i rounds lies 2^{p_1+…+p_i} below the message: the factor
// `prec` that scales it up must be 2 to the *sum* of the per-iteration precisions. Scaling by 2^{p_i} alone leaves the
// second and later iterations without effect (or destroys the message); with one iteration — all the tests run — both
// are the same number. The accumulation was dropped by two seeding agents independently.
//
// Frozen table (function, list): in the loop of the function that indexes the list, a variable is accumulated with `+=`
// from the list's element, and the big integer named `prec` computed in that loop depends on such an accumulator.
var iterAccTable = []struct{ fn, list, consumer string }{
	{"circuits/ckks/bootstrapping.(Evaluator).Evaluate", "BootstrappingPrecision", "prec"},
}

func scanIterAcc(c *core.Ctx) []ob {
	var out []ob
	n := 0
	c.FuncDecls(func(pk *packages.Package, file *ast.File, fd *ast.FuncDecl) {
		if fd.Body == nil {
			return
		}
		fkey := core.FuncKey(pk, fd)
		for _, te := range iterAccTable {
			if te.fn != fkey && !(c.IsFixture && strings.HasSuffix(fkey, "refineAll")) {
				continue
			}
			info := pk.TypesInfo
			var loop *ast.ForStmt
			ast.Inspect(fd.Body, func(x ast.Node) bool {
				fs, ok := x.(*ast.ForStmt)
				if !ok || loop != nil {
					return true
				}
				if strings.Contains(exprString(fs.Cond), te.list) {
					loop = fs
				}
				return true
			})
			n++
			key := fmt.Sprintf("ITERACC:%s#%s", fkey, te.consumer)
			if loop == nil {
				out = append(out, infoOb("ITERACC", key, c.Rel(fd.Pos()), "no loop over "+te.list+": not decided"))
				continue
			}
			deps := depGraph(info, loop.Body)
			// elements of the list read in the loop
			elems := map[types.Object]bool{}
			ast.Inspect(loop.Body, func(x ast.Node) bool {
				if as, ok := x.(*ast.AssignStmt); ok && len(as.Lhs) == len(as.Rhs) {
					for i, r := range as.Rhs {
						if strings.Contains(exprString(r), te.list+"[") {
							if id := rootIdent(as.Lhs[i]); id != nil {
								o := info.Defs[id]
								if o == nil {
									o = info.Uses[id]
								}
								if o != nil {
									elems[o] = true
								}
							}
						}
					}
				}
				return true
			})
			accs := map[types.Object]bool{}
			ast.Inspect(loop.Body, func(x ast.Node) bool {
				if as, ok := x.(*ast.AssignStmt); ok && as.Tok == token.ADD_ASSIGN && len(as.Lhs) == 1 {
					if id, ok := as.Lhs[0].(*ast.Ident); ok {
						o := info.Uses[id]
						dep := strings.Contains(exprString(as.Rhs[0]), te.list+"[")
						for _, ro := range func() []types.Object {
							var r []types.Object
							ast.Inspect(as.Rhs[0], func(y ast.Node) bool {
								if i2, ok := y.(*ast.Ident); ok {
									if v, ok := info.Uses[i2].(*types.Var); ok {
										r = append(r, v)
									}
								}
								return true
							})
							return r
						}() {
							if elems[ro] {
								dep = true
							}
						}
						if o != nil && dep {
							accs[o] = true
						}
					}
				}
				return true
			})
			var consumer types.Object
			for o := range deps {
				if o != nil && o.Name() == te.consumer {
					consumer = o
				}
			}
			switch {
			case consumer == nil:
				out = append(out, infoOb("ITERACC", key, c.Rel(loop.Pos()), "no value named "+te.consumer+" is computed in the loop: not decided"))
			case len(accs) > 0 && depReaches(deps, consumer, accs, map[types.Object]bool{}):
				out = append(out, okOb("ITERACC", key, c.Rel(loop.Pos()), "the scaling factor depends on the precision accumulated over the iterations", true))
			default:
				out = append(out, violOb("ITERACC", key, c.Rel(loop.Pos()), fmt.Sprintf("%s computes %s in the loop over %s from the current element only (no `+=` accumulator of the elements reaches it): the residual error of iteration i has to be scaled by the precision reached over iterations 1..i", fkey, te.consumer, te.list)))
			}
		}
	})
	c.Stats["iteracc_sites"] = n
	return out
}

func init() {
	core.Register(&core.Rule{Name: "ITERACC", Props: []string{"C18"},
		Doc: "in the iterated bootstrapping loop (frozen table), the scaling factor `prec` depends on a variable accumulated with += from the per-iteration precisions, not on the current precision alone",
		Run: func(c *core.Ctx) []ob {
			out := scanIterAcc(c)
			out = append(out, control(c, "ITERACC", scanIterAcc, "refineAll")...)
			return out
		}})
}

// ADVFWD — a scheme-level wrapper forwards its arguments to the core function of the same name unchanged.
//
// `bgv.Parameters.GaloisElementsForInnerSum(batch, n)` is `rlwe.GaloisElementsForInnerSum(p, batch, n)` plus the row
// rotation. A wrapper that "optimises" the forwarded argument (n>>1 when the sum spans both rows) advertises the list
// of another operation: the same list provisions RotateAndAdd, which then misses keys. Two seeding agents made that
// change independently. The rule is about the shape of a thin wrapper, not about values:
//
// for every method or function F outside core/ that calls a function or method of another package with the same name
// F, each argument in the position of an integer callee parameter that has the name and type of one of F's own
// parameters is that parameter itself, or its negation (Replicate is the inner sum with a negative batch).
func advProps(fkey string) []string {
	ps := append([]string{}, propsForKey(fkey)...)
	if strings.Contains(fkey, "Galois") && !containsStr(ps, "C11") {
		ps = append(ps, "C11")
	}
	return ps
}

func scanAdvFwd(c *core.Ctx) []ob {
	var out []ob
	n := 0
	c.FuncDecls(func(pk *packages.Package, file *ast.File, fd *ast.FuncDecl) {
		if fd.Body == nil || fileIsTestSupport(c.Program, fd.Pos()) || inExamples(pk) {
			return
		}
		info := pk.TypesInfo
		own := map[string]types.Object{}
		for _, f := range fd.Type.Params.List {
			for _, nm := range f.Names {
				if o := info.Defs[nm]; o != nil && nm.Name != "_" {
					own[nm.Name] = o
				}
			}
		}
		if len(own) == 0 {
			return
		}
		fkey := core.FuncKey(pk, fd)
		ast.Inspect(fd.Body, func(x ast.Node) bool {
			call, ok := x.(*ast.CallExpr)
			if !ok {
				return true
			}
			fn := calleeFunc(info, call)
			if fn == nil || fn.Name() != fd.Name.Name || fn.Pkg() == nil {
				return true
			}
			if fn.Pkg() == pk.Types && !c.IsFixture {
				return true
			}
			if c.IsFixture && !strings.HasPrefix(fd.Name.Name, "RotationsForFold") {
				return true
			}
			sig, ok := fn.Type().(*types.Signature)
			if !ok || sig.Variadic() {
				return true
			}
			for j, a := range call.Args {
				if j >= sig.Params().Len() {
					break
				}
				pn := sig.Params().At(j).Name()
				o, ok := own[pn]
				if !ok {
					continue
				}
				if b, ok := o.Type().Underlying().(*types.Basic); !ok || b.Info()&types.IsInteger == 0 || !types.Identical(o.Type(), sig.Params().At(j).Type()) {
					continue
				}
				n++
				key := fmt.Sprintf("ADVFWD:%s->%s#%s", fkey, fn.Name(), pn)
				e := unparen(a)
				if ue, ok := e.(*ast.UnaryExpr); ok && ue.Op == token.SUB {
					e = unparen(ue.X)
				}
				if id, ok := e.(*ast.Ident); ok && info.Uses[id] == o {
					out = append(out, withProps(okOb("ADVFWD", key, c.Rel(call.Pos()), "forwarded unchanged", true), advProps(fkey)...))
					continue
				}
				out = append(out, withProps(violOb("ADVFWD", key, c.Rel(a.Pos()), fmt.Sprintf("%s wraps %s.%s but passes `%s` for its parameter %s: a thin wrapper forwards the argument itself (the list/result it returns is documented as that of the wrapped operation for the caller's arguments)", fkey, fn.Pkg().Name(), fn.Name(), exprString(a), pn)), advProps(fkey)...))
			}
			return true
		})
	})
	c.Stats["advfwd_sites"] = n
	return out
}

func init() {
	core.Register(&core.Rule{Name: "ADVFWD", Props: []string{"C11", "C12"}, Wide: true,
		Doc: "a function that calls a same-named function of another package passes, for every integer callee parameter that has the name and type of one of its own parameters, that parameter itself (or its negation)",
		Run: func(c *core.Ctx) []ob {
			out := scanAdvFwd(c)
			for _, o := range control(c, "ADVFWD", scanAdvFwd, "RotationsForFold") {
				out = append(out, withProps(o, "C11", "C12"))
			}
			return out
		}})
}

func containsStr(l []string, s string) bool {
	for _, x := range l {
		if x == s {
			return true
		}
	}
	return false
}

// DOCINV — the helper that maps the normalised interval back is the inverse of the documented change of basis.
//
// InitTestPolynomial documents that inputs are normalised with `(2*x - a - b)/(b-a)`; the test polynomial is sampled
// through `normalizeInv`, a one-expression function, which therefore has to undo exactly that map. With the interval
// [-1, 1] of every test (a+b = 0, b-a = 2) most wrong inverses coincide with the right one.
//
// Frozen table (helper, documenting function). The documented expression (the parenthesised formula in x, a, b after
// the words "change of basis") and the helper's return expression are both evaluated by the checker's own
// four-operation interpreter at three sample triples with a+b != 0 and b-a != 2: helper(doc(x)) = x.
var docInvTable = []struct{ helper, doc string }{
	{"core/rgsw/blindrot.normalizeInv", "core/rgsw/blindrot.InitTestPolynomial"},
}

func scanDocInv(c *core.Ctx) []ob {
	var out []ob
	n := 0
	type found struct {
		expr   string
		params []string
		pos    token.Pos
	}
	helpers := map[string]found{}
	docs := map[string]string{}
	c.FuncDecls(func(pk *packages.Package, file *ast.File, fd *ast.FuncDecl) {
		if fd.Body == nil {
			return
		}
		fkey := core.FuncKey(pk, fd)
		for _, te := range docInvTable {
			h, d := te.helper, te.doc
			if c.IsFixture {
				h, d = "", ""
				if strings.HasSuffix(fkey, "unscaleBack") {
					h = fkey
				}
				if strings.HasSuffix(fkey, "tableFor") {
					d = fkey
				}
			}
			if fkey == h && len(fd.Body.List) == 1 {
				if rs, ok := fd.Body.List[0].(*ast.ReturnStmt); ok && len(rs.Results) == 1 {
					var ps []string
					for _, f := range fd.Type.Params.List {
						for _, nm := range f.Names {
							ps = append(ps, nm.Name)
						}
					}
					helpers[te.helper] = found{exprString(rs.Results[0]), ps, fd.Pos()}
				}
			}
			if fkey == d && fd.Doc != nil {
				txt := strings.Join(strings.Fields(fd.Doc.Text()), " ")
				if m := regexp.MustCompile(`change of basis (\([^.]*\)/\([^)]*\))`).FindStringSubmatch(txt); m != nil {
					docs[te.helper] = m[1]
				}
			}
		}
	})
	for _, te := range docInvTable {
		n++
		name := te.helper
		if c.IsFixture {
			name = "lvfixture.unscaleBack"
		}
		key := "DOCINV:" + name
		h, okh := helpers[te.helper]
		d, okd := docs[te.helper]
		switch {
		case !okh:
			if c.IsFixture {
				continue
			}
			out = append(out, incOb("DOCINV", key, "", "the helper is no longer a single return expression"))
			continue
		case !okd:
			out = append(out, infoOb("DOCINV", key, c.Rel(h.pos), "the documenting function no longer states the change of basis: not decided"))
			continue
		}
		bad := ""
		for _, s := range [][3]float64{{0.3, -2, 5}, {-0.7, 1, 9}, {1.0, -8, -3}} {
			x, a, b := s[0], s[1], s[2]
			dp := &dfParser{s: d, env: map[string]float64{"x": x, "a": a, "b": b}}
			y := dp.expr()
			env := map[string]float64{}
			if len(h.params) == 3 {
				env[strings.ToLower(h.params[0])] = y
				env[strings.ToLower(h.params[1])] = a
				env[strings.ToLower(h.params[2])] = b
			}
			hp := &dfParser{s: h.expr, env: env}
			back := hp.expr()
			if dp.err != nil || hp.err != nil {
				bad = fmt.Sprintf("cannot interpret (%v / %v)", dp.err, hp.err)
				out = append(out, infoOb("DOCINV", key, c.Rel(h.pos), bad+": not decided"))
				break
			}
			if math.Abs(back-x) > 1e-9 {
				bad = fmt.Sprintf("for x=%g on [%g, %g] the documented normalisation gives %g and the helper maps it back to %g", x, a, b, y, back)
				out = append(out, violOb("DOCINV", key, c.Rel(h.pos), fmt.Sprintf("%s returns `%s`, which is not the inverse of the documented change of basis %s: %s", name, h.expr, d, bad)))
				break
			}
		}
		if bad == "" {
			out = append(out, okOb("DOCINV", key, c.Rel(h.pos), "the helper undoes the documented change of basis "+d, true))
		}
	}
	c.Stats["docinv_sites"] = n
	return out
}

func init() {
	core.Register(&core.Rule{Name: "DOCINV", Props: []string{"C20"},
		Doc: "the one-expression helper that maps the normalised interval back (frozen table) composed with the change of basis stated in the doc comment of the test-polynomial constructor is the identity at three sample triples (both expressions evaluated by the checker's four-operation interpreter)",
		Run: func(c *core.Ctx) []ob {
			out := scanDocInv(c)
			out = append(out, control(c, "DOCINV", scanDocInv, "unscaleBack")...)
			return out
		}})
}
