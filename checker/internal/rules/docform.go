package rules

import (
	"fmt"
	"go/ast"
	"go/token"
	"go/types"
	"math"
	"regexp"
	"strconv"
	"strings"

	"golang.org/x/tools/go/packages"

	"lvcheck/internal/core"
)

// DOCFORM — a documented closed formula is the formula the code computes.
//
// `ChangeOfBasis` documents `Chebyshev: scalar=2/(b-a), constant = (-a-b)/(b-a)`. The body builds these with a chain of
// big.Float operations; a "simplification" `constant = new(big.Float).Add(&p.A, &p.B)` flips the sign of the offset and
// is invisible on the symmetric intervals every test and example uses (a+b = 0).
//
// The rule interprets, without running anything, the straight-line big.Float code of the documented case (Set, Neg, Add,
// Sub, Mul, Quo, SetInt64, SetFloat64 on fresh or named values; `&p.A`, `&p.B` are the symbols a, b) as rational
// functions of the symbols, evaluates both the interpreted program and the documented formula at a few fixed sample
// points, and demands that they agree (polynomial identity testing over the rationals). A statement the interpreter does
// not know makes the obligation analysis-incomplete, never a pass.
//
// Frozen table: (function, case label in the doc comment and in the switch).
var docFormTable = []struct{ fn, label string }{
	{"utils/bignum.(Polynomial).ChangeOfBasis", "Chebyshev"},
}

type dfParser struct {
	s   string
	pos int
	env map[string]float64
	err error
}

func (p *dfParser) ws() {
	for p.pos < len(p.s) && (p.s[p.pos] == ' ' || p.s[p.pos] == '\t') {
		p.pos++
	}
}

func (p *dfParser) expr() float64 {
	v := p.term()
	for {
		p.ws()
		if p.pos < len(p.s) && (p.s[p.pos] == '+' || p.s[p.pos] == '-') {
			op := p.s[p.pos]
			p.pos++
			r := p.term()
			if op == '+' {
				v += r
			} else {
				v -= r
			}
			continue
		}
		return v
	}
}

func (p *dfParser) term() float64 {
	v := p.factor()
	for {
		p.ws()
		if p.pos < len(p.s) && (p.s[p.pos] == '*' || p.s[p.pos] == '/') {
			op := p.s[p.pos]
			p.pos++
			r := p.factor()
			if op == '*' {
				v *= r
			} else {
				v /= r
			}
			continue
		}
		return v
	}
}

func (p *dfParser) factor() float64 {
	p.ws()
	if p.pos >= len(p.s) {
		p.err = fmt.Errorf("unexpected end")
		return 0
	}
	switch c := p.s[p.pos]; {
	case c == '-':
		p.pos++
		return -p.factor()
	case c == '(':
		p.pos++
		v := p.expr()
		p.ws()
		if p.pos < len(p.s) && p.s[p.pos] == ')' {
			p.pos++
		} else {
			p.err = fmt.Errorf("missing )")
		}
		return v
	case c >= '0' && c <= '9':
		st := p.pos
		for p.pos < len(p.s) && (p.s[p.pos] >= '0' && p.s[p.pos] <= '9' || p.s[p.pos] == '.') {
			p.pos++
		}
		v, _ := strconv.ParseFloat(p.s[st:p.pos], 64)
		return v
	case c >= 'a' && c <= 'z' || c >= 'A' && c <= 'Z':
		st := p.pos
		for p.pos < len(p.s) && (p.s[p.pos] >= 'a' && p.s[p.pos] <= 'z' || p.s[p.pos] >= 'A' && p.s[p.pos] <= 'Z') {
			p.pos++
		}
		if v, ok := p.env[strings.ToLower(p.s[st:p.pos])]; ok {
			return v
		}
		p.err = fmt.Errorf("unknown symbol %s", p.s[st:p.pos])
		return 0
	}
	p.err = fmt.Errorf("unexpected %q", p.s[p.pos])
	return 0
}

func scanDocForm(c *core.Ctx) []ob {
	var out []ob
	n := 0
	c.FuncDecls(func(pk *packages.Package, file *ast.File, fd *ast.FuncDecl) {
		if fd.Body == nil || fd.Doc == nil {
			return
		}
		fkey := core.FuncKey(pk, fd)
		for _, te := range docFormTable {
			if te.fn != fkey && !(c.IsFixture && strings.HasSuffix(fkey, "changeOfBasis")) {
				continue
			}
			info := pk.TypesInfo
			n++
			key := fmt.Sprintf("DOCFORM:%s#%s", fkey, te.label)
			// documented formulas: "<label>: name=expr, name = expr."
			doc := fd.Doc.Text()
			var line string
			for _, l := range strings.Split(doc, "\n") {
				if strings.Contains(l, te.label+":") {
					line = l[strings.Index(l, te.label+":")+len(te.label)+1:]
				}
			}
			formulas := map[string]string{}
			for _, m := range regexp.MustCompile(`([A-Za-z]+)\s*=\s*([^,;]+?)\s*(?:,|;|\.?\s*$)`).FindAllStringSubmatch(line, -1) {
				formulas[m[1]] = strings.TrimSuffix(strings.TrimSpace(m[2]), ".")
			}
			if len(formulas) == 0 {
				out = append(out, infoOb("DOCFORM", key, c.Rel(fd.Pos()), "the doc comment no longer states formulas for this case: not decided"))
				continue
			}
			// the case clause with that label
			var clause *ast.CaseClause
			ast.Inspect(fd.Body, func(x ast.Node) bool {
				if cc, ok := x.(*ast.CaseClause); ok {
					for _, e := range cc.List {
						if strings.HasSuffix(exprString(e), te.label) {
							clause = cc
						}
					}
				}
				return true
			})
			if clause == nil {
				out = append(out, incOb("DOCFORM", key, c.Rel(fd.Pos()), "no case clause for "+te.label))
				continue
			}
			// interpret at sample points
			samples := [][2]float64{{1, 5}, {-3, 2}, {0.5, 7.25}}
			mismatch, unknown := "", ""
			for _, sp := range samples {
				sym := map[string]float64{"a": sp[0], "b": sp[1]}
				env := map[types.Object]float64{}
				var eval func(e ast.Expr) (float64, bool)
				eval = func(e ast.Expr) (float64, bool) {
					e = unparen(e)
					switch x := e.(type) {
					case *ast.UnaryExpr:
						if x.Op == token.AND {
							return eval(x.X)
						}
					case *ast.SelectorExpr:
						if v, ok := sym[strings.ToLower(x.Sel.Name)]; ok && len(x.Sel.Name) == 1 {
							return v, true
						}
					case *ast.Ident:
						if v, ok := env[info.Uses[x]]; ok {
							return v, true
						}
					case *ast.BasicLit:
						if v, err := strconv.ParseFloat(x.Value, 64); err == nil {
							return v, true
						}
					case *ast.CallExpr:
						// new(big.Float)
						if id, ok := unparen(x.Fun).(*ast.Ident); ok && id.Name == "new" {
							return 0, true
						}
						se, ok := unparen(x.Fun).(*ast.SelectorExpr)
						if !ok {
							return 0, false
						}
						var args []float64
						for _, a := range x.Args {
							v, ok := eval(a)
							if !ok {
								return 0, false
							}
							args = append(args, v)
						}
						if _, ok := eval(se.X); !ok {
							return 0, false
						}
						var r float64
						switch se.Sel.Name {
						case "Set", "SetInt64", "SetFloat64", "Copy":
							if len(args) != 1 {
								return 0, false
							}
							r = args[0]
						case "Neg":
							if len(args) != 1 {
								return 0, false
							}
							r = -args[0]
						case "Add", "Sub", "Mul", "Quo":
							if len(args) != 2 {
								return 0, false
							}
							switch se.Sel.Name {
							case "Add":
								r = args[0] + args[1]
							case "Sub":
								r = args[0] - args[1]
							case "Mul":
								r = args[0] * args[1]
							default:
								r = args[0] / args[1]
							}
						default:
							return 0, false
						}
						// in-place on a named value
						if id, ok := unparen(se.X).(*ast.Ident); ok {
							if o := info.Uses[id]; o != nil {
								env[o] = r
							}
						}
						return r, true
					}
					return 0, false
				}
				for _, st := range clause.Body {
					switch v := st.(type) {
					case *ast.AssignStmt:
						if len(v.Lhs) != 1 || len(v.Rhs) != 1 {
							unknown = exprStringStmt(st)
							break
						}
						id, ok := v.Lhs[0].(*ast.Ident)
						val, ok2 := eval(v.Rhs[0])
						if !ok || !ok2 {
							unknown = exprStringStmt(st)
							break
						}
						o := info.Defs[id]
						if o == nil {
							o = info.Uses[id]
						}
						env[o] = val
					case *ast.ExprStmt:
						if _, ok := eval(v.X); !ok {
							unknown = exprStringStmt(st)
						}
					default:
						unknown = fmt.Sprintf("%T", st)
					}
				}
				if unknown != "" {
					break
				}
				for name, f := range formulas {
					p := &dfParser{s: f, env: sym}
					want := p.expr()
					if p.err != nil || p.pos < len(strings.TrimSpace(f)) {
						unknown = "documented formula " + name + "=" + f
						break
					}
					got, found := 0.0, false
					for o, v := range env {
						if o != nil && o.Name() == name {
							got, found = v, true
						}
					}
					if !found {
						unknown = "no value named " + name
						break
					}
					if math.Abs(got-want) > 1e-9*(1+math.Abs(want)) {
						mismatch = fmt.Sprintf("%s: documented %s gives %.6g at a=%g, b=%g, the code computes %.6g", name, f, want, sp[0], sp[1], got)
					}
				}
			}
			switch {
			case unknown != "":
				out = append(out, incOb("DOCFORM", key, c.Rel(clause.Pos()), "the interpreter does not know "+unknown))
			case mismatch != "":
				out = append(out, violOb("DOCFORM", key, c.Rel(clause.Pos()), fmt.Sprintf("%s (%s): %s", fkey, te.label, mismatch)))
			default:
				out = append(out, okOb("DOCFORM", key, c.Rel(clause.Pos()), fmt.Sprintf("the code computes the documented formulas %v (identity tested at %d sample points)", formulas, len(samples)), true))
			}
		}
	})
	c.Stats["docform_sites"] = n
	return out
}

func init() {
	core.Register(&core.Rule{Name: "DOCFORM", Props: []string{"C13"},
		Doc: "for the functions of a frozen table, the straight-line big.Float code of the documented case, interpreted as rational functions of the symbols a, b, agrees with the closed formulas stated in the doc comment at fixed sample points (polynomial identity testing; unknown statements make the obligation incomplete)",
		Run: func(c *core.Ctx) []ob {
			out := scanDocForm(c)
			out = append(out, control(c, "DOCFORM", scanDocForm, "changeOfBasis")...)
			out = append(out, core.Floor("DOCFORM", nil, "documented formulas", c.Stats["docform_sites"], 1)...)
			return out
		}})
}

// DIRMAX — the level at which the input of several linear transformations is decomposed is the *largest* of their levels.
//
// `EvaluateMany` hoists one RNS decomposition of the input and reuses it for every transformation; each transformation
// then works at min(its own level, …). The shared decomposition therefore has to exist at the highest level any of
// them needs: `levelQ = max(levelQ, lt.LevelQ)` over the list, then min with the input's level. The same loop with
// `min` passes every test that encodes all transformations at one level and gives garbage for the others; it was
// written three times by the seeding agents.
//
// Frozen table (function, accumulator, element selector): inside the function, every update of the accumulator from
// the element in a loop over the list takes the larger of the two — `utils.Max(acc, x)`, `max(acc, x)`,
// `if x > acc { acc = x }` / `if acc < x { acc = x }` — never the smaller.
var dirMaxTable = []struct{ fn, acc, elem, why string }{
	{"circuits/common/lintrans.(Evaluator).EvaluateMany", "levelQ", "LevelQ", "the hoisted decomposition of the input must exist at the highest level any transformation of the list works at"},
}

func scanDirMax(c *core.Ctx) []ob {
	var out []ob
	n := 0
	c.FuncDecls(func(pk *packages.Package, file *ast.File, fd *ast.FuncDecl) {
		if fd.Body == nil {
			return
		}
		fkey := core.FuncKey(pk, fd)
		for _, te := range dirMaxTable {
			if te.fn != fkey && !(c.IsFixture && strings.HasSuffix(fkey, "hoistLevel")) {
				continue
			}
			info := pk.TypesInfo
			n++
			key := fmt.Sprintf("DIRMAX:%s#%s", fkey, te.acc)
			isAcc := func(e ast.Expr) bool {
				id, ok := unparen(e).(*ast.Ident)
				return ok && id.Name == te.acc
			}
			isElem := func(e ast.Expr) bool {
				se, ok := unparen(e).(*ast.SelectorExpr)
				return ok && se.Sel.Name == te.elem
			}
			var good, bad []ast.Node
			ast.Inspect(fd.Body, func(x ast.Node) bool {
				loop, ok := x.(*ast.RangeStmt)
				if !ok {
					return true
				}
				ast.Inspect(loop.Body, func(y ast.Node) bool {
					switch v := y.(type) {
					case *ast.AssignStmt:
						if len(v.Lhs) != 1 || len(v.Rhs) != 1 || !isAcc(v.Lhs[0]) {
							return true
						}
						if call, ok := unparen(v.Rhs[0]).(*ast.CallExpr); ok && len(call.Args) == 2 {
							nm := calleeName(info, call)
							if nm == "" {
								if id, ok := unparen(call.Fun).(*ast.Ident); ok {
									nm = id.Name
								}
							}
							if (isAcc(call.Args[0]) && isElem(call.Args[1])) || (isAcc(call.Args[1]) && isElem(call.Args[0])) {
								switch strings.ToLower(nm) {
								case "max":
									good = append(good, v)
								case "min":
									bad = append(bad, v)
								}
							}
						}
					case *ast.IfStmt:
						be, ok := unparen(v.Cond).(*ast.BinaryExpr)
						if !ok || len(v.Body.List) != 1 {
							return true
						}
						as, ok := v.Body.List[0].(*ast.AssignStmt)
						if !ok || len(as.Lhs) != 1 || !isAcc(as.Lhs[0]) || len(as.Rhs) != 1 || !isElem(as.Rhs[0]) {
							return true
						}
						// acc = x when x > acc (larger) / x < acc (smaller)
						larger := (isElem(be.X) && isAcc(be.Y) && (be.Op == token.GTR || be.Op == token.GEQ)) || (isAcc(be.X) && isElem(be.Y) && (be.Op == token.LSS || be.Op == token.LEQ))
						smaller := (isElem(be.X) && isAcc(be.Y) && (be.Op == token.LSS || be.Op == token.LEQ)) || (isAcc(be.X) && isElem(be.Y) && (be.Op == token.GTR || be.Op == token.GEQ))
						if larger {
							good = append(good, v)
						} else if smaller {
							bad = append(bad, v)
						}
					}
					return true
				})
				return true
			})
			switch {
			case len(bad) > 0:
				out = append(out, violOb("DIRMAX", key, c.Rel(bad[0].Pos()), fmt.Sprintf("%s takes the smaller of %s and the element's %s over the list: %s", fkey, te.acc, te.elem, te.why)))
			case len(good) > 0:
				out = append(out, okOb("DIRMAX", key, c.Rel(good[0].Pos()), "the accumulator takes the larger value over the list", true))
			default:
				out = append(out, infoOb("DIRMAX", key, c.Rel(fd.Pos()), "no update of the accumulator from the list elements was recognised: not decided"))
			}
		}
	})
	c.Stats["dirmax_sites"] = n
	return out
}

func init() {
	core.Register(&core.Rule{Name: "DIRMAX", Props: []string{"C12"},
		Doc: "in EvaluateMany (frozen table) the level of the hoisted decomposition is updated from the transformations' levels with a maximum (utils.Max/max or an if that keeps the larger), never a minimum",
		Run: func(c *core.Ctx) []ob {
			out := scanDirMax(c)
			out = append(out, control(c, "DIRMAX", scanDirMax, "hoistLevel")...)
			return out
		}})
}
