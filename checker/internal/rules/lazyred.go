package rules

import (
	"fmt"
	"go/ast"
	"go/token"
	"go/types"
	"strings"

	"golang.org/x/tools/go/packages"

	"lvcheck/internal/core"
)

// LAZYRED — lazy accumulation is reduced before it can wrap around.
//
// In every function that accumulates with *ThenAddLazy kernels and derives a margin from
// Qi/PiOverflowMargin:
//   (kind)  a guard `cnt % M == M-1` whose margin M derives from QiOverflowMargin reduces .Q parts (with the Q ring),
//           one deriving from PiOverflowMargin reduces .P parts: the margin of one basis must not pace the other;
//   (pace)  the counter increment and the in-loop guards are direct statements of the innermost loop that contains
//           the lazy accumulation (loops over SubRings excepted): one increment per accumulated term;
//   (final) after the loop a guard `cnt % M != 0` (or an unconditional Reduce) reduces the same accumulators.

func marginKind(info *types.Info, e ast.Expr) string {
	kind := ""
	ast.Inspect(e, func(n ast.Node) bool {
		if call, ok := n.(*ast.CallExpr); ok {
			if f := calleeFunc(info, call); f != nil {
				switch f.Name() {
				case "QiOverflowMargin":
					kind = "Q"
				case "PiOverflowMargin":
					kind = "P"
				}
			}
		}
		return true
	})
	return kind
}

func isLazyAccum(name string) bool {
	return strings.HasSuffix(name, "ThenAddLazy") || strings.HasSuffix(name, "ThenSubLazy")
}

// lazyAccumCall: a call of a lazily accumulating kernel, by name or through a local that may hold one
// (`accumulate := mulThenAdd; if first { accumulate = mul }; accumulate(a, b, acc)`).
func lazyAccumCall(info *types.Info, fd *ast.FuncDecl, call *ast.CallExpr) bool {
	switch f := unparen(call.Fun).(type) {
	case *ast.SelectorExpr:
		return isLazyAccum(f.Sel.Name)
	case *ast.Ident:
		v, _ := info.Uses[f].(*types.Var)
		if v == nil {
			return false
		}
		if _, isFn := v.Type().Underlying().(*types.Signature); !isFn {
			return false
		}
		seen := map[*types.Var]bool{}
		var may func(v *types.Var, depth int) bool
		may = func(v *types.Var, depth int) bool {
			if seen[v] || depth > 3 {
				return false
			}
			seen[v] = true
			found := false
			ast.Inspect(fd.Body, func(n ast.Node) bool {
				as, ok := n.(*ast.AssignStmt)
				if !ok || found || len(as.Lhs) != len(as.Rhs) {
					return !found
				}
				for i, l := range as.Lhs {
					id, ok := l.(*ast.Ident)
					if !ok {
						continue
					}
					o := info.Defs[id]
					if o == nil {
						o = info.Uses[id]
					}
					if o != types.Object(v) {
						continue
					}
					switch r := unparen(as.Rhs[i]).(type) {
					case *ast.SelectorExpr:
						if isLazyAccum(r.Sel.Name) {
							found = true
						}
					case *ast.Ident:
						if fn, ok := info.Uses[r].(*types.Func); ok && isLazyAccum(fn.Name()) {
							found = true
						} else if w, ok := info.Uses[r].(*types.Var); ok && may(w, depth+1) {
							found = true
						}
					}
				}
				return !found
			})
			return found
		}
		return may(v, 0)
	}
	return false
}

func rangesOverSubRings(l ast.Node) bool {
	if r, ok := l.(*ast.RangeStmt); ok {
		return strings.Contains(exprString(r.X), "SubRings")
	}
	return false
}

func scanLazyRed(c *core.Ctx) []ob {
	var out []ob
	n := 0
	c.FuncDecls(func(pk *packages.Package, file *ast.File, fd *ast.FuncDecl) {
		if fileIsTestSupport(c.Program, fd.Pos()) || inExamples(pk) {
			return
		}
		info := pk.TypesInfo
		// margins
		margins := map[types.Object]string{}
		ast.Inspect(fd.Body, func(nd ast.Node) bool {
			as, ok := nd.(*ast.AssignStmt)
			if !ok || len(as.Lhs) != 1 || len(as.Rhs) != 1 {
				return true
			}
			if k := marginKind(info, as.Rhs[0]); k != "" {
				if o := identObj(info, as.Lhs[0]); o != nil {
					margins[o] = k
				}
			}
			return true
		})
		if len(margins) == 0 {
			return
		}
		pm := parentMapCached(fd)
		// lazy accumulation calls and their accumulation loop
		var accLoops []ast.Node
		seenLoop := map[ast.Node]bool{}
		hasLazy := false
		ast.Inspect(fd.Body, func(nd ast.Node) bool {
			call, ok := nd.(*ast.CallExpr)
			if !ok {
				return true
			}
			if !lazyAccumCall(info, fd, call) {
				return true
			}
			hasLazy = true
			for p := pm[ast.Node(call)]; p != nil; p = pm[p] {
				switch p.(type) {
				case *ast.ForStmt, *ast.RangeStmt:
					if rangesOverSubRings(p) {
						continue
					}
					if !seenLoop[p] {
						seenLoop[p] = true
						accLoops = append(accLoops, p)
					}
					return true
				case *ast.FuncDecl:
					return true
				}
			}
			return true
		})
		if !hasLazy {
			return
		}
		n++
		fkey := core.FuncKey(pk, fd)
		key := "LAZYRED:" + fkey
		var problems []string
		// guards
		type guard struct {
			is     *ast.IfStmt
			margin types.Object
			cnt    ast.Expr
			inLoop bool
			final  bool
		}
		var guards []guard
		resetCounters := map[types.Object]types.Object{} // counter of a count-and-reset guard -> its margin
		var pendingFinal []guard
		ast.Inspect(fd.Body, func(nd ast.Node) bool {
			is, ok := nd.(*ast.IfStmt)
			if !ok {
				return true
			}
			be, ok := unparen(is.Cond).(*ast.BinaryExpr)
			if !ok {
				return true
			}
			// `ringP != nil && cnt%M != 0`: the pacing test is the conjunct that looks at the counter
			for be.Op == token.LAND {
				pick := be.Y
				if yb, ok := unparen(be.Y).(*ast.BinaryExpr); !ok || !strings.Contains(exprString(yb), "%") {
					if xb, ok := unparen(be.X).(*ast.BinaryExpr); ok && strings.Contains(exprString(xb), "%") {
						pick = be.X
					}
				}
				nb, ok := unparen(pick).(*ast.BinaryExpr)
				if !ok {
					return true
				}
				be = nb
			}
			mod, ok := unparen(be.X).(*ast.BinaryExpr)
			if !ok || mod.Op != token.REM {
				// the count-and-reset spelling: `cnt++; if cnt == M { reduce; cnt = 0 }` … `if cnt != 0 { reduce }`
				co := identObj(info, be.X)
				if co == nil {
					return true
				}
				if mo := identObj(info, be.Y); mo != nil && be.Op == token.EQL {
					if _, isMargin := margins[mo]; isMargin {
						reset := false
						ast.Inspect(is.Body, func(y ast.Node) bool {
							if as, ok := y.(*ast.AssignStmt); ok && len(as.Lhs) == 1 && len(as.Rhs) == 1 && identObj(info, as.Lhs[0]) == co {
								if tv, ok := info.Types[as.Rhs[0]]; ok && tv.Value != nil && tv.Value.ExactString() == "0" {
									reset = true
								}
							}
							return true
						})
						if reset {
							guards = append(guards, guard{is: is, margin: mo, cnt: be.X, inLoop: true})
							resetCounters[co] = mo
						}
					}
					return true
				}
				if tv, ok := info.Types[be.Y]; ok && tv.Value != nil && tv.Value.ExactString() == "0" && be.Op == token.NEQ {
					pendingFinal = append(pendingFinal, guard{is: is, cnt: be.X, final: true})
				}
				return true
			}
			mo := identObj(info, mod.Y)
			if _, isMargin := margins[mo]; !isMargin {
				return true
			}
			g := guard{is: is, margin: mo, cnt: mod.X}
			if be.Op == token.EQL {
				g.inLoop = true
			} else if be.Op == token.NEQ {
				g.final = true
			}
			guards = append(guards, g)
			return true
		})
		for _, g := range pendingFinal {
			if mo, ok := resetCounters[identObj(info, g.cnt)]; ok {
				g.margin = mo
				guards = append(guards, g)
			}
		}
		if len(guards) == 0 {
			problems = append(problems, "lazy accumulation paced by an overflow margin, but no `cnt % margin` reduction guard found")
		}
		for _, g := range guards {
			kind := margins[g.margin]
			// (kind) operands of Reduce calls in the guard body
			ast.Inspect(g.is.Body, func(nd ast.Node) bool {
				call, ok := nd.(*ast.CallExpr)
				if !ok {
					return true
				}
				sel, ok := unparen(call.Fun).(*ast.SelectorExpr)
				if !ok || !strings.HasPrefix(sel.Sel.Name, "Reduce") || len(call.Args) < 1 {
					return true
				}
				arg := exprString(call.Args[0])
				part := ""
				if strings.HasSuffix(arg, ".Q") || strings.Contains(arg, "Q") && !strings.Contains(arg, "P") {
					part = "Q"
				}
				if strings.HasSuffix(arg, ".P") {
					part = "P"
				}
				if strings.HasSuffix(arg, ".Q") {
					part = "Q"
				}
				if part != "" && part != kind {
					problems = append(problems, fmt.Sprintf("the guard `%s` paces the reduction of %s (the %s part) with %s, which derives from %siOverflowMargin: the margin of one basis paces the other", exprString(g.is.Cond), arg, part, g.margin.Name(), kind))
				}
				return true
			})
			// (pace) in-loop guards must be direct statements of an accumulation loop body
			if g.inLoop {
				par := pm[ast.Node(g.is)]
				blk, _ := par.(*ast.BlockStmt)
				var loop ast.Node
				if blk != nil {
					loop = pm[ast.Node(blk)]
				}
				if !seenLoop[loop] {
					problems = append(problems, fmt.Sprintf("the reduction guard `%s` is not placed in the loop that accumulates one lazy product per iteration: several products accumulate between two tests", exprString(g.is.Cond)))
				}
			}
		}
		// counter increments
		ast.Inspect(fd.Body, func(nd ast.Node) bool {
			inc, ok := nd.(*ast.IncDecStmt)
			if !ok || inc.Tok != token.INC {
				return true
			}
			o := identObj(info, inc.X)
			used := false
			for _, g := range guards {
				if identObj(info, g.cnt) == o && o != nil {
					used = true
				}
			}
			if !used {
				return true
			}
			par := pm[ast.Node(inc)]
			if is, ok := par.(*ast.IfStmt); ok && is.Init == ast.Stmt(inc) {
				par = pm[ast.Node(is)] // `if cnt++; cnt == M`
			}
			blk, _ := par.(*ast.BlockStmt)
			var loop ast.Node
			if blk != nil {
				loop = pm[ast.Node(blk)]
			}
			if !seenLoop[loop] {
				problems = append(problems, fmt.Sprintf("the counter %s is not incremented once per accumulated term (its increment is outside the accumulation loop)", o.Name()))
			}
			return true
		})
		// (final)
		kindsInLoop := map[string]bool{}
		kindsFinal := map[string]bool{}
		for _, g := range guards {
			if g.inLoop {
				kindsInLoop[margins[g.margin]] = true
			}
			if g.final {
				kindsFinal[margins[g.margin]] = true
			}
		}
		for k := range kindsInLoop {
			if !kindsFinal[k] {
				problems = append(problems, fmt.Sprintf("no final `cnt %% margin != 0` reduction for the %s part after the loop", k))
			}
		}
		pos := c.Rel(fd.Pos())
		if len(problems) == 0 {
			out = append(out, okOb("LAZYRED", key, pos, fmt.Sprintf("%d guards paced by the matching margins inside the accumulation loop, with final reductions", len(guards)), true))
		} else {
			for i, p := range problems {
				k := key
				if i > 0 {
					k = fmt.Sprintf("%s#%d", key, i)
				}
				out = append(out, violOb("LAZYRED", k, pos, fkey+": "+p))
			}
		}
	})
	c.Stats["lazy_accumulators"] = n
	return out
}

func lazyProps(key string) []string {
	switch {
	case strings.Contains(key, "core/rgsw"):
		return []string{"C20"}
	case strings.Contains(key, "lintrans"):
		return []string{"C12"}
	}
	return []string{"C04"}
}

func init() {
	core.Register(&core.Rule{Name: "LAZYRED", Props: []string{"C04", "C12", "C20"},
		Doc: "in every function accumulating with *ThenAddLazy kernels under a Qi/PiOverflowMargin: guards paced by the margin of the matching basis, guard and counter increment placed in the loop that accumulates one term per iteration, final reduction after the loop",
		Run: func(c *core.Ctx) []ob {
			out := scanLazyRed(c)
			for i := range out {
				out[i].Props = lazyProps(out[i].Key)
			}
			for _, o := range core.Floor("LAZYRED", nil, "lazy accumulators", c.Stats["lazy_accumulators"], 4) {
				out = append(out, withProps(o, "C04", "C12", "C20"))
			}
			return out
		}})
}
