package rules

import (
	"fmt"
	"go/ast"
	"go/token"
	"go/types"

	"golang.org/x/tools/go/packages"

	"lvcheck/internal/core"
)

// JAG — jagged-matrix iteration bounds.
//
// Gadget ciphertexts, key-generation shares and CRPs are matrices whose rows have different lengths when the
// moduli have unequal sizes (the number of power-of-two digits is per modulus). For every access m[i][j] to a
// slice-of-slices of polynomials where i and j are variables of enclosing loops, the bound of the j loop must
// depend on i (len(m[i]), sizes[i], range m[i]) or the access must sit under a guard `j < f(i)`.

func mentionsIdentObj(info *types.Info, e ast.Node, o types.Object) bool {
	if e == nil || o == nil {
		return false
	}
	found := false
	ast.Inspect(e, func(n ast.Node) bool {
		if id, ok := n.(*ast.Ident); ok && (info.Uses[id] == o || info.Defs[id] == o) {
			found = true
		}
		return !found
	})
	return found
}

type loopInfo struct {
	node  ast.Node
	bound ast.Expr // cond RHS or range expression
	isFor bool
}

// loopOf finds the loop statement that declares variable o, among the ancestors of n.
func loopOf(info *types.Info, pm map[ast.Node]ast.Node, n ast.Node, o types.Object) *loopInfo {
	for p := pm[n]; p != nil; p = pm[p] {
		switch x := p.(type) {
		case *ast.ForStmt:
			if as, ok := x.Init.(*ast.AssignStmt); ok {
				for _, l := range as.Lhs {
					if id, ok := l.(*ast.Ident); ok && info.Defs[id] == o {
						li := &loopInfo{node: x, isFor: true}
						if be, ok := x.Cond.(*ast.BinaryExpr); ok {
							li.bound = be.Y
							if identObj(info, be.Y) == o {
								li.bound = be.X
							}
						}
						return li
					}
				}
			}
		case *ast.RangeStmt:
			for _, e := range []ast.Expr{x.Key, x.Value} {
				if id, ok := e.(*ast.Ident); ok && info.Defs[id] == o {
					return &loopInfo{node: x, bound: x.X}
				}
			}
		case *ast.FuncDecl, *ast.FuncLit:
			return nil
		}
	}
	return nil
}

func isJaggedPolyMatrix(t types.Type) bool {
	if t == nil {
		return false
	}
	s1, ok := deref(t).Underlying().(*types.Slice)
	if !ok {
		return false
	}
	// rows must be plain (unnamed) slices: [][]T / structs.Matrix[T]. A named row type such as VectorQP is the
	// degree dimension of one gadget entry, not a jagged row.
	s2, ok := s1.Elem().(*types.Slice)
	if !ok {
		return false
	}
	return polyish(s2.Elem())
}

func scanJag(c *core.Ctx) []ob {
	var out []ob
	n := 0
	c.FuncDecls(func(pk *packages.Package, file *ast.File, fd *ast.FuncDecl) {
		if fileIsTestSupport(c.Program, fd.Pos()) || inExamples(pk) {
			return
		}
		info := pk.TypesInfo
		pm := parentMapCached(fd)
		fkey := core.FuncKey(pk, fd)
		seen := map[string]bool{}
		ast.Inspect(fd.Body, func(nd ast.Node) bool {
			outer, ok := nd.(*ast.IndexExpr)
			if !ok {
				return true
			}
			inner, ok := unparen(outer.X).(*ast.IndexExpr)
			if !ok {
				return true
			}
			if !isJaggedPolyMatrix(info.TypeOf(inner.X)) {
				return true
			}
			io := identObj(info, inner.Index)
			jo := identObj(info, outer.Index)
			if io == nil || jo == nil || io == jo {
				return true
			}
			li := loopOf(info, pm, outer, io)
			lj := loopOf(info, pm, outer, jo)
			if li == nil || lj == nil {
				return true
			}
			key := fmt.Sprintf("JAG:%s#%s[%s][%s]", fkey, exprString(inner.X), io.Name(), jo.Name())
			if seen[key] {
				return true
			}
			seen[key] = true
			n++
			pos := c.Rel(outer.Pos())
			// (a) the bound of the j loop depends on i
			// (a') the column loop ranges over the row itself: the value variable of the row loop
			rowVal := false
			if rs, ok := li.node.(*ast.RangeStmt); ok && rs.Value != nil && lj.bound != nil {
				if vo := identObj(info, rs.Value); vo != nil && mentionsIdentObj(info, lj.bound, vo) {
					rowVal = true
				}
			}
			if lj.bound != nil && (rowVal || mentionsIdentObj(info, lj.bound, io)) {
				out = append(out, okOb("JAG", key, pos, fmt.Sprintf("column bound %s depends on the row index", exprString(lj.bound)), true))
				return true
			}
			// (b) a guard `j < f(i)` between the access and the loops
			guarded := false
			for p := pm[ast.Node(outer)]; p != nil && p != li.node && p != lj.node || (p != nil && !guarded && p != ast.Node(fd)); p = pm[p] {
				if is, ok := p.(*ast.IfStmt); ok {
					ast.Inspect(is.Cond, func(x ast.Node) bool {
						be, ok := x.(*ast.BinaryExpr)
						if !ok {
							return true
						}
						if (be.Op == token.LSS || be.Op == token.LEQ) && identObj(info, be.X) == jo && mentionsIdentObj(info, be.Y, io) {
							guarded = true
						}
						if (be.Op == token.GTR || be.Op == token.GEQ) && identObj(info, be.Y) == jo && mentionsIdentObj(info, be.X, io) {
							guarded = true
						}
						return true
					})
				}
				if _, ok := p.(*ast.FuncDecl); ok {
					break
				}
			}
			if !guarded {
				// the skipping form: `if j >= f(i) { continue }` in front of the access, in an enclosing block
				var child ast.Node = outer
				for p := pm[child]; p != nil && !guarded; child, p = p, pm[p] {
					blk, ok := p.(*ast.BlockStmt)
					if ok {
						for _, st := range blk.List {
							if ast.Node(st) == child {
								break
							}
							is, ok := st.(*ast.IfStmt)
							if !ok || len(is.Body.List) == 0 {
								continue
							}
							leaves, breaks := false, false
							switch l := is.Body.List[len(is.Body.List)-1].(type) {
							case *ast.BranchStmt:
								leaves = l.Tok == token.CONTINUE || l.Tok == token.BREAK
								breaks = l.Tok == token.BREAK && l.Label == nil
							case *ast.ReturnStmt:
								leaves = true
							}
							if !leaves {
								continue
							}
							matched := false
							if be, ok := unparen(is.Cond).(*ast.BinaryExpr); ok {
								if (be.Op == token.GEQ || be.Op == token.GTR) && identObj(info, be.X) == jo && mentionsIdentObj(info, be.Y, io) {
									matched = true
								}
								if (be.Op == token.LEQ || be.Op == token.LSS) && identObj(info, be.Y) == jo && mentionsIdentObj(info, be.X, io) {
									matched = true
								}
							}
							if matched {
								guarded = true
								// `break` on "this row has no column j" is right when it leaves the column loop (no further j
								// exists in the row either) and wrong when it leaves the row loop: the rows that follow may be
								// longer, and are abandoned
								if breaks {
									for q := pm[ast.Node(is)]; q != nil; q = pm[q] {
										if q == li.node {
											out = append(out, violOb("JAG", key+"#break", c.Rel(is.Pos()), fmt.Sprintf("%s: `%s` leaves the loop over the rows with break when row %s has no column %s: the rows that follow, which may be longer, are skipped for that column (continue skips the row only)", fkey, exprString(is.Cond), io.Name(), jo.Name())))
											break
										}
										if q == lj.node {
											break
										}
									}
								}
							}
						}
					}
					if _, ok := p.(*ast.FuncDecl); ok {
						break
					}
				}
			}
			if guarded {
				// the column loop then runs over a row-independent range, which must be the maximum row length
				hasMax := false
				bound := lj.bound
				// a hoisted bound: n := slices.Max(sizes) ; for j := 0; j < n; j++
				if id, ok := unparen(bound).(*ast.Ident); ok && bound != nil {
					if o := info.Uses[id]; o != nil {
						var defs []ast.Expr
						ast.Inspect(fd.Body, func(x ast.Node) bool {
							if as, ok := x.(*ast.AssignStmt); ok && len(as.Lhs) == len(as.Rhs) {
								for i, l := range as.Lhs {
									if lid, ok := l.(*ast.Ident); ok && (info.Defs[lid] == o || info.Uses[lid] == o) {
										defs = append(defs, as.Rhs[i])
									}
								}
							}
							return true
						})
						if len(defs) == 1 {
							bound = defs[0]
						}
					}
				}
				if bound != nil {
					ast.Inspect(bound, func(x ast.Node) bool {
						if call, ok := x.(*ast.CallExpr); ok {
							if f := calleeFunc(info, call); f != nil && (f.Name() == "Max" || f.Name() == "MaxSlice") {
								hasMax = true
							}
						}
						return true
					})
				}
				if lj.isFor && !hasMax {
					out = append(out, violOb("JAG", key, pos, fmt.Sprintf("%s guards the access with `%s < size[%s]` but runs the column loop only up to %s, which is not the maximum row length: rows longer than that bound are silently truncated", fkey, jo.Name(), io.Name(), exprString(lj.bound))))
					return true
				}
				out = append(out, okOb("JAG", key, pos, "column loop runs to the maximum row length and the access is guarded by a row-dependent size", true))
				return true
			}
			b := "?"
			if lj.bound != nil {
				b = exprString(lj.bound)
			}
			out = append(out, violOb("JAG", key, pos, fmt.Sprintf("%s iterates the columns of the jagged matrix %s up to %s, which does not depend on the row index %s, and the access is not guarded by `%s < size[%s]`: with moduli of unequal sizes (different digit counts per row) rows are truncated or indexed out of range", fkey, exprString(inner.X), b, io.Name(), jo.Name(), io.Name())))
			return true
		})
	})
	c.Stats["jagged_accesses"] = n
	return out
}

func jagProps(key string) []string {
	switch {
	case contains2(key, "multiparty"):
		return []string{"C14"}
	case contains2(key, "core/rgsw"):
		return []string{"C20"}
	}
	return []string{"C04"}
}

func contains2(s, sub string) bool {
	return len(s) >= len(sub) && (func() bool {
		for i := 0; i+len(sub) <= len(s); i++ {
			if s[i:i+len(sub)] == sub {
				return true
			}
		}
		return false
	})()
}

func init() {
	core.Register(&core.Rule{Name: "JAG", Props: []string{"C04", "C14", "C20"},
		Doc: "for every access m[i][j] to a slice-of-slices of polynomials with loop variables i, j: the bound of the j loop depends on i, or the access is guarded by `j < f(i)`",
		Run: func(c *core.Ctx) []ob {
			out := scanJag(c)
			for i := range out {
				out[i].Props = jagProps(out[i].Key)
			}
			all := []string{"C04", "C14", "C20"}
			for _, o := range core.Floor("JAG", nil, "jagged accesses", c.Stats["jagged_accesses"], 15) {
				out = append(out, withProps(o, all...))
			}
			return out
		}})
}
