package rules

import (
	"fmt"
	"go/ast"
	"go/token"
	"go/types"
	"sort"
	"strings"

	"golang.org/x/tools/go/packages"

	"lvcheck/internal/core"
)

// CTORAGREE — a copy constructor rebuilds a field the way the primary constructor builds it.
//
// When a copy constructor initialises field f with a fresh construction (a call), and a constructor New*(...) of
// the same type initialises f with a call to the same function, the two argument lists must be the same once
// expressed over the object's own fields: `recv.g` / `self.g` / a local or parameter that is stored into field g
// all read as <g>; single-definition locals are inlined. A difference such as <ringQ>.NewPoly() vs
// <ringP>.NewPoly(), or NewSampler(.., <params>.Xe(), ..) vs NewSampler(.., <noise>, ..), means the copy is
// configured differently from an original.
//
// COPYX — a field copied straight from the receiver must come from the same-named field.

type canonCtx struct {
	named  *types.Named
	info   *types.Info
	fd     *ast.FuncDecl
	selves map[types.Object]bool
	stored map[types.Object]string // local/param -> field it is stored into
	feeds  map[types.Object]string // parameter -> field whose constructor receives it first (paramsIn -> e2s)
	defs   map[types.Object][]ast.Expr
}

func newCanonCtx(info *types.Info, fd *ast.FuncDecl, named *types.Named) *canonCtx {
	cx := &canonCtx{named: named, info: info, fd: fd, selves: map[types.Object]bool{}, stored: map[types.Object]string{}, feeds: map[types.Object]string{}, defs: map[types.Object][]ast.Expr{}}
	if r := recvObj(info, fd); r != nil && sameNamed(r.Type(), named) {
		cx.selves[r] = true
	}
	// variables of type T / *T declared in the function are objects under construction
	ast.Inspect(fd, func(n ast.Node) bool {
		if id, ok := n.(*ast.Ident); ok {
			if o, ok := info.Defs[id].(*types.Var); ok && o != nil && !o.IsField() && sameNamed(o.Type(), named) {
				if r := recvObj(info, fd); r == nil || o != r || true {
					cx.selves[o] = true
				}
			}
		}
		return true
	})
	// definitions and field stores
	ast.Inspect(fd.Body, func(n ast.Node) bool {
		switch x := n.(type) {
		case *ast.AssignStmt:
			for i, l := range x.Lhs {
				var rhs ast.Expr
				if len(x.Rhs) == len(x.Lhs) {
					rhs = x.Rhs[i]
				} else if len(x.Rhs) == 1 {
					rhs = x.Rhs[0]
				}
				l = unparen(l)
				if id, ok := l.(*ast.Ident); ok {
					o := info.Defs[id]
					if o == nil {
						o = info.Uses[id]
					}
					if o != nil {
						cx.defs[o] = append(cx.defs[o], rhs)
					}
				}
				// self.f[, err] = NewSomething(p, ...): the parameter p is what field f was built from
				if s, ok := l.(*ast.SelectorExpr); ok && i == 0 && rhs != nil && cx.selves[identObj(info, s.X)] {
					if call, ok := unparen(rhs).(*ast.CallExpr); ok && len(call.Args) > 0 {
						if p, ok := identObj(info, call.Args[0]).(*types.Var); ok && p != nil && cx.twoParamSets(p) {
							if _, seen := cx.feeds[p]; !seen {
								cx.feeds[p] = s.Sel.Name
							}
						}
					}
				}
				if s, ok := l.(*ast.SelectorExpr); ok && rhs != nil && len(x.Rhs) == len(x.Lhs) {
					if cx.selves[identObj(info, s.X)] {
						if v := identObj(info, rhs); v != nil {
							cx.stored[v] = s.Sel.Name
						}
					}
				}
			}
		case *ast.CompositeLit:
			if sameNamed(info.TypeOf(x), named) {
				for _, el := range x.Elts {
					if kv, ok := el.(*ast.KeyValueExpr); ok {
						if k, ok := kv.Key.(*ast.Ident); ok {
							if v := identObj(info, kv.Value); v != nil {
								if _, isVar := v.(*types.Var); isVar {
									cx.stored[v] = k.Name
								}
							}
						}
					}
				}
			}
		}
		return true
	})
	return cx
}

// twoParamSets: p is one of at least two parameter-set parameters of the function (paramsIn / paramsOut): only then
// does it matter which of them a field was built from.
func (cx *canonCtx) twoParamSets(p *types.Var) bool {
	isSet := func(t types.Type) bool {
		n := namedOf(t)
		return n != nil && strings.HasSuffix(n.Obj().Name(), "Parameters")
	}
	if !isSet(p.Type()) {
		return false
	}
	fn, ok := cx.info.Defs[cx.fd.Name].(*types.Func)
	if !ok {
		return false
	}
	sig := fn.Type().(*types.Signature)
	k := 0
	for i := 0; i < sig.Params().Len(); i++ {
		if isSet(sig.Params().At(i).Type()) {
			k++
		}
	}
	return k >= 2
}

func (cx *canonCtx) canon(e ast.Expr, depth int) string {
	if depth > 8 || e == nil {
		return "?"
	}
	e = unparen(e)
	switch x := e.(type) {
	case *ast.BasicLit:
		return x.Value
	case *ast.Ident:
		o := cx.info.Uses[x]
		if o == nil {
			o = cx.info.Defs[x]
		}
		if o == nil {
			return x.Name
		}
		switch o.(type) {
		case *types.Const, *types.Nil, *types.Func, *types.TypeName, *types.PkgName:
			return x.Name
		}
		if x.Name == "true" || x.Name == "false" || x.Name == "nil" {
			return x.Name
		}
		if cx.selves[o] {
			return "<self>"
		}
		if f, ok := cx.stored[o]; ok {
			return "<" + f + ">"
		}
		if f, ok := cx.feeds[o]; ok {
			return "params(<" + f + ">)"
		}
		if ds := cx.defs[o]; len(ds) == 1 && ds[0] != nil {
			return cx.canon(ds[0], depth+1)
		}
		return "?" + x.Name
	case *ast.SelectorExpr:
		if cx.selves[identObj(cx.info, x.X)] {
			if sel := cx.info.Selections[x]; sel != nil && sel.Kind() == types.FieldVal {
				return "<" + x.Sel.Name + ">"
			}
		}
		if _, isPkg := cx.info.Uses[identOf(x.X)].(*types.PkgName); isPkg {
			return exprString(x)
		}
		base := cx.canon(x.X, depth+1)
		// <E>.f where E is an embedded field of T and f one of its fields is the promoted field <f>
		if strings.HasPrefix(base, "<") && strings.HasSuffix(base, ">") && !strings.Contains(base[1:], "<") {
			if st := structOf(cx.named); st != nil {
				for i := 0; i < st.NumFields(); i++ {
					if fl := st.Field(i); fl.Embedded() && fl.Name() == base[1:len(base)-1] {
						if est := structOf(fl.Type()); est != nil {
							for j := 0; j < est.NumFields(); j++ {
								if est.Field(j).Name() == x.Sel.Name {
									return "<" + x.Sel.Name + ">"
								}
							}
						}
					}
				}
			}
		}
		// the parameters a sub-protocol was built from: <e2s>.params
		if x.Sel.Name == "params" && strings.HasPrefix(base, "<") && strings.HasSuffix(base, ">") {
			return "params(" + base + ")"
		}
		return base + "." + x.Sel.Name
	case *ast.CallExpr:
		var as []string
		for _, a := range x.Args {
			as = append(as, cx.canon(a, depth+1))
		}
		return cx.canon(x.Fun, depth+1) + "(" + strings.Join(as, ", ") + ")"
	case *ast.StarExpr:
		return cx.canon(x.X, depth+1)
	case *ast.UnaryExpr:
		return x.Op.String() + cx.canon(x.X, depth+1)
	case *ast.BinaryExpr:
		return "(" + cx.canon(x.X, depth+1) + x.Op.String() + cx.canon(x.Y, depth+1) + ")"
	case *ast.IndexExpr:
		return cx.canon(x.X, depth+1) + "[" + cx.canon(x.Index, depth+1) + "]"
	case *ast.TypeAssertExpr:
		return cx.canon(x.X, depth+1)
	case *ast.CompositeLit:
		return "?lit"
	}
	return "?"
}

func identOf(e ast.Expr) *ast.Ident {
	id, _ := unparen(e).(*ast.Ident)
	return id
}

// fieldInits returns, for a function building a T, the expression each field is initialised with (following one
// level of local variable for `f: v`).
func fieldInits(info *types.Info, fd *ast.FuncDecl, named *types.Named, cx *canonCtx) map[string][]ast.Expr {
	out := map[string][]ast.Expr{}
	resolve := func(e ast.Expr) ast.Expr {
		if o := identObj(info, e); o != nil {
			if ds := cx.defs[o]; len(ds) == 1 && ds[0] != nil {
				return ds[0]
			}
		}
		return e
	}
	ast.Inspect(fd.Body, func(n ast.Node) bool {
		switch x := n.(type) {
		case *ast.CompositeLit:
			if sameNamed(info.TypeOf(x), named) {
				for _, el := range x.Elts {
					if kv, ok := el.(*ast.KeyValueExpr); ok {
						if k, ok := kv.Key.(*ast.Ident); ok {
							out[k.Name] = append(out[k.Name], resolve(kv.Value))
						}
					}
				}
			}
		case *ast.AssignStmt:
			for i, l := range x.Lhs {
				s, ok := unparen(l).(*ast.SelectorExpr)
				if !ok || !cx.selves[identObj(info, s.X)] {
					continue
				}
				var rhs ast.Expr
				if len(x.Rhs) == len(x.Lhs) {
					rhs = x.Rhs[i]
				} else if len(x.Rhs) == 1 {
					rhs = x.Rhs[0]
				}
				if rhs != nil {
					out[s.Sel.Name] = append(out[s.Sel.Name], resolve(rhs))
				}
			}
		}
		return true
	})
	return out
}

func scanCtorAgree(c *core.Ctx) []ob {
	var out []ob
	// primary constructors by type
	type ctor struct {
		pk *packages.Package
		fd *ast.FuncDecl
	}
	prim := map[*types.TypeName][]ctor{}
	c.FuncDecls(func(pk *packages.Package, file *ast.File, fd *ast.FuncDecl) {
		if fd.Recv != nil || !(strings.HasPrefix(fd.Name.Name, "New") || strings.HasPrefix(fd.Name.Name, "new")) || fileIsTestSupport(c.Program, fd.Pos()) {
			return
		}
		sig := pk.TypesInfo.Defs[fd.Name].(*types.Func).Type().(*types.Signature)
		if sig.Results().Len() == 0 {
			return
		}
		if n := namedOf(sig.Results().At(0).Type()); n != nil && n.Obj().Pkg() == pk.Types {
			prim[n.Origin().Obj()] = append(prim[n.Origin().Obj()], ctor{pk, fd})
		}
	})
	nCmp, nX := 0, 0
	for _, cc := range findCopyCtors(c.Program) {
		info := cc.pk.TypesInfo
		fkey := core.FuncKey(cc.pk, cc.fd)
		props := copyfProps(core.ShortPkg(cc.pk.PkgPath), cc.named.Obj().Name())
		cx := newCanonCtx(info, cc.fd, cc.named)
		recv := recvObj(info, cc.fd)
		inits := fieldInits(info, cc.fd, cc.named, cx)
		for f, es := range inits {
			for _, e := range es {
				e0 := unparen(e)
				// COPYX: straight field copy from a different field
				if s, ok := e0.(*ast.SelectorExpr); ok && recv != nil && identObj(info, s.X) == recv {
					if sel := info.Selections[s]; sel != nil && sel.Kind() == types.FieldVal {
						nX++
						key := fmt.Sprintf("COPYX:%s#field=%s", fkey, f)
						if s.Sel.Name != f {
							out = append(out, withProps(violOb("COPYX", key, c.Rel(e.Pos()), fmt.Sprintf("%s initialises field %s of the copy from field %s of the original", fkey, f, s.Sel.Name)), props...))
						} else {
							out = append(out, withProps(okOb("COPYX", key, c.Rel(e.Pos()), "copied from the same-named field", false), props...))
						}
					}
					continue
				}
				call, ok := e0.(*ast.CallExpr)
				if !ok {
					continue
				}
				callee := funcOrigin(calleeFunc(info, call))
				if callee == nil || copyCtorNames[callee.Name()] {
					continue
				}
				mine := cx.canon(call, 0)
				for _, pc := range prim[cc.named.Origin().Obj()] {
					pinfo := pc.pk.TypesInfo
					pcx := newCanonCtx(pinfo, pc.fd, cc.named)
					for _, pe := range fieldInits(pinfo, pc.fd, cc.named, pcx)[f] {
						pcall, ok := unparen(pe).(*ast.CallExpr)
						if !ok || funcOrigin(calleeFunc(pinfo, pcall)) != callee {
							continue
						}
						theirs := pcx.canon(pcall, 0)
						key := fmt.Sprintf("CTORAGREE:%s#field=%s~%s", fkey, f, pc.fd.Name.Name)
						if strings.Contains(mine, "?") || strings.Contains(theirs, "?") {
							out = append(out, withProps(infoOb("CTORAGREE", key, c.Rel(call.Pos()), fmt.Sprintf("not comparable: %s vs %s", mine, theirs)), props...))
							continue
						}
						nCmp++
						if mine != theirs {
							out = append(out, withProps(violOb("CTORAGREE", key, c.Rel(call.Pos()), fmt.Sprintf("%s rebuilds field %s as %s, but the constructor %s builds it as %s (both written over the object's own fields): the copy is configured differently from an original", fkey, f, mine, pc.fd.Name.Name, theirs)), props...))
						} else {
							out = append(out, withProps(okOb("CTORAGREE", key, c.Rel(call.Pos()), "same construction as "+pc.fd.Name.Name+": "+mine, true), props...))
						}
					}
				}
			}
		}
	}
	c.Stats["ctoragree_comparisons"] = nCmp
	c.Stats["copyx_fields"] = nX
	return out
}

func init() {
	core.Register(&core.Rule{Name: "CTORAGREE", Props: []string{"C10", "C18", "C16", "C14", "C17", "C20", "C07", "C02"},
		Doc: "a field that a copy constructor rebuilds with a call is built with the same arguments (expressed over the object's own fields) as in the primary constructor that uses the same call; a field copied straight from the receiver comes from the same-named field",
		Run: func(c *core.Ctx) []ob {
			out := scanCtorAgree(c)
			for _, o := range core.Floor("CTORAGREE", nil, "constructor comparisons", c.Stats["ctoragree_comparisons"], 15) {
				out = append(out, withProps(o, "C10"))
			}
			for _, o := range core.Floor("COPYX", nil, "straight field copies", c.Stats["copyx_fields"], 60) {
				out = append(out, withProps(o, "C10"))
			}
			return out
		}})
}

var _ = token.NoPos

// ---- CTORSIB: sibling constructors of one type

// Two constructors of the same type (NewPRNG / NewKeyedPRNG) build objects that the same methods then use. A field
// that an exported method of the type reads, that one constructor assigns and another leaves at its zero value, makes
// that method behave differently depending on how the object was built (Key() returns nothing for a keyed generator).
// Reported per (type, field); constructors that delegate to another constructor inherit its assignments.
func scanCtorSib(c *core.Ctx) []ob {
	var out []ob
	type ctorInfo struct {
		pk     *packages.Package
		fd     *ast.FuncDecl
		fields map[string]bool
		deleg  []*types.Func
	}
	byType := map[*types.TypeName][]*ctorInfo{}
	ctorOf := map[*types.Func]*ctorInfo{}
	c.FuncDecls(func(pk *packages.Package, file *ast.File, fd *ast.FuncDecl) {
		if fd.Body == nil || fileIsTestSupport(c.Program, fd.Pos()) || inExamples(pk) {
			return
		}
		// constructors proper are the package-level New*/new* functions; every other function or method that returns the
		// type (With*, helpers a constructor is split into) is only followed when a constructor calls it
		isCtor := fd.Recv == nil && (strings.HasPrefix(fd.Name.Name, "New") || strings.HasPrefix(fd.Name.Name, "new"))
		info := pk.TypesInfo
		fn, _ := info.Defs[fd.Name].(*types.Func)
		if fn == nil {
			return
		}
		sig := fn.Type().(*types.Signature)
		if sig.Results().Len() == 0 {
			return
		}
		named := namedOf(sig.Results().At(0).Type())
		if named == nil || structOf(named) == nil || named.Obj().Pkg() != pk.Types {
			return
		}
		ci := &ctorInfo{pk: pk, fd: fd, fields: map[string]bool{}}
		whole := false
		ast.Inspect(fd.Body, func(x ast.Node) bool {
			switch v := x.(type) {
			case *ast.CompositeLit:
				if namedOf(info.TypeOf(v)) == named {
					for i, el := range v.Elts {
						if kv, ok := el.(*ast.KeyValueExpr); ok {
							if id, ok := kv.Key.(*ast.Ident); ok {
								ci.fields[id.Name] = true
							}
						} else if st := structOf(named); st != nil && i < st.NumFields() {
							ci.fields[st.Field(i).Name()] = true
						}
					}
				}
			case *ast.AssignStmt:
				for _, l := range v.Lhs {
					if sel, ok := unparen(l).(*ast.SelectorExpr); ok {
						if t := info.TypeOf(sel.X); t != nil && namedOf(t) == named {
							ci.fields[sel.Sel.Name] = true
						}
					}
					if t := info.TypeOf(l); t != nil && namedOf(t) == named {
						if _, isIdent := unparen(l).(*ast.Ident); !isIdent {
							whole = true
						}
					}
				}
			case *ast.CallExpr:
				if g := calleeFunc(info, v); g != nil {
					if gs, ok := g.Type().(*types.Signature); ok && gs.Results().Len() > 0 && namedOf(gs.Results().At(0).Type()) == named {
						ci.deleg = append(ci.deleg, funcOrigin(g))
					}
				}
			}
			return true
		})
		if whole {
			return
		}
		if isCtor {
			byType[named.Obj()] = append(byType[named.Obj()], ci)
		}
		ctorOf[fn] = ci
	})
	// fields read by exported methods
	readBy := map[*types.TypeName]map[string]string{}
	c.FuncDecls(func(pk *packages.Package, file *ast.File, fd *ast.FuncDecl) {
		if fd.Recv == nil || !fd.Name.IsExported() || fd.Body == nil {
			return
		}
		info := pk.TypesInfo
		named, _ := core.RecvNamed(info, fd)
		recv := recvObj(info, fd)
		if named == nil || recv == nil {
			return
		}
		ast.Inspect(fd.Body, func(x ast.Node) bool {
			if sel, ok := x.(*ast.SelectorExpr); ok {
				if id, ok := unparen(sel.X).(*ast.Ident); ok && info.Uses[id] == recv {
					if s := info.Selections[sel]; s != nil && s.Kind() == types.FieldVal {
						tn := named.Origin().Obj()
						if readBy[tn] == nil {
							readBy[tn] = map[string]string{}
						}
						if _, ok := readBy[tn][sel.Sel.Name]; !ok {
							readBy[tn][sel.Sel.Name] = core.FuncKey(pk, fd)
						}
					}
				}
			}
			return true
		})
	})
	n := 0
	var tns []*types.TypeName
	for tn := range byType {
		tns = append(tns, tn)
	}
	sort.Slice(tns, func(i, j int) bool { return tns[i].Pos() < tns[j].Pos() })
	for _, tn := range tns {
		cis := byType[tn]
		if len(cis) < 2 {
			continue
		}
		// delegation closure (through helpers and With* methods that return the type as well)
		var allOfType []*ctorInfo
		for _, ci := range ctorOf {
			allOfType = append(allOfType, ci)
		}
		for iter := 0; iter < 4; iter++ {
			for _, ci := range allOfType {
				for _, g := range ci.deleg {
					if d := ctorOf[g]; d != nil && d != ci {
						for f := range d.fields {
							ci.fields[f] = true
						}
					}
				}
			}
		}
		union := map[string]bool{}
		for _, ci := range cis {
			for f := range ci.fields {
				union[f] = true
			}
		}
		for _, f := range sortedKeys(union) {
			reader, isRead := readBy[tn][f]
			// exported fields are part of the API: a constructor may leave them to the caller
			if !isRead || ast.IsExported(f) {
				continue
			}
			var missing []string
			for _, ci := range cis {
				if !ci.fields[f] && ci.fd.Name.IsExported() {
					missing = append(missing, ci.fd.Name.Name)
				}
			}
			n++
			key := fmt.Sprintf("CTORSIB:%s.%s.%s", core.ShortPkg(cis[0].pk.PkgPath), tn.Name(), f)
			if ex := ctorSibExempt[key]; ex != "" {
				out = append(out, okOb("CTORSIB", key, c.Rel(tn.Pos()), "exempt: "+ex, false))
			} else if len(missing) == 0 {
				out = append(out, okOb("CTORSIB", key, c.Rel(tn.Pos()), "assigned by every constructor", true))
			} else {
				sort.Strings(missing)
				out = append(out, violOb("CTORSIB", key, c.Rel(tn.Pos()), fmt.Sprintf("field %s.%s is read by %s and assigned by some constructors of %s but not by %s: objects built that way answer from a zero value", tn.Name(), f, reader, tn.Name(), strings.Join(missing, ", "))))
			}
		}
	}
	c.Stats["ctorsib_fields"] = n
	return out
}

// ctorSibExempt: obligation key -> reason.
var ctorSibExempt = map[string]string{}

func init() {
	core.Register(&core.Rule{Name: "CTORSIB", Props: []string{"C17", "C10", "C19"},
		Doc: "a field read by an exported method of a type and assigned by one of its New* constructors is assigned by all of them (directly or through a constructor they call)",
		Run: func(c *core.Ctx) []ob {
			out := scanCtorSib(c)
			out = append(out, core.Floor("CTORSIB", nil, "fields of multi-constructor types", c.Stats["ctorsib_fields"], 3)...)
			out = append(out, control(c, "CTORSIB", scanCtorSib, "Gen.key")...)
			return out
		}})
}
