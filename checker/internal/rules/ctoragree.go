package rules

import (
	"fmt"
	"go/ast"
	"go/token"
	"go/types"
	"strings"

	"golang.org/x/tools/go/packages"

	"lvcheck/internal/core"
)

// CTORAGREE — a copy constructor rebuilds a field the way the primary constructor builds it.
//
// When a copy constructor initialises field f with a fresh construction (a call), and a constructor New*(...) of
// the same type initialises f with a call to the same function, the two argument lists must be the same once
// expressed over the object's own fields: `recv.g` / `self.g` / a local or parameter that is stored into field g
// all read as <g>; single-definition locals are inlined. A difference such as <ringQ>.NewPoly() vs
// <ringP>.NewPoly(), or NewSampler(.., <params>.Xe(), ..) vs NewSampler(.., <noise>, ..), means the copy is
// configured differently from an original.
//
// COPYX — a field copied straight from the receiver must come from the same-named field.

type canonCtx struct {
	named   *types.Named
	info    *types.Info
	fd      *ast.FuncDecl
	selves  map[types.Object]bool
	stored  map[types.Object]string // local/param -> field it is stored into
	defs    map[types.Object][]ast.Expr
}

func newCanonCtx(info *types.Info, fd *ast.FuncDecl, named *types.Named) *canonCtx {
	cx := &canonCtx{named: named, info: info, fd: fd, selves: map[types.Object]bool{}, stored: map[types.Object]string{}, defs: map[types.Object][]ast.Expr{}}
	if r := recvObj(info, fd); r != nil && sameNamed(r.Type(), named) {
		cx.selves[r] = true
	}
	// variables of type T / *T declared in the function are objects under construction
	ast.Inspect(fd, func(n ast.Node) bool {
		if id, ok := n.(*ast.Ident); ok {
			if o, ok := info.Defs[id].(*types.Var); ok && o != nil && !o.IsField() && sameNamed(o.Type(), named) {
				if r := recvObj(info, fd); r == nil || o != r || true {
					cx.selves[o] = true
				}
			}
		}
		return true
	})
	// definitions and field stores
	ast.Inspect(fd.Body, func(n ast.Node) bool {
		switch x := n.(type) {
		case *ast.AssignStmt:
			for i, l := range x.Lhs {
				var rhs ast.Expr
				if len(x.Rhs) == len(x.Lhs) {
					rhs = x.Rhs[i]
				} else if len(x.Rhs) == 1 {
					rhs = x.Rhs[0]
				}
				l = unparen(l)
				if id, ok := l.(*ast.Ident); ok {
					o := info.Defs[id]
					if o == nil {
						o = info.Uses[id]
					}
					if o != nil {
						cx.defs[o] = append(cx.defs[o], rhs)
					}
				}
				if s, ok := l.(*ast.SelectorExpr); ok && rhs != nil && len(x.Rhs) == len(x.Lhs) {
					if cx.selves[identObj(info, s.X)] {
						if v := identObj(info, rhs); v != nil {
							cx.stored[v] = s.Sel.Name
						}
					}
				}
			}
		case *ast.CompositeLit:
			if sameNamed(info.TypeOf(x), named) {
				for _, el := range x.Elts {
					if kv, ok := el.(*ast.KeyValueExpr); ok {
						if k, ok := kv.Key.(*ast.Ident); ok {
							if v := identObj(info, kv.Value); v != nil {
								if _, isVar := v.(*types.Var); isVar {
									cx.stored[v] = k.Name
								}
							}
						}
					}
				}
			}
		}
		return true
	})
	return cx
}

func (cx *canonCtx) canon(e ast.Expr, depth int) string {
	if depth > 8 || e == nil {
		return "?"
	}
	e = unparen(e)
	switch x := e.(type) {
	case *ast.BasicLit:
		return x.Value
	case *ast.Ident:
		o := cx.info.Uses[x]
		if o == nil {
			o = cx.info.Defs[x]
		}
		if o == nil {
			return x.Name
		}
		switch o.(type) {
		case *types.Const, *types.Nil, *types.Func, *types.TypeName, *types.PkgName:
			return x.Name
		}
		if x.Name == "true" || x.Name == "false" || x.Name == "nil" {
			return x.Name
		}
		if cx.selves[o] {
			return "<self>"
		}
		if f, ok := cx.stored[o]; ok {
			return "<" + f + ">"
		}
		if ds := cx.defs[o]; len(ds) == 1 && ds[0] != nil {
			return cx.canon(ds[0], depth+1)
		}
		return "?" + x.Name
	case *ast.SelectorExpr:
		if cx.selves[identObj(cx.info, x.X)] {
			if sel := cx.info.Selections[x]; sel != nil && sel.Kind() == types.FieldVal {
				return "<" + x.Sel.Name + ">"
			}
		}
		if _, isPkg := cx.info.Uses[identOf(x.X)].(*types.PkgName); isPkg {
			return exprString(x)
		}
		base := cx.canon(x.X, depth+1)
		// <E>.f where E is an embedded field of T and f one of its fields is the promoted field <f>
		if strings.HasPrefix(base, "<") && strings.HasSuffix(base, ">") && !strings.Contains(base[1:], "<") {
			if st := structOf(cx.named); st != nil {
				for i := 0; i < st.NumFields(); i++ {
					if fl := st.Field(i); fl.Embedded() && fl.Name() == base[1:len(base)-1] {
						if est := structOf(fl.Type()); est != nil {
							for j := 0; j < est.NumFields(); j++ {
								if est.Field(j).Name() == x.Sel.Name {
									return "<" + x.Sel.Name + ">"
								}
							}
						}
					}
				}
			}
		}
		return base + "." + x.Sel.Name
	case *ast.CallExpr:
		var as []string
		for _, a := range x.Args {
			as = append(as, cx.canon(a, depth+1))
		}
		return cx.canon(x.Fun, depth+1) + "(" + strings.Join(as, ", ") + ")"
	case *ast.StarExpr:
		return cx.canon(x.X, depth+1)
	case *ast.UnaryExpr:
		return x.Op.String() + cx.canon(x.X, depth+1)
	case *ast.BinaryExpr:
		return "(" + cx.canon(x.X, depth+1) + x.Op.String() + cx.canon(x.Y, depth+1) + ")"
	case *ast.IndexExpr:
		return cx.canon(x.X, depth+1) + "[" + cx.canon(x.Index, depth+1) + "]"
	case *ast.TypeAssertExpr:
		return cx.canon(x.X, depth+1)
	case *ast.CompositeLit:
		return "?lit"
	}
	return "?"
}

func identOf(e ast.Expr) *ast.Ident {
	id, _ := unparen(e).(*ast.Ident)
	return id
}

// fieldInits returns, for a function building a T, the expression each field is initialised with (following one
// level of local variable for `f: v`).
func fieldInits(info *types.Info, fd *ast.FuncDecl, named *types.Named, cx *canonCtx) map[string][]ast.Expr {
	out := map[string][]ast.Expr{}
	resolve := func(e ast.Expr) ast.Expr {
		if o := identObj(info, e); o != nil {
			if ds := cx.defs[o]; len(ds) == 1 && ds[0] != nil {
				return ds[0]
			}
		}
		return e
	}
	ast.Inspect(fd.Body, func(n ast.Node) bool {
		switch x := n.(type) {
		case *ast.CompositeLit:
			if sameNamed(info.TypeOf(x), named) {
				for _, el := range x.Elts {
					if kv, ok := el.(*ast.KeyValueExpr); ok {
						if k, ok := kv.Key.(*ast.Ident); ok {
							out[k.Name] = append(out[k.Name], resolve(kv.Value))
						}
					}
				}
			}
		case *ast.AssignStmt:
			for i, l := range x.Lhs {
				s, ok := unparen(l).(*ast.SelectorExpr)
				if !ok || !cx.selves[identObj(info, s.X)] {
					continue
				}
				var rhs ast.Expr
				if len(x.Rhs) == len(x.Lhs) {
					rhs = x.Rhs[i]
				} else if len(x.Rhs) == 1 {
					rhs = x.Rhs[0]
				}
				if rhs != nil {
					out[s.Sel.Name] = append(out[s.Sel.Name], resolve(rhs))
				}
			}
		}
		return true
	})
	return out
}

func scanCtorAgree(c *core.Ctx) []ob {
	var out []ob
	// primary constructors by type
	type ctor struct {
		pk *packages.Package
		fd *ast.FuncDecl
	}
	prim := map[*types.TypeName][]ctor{}
	c.FuncDecls(func(pk *packages.Package, file *ast.File, fd *ast.FuncDecl) {
		if fd.Recv != nil || !(strings.HasPrefix(fd.Name.Name, "New") || strings.HasPrefix(fd.Name.Name, "new")) || fileIsTestSupport(c.Program, fd.Pos()) {
			return
		}
		sig := pk.TypesInfo.Defs[fd.Name].(*types.Func).Type().(*types.Signature)
		if sig.Results().Len() == 0 {
			return
		}
		if n := namedOf(sig.Results().At(0).Type()); n != nil && n.Obj().Pkg() == pk.Types {
			prim[n.Origin().Obj()] = append(prim[n.Origin().Obj()], ctor{pk, fd})
		}
	})
	nCmp, nX := 0, 0
	for _, cc := range findCopyCtors(c.Program) {
		info := cc.pk.TypesInfo
		fkey := core.FuncKey(cc.pk, cc.fd)
		props := copyfProps(core.ShortPkg(cc.pk.PkgPath), cc.named.Obj().Name())
		cx := newCanonCtx(info, cc.fd, cc.named)
		recv := recvObj(info, cc.fd)
		inits := fieldInits(info, cc.fd, cc.named, cx)
		for f, es := range inits {
			for _, e := range es {
				e0 := unparen(e)
				// COPYX: straight field copy from a different field
				if s, ok := e0.(*ast.SelectorExpr); ok && recv != nil && identObj(info, s.X) == recv {
					if sel := info.Selections[s]; sel != nil && sel.Kind() == types.FieldVal {
						nX++
						key := fmt.Sprintf("COPYX:%s#field=%s", fkey, f)
						if s.Sel.Name != f {
							out = append(out, withProps(violOb("COPYX", key, c.Rel(e.Pos()), fmt.Sprintf("%s initialises field %s of the copy from field %s of the original", fkey, f, s.Sel.Name)), props...))
						} else {
							out = append(out, withProps(okOb("COPYX", key, c.Rel(e.Pos()), "copied from the same-named field", false), props...))
						}
					}
					continue
				}
				call, ok := e0.(*ast.CallExpr)
				if !ok {
					continue
				}
				callee := funcOrigin(calleeFunc(info, call))
				if callee == nil || copyCtorNames[callee.Name()] {
					continue
				}
				mine := cx.canon(call, 0)
				for _, pc := range prim[cc.named.Origin().Obj()] {
					pinfo := pc.pk.TypesInfo
					pcx := newCanonCtx(pinfo, pc.fd, cc.named)
					for _, pe := range fieldInits(pinfo, pc.fd, cc.named, pcx)[f] {
						pcall, ok := unparen(pe).(*ast.CallExpr)
						if !ok || funcOrigin(calleeFunc(pinfo, pcall)) != callee {
							continue
						}
						theirs := pcx.canon(pcall, 0)
						key := fmt.Sprintf("CTORAGREE:%s#field=%s~%s", fkey, f, pc.fd.Name.Name)
						if strings.Contains(mine, "?") || strings.Contains(theirs, "?") {
							out = append(out, withProps(infoOb("CTORAGREE", key, c.Rel(call.Pos()), fmt.Sprintf("not comparable: %s vs %s", mine, theirs)), props...))
							continue
						}
						nCmp++
						if mine != theirs {
							out = append(out, withProps(violOb("CTORAGREE", key, c.Rel(call.Pos()), fmt.Sprintf("%s rebuilds field %s as %s, but the constructor %s builds it as %s (both written over the object's own fields): the copy is configured differently from an original", fkey, f, mine, pc.fd.Name.Name, theirs)), props...))
						} else {
							out = append(out, withProps(okOb("CTORAGREE", key, c.Rel(call.Pos()), "same construction as "+pc.fd.Name.Name+": "+mine, true), props...))
						}
					}
				}
			}
		}
	}
	c.Stats["ctoragree_comparisons"] = nCmp
	c.Stats["copyx_fields"] = nX
	return out
}

func init() {
	core.Register(&core.Rule{Name: "CTORAGREE", Props: []string{"C10", "C18", "C16", "C14", "C17", "C20", "C07", "C02"},
		Doc: "a field that a copy constructor rebuilds with a call is built with the same arguments (expressed over the object's own fields) as in the primary constructor that uses the same call; a field copied straight from the receiver comes from the same-named field",
		Run: func(c *core.Ctx) []ob {
			out := scanCtorAgree(c)
			for _, o := range core.Floor("CTORAGREE", nil, "constructor comparisons", c.Stats["ctoragree_comparisons"], 15) {
				out = append(out, withProps(o, "C10"))
			}
			for _, o := range core.Floor("COPYX", nil, "straight field copies", c.Stats["copyx_fields"], 60) {
				out = append(out, withProps(o, "C10"))
			}
			return out
		}})
}

var _ = token.NoPos
