package rules

import (
	"fmt"
	"go/ast"
	"go/constant"
	"go/types"
	"sort"
	"strings"

	"golang.org/x/tools/go/packages"

	"lvcheck/internal/core"
)

// INDEG — an operation that reads only the first two components of an input ciphertext says so.
//
// `PartialTracesSum(ctIn, ...)` read `ctIn.Value[0]` and `ctIn.Value[1]` and nothing else: a degree-2 input (a product
// that has not been relinearised) lost its third component, `err == nil`, and the sum decrypted to garbage — while
// `Rotate` and `Trace` refuse the same input with "degree must be 1".
//
// Rule. For every function of core/, schemes/ and circuits/ with an input parameter x (not an output by name) that is
// a ciphertext or an element: when the body addresses components of x by constant index only (x.Value[0], x.Value[1])
// and nothing in it depends on how many components x has — no x.Degree(), len(x.Value), range over x.Value, no
// variable index, x.Value not handed on as a slice — then either
//   - x is handed whole to a module function that refuses inputs of another degree with an error (least fixpoint), or
//   - the function is unexported and every caller passes an argument that its own body takes the degree of into
//     account (or builds itself),
// otherwise the components above the first two are silently dropped.

type indegFn struct {
	pk  *packages.Package
	fd  *ast.FuncDecl
	fn  *types.Func
	key string
	// per input parameter
	constOnly map[*types.Var]ast.Node // parameter -> first constant-index read (only when nothing degree-aware is present)
	aware     map[*types.Var]bool     // the body mentions the degree/len/range/variable index of the parameter
	passes    map[*types.Var][]indegPass
}

type indegPass struct {
	callee *types.Func
	idx    int // parameter index in the callee (-1: receiver)
}

func isCtLike(t types.Type) bool {
	if t == nil {
		return false
	}
	s := deref(t).String()
	if strings.Contains(s, "ringqp.Poly") {
		return false // accumulators in QP are produced by the gadget products, always of degree 1
	}
	return strings.Contains(s, "rlwe.Ciphertext") || strings.Contains(s, "rlwe.Element[") || strings.Contains(s, "lvfixture.Ct")
}

func scanInDeg(c *core.Ctx) []ob {
	var out []ob
	fns := map[*types.Func]*indegFn{}
	eff := effFor(c)
	var order []*indegFn
	c.FuncDecls(func(pk *packages.Package, file *ast.File, fd *ast.FuncDecl) {
		rel := core.ShortPkg(pk.PkgPath)
		if fd.Body == nil || fileIsTestSupport(c.Program, fd.Pos()) || inExamples(pk) {
			return
		}
		if !(c.IsFixture || strings.HasPrefix(rel, "schemes/") || strings.HasPrefix(rel, "core/") || strings.HasPrefix(rel, "circuits/")) {
			return
		}
		info := pk.TypesInfo
		fn, _ := info.Defs[fd.Name].(*types.Func)
		if fn == nil {
			return
		}
		sig := fn.Type().(*types.Signature)
		d := &indegFn{pk: pk, fd: fd, fn: fn, key: core.FuncKey(pk, fd), constOnly: map[*types.Var]ast.Node{}, aware: map[*types.Var]bool{}, passes: map[*types.Var][]indegPass{}}
		params := map[types.Object]*types.Var{}
		for i := 0; i < sig.Params().Len(); i++ {
			p := sig.Params().At(i)
			if isCtLike(p.Type()) && !isOutParamName(p.Name()) && p.Name() != "" && p.Name() != "_" {
				// an element the function writes into is an output (or an accumulator) whatever its name
				if sum := eff.sums[fn]; sum != nil && sum.wParams[i] {
					continue
				}
				params[p] = p
			}
		}
		if len(params) == 0 {
			return
		}
		// x.Value / x.El().Value rooted at parameter
		valueOf := func(e ast.Expr) *types.Var {
			se, ok := unparen(e).(*ast.SelectorExpr)
			if !ok || se.Sel.Name != "Value" {
				return nil
			}
			b := unparen(se.X)
			if call, ok := b.(*ast.CallExpr); ok {
				if s2, ok := unparen(call.Fun).(*ast.SelectorExpr); ok && s2.Sel.Name == "El" && len(call.Args) == 0 {
					b = unparen(s2.X)
				}
			}
			if id, ok := b.(*ast.Ident); ok {
				if p := params[info.Uses[id]]; p != nil {
					return p
				}
			}
			return nil
		}
		var stack []ast.Node
		ast.Inspect(fd.Body, func(n ast.Node) bool {
			if n == nil {
				stack = stack[:len(stack)-1]
				return true
			}
			stack = append(stack, n)
			switch x := n.(type) {
			case *ast.SelectorExpr:
				// x.Degree() / x.El().Degree()
				if x.Sel.Name == "Degree" {
					b := unparen(x.X)
					if call, ok := b.(*ast.CallExpr); ok {
						if s2, ok := unparen(call.Fun).(*ast.SelectorExpr); ok && s2.Sel.Name == "El" {
							b = unparen(s2.X)
						}
					}
					if id, ok := b.(*ast.Ident); ok {
						if p := params[info.Uses[id]]; p != nil {
							d.aware[p] = true
						}
					}
				}
				if p := valueOf(x); p != nil {
					// context of x.Value
					var parent ast.Node
					if len(stack) >= 2 {
						parent = stack[len(stack)-2]
					}
					switch pp := parent.(type) {
					case *ast.IndexExpr:
						if pp.X == ast.Expr(x) {
							if tv, ok := info.Types[pp.Index]; ok && tv.Value != nil && tv.Value.Kind() == constant.Int {
								if _, seen := d.constOnly[p]; !seen {
									d.constOnly[p] = pp
								}
							} else {
								d.aware[p] = true
							}
							return true
						}
						d.aware[p] = true
					default:
						// len(x.Value), range x.Value, x.Value[:k], f(x.Value), y := x.Value
						d.aware[p] = true
					}
				}
			case *ast.CallExpr:
				callee := indegCallee(info, x)
				if callee == nil {
					// dynamic call (interface method): the parameter handed on whole is out of sight
					for _, a := range x.Args {
						if id, ok := unparen(a).(*ast.Ident); ok {
							if p := params[info.Uses[id]]; p != nil {
								d.aware[p] = true
							}
						}
					}
					return true
				}
				for i, a := range x.Args {
					b := unparen(a)
					if call, ok := b.(*ast.CallExpr); ok {
						if s2, ok := unparen(call.Fun).(*ast.SelectorExpr); ok && s2.Sel.Name == "El" && len(call.Args) == 0 {
							b = unparen(s2.X)
						}
					}
					if id, ok := b.(*ast.Ident); ok {
						if p := params[info.Uses[id]]; p != nil {
							d.passes[p] = append(d.passes[p], indegPass{callee, i})
						}
					}
				}
				if se, ok := unparen(x.Fun).(*ast.SelectorExpr); ok {
					if id, ok := unparen(se.X).(*ast.Ident); ok {
						if p := params[info.Uses[id]]; p != nil && se.Sel.Name != "Degree" {
							d.passes[p] = append(d.passes[p], indegPass{callee, -1})
						}
					}
				}
			}
			return true
		})
		fns[fn] = d
		order = append(order, d)
	})
	// handles(fn, idx): the callee takes the degree of its idx-th parameter into account. Functions outside the analysed
	// packages (or without a body) are taken to do so.
	paramVar := func(d *indegFn, idx int) *types.Var {
		sig := d.fn.Type().(*types.Signature)
		if idx == -1 {
			return sig.Recv()
		}
		if sig.Variadic() && idx >= sig.Params().Len()-1 {
			return sig.Params().At(sig.Params().Len() - 1)
		}
		if idx < sig.Params().Len() {
			return sig.Params().At(idx)
		}
		return nil
	}
	// guards(fn, p): the function refuses, with an error, an input p of another degree — itself, or by handing p to a
	// module function that does (least fixpoint). A callee that merely loops over the components it receives (Copy)
	// says nothing about the constant-index reads of its caller.
	guards := map[*indegFn]map[*types.Var]bool{}
	for _, d := range order {
		guards[d] = map[*types.Var]bool{}
		sig := d.fn.Type().(*types.Signature)
		for i := 0; i < sig.Params().Len(); i++ {
			if p := sig.Params().At(i); degreeGuarded(d.pk.TypesInfo, d.fd, p) {
				guards[d][p] = true
			}
		}
	}
	for changed := true; changed; {
		changed = false
		for _, d := range order {
			for p, pss := range d.passes {
				if guards[d][p] {
					continue
				}
				for _, ps := range pss {
					cd := fns[ps.callee]
					if cd == nil {
						continue
					}
					if pv := paramVar(cd, ps.idx); pv != nil && guards[cd][pv] {
						guards[d][p] = true
						changed = true
						break
					}
				}
			}
		}
	}
	handled := map[*indegFn]map[*types.Var]bool{}
	for _, d := range order {
		handled[d] = map[*types.Var]bool{}
		for p := range d.aware {
			handled[d][p] = true
		}
		for p := range guards[d] {
			handled[d][p] = true
		}
	}
	// callers of unexported functions
	type callSite struct {
		d    *indegFn
		call *ast.CallExpr
	}
	callers := map[*types.Func][]callSite{}
	c.FuncDecls(func(pk *packages.Package, file *ast.File, fd *ast.FuncDecl) {
		if fd.Body == nil {
			return
		}
		info := pk.TypesInfo
		fn, _ := info.Defs[fd.Name].(*types.Func)
		ast.Inspect(fd.Body, func(n ast.Node) bool {
			if call, ok := n.(*ast.CallExpr); ok {
				if cal := indegCallee(info, call); cal != nil && fns[cal] != nil {
					callers[cal] = append(callers[cal], callSite{fns[fn], call})
					if fns[fn] == nil {
						callers[cal][len(callers[cal])-1].d = &indegFn{pk: pk, fd: fd, fn: fn, key: core.FuncKey(pk, fd)}
					}
				}
			}
			return true
		})
	})
	n := 0
	sort.Slice(order, func(i, j int) bool { return order[i].key < order[j].key })
	for _, d := range order {
		var ps []*types.Var
		for p := range d.constOnly {
			ps = append(ps, p)
		}
		sort.Slice(ps, func(i, j int) bool { return ps[i].Name() < ps[j].Name() })
		var paramAccounted func(fn *types.Func, v *types.Var, depth int) bool
		paramAccounted = func(fn *types.Func, v *types.Var, depth int) bool {
			if depth > 3 || len(callers[fn]) == 0 {
				return false
			}
			fsig := fn.Type().(*types.Signature)
			idx := -1
			for i := 0; i < fsig.Params().Len(); i++ {
				if fsig.Params().At(i) == v {
					idx = i
				}
			}
			if idx < 0 {
				return false
			}
			for _, cs := range callers[fn] {
				if idx >= len(cs.call.Args) {
					return false
				}
				info := cs.d.pk.TypesInfo
				ao := identObj(info, cs.call.Args[idx])
				if ao == nil {
					continue
				}
				av, isVar := ao.(*types.Var)
				if !isVar {
					return false
				}
				if cd := fns[cs.d.fn]; cd != nil && (handled[cd][av] || cd.aware[av]) {
					continue
				}
				if degreeGuarded(info, cs.d.fd, ao) || !isParamOf(cs.d.fn, av) {
					continue
				}
				if (!cs.d.fn.Exported() || !recvExported(cs.d.fn)) && paramAccounted(cs.d.fn, av, depth+1) {
					continue
				}
				return false
			}
			return true
		}
		for _, p := range ps {
			n++
			key := fmt.Sprintf("INDEG:%s#%s", d.key, p.Name())
			props := append(metaProps(d.key), "C09")
			if handled[d][p] {
				out = append(out, withProps(okOb("INDEG", key, c.Rel(d.fd.Pos()), "the number of components of the input is taken into account (degree test, loop over the components, or handed to a callee that does)", true), props...))
				continue
			}
			where := "it is exported"
			if !d.fn.Exported() || !recvExported(d.fn) {
				// all callers pass something whose degree they account for
				allOK := len(callers[d.fn]) > 0
				bad := ""
				sig := d.fn.Type().(*types.Signature)
				pi := -1
				for i := 0; i < sig.Params().Len(); i++ {
					if sig.Params().At(i) == p {
						pi = i
					}
				}
				for _, cs := range callers[d.fn] {
					if pi < 0 || pi >= len(cs.call.Args) {
						allOK = false
						break
					}
					info := cs.d.pk.TypesInfo
					ao := identObj(info, cs.call.Args[pi])
					ok := false
					if ao != nil {
						if v, isVar := ao.(*types.Var); isVar {
							if cd := fns[cs.d.fn]; cd != nil && (handled[cd][v] || cd.aware[v]) {
								ok = true
							}
							if !ok && degreeGuarded(info, cs.d.fd, ao) {
								ok = true
							}
							if !ok && !isParamOf(cs.d.fn, v) {
								ok = true // a local the caller built (known shape)
							}
							// the caller is itself an unexported helper that hands its own parameter on: its callers decide
							if !ok && isParamOf(cs.d.fn, v) && (!cs.d.fn.Exported() || !recvExported(cs.d.fn)) {
								ok = paramAccounted(cs.d.fn, v, 0)
							}
						}
					} else {
						ok = true // composite literal / constructor call built in place
					}
					if !ok {
						allOK = false
						bad = cs.d.key + " at " + c.Rel(cs.call.Pos())
						break
					}
				}
				if allOK {
					out = append(out, withProps(okOb("INDEG", key, c.Rel(d.fd.Pos()), "unexported: every caller passes an input whose degree it accounts for", true), props...))
					continue
				}
				where = "its caller " + bad + " passes an input of any degree"
				if bad == "" {
					where = "it has no caller that accounts for the degree"
				}
			}
			out = append(out, withProps(violOb("INDEG", key, c.Rel(d.constOnly[p].Pos()), fmt.Sprintf("%s addresses the components of the input %s by constant index only (%s) and nothing in it depends on the degree of %s; %s: the components of an input of higher degree are silently dropped (and an input of degree 0 indexes out of range)", d.key, p.Name(), exprString(d.constOnly[p].(ast.Expr)), p.Name(), where)), props...))
		}
	}
	c.Stats["indeg_params"] = n
	return out
}

func recvExported(fn *types.Func) bool {
	sig := fn.Type().(*types.Signature)
	if sig.Recv() == nil {
		return true
	}
	if nt, ok := deref(sig.Recv().Type()).(*types.Named); ok {
		return nt.Obj().Exported()
	}
	return true
}

func isParamOf(fn *types.Func, v *types.Var) bool {
	if fn == nil {
		return false
	}
	sig := fn.Type().(*types.Signature)
	for i := 0; i < sig.Params().Len(); i++ {
		if sig.Params().At(i) == v {
			return true
		}
	}
	return sig.Recv() == v
}

func init() {
	all := []string{"C04", "C05", "C06", "C09", "C11", "C12", "C13", "C20"}
	core.Register(&core.Rule{Name: "INDEG", Props: all,
		Doc: "a function that addresses the components of an input ciphertext by constant index only takes the input's degree into account (degree test, loop over the components, a callee that does — greatest fixpoint), or is unexported with callers that do",
		Run: func(c *core.Ctx) []ob {
			out := scanInDeg(c)
			for _, o := range control(c, "INDEG", scanInDeg, "(fixEvaluator).SumTwo") {
				out = append(out, withProps(o, all...))
			}
			for _, o := range core.Floor("INDEG", nil, "inputs addressed by constant index", c.Stats["indeg_params"], 10) {
				out = append(out, withProps(o, all...))
			}
			return out
		}})
}

func indegCallee(info *types.Info, call *ast.CallExpr) *types.Func {
	if fn := calleeFunc(info, call); fn != nil {
		return funcOrigin(fn)
	}
	return nil
}
