package rules

import (
	"fmt"
	"go/ast"
	"go/token"
	"go/types"
	"strings"

	"golang.org/x/tools/go/packages"

	"lvcheck/internal/core"
)

// AGGSYM — share aggregation is component-wise addition, complete and guarded.
//
// For every method AggregateShares(s1, s2, out):
//   (sym)   every polynomial store into out is X.Add(s1.c, s2.c, out.c) on the same component path c of the three
//           operands (after resolving local views), or the whole call is delegated to another AggregateShares with
//           twin projections of the three operands; nothing else writes out's polynomials;
//   (cover) every field of the share type is covered: added, delegated, or copied from an input;
//   (guard) a non-polynomial field copied from one input (identity tag, metadata) is compared between the two
//           inputs in a condition that returns an error; a comparison meant to reject mismatched shares must
//           mention both inputs (a guard comparing an operand with itself rejects nothing).
// (sym) is the structural reason aggregation is commutative and associative; (cover)/(guard) make the result
// independent of whether the accumulator is a fresh share or one of the inputs.

func aggProjection(info *types.Info, e ast.Expr, params []types.Object, views map[types.Object]ast.Expr, depth int) (int, string) {
	if depth > 8 {
		return -1, ""
	}
	e = unparen(e)
	proj := ""
	for {
		switch x := e.(type) {
		case *ast.Ident:
			o := info.Uses[x]
			for i, p := range params {
				if o == p {
					return i, proj
				}
			}
			if v, ok := views[o]; ok {
				i, p2 := aggProjection(info, v, params, views, depth+1)
				return i, p2 + proj
			}
			return -1, ""
		case *ast.SelectorExpr:
			step := "." + x.Sel.Name
			// spell out the embedded fields a promoted selection goes through
			if sel := info.Selections[x]; sel != nil && len(sel.Index()) > 1 {
				t := sel.Recv()
				pre := ""
				for _, ix := range sel.Index()[:len(sel.Index())-1] {
					st := structOf(t)
					if st == nil {
						break
					}
					pre += "." + st.Field(ix).Name()
					t = st.Field(ix).Type()
				}
				step = pre + step
			}
			proj = step + proj
			e = x.X
		case *ast.IndexExpr:
			proj = "[" + exprString(x.Index) + "]" + proj
			e = x.X
		case *ast.CallExpr:
			// x.f.Level(): attribute the quantity to its operand
			if s, ok := unparen(x.Fun).(*ast.SelectorExpr); ok && len(x.Args) == 0 {
				proj = "." + s.Sel.Name + "()" + proj
				e = s.X
				continue
			}
			return -1, ""
		case *ast.StarExpr:
			e = x.X
		case *ast.UnaryExpr:
			if x.Op != token.AND {
				return -1, ""
			}
			e = x.X
		case *ast.ParenExpr:
			e = x.X
		default:
			return -1, ""
		}
	}
}

func scanAggSym(c *core.Ctx) []ob {
	var out []ob
	n := 0
	c.FuncDecls(func(pk *packages.Package, file *ast.File, fd *ast.FuncDecl) {
		if fd.Name.Name != "AggregateShares" || fd.Recv == nil || fileIsTestSupport(c.Program, fd.Pos()) || inExamples(pk) {
			return
		}
		info := pk.TypesInfo
		var params []types.Object
		for _, f := range fd.Type.Params.List {
			for _, nm := range f.Names {
				params = append(params, info.Defs[nm])
			}
		}
		if len(params) != 3 {
			return
		}
		n++
		fkey := core.FuncKey(pk, fd)
		key := "AGGSYM:" + fkey
		pos := c.Rel(fd.Pos())
		// local views: x := paramK.path
		views := map[types.Object]ast.Expr{}
		ast.Inspect(fd.Body, func(nd ast.Node) bool {
			if as, ok := nd.(*ast.AssignStmt); ok && as.Tok == token.DEFINE && len(as.Lhs) == len(as.Rhs) {
				for i, l := range as.Lhs {
					if id, ok := l.(*ast.Ident); ok {
						views[info.Defs[id]] = as.Rhs[i]
					}
				}
			}
			// the value variable of a range is the element at the key: `for i, row := range m1` → row = m1[i]
			if rs, ok := nd.(*ast.RangeStmt); ok && rs.Tok == token.DEFINE {
				if vid, ok := rs.Value.(*ast.Ident); ok && vid.Name != "_" {
					if kid, ok := rs.Key.(*ast.Ident); ok && kid.Name != "_" {
						views[info.Defs[vid]] = &ast.IndexExpr{X: rs.X, Index: kid}
					}
				}
			}
			return true
		})
		covered := map[string]bool{}
		var problems []string
		nAdds, nDeleg := 0, 0
		var inspectCalls func(root ast.Node, depth int)
		inspectCalls = func(root ast.Node, depth int) {
			ast.Inspect(root, func(nd ast.Node) bool {
				if _, isLit := nd.(*ast.FuncLit); isLit && nd != root {
					return false // the body of a closure is looked at where the closure is called
				}
				call, ok := nd.(*ast.CallExpr)
				if !ok {
					return true
				}
				sel, isSel := unparen(call.Fun).(*ast.SelectorExpr)
				name := ""
				var ringRecv types.Type
				if isSel {
					name = sel.Sel.Name
					ringRecv = info.TypeOf(sel.X)
				} else if id, ok := unparen(call.Fun).(*ast.Ident); ok {
					name = id.Name
					if v, ok := info.Uses[id].(*types.Var); ok {
						// a local that holds a method value of a ring (`add := ringQ.AtLevel(l).Add`)
						if fn := localFnVals[v]; fn != nil {
							name = fn.Name()
							if sig, ok := fn.Type().(*types.Signature); ok && sig.Recv() != nil {
								ringRecv = sig.Recv().Type()
							}
						}
						// a closure of the function: its body with the parameters standing for the arguments
						if lit := localFnLits[v]; lit != nil && depth < 2 {
							i := 0
							var bound []types.Object
							for _, fl := range lit.Type.Params.List {
								for _, nm := range fl.Names {
									if o := info.Defs[nm]; o != nil && i < len(call.Args) {
										views[o] = call.Args[i]
										bound = append(bound, o)
									}
									i++
								}
							}
							inspectCalls(lit.Body, depth+1)
							for _, o := range bound {
								delete(views, o)
							}
							return true
						}
					}
				}
				if aggHelperDelegation(c, info, call, name, params, views, covered, &nAdds, &problems) {
					return true
				}
				if ringRecv == nil {
					return true
				}
				if name == "AggregateShares" && len(call.Args) == 3 {
					var projs [3]string
					for i, a := range call.Args {
						pi, pr := aggProjection(info, a, params, views, 0)
						if pi != i {
							problems = append(problems, fmt.Sprintf("delegation passes %s as operand %d", exprString(a), i+1))
						}
						projs[i] = pr
					}
					if projs[0] != projs[1] || projs[1] != projs[2] {
						problems = append(problems, fmt.Sprintf("delegation projects the operands differently: %q, %q, %q", projs[0], projs[1], projs[2]))
					}
					nDeleg++
					covered[firstField(projs[2])] = true
					return true
				}
				// ring operations writing into out
				if len(call.Args) >= 2 {
					last := call.Args[len(call.Args)-1]
					pi, pr := aggProjection(info, last, params, views, 0)
					if pi == 2 && polyish(info.TypeOf(last)) {
						rt := namedOf(ringRecv)
						isRing := rt != nil && rt.Obj().Name() == "Ring"
						if !isRing {
							return true
						}
						if (name != "Add" && name != "AddLazy") || len(call.Args) != 3 {
							problems = append(problems, fmt.Sprintf("%s writes the output share with %s instead of Add", exprString(call), name))
							return true
						}
						p0, r0 := aggProjection(info, call.Args[0], params, views, 0)
						p1, r1 := aggProjection(info, call.Args[1], params, views, 0)
						okOps := (p0 == 0 && p1 == 1) || (p0 == 1 && p1 == 0)
						if !okOps {
							problems = append(problems, fmt.Sprintf("%s does not add one component of each input share", exprString(call)))
						} else if r0 != pr || r1 != pr {
							problems = append(problems, fmt.Sprintf("%s adds components %q and %q into component %q: not the same component of the three shares", exprString(call), r0, r1, pr))
						}
						nAdds++
						covered[firstField(pr)] = true
					}
				}
				return true
			})
		}
		inspectCalls(fd.Body, 0)
		// plain field copies out.f = sK.f  and guards
		type copyInfo struct {
			field string
			pos   token.Pos
		}
		var copies []copyInfo
		ast.Inspect(fd.Body, func(nd ast.Node) bool {
			as, ok := nd.(*ast.AssignStmt)
			if !ok || as.Tok != token.ASSIGN || len(as.Lhs) != len(as.Rhs) {
				return true
			}
			for i, l := range as.Lhs {
				pi, pr := aggProjection(info, l, params, views, 0)
				if pi != 2 || pr == "" {
					continue
				}
				si, sr := aggProjection(info, as.Rhs[i], params, views, 0)
				if (si == 0 || si == 1) && sr == pr {
					copies = append(copies, copyInfo{pr, l.Pos()})
					covered[firstField(pr)] = true
				} else {
					problems = append(problems, fmt.Sprintf("output field %s is assigned %s, which is not the same field of an input share", pr, exprString(as.Rhs[i])))
				}
			}
			return true
		})
		// guards: conditions that lead to an error return
		guardBoth := map[string]bool{} // field projection compared between s1 and s2
		// a guard is the condition of an if, or of a clause of a tagless switch, whose block returns
		type guardCond struct{ cond ast.Expr }
		var guardConds []guardCond
		returns := func(list []ast.Stmt) bool {
			for _, st := range list {
				if _, ok := st.(*ast.ReturnStmt); ok {
					return true
				}
			}
			return false
		}
		ast.Inspect(fd.Body, func(nd ast.Node) bool {
			switch v := nd.(type) {
			case *ast.IfStmt:
				if returns(v.Body.List) {
					guardConds = append(guardConds, guardCond{v.Cond})
				}
			case *ast.SwitchStmt:
				if v.Tag == nil {
					for _, cl := range v.Body.List {
						if cc, ok := cl.(*ast.CaseClause); ok && returns(cc.Body) && len(cc.List) > 0 {
							// `case a, b, c:` is the disjunction of its expressions
							cond := cc.List[0]
							for _, e := range cc.List[1:] {
								cond = &ast.BinaryExpr{X: cond, Op: token.LOR, Y: e}
							}
							guardConds = append(guardConds, guardCond{cond})
						}
					}
				}
			}
			return true
		})
		for _, gc := range guardConds {
			is := struct{ Cond ast.Expr }{gc.cond}
			mentions := [3]bool{}
			// what the condition looks at: the shares it names, those behind the locals it names (a level read
			// earlier, a flag computed from a comparison) and those a closure predicate it calls looks at
			var mentionIn func(e ast.Node, depth int)
			mentionIn = func(e ast.Node, depth int) {
				if e == nil || depth > 4 {
					return
				}
				ast.Inspect(e, func(x ast.Node) bool {
					id, ok := x.(*ast.Ident)
					if !ok {
						return true
					}
					o := info.Uses[id]
					for i, p := range params {
						if o == p {
							mentions[i] = true
						}
					}
					if v, ok := views[o]; ok {
						mentionIn(v, depth+1)
					}
					if lv, ok := o.(*types.Var); ok {
						if lit := localFnLits[lv]; lit != nil {
							mentionIn(lit.Body, depth+1)
						}
					}
					return true
				})
			}
			mentionIn(is.Cond, 0)
			// the comparisons that reject on their own: the condition itself, a disjunct of it, a conjunct of a negated
			// conjunction (`!(a == b && a == c)`), through flags kept in locals (`ok := a.Equal(&b); !ok`). A comparison
			// conjoined with further conditions — `a != b && a != 0 && b != 0` — lets mismatches through and does not count
			agree := func(x, y ast.Expr) {
				pa, ra := aggProjection(info, stripCalls(x), params, views, 0)
				pb, rb := aggProjection(info, stripCalls(y), params, views, 0)
				if (pa == 0 && pb == 1 || pa == 1 && pb == 0) && ra == rb {
					guardBoth[ra] = true
				}
			}
			var effective func(e ast.Expr, neg bool, depth int)
			effective = func(e ast.Expr, neg bool, depth int) {
				if depth > 6 {
					return
				}
				e = unparen(e)
				switch v := e.(type) {
				case *ast.Ident:
					if d, ok := views[info.Uses[v]]; ok {
						if b, ok := info.TypeOf(v).Underlying().(*types.Basic); ok && b.Kind() == types.Bool {
							effective(d, neg, depth+1)
						}
					}
				case *ast.UnaryExpr:
					if v.Op == token.NOT {
						effective(v.X, !neg, depth+1)
					}
				case *ast.BinaryExpr:
					switch {
					case v.Op == token.LOR && !neg, v.Op == token.LAND && neg:
						effective(v.X, neg, depth+1)
						effective(v.Y, neg, depth+1)
					case v.Op == token.NEQ && !neg, v.Op == token.EQL && neg:
						agree(v.X, v.Y)
					}
				case *ast.CallExpr:
					// !a.Equal(&b)
					if s, ok := unparen(v.Fun).(*ast.SelectorExpr); ok && s.Sel.Name == "Equal" && len(v.Args) == 1 && neg {
						agree(s.X, v.Args[0])
					}
				}
			}
			effective(is.Cond, false, 0)
			if (mentions[0] || mentions[1]) && !(mentions[0] && mentions[1]) {
				problems = append(problems, fmt.Sprintf("the guard `%s` mentions only one of the two input shares: a mismatched second share is never rejected", exprString(is.Cond)))
			}
		}
		// a copy made in the branch where the two inputs were found equal (`if a == b { out = a; … }`)
		ast.Inspect(fd.Body, func(nd ast.Node) bool {
			is, ok := nd.(*ast.IfStmt)
			if !ok {
				return true
			}
			var eq func(e ast.Expr)
			eq = func(e ast.Expr) {
				e = unparen(e)
				if be, ok := e.(*ast.BinaryExpr); ok {
					switch be.Op {
					case token.LAND:
						eq(be.X)
						eq(be.Y)
					case token.EQL:
						pa, ra := aggProjection(info, stripCalls(be.X), params, views, 0)
						pb, rb := aggProjection(info, stripCalls(be.Y), params, views, 0)
						if (pa == 0 && pb == 1 || pa == 1 && pb == 0) && ra == rb {
							for _, cp := range copies {
								if cp.field == ra && cp.pos >= is.Body.Pos() && cp.pos <= is.Body.End() {
									guardBoth[ra] = true
								}
							}
						}
					}
				}
			}
			eq(is.Cond)
			return true
		})
		for _, cp := range copies {
			if !guardBoth[cp.field] {
				problems = append(problems, fmt.Sprintf("output field %s is copied from one input without first checking that both inputs agree on it", cp.field))
			}
		}
		// field coverage of the share type
		if st := structOf(params[2].Type()); st != nil && nDeleg == 0 {
			for i := 0; i < st.NumFields(); i++ {
				f := st.Field(i)
				if !covered["."+f.Name()] && !covered[""] {
					problems = append(problems, fmt.Sprintf("field %s of the output share is neither aggregated nor copied: an aggregate built in a fresh share differs from one built in place", f.Name()))
				}
			}
		} else if st != nil && nDeleg > 0 {
			for i := 0; i < st.NumFields(); i++ {
				f := st.Field(i)
				if !covered["."+f.Name()] && !covered[""] {
					problems = append(problems, fmt.Sprintf("field %s of the output share is neither aggregated, delegated nor copied", f.Name()))
				}
			}
		}
		if nAdds+nDeleg == 0 {
			// components selected through function values kept in data (a table of accessors): which component goes
			// where is not code this rule can read — not decided rather than reported
			opaque := false
			ast.Inspect(fd.Body, func(nd ast.Node) bool {
				call, ok := nd.(*ast.CallExpr)
				if !ok || opaque {
					return !opaque
				}
				if calleeFunc(info, call) != nil {
					return true
				}
				if _, isSig := info.TypeOf(call.Fun).Underlying().(*types.Signature); !isSig {
					return true
				}
				if se, ok := unparen(call.Fun).(*ast.SelectorExpr); ok {
					if sel := info.Selections[se]; sel != nil && sel.Kind() == types.FieldVal {
						for _, a := range call.Args {
							if pi, _ := aggProjection(info, a, params, views, 0); pi >= 0 {
								opaque = true
							}
						}
					}
				}
				return true
			})
			if opaque {
				out = append(out, infoOb("AGGSYM", key, pos, "the components of the shares are selected through function values kept in a table: not decided"))
				return
			}
			problems = append(problems, "no component-wise Add and no delegation found")
		}
		if len(problems) == 0 {
			out = append(out, okOb("AGGSYM", key, pos, fmt.Sprintf("%d component-wise additions, %d delegations, every field covered", nAdds, nDeleg), true))
		} else {
			for i, p := range problems {
				k := key
				if i > 0 {
					k = fmt.Sprintf("%s#%d", key, i)
				}
				out = append(out, violOb("AGGSYM", k, pos, fkey+": "+p))
			}
		}
	})
	c.Stats["aggregators"] = n
	return out
}

func firstField(proj string) string {
	if proj == "" {
		return ""
	}
	rest := proj[1:]
	if i := strings.IndexAny(rest, ".["); i >= 0 {
		return proj[:i+1]
	}
	return proj
}

// stripCalls turns x.f.Level() into x.f so that compared quantities are attributed to their operand.
func stripCalls(e ast.Expr) ast.Expr {
	for {
		e = unparen(e)
		call, ok := e.(*ast.CallExpr)
		if !ok {
			return e
		}
		sel, ok := unparen(call.Fun).(*ast.SelectorExpr)
		if !ok {
			return e
		}
		e = sel.X
	}
}

func aggProps(key string) []string {
	switch {
	case strings.Contains(key, "Thresholdizer"):
		return []string{"C15"}
	case strings.Contains(key, "KeySwitch") || strings.Contains(key, "multiparty/mp"):
		return []string{"C16"}
	}
	return []string{"C14"}
}

func init() {
	core.Register(&core.Rule{Name: "AGGSYM", Props: []string{"C14", "C15", "C16"},
		Doc: "every AggregateShares(s1,s2,out) only stores Add(s1.c, s2.c, out.c) on identical component paths (or delegates on twin projections), covers every field of the share type, copies tags only under a guard comparing both inputs, and no guard compares an operand with itself",
		Run: func(c *core.Ctx) []ob {
			out := scanAggSym(c)
			for i := range out {
				out[i].Props = aggProps(out[i].Key)
			}
			for _, o := range core.Floor("AGGSYM", nil, "aggregators", c.Stats["aggregators"], 9) {
				out = append(out, withProps(o, "C14", "C15", "C16"))
			}
			return out
		}})
}

// aggHelperAdds holds a helper that receives one projection of the three shares to the standard of AggregateShares:
// every ring operation that writes its third share adds the same component of the two others.
func aggHelperAdds(info *types.Info, fd *ast.FuncDecl, params []types.Object, bound map[types.Object]*types.Func) (int, []string) {
	views := map[types.Object]ast.Expr{}
	ast.Inspect(fd.Body, func(nd ast.Node) bool {
		if as, ok := nd.(*ast.AssignStmt); ok && as.Tok == token.DEFINE && len(as.Lhs) == len(as.Rhs) {
			for i, l := range as.Lhs {
				if id, ok := l.(*ast.Ident); ok {
					views[info.Defs[id]] = as.Rhs[i]
				}
			}
		}
		return true
	})
	n := 0
	var problems []string
	ast.Inspect(fd.Body, func(nd ast.Node) bool {
		call, ok := nd.(*ast.CallExpr)
		if !ok || len(call.Args) < 2 {
			return true
		}
		var rt *types.Named
		opName := ""
		if sel, ok := unparen(call.Fun).(*ast.SelectorExpr); ok {
			rt, opName = namedOf(info.TypeOf(sel.X)), sel.Sel.Name
		} else if id, ok := unparen(call.Fun).(*ast.Ident); ok {
			// the operation is a parameter of the helper, bound by the caller to a method value of a ring
			fn := bound[info.Uses[id]]
			if fn == nil {
				if v, ok := info.Uses[id].(*types.Var); ok {
					fn = localFnVals[v]
				}
			}
			if fn == nil {
				return true
			}
			opName = fn.Name()
			if sig, ok := fn.Type().(*types.Signature); ok && sig.Recv() != nil {
				rt = namedOf(sig.Recv().Type())
			}
		} else {
			return true
		}
		last := call.Args[len(call.Args)-1]
		pi, pr := aggProjection(info, last, params, views, 0)
		if pi != 2 || !polyish(info.TypeOf(last)) {
			return true
		}
		if rt == nil || rt.Obj().Name() != "Ring" {
			return true
		}
		if (opName != "Add" && opName != "AddLazy") || len(call.Args) != 3 {
			problems = append(problems, fmt.Sprintf("%s (in helper %s) writes the output share with %s instead of Add", exprString(call), fd.Name.Name, opName))
			return true
		}
		p0, r0 := aggProjection(info, call.Args[0], params, views, 0)
		p1, r1 := aggProjection(info, call.Args[1], params, views, 0)
		if !((p0 == 0 && p1 == 1) || (p0 == 1 && p1 == 0)) {
			problems = append(problems, fmt.Sprintf("%s (in helper %s) does not add one component of each input share", exprString(call), fd.Name.Name))
		} else if r0 != pr || r1 != pr {
			problems = append(problems, fmt.Sprintf("%s (in helper %s) adds components %q and %q into component %q", exprString(call), fd.Name.Name, r0, r1, pr))
		}
		n++
		return true
	})
	return n, problems
}

// aggHelperDelegation recognises the delegation of one component to a helper of the module that receives the same
// projection of the three shares in order (`addComponent(ringQP, 0, share1.Value, share2.Value, share3.Value)`): the
// helper's body is held to the same standard with its own parameters as the triple.
func aggHelperDelegation(c *core.Ctx, info *types.Info, call *ast.CallExpr, name string, params []types.Object, views map[types.Object]ast.Expr, covered map[string]bool, nAdds *int, problems *[]string) bool {
	hf := calleeFunc(info, call)
	if hf == nil || hf.Pkg() == nil || !strings.HasPrefix(hf.Pkg().Path(), core.ModPath) || name == "Add" || name == "AddLazy" || name == "AggregateShares" {
		return false
	}
	idx := [3]int{-1, -1, -1}
	var hp [3]string
	for ai, a := range call.Args {
		if pi, pr := aggProjection(info, a, params, views, 0); pi >= 0 && pi <= 2 && idx[pi] < 0 {
			idx[pi], hp[pi] = ai, pr
		}
	}
	if idx[0] < 0 || idx[1] < 0 || idx[2] < 0 || hp[0] != hp[1] || hp[1] != hp[2] {
		return false
	}
	hpk := c.ByPath[hf.Pkg().Path()]
	if hpk == nil {
		return false
	}
	for _, hfile := range hpk.Syntax {
		for _, hd := range hfile.Decls {
			hfd, ok := hd.(*ast.FuncDecl)
			if !ok || hfd.Body == nil {
				continue
			}
			if o, _ := hpk.TypesInfo.Defs[hfd.Name].(*types.Func); o == nil || funcOrigin(o) != funcOrigin(hf) {
				continue
			}
			var hparams []types.Object
			for _, f := range hfd.Type.Params.List {
				for _, nm := range f.Names {
					hparams = append(hparams, hpk.TypesInfo.Defs[nm])
				}
			}
			if idx[0] >= len(hparams) || idx[1] >= len(hparams) || idx[2] >= len(hparams) {
				continue
			}
			triple := []types.Object{hparams[idx[0]], hparams[idx[1]], hparams[idx[2]]}
			// function-typed parameters the caller binds to a method value (`addFirstComponents(ringQP.Add, s1, s2, s3)`)
			bound := map[types.Object]*types.Func{}
			for ai, a := range call.Args {
				if ai >= len(hparams) {
					break
				}
				if se, ok := unparen(a).(*ast.SelectorExpr); ok {
					if sl := info.Selections[se]; sl != nil && sl.Kind() == types.MethodVal {
						if fn, ok := sl.Obj().(*types.Func); ok {
							bound[hparams[ai]] = fn
						}
					}
				} else if id, ok := unparen(a).(*ast.Ident); ok {
					if v, ok := info.Uses[id].(*types.Var); ok && localFnVals[v] != nil {
						bound[hparams[ai]] = localFnVals[v]
					}
				}
			}
			na, probs := aggHelperAdds(hpk.TypesInfo, hfd, triple, bound)
			if na > 0 && len(probs) == 0 {
				*nAdds += na
				covered[firstField(hp[2])] = true
			}
			*problems = append(*problems, probs...)
			return true
		}
	}
	return false
}
