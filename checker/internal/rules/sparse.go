package rules

import (
	"fmt"
	"go/ast"
	"go/constant"
	"go/token"
	"go/types"
	"strings"

	"golang.org/x/tools/go/packages"

	"lvcheck/internal/core"
)

// SPARSE — confinement of the ephemeral low-Hamming-weight secret (C18, the 2025 advisory).
//
// Sources: results of GenSecretKeyWithHammingWeight[New](<expr mentioning EphemeralSecretWeight>) anywhere in
// the module. Every use of such a secret must be one of
//   (a) the *input* secret of GenEvaluationKey[New] (the key being re-encrypted; the protecting secret is the other one), or
//   (b) the *protecting* secret (skOutput of GenEvaluationKey[New], sk of GenPublicKey/GenRelinearizationKey/GenGaloisKey*)
//       on a key generator built by rlwe.NewKeyGenerator(P) where P comes from a parameter literal whose Q and P
//       fields are slice expressions with constant bounds [0:1] (smallest modulus only).
// Anything else (returned, stored in a field, handed to another function) is an escape.

// protecting-secret argument index by method name
var protectingArg = map[string]int{
	"GenEvaluationKeyNew": 1, "GenEvaluationKey": 1,
	"GenPublicKeyNew": 0, "GenPublicKey": 0,
	"GenRelinearizationKeyNew": 0, "GenRelinearizationKey": 0,
	"GenGaloisKeyNew": 1, "GenGaloisKey": 1, "GenGaloisKeysNew": 1, "GenGaloisKeys": 1,
}
var inputArg = map[string]int{"GenEvaluationKeyNew": 0, "GenEvaluationKey": 0}

func isFirstPrimeSlice(info *types.Info, e ast.Expr) bool {
	se, ok := unparen(e).(*ast.SliceExpr)
	if !ok || se.High == nil {
		return false
	}
	if se.Low != nil {
		if tv, ok := info.Types[se.Low]; !ok || tv.Value == nil || constant.Sign(tv.Value) != 0 {
			return false
		}
	}
	tv, ok := info.Types[se.High]
	if !ok || tv.Value == nil {
		return false
	}
	v, ok := constant.Int64Val(constant.ToInt(tv.Value))
	return ok && v == 1
}

// singleDef returns the unique defining expression of a local variable inside fd (nil if not unique).
func singleDef(info *types.Info, fd *ast.FuncDecl, obj types.Object) ast.Expr {
	var def ast.Expr
	cnt := 0
	ast.Inspect(fd.Body, func(n ast.Node) bool {
		as, ok := n.(*ast.AssignStmt)
		if !ok {
			return true
		}
		for i, l := range as.Lhs {
			if id, ok := unparen(l).(*ast.Ident); ok && (info.Defs[id] == obj || info.Uses[id] == obj) {
				cnt++
				if len(as.Rhs) == len(as.Lhs) {
					def = as.Rhs[i]
				} else if len(as.Rhs) == 1 {
					def = as.Rhs[0]
				}
			}
		}
		return true
	})
	if cnt != 1 {
		return nil
	}
	return def
}

// sparseParamsReason explains why the key generator expression is (not) confined to the first primes.
func keygenIsSmallest(info *types.Info, fd *ast.FuncDecl, recv ast.Expr) (bool, string) {
	o := identObj(info, recv)
	if o == nil {
		return false, "receiver is not a local variable"
	}
	def := singleDef(info, fd, o)
	call, ok := unparen(def).(*ast.CallExpr)
	if def == nil || !ok {
		return false, "key generator has no unique definition in this function"
	}
	if f := calleeFunc(info, call); f == nil || f.Name() != "NewKeyGenerator" || len(call.Args) != 1 {
		return false, "key generator is not built by rlwe.NewKeyGenerator"
	}
	po := identObj(info, call.Args[0])
	if po == nil {
		return false, "parameters of the key generator are not a local variable"
	}
	pdef := singleDef(info, fd, po)
	pcall, ok := unparen(pdef).(*ast.CallExpr)
	if pdef == nil || !ok {
		return false, fmt.Sprintf("parameters %s are not built in this function (they are the full-size parameters)", po.Name())
	}
	if f := calleeFunc(info, pcall); f == nil || !strings.HasPrefix(f.Name(), "NewParameters") || len(pcall.Args) < 1 {
		return false, fmt.Sprintf("parameters %s are not built from a literal", po.Name())
	}
	lit, ok := unparen(pcall.Args[0]).(*ast.CompositeLit)
	if !ok {
		return false, "parameter literal is not written in place"
	}
	hasQ := false
	for _, el := range lit.Elts {
		kv, ok := el.(*ast.KeyValueExpr)
		if !ok {
			return false, "positional parameter literal"
		}
		k, _ := kv.Key.(*ast.Ident)
		if k == nil {
			continue
		}
		switch k.Name {
		case "Q":
			hasQ = true
			if !isFirstPrimeSlice(info, kv.Value) {
				return false, fmt.Sprintf("Q is %s, not restricted to its first prime ([:1])", exprString(kv.Value))
			}
		case "P":
			if !isNilIdent(kv.Value) && !isFirstPrimeSlice(info, kv.Value) {
				return false, fmt.Sprintf("P is %s, not restricted to its first prime ([:1])", exprString(kv.Value))
			}
		case "LogQ", "LogP":
			return false, "moduli given by size, not as the first primes of the bootstrapping parameters"
		}
	}
	if !hasQ {
		return false, "literal has no Q"
	}
	return true, "Q[:1], P[:1]"
}

func scanSparse(c *core.Ctx) []ob {
	var out []ob
	nSrc, nUse := 0, 0
	c.FuncDecls(func(pk *packages.Package, file *ast.File, fd *ast.FuncDecl) {
		if fileIsTestSupport(c.Program, fd.Pos()) || inExamples(pk) {
			return
		}
		info := pk.TypesInfo
		fkey := core.FuncKey(pk, fd)
		// sources
		tainted := map[types.Object]token.Pos{}
		ast.Inspect(fd.Body, func(n ast.Node) bool {
			as, ok := n.(*ast.AssignStmt)
			if !ok || len(as.Rhs) != 1 {
				return true
			}
			call, ok := unparen(as.Rhs[0]).(*ast.CallExpr)
			if !ok {
				return true
			}
			f := calleeFunc(info, call)
			if f == nil || !strings.HasPrefix(f.Name(), "GenSecretKeyWithHammingWeight") {
				return true
			}
			eph := false
			for _, a := range call.Args {
				if strings.Contains(exprString(a), "EphemeralSecretWeight") {
					eph = true
				}
			}
			if !eph {
				return true
			}
			if o := identObj(info, as.Lhs[0]); o != nil {
				tainted[o] = call.Pos()
				nSrc++
			}
			return true
		})
		if len(tainted) == 0 {
			return
		}
		pm := parentMap(fd)
		for o := range tainted {
			ord := 0
			ast.Inspect(fd.Body, func(n ast.Node) bool {
				id, ok := n.(*ast.Ident)
				if !ok || info.Uses[id] != o {
					return true
				}
				// classify the use
				ord++
				nUse++
				key := fmt.Sprintf("SPARSE:%s#%s.use%d", fkey, o.Name(), ord)
				pos := c.Rel(id.Pos())
				par := pm[id]
				call, isCall := par.(*ast.CallExpr)
				if !isCall {
					out = append(out, violOb("SPARSE", key, pos, fmt.Sprintf("%s: the ephemeral sparse secret %s is used outside a key-generation call (%T): it may escape the confinement to the smallest modulus", fkey, o.Name(), par)))
					return true
				}
				argIdx := -1
				for i, a := range call.Args {
					if unparen(a) == ast.Expr(id) {
						argIdx = i
					}
				}
				f := calleeFunc(info, call)
				name := ""
				if f != nil {
					name = f.Name()
				}
				if ia, ok := inputArg[name]; ok && ia == argIdx {
					out = append(out, okOb("SPARSE", key, pos, fmt.Sprintf("%s is the input (re-encrypted) secret of %s: protected by the other secret", o.Name(), name), true))
					return true
				}
				if pa, ok := protectingArg[name]; ok && pa == argIdx {
					sel, _ := unparen(call.Fun).(*ast.SelectorExpr)
					if sel == nil {
						out = append(out, violOb("SPARSE", key, pos, "cannot resolve the key generator"))
						return true
					}
					ok, why := keygenIsSmallest(info, fd, sel.X)
					if ok {
						out = append(out, okOb("SPARSE", key, pos, fmt.Sprintf("%s protects the output of %s.%s, whose key generator is built from %s", o.Name(), exprString(sel.X), name, why), true))
					} else {
						out = append(out, violOb("SPARSE", key, pos, fmt.Sprintf("%s: key material protected only by the ephemeral sparse secret %s is generated by %s.%s, and %s: it must be generated at the smallest modulus (first prime of Q and of P), never at a larger one", fkey, o.Name(), exprString(sel.X), name, why)))
					}
					return true
				}
				out = append(out, violOb("SPARSE", key, pos, fmt.Sprintf("%s: the ephemeral sparse secret %s is passed to %s (argument %d), which is not a recognised confined key generation", fkey, o.Name(), name, argIdx)))
				return true
			})
		}
	})
	c.Stats["sparse_sources"] = nSrc
	c.Stats["sparse_uses"] = nUse
	return out
}

func init() {
	core.Register(&core.Rule{Name: "SPARSE", Props: []string{"C18"},
		Doc: "every secret produced by GenSecretKeyWithHammingWeight(EphemeralSecretWeight) is used only as the input secret of GenEvaluationKey, or as protecting secret on a key generator whose parameters come from a literal with Q: X[:1], P: Y[:1]; no other use",
		Run: func(c *core.Ctx) []ob {
			out := scanSparse(c)
			out = append(out, core.Floor("SPARSE", nil, "ephemeral-secret sources", c.Stats["sparse_sources"], 1)...)
			out = append(out, core.Floor("SPARSE", nil, "ephemeral-secret uses", c.Stats["sparse_uses"], 2)...)
			return out
		}})
}
