package rules

import (
	"fmt"
	"go/ast"
	"go/types"
	"strings"

	"lvcheck/internal/core"
)

// RESCPAIR — repeated division by the last modulus walks down the moduli chain.
//
// In Ring.Div{Round,Floor}ByLastModulusMany[NTT], every single-step division on the working ring copy is followed,
// before the next division (i.e. as the next statement of the same block), by
//     rCpy = rCpy.AtLevel(rCpy.Level() - 1)
// and the NTT variants bracket the loop with exactly one INTT before and one NTT after.

func scanRescPair(c *core.Ctx) []ob {
	var out []ob
	pk := c.Pkg("ring")
	if pk == nil || c.IsFixture {
		return nil
	}
	info := pk.TypesInfo
	n := 0
	for _, f := range pk.Syntax {
		for _, d := range f.Decls {
			fd, ok := d.(*ast.FuncDecl)
			if !ok || fd.Body == nil || fd.Recv == nil || !strings.Contains(fd.Name.Name, "ByLastModulusMany") {
				continue
			}
			fkey := core.FuncKey(pk, fd)
			key := "RESCPAIR:" + fkey
			// a wrapper that hands everything to a helper of the family is decided with the helper
			if len(fd.Body.List) == 1 {
				if es, ok := fd.Body.List[0].(*ast.ExprStmt); ok {
					if call, ok := es.X.(*ast.CallExpr); ok {
						if h := calleeFunc(info, call); h != nil && h.Pkg() == pk.Types && strings.Contains(strings.ToLower(h.Name()), "bylastmodulusmany") && h.Name() != fd.Name.Name {
							out = append(out, okOb("RESCPAIR", key, c.Rel(fd.Pos()), "delegates to "+h.Name(), false))
							n++
							continue
						}
					}
				}
			}
			n++
			var problems []string
			isDivOn := func(st ast.Stmt) (types.Object, bool) {
				// direct call statement or if/else whose arms are single division calls on the same receiver
				var recvObjOf func(s ast.Stmt) (types.Object, bool)
				recvObjOf = func(s ast.Stmt) (types.Object, bool) {
					switch x := s.(type) {
					case *ast.ExprStmt:
						if call, ok := x.X.(*ast.CallExpr); ok {
							// the single step handed in as a function value: `div(*rCpy, in, out)`
							if id, ok := unparen(call.Fun).(*ast.Ident); ok && len(call.Args) >= 1 {
								if v, ok := info.Uses[id].(*types.Var); ok {
									if _, isFn := v.Type().Underlying().(*types.Signature); isFn {
										a := unparen(call.Args[0])
										if st, ok := a.(*ast.StarExpr); ok {
											a = unparen(st.X)
										}
										if o := identObj(info, a); o != nil {
											if n := namedOf(o.Type()); n != nil && n.Obj().Name() == "Ring" {
												return o, true
											}
										}
									}
								}
							}
							if sel, ok := unparen(call.Fun).(*ast.SelectorExpr); ok && strings.Contains(sel.Sel.Name, "ByLastModulus") && !strings.Contains(sel.Sel.Name, "Many") {
								if o := identObj(info, sel.X); o != nil {
									if _, isVar := o.(*types.Var); isVar {
										return o, true
									}
								}
							}
						}
					case *ast.IfStmt:
						if len(x.Body.List) == 1 {
							if o, ok := recvObjOf(x.Body.List[0]); ok {
								return o, true
							}
						}
					}
					return nil, false
				}
				return recvObjOf(st)
			}
			isDecr := func(st ast.Stmt, o types.Object) bool {
				as, ok := st.(*ast.AssignStmt)
				if !ok || len(as.Lhs) != 1 || len(as.Rhs) != 1 || identObj(info, as.Lhs[0]) != o {
					return false
				}
				s := exprString(as.Rhs[0])
				// the level read through the accessor or the field
				return s == fmt.Sprintf("%s.AtLevel(%s.Level() - 1)", o.Name(), o.Name()) || s == fmt.Sprintf("%s.AtLevel(%s.level - 1)", o.Name(), o.Name())
			}
			nDiv := 0
			recvVar := recvObj(info, fd)
			inner := map[ast.Stmt]bool{} // arms of an if/else already accounted for as one division step
			ast.Inspect(fd.Body, func(nd ast.Node) bool {
				blk, ok := nd.(*ast.BlockStmt)
				if !ok {
					return true
				}
				for i, st := range blk.List {
					if inner[st] {
						continue
					}
					o, ok := isDivOn(st)
					if !ok || o == recvVar {
						continue // a single division on the receiver itself (nbRescales == 1) needs no level walk
					}
					if is, ok := st.(*ast.IfStmt); ok {
						for _, s2 := range is.Body.List {
							inner[s2] = true
						}
						if eb, ok := is.Else.(*ast.BlockStmt); ok {
							for _, s2 := range eb.List {
								inner[s2] = true
							}
						}
					}
					nDiv++
					if i+1 >= len(blk.List) || !isDecr(blk.List[i+1], o) {
						problems = append(problems, fmt.Sprintf("the division at %s on %s is not followed by `%s = %s.AtLevel(%s.Level() - 1)`: the next division would use the same last modulus again", c.Rel(st.Pos()), o.Name(), o.Name(), o.Name(), o.Name()))
					}
				}
				return true
			})
			// the multi-step path handed as a whole to a helper of the family (itself held to these rules, including the
			// INTT/NTT pair when it transforms): `r.divByLastModulusManyCoeffDomain(Ring.DivFloorByLastModulus, n, p0, buff, p1)`
			if nDiv == 0 && len(fd.Body.List) > 1 {
				if es, ok := fd.Body.List[len(fd.Body.List)-1].(*ast.ExprStmt); ok {
					if call, ok := es.X.(*ast.CallExpr); ok {
						if h := calleeFunc(info, call); h != nil && h.Pkg() == pk.Types && strings.Contains(strings.ToLower(h.Name()), "bylastmodulusmany") && h.Name() != fd.Name.Name {
							out = append(out, okOb("RESCPAIR", key, c.Rel(fd.Pos()), "the repeated division is delegated to "+h.Name(), false))
							continue
						}
					}
				}
			}
			transforms := false
			ast.Inspect(fd.Body, func(nd ast.Node) bool {
				if call, ok := nd.(*ast.CallExpr); ok {
					if sel, ok := unparen(call.Fun).(*ast.SelectorExpr); ok && (sel.Sel.Name == "INTT" || sel.Sel.Name == "NTT") {
						if o := identObj(info, sel.X); o != nil && o != recvVar {
							transforms = true
						}
					}
				}
				return true
			})
			if strings.HasSuffix(fd.Name.Name, "NTT") || transforms {
				nINTT, nNTT := 0, 0
				ast.Inspect(fd.Body, func(nd ast.Node) bool {
					if call, ok := nd.(*ast.CallExpr); ok {
						if sel, ok := unparen(call.Fun).(*ast.SelectorExpr); ok {
							if o := identObj(info, sel.X); o != nil && o != recvVar {
								switch sel.Sel.Name {
								case "INTT":
									nINTT++
								case "NTT":
									nNTT++
								}
							}
						}
					}
					return true
				})
				if nINTT != 1 || nNTT != 1 {
					problems = append(problems, fmt.Sprintf("expected exactly one INTT before and one NTT after the repeated division on the working copy, found %d and %d", nINTT, nNTT))
				}
			}
			if nDiv == 0 {
				problems = append(problems, "no single-step division on a working ring copy found")
			}
			if len(problems) == 0 {
				out = append(out, okOb("RESCPAIR", key, c.Rel(fd.Pos()), fmt.Sprintf("%d divisions, each followed by the level decrement", nDiv), true))
			} else {
				for i, p := range problems {
					k := key
					if i > 0 {
						k = fmt.Sprintf("%s#%d", key, i)
					}
					out = append(out, violOb("RESCPAIR", k, c.Rel(fd.Pos()), fkey+": "+p))
				}
			}
		}
	}
	c.Stats["rescpair_functions"] = n
	return out
}

func init() {
	core.Register(&core.Rule{Name: "RESCPAIR", Props: []string{"C02"},
		Doc: "in Ring.Div{Round,Floor}ByLastModulusMany[NTT] each single-step division on the working ring copy is immediately followed by the level decrement of that copy; the NTT variants have exactly one INTT before and one NTT after",
		Run: func(c *core.Ctx) []ob {
			out := scanRescPair(c)
			out = append(out, core.Floor("RESCPAIR", nil, "repeated-division functions", c.Stats["rescpair_functions"], 4)...)
			return out
		}})
}
