package rules

import (
	"fmt"
	"go/ast"
	"go/constant"
	"go/token"
	"go/types"
	"math"
	"math/big"
	"regexp"
	"strconv"
	"strings"

	"golang.org/x/tools/go/packages"

	"lvcheck/internal/core"
)

// SECTAB — exported parameter literals against the 128-bit security table; FIXT — fixture layering;
// THRESH — acceptance thresholds of the moduli checks.

// cval is a statically evaluated value.
type cval struct {
	kind   string // "int", "list", "struct", "nil", "unknown"
	i      *big.Int
	list   []cval
	fields map[string]cval
	tname  string
}

type constEval struct {
	p     *core.Program
	depth int
}

func (ce *constEval) varInit(obj types.Object) (ast.Expr, *packages.Package) {
	if obj == nil || obj.Pkg() == nil {
		return nil, nil
	}
	pk := ce.p.ByPath[obj.Pkg().Path()]
	if pk == nil {
		return nil, nil
	}
	for _, f := range pk.Syntax {
		for _, d := range f.Decls {
			gd, ok := d.(*ast.GenDecl)
			if !ok || gd.Tok != token.VAR {
				continue
			}
			for _, sp := range gd.Specs {
				vs := sp.(*ast.ValueSpec)
				for i, nm := range vs.Names {
					if pk.TypesInfo.Defs[nm] == obj && i < len(vs.Values) {
						return vs.Values[i], pk
					}
				}
			}
		}
	}
	return nil, nil
}

func (ce *constEval) eval(pk *packages.Package, e ast.Expr) cval {
	ce.depth++
	defer func() { ce.depth-- }()
	if ce.depth > 12 || e == nil {
		return cval{kind: "unknown"}
	}
	info := pk.TypesInfo
	e = unparen(e)
	if tv, ok := info.Types[e]; ok && tv.Value != nil {
		if tv.Value.Kind() == constant.Int {
			if bi, ok := new(big.Int).SetString(tv.Value.ExactString(), 10); ok {
				return cval{kind: "int", i: bi}
			}
		}
		if tv.Value.Kind() == constant.Float {
			f, _ := constant.Float64Val(tv.Value)
			return cval{kind: "int", i: big.NewInt(int64(f))}
		}
		return cval{kind: "unknown"}
	}
	switch x := e.(type) {
	case *ast.Ident:
		if x.Name == "nil" {
			return cval{kind: "nil"}
		}
		if o, ok := info.Uses[x].(*types.Var); ok {
			if init, ipk := ce.varInit(o); init != nil {
				return ce.eval(ipk, init)
			}
		}
	case *ast.SelectorExpr:
		if o, ok := info.Uses[x.Sel].(*types.Var); ok && !o.IsField() {
			if init, ipk := ce.varInit(o); init != nil {
				return ce.eval(ipk, init)
			}
		}
		if sel := info.Selections[x]; sel != nil && sel.Kind() == types.FieldVal {
			base := ce.eval(pk, x.X)
			if base.kind == "struct" {
				if v, ok := base.fields[x.Sel.Name]; ok {
					return v
				}
			}
		}
	case *ast.UnaryExpr:
		if x.Op == token.AND {
			return ce.eval(pk, x.X)
		}
	case *ast.CompositeLit:
		t := info.TypeOf(x)
		if t == nil {
			return cval{kind: "unknown"}
		}
		switch u := t.Underlying().(type) {
		case *types.Slice, *types.Array:
			_ = u
			var l []cval
			for _, el := range x.Elts {
				if kv, ok := el.(*ast.KeyValueExpr); ok {
					el = kv.Value
				}
				l = append(l, ce.eval(pk, el))
			}
			return cval{kind: "list", list: l}
		case *types.Struct:
			r := cval{kind: "struct", fields: map[string]cval{}}
			if n := namedOf(t); n != nil {
				r.tname = n.Obj().Name()
			}
			for i, el := range x.Elts {
				if kv, ok := el.(*ast.KeyValueExpr); ok {
					if id, ok := kv.Key.(*ast.Ident); ok {
						r.fields[id.Name] = ce.eval(pk, kv.Value)
					}
				} else if i < u.NumFields() {
					r.fields[u.Field(i).Name()] = ce.eval(pk, el)
				}
			}
			return r
		}
	case *ast.SliceExpr:
		base := ce.eval(pk, x.X)
		if base.kind != "list" {
			return cval{kind: "unknown"}
		}
		lo, hi := 0, len(base.list)
		if x.Low != nil {
			v := ce.eval(pk, x.Low)
			if v.kind != "int" {
				return cval{kind: "unknown"}
			}
			lo = int(v.i.Int64())
		}
		if x.High != nil {
			v := ce.eval(pk, x.High)
			if v.kind != "int" {
				return cval{kind: "unknown"}
			}
			hi = int(v.i.Int64())
		}
		if lo < 0 || hi > len(base.list) || lo > hi {
			return cval{kind: "unknown"}
		}
		return cval{kind: "list", list: base.list[lo:hi]}
	case *ast.IndexExpr:
		base := ce.eval(pk, x.X)
		idx := ce.eval(pk, x.Index)
		if base.kind == "list" && idx.kind == "int" && idx.i.IsInt64() && int(idx.i.Int64()) < len(base.list) {
			return base.list[idx.i.Int64()]
		}
	case *ast.CallExpr:
		// utils.Pointy(c), conversions
		if len(x.Args) == 1 {
			if f := calleeFunc(info, x); f != nil && strings.HasPrefix(f.Name(), "Point") {
				return ce.eval(pk, x.Args[0])
			}
			if tv, ok := info.Types[x.Fun]; ok && tv.IsType() {
				return ce.eval(pk, x.Args[0])
			}
		}
	}
	return cval{kind: "unknown"}
}

// securityTable: maximal log2(QP) for 128-bit security with a uniform ternary secret
// (homomorphicencryption.org standard, the table the repo's own identifiers ...QP109/218/438/881 refer to).
// logN = 16 is outside the standard; 1793 is the largest claim shipped by the repository itself (frozen).
var securityTable = map[int]int{10: 27, 11: 54, 12: 109, 13: 218, 14: 438, 15: 881, 16: 1793}

var reQP = regexp.MustCompile(`QP(\d+)`)
var reN = regexp.MustCompile(`(?:LogN|N)(\d+)`)

func intList(v cval) ([]*big.Int, bool) {
	if v.kind == "nil" {
		return nil, true
	}
	if v.kind != "list" {
		return nil, false
	}
	var out []*big.Int
	for _, e := range v.list {
		if e.kind != "int" {
			return nil, false
		}
		out = append(out, e.i)
	}
	return out, true
}

func isParamsLiteralType(t types.Type) bool {
	n := namedOf(t)
	if n == nil || n.Obj().Pkg() == nil {
		return false
	}
	if n.Obj().Name() != "ParametersLiteral" {
		return false
	}
	p := n.Obj().Pkg().Path()
	return strings.HasSuffix(p, "core/rlwe") || strings.HasSuffix(p, "schemes/bgv") || strings.HasSuffix(p, "schemes/ckks")
}

func scanSecTab(c *core.Ctx) []ob {
	var out []ob
	ce := &constEval{p: c.Program}
	n := 0
	nPrimes := 0
	for _, pk := range c.Pkgs {
		info := pk.TypesInfo
		for _, file := range pk.Syntax {
			if core.IsTestSupportFile(c.Fset.Position(file.Pos()).Filename) {
				continue
			}
			for _, d := range file.Decls {
				gd, ok := d.(*ast.GenDecl)
				if !ok || gd.Tok != token.VAR {
					continue
				}
				for _, sp := range gd.Specs {
					vs := sp.(*ast.ValueSpec)
					for i, nm := range vs.Names {
						if i >= len(vs.Values) {
							continue
						}
						// find parameter literals syntactically inside this initializer (direct literal or embedded in a wrapper struct)
						var lits []*ast.CompositeLit
						ast.Inspect(vs.Values[i], func(nd ast.Node) bool {
							if cl, ok := nd.(*ast.CompositeLit); ok {
								if t := info.TypeOf(cl); t != nil && isParamsLiteralType(t) {
									lits = append(lits, cl)
									return false
								}
							}
							return true
						})
						for li, cl := range lits {
							name := nm.Name
							key := fmt.Sprintf("SECTAB:%s.%s", core.ShortPkg(pk.PkgPath), name)
							if len(lits) > 1 {
								key = fmt.Sprintf("%s#%d", key, li)
							}
							pos := c.Rel(cl.Pos())
							if strings.Contains(strings.ToLower(name), "insecure") || strings.HasPrefix(name, "test") {
								out = append(out, infoOb("SECTAB", key, pos, "test fixture, declared insecure: exempt"))
								continue
							}
							v := ce.eval(pk, cl)
							n++
							probs, np := checkLiteral(name, v)
							nPrimes += np
							if len(probs) == 0 {
								out = append(out, okOb("SECTAB", key, pos, describeLiteral(name, v), true))
							} else {
								for j, pr := range probs {
									k := key
									if j > 0 {
										k = fmt.Sprintf("%s/%d", key, j)
									}
									if strings.HasPrefix(pr, "?") {
										out = append(out, incOb("SECTAB", k, pos, fmt.Sprintf("%s: %s", name, pr[1:])))
									} else {
										out = append(out, violOb("SECTAB", k, pos, fmt.Sprintf("parameter literal %s: %s", name, pr)))
									}
								}
							}
						}
					}
				}
			}
		}
	}
	c.Stats["sectab_literals"] = n
	c.Stats["sectab_primes"] = nPrimes
	return out
}

func litLogN(v cval) (int, bool) {
	f, ok := v.fields["LogN"]
	if !ok || f.kind != "int" {
		return 0, false
	}
	return int(f.i.Int64()), true
}

func describeLiteral(name string, v cval) string {
	logN, _ := litLogN(v)
	tot, _, _ := totalLogQP(v)
	return fmt.Sprintf("LogN=%d log2(QP)=%.1f within bound", logN, tot)
}

// totalLogQP sums the explicit moduli of a literal: listed primes (true log2) and requested bit sizes.
func totalLogQP(v cval) (float64, []*big.Int, bool) {
	total := 0.0
	var primes []*big.Int
	for _, f := range []string{"Q", "P"} {
		if fv, ok := v.fields[f]; ok {
			l, ok := intList(fv)
			if !ok {
				return 0, nil, false
			}
			for _, q := range l {
				fl, _ := new(big.Float).SetInt(q).Float64()
				total += math.Log2(fl)
				primes = append(primes, q)
			}
		}
	}
	for _, f := range []string{"LogQ", "LogP"} {
		if fv, ok := v.fields[f]; ok {
			l, ok := intList(fv)
			if !ok {
				return 0, nil, false
			}
			for _, q := range l {
				total += float64(q.Int64())
			}
		}
	}
	return total, primes, true
}

func checkLiteral(name string, v cval) (probs []string, nPrimes int) {
	if v.kind != "struct" {
		return []string{"?cannot evaluate the literal statically"}, 0
	}
	logN, ok := litLogN(v)
	if !ok {
		return []string{"?LogN is not a compile-time constant"}, 0
	}
	if logN < 4 || logN > 20 {
		probs = append(probs, fmt.Sprintf("LogN=%d outside [MinLogN=4, MaxLogN=20]", logN))
	}
	if m := reN.FindStringSubmatch(name); m != nil {
		if want, _ := strconv.Atoi(m[1]); want >= 4 && want <= 20 && want != logN {
			probs = append(probs, fmt.Sprintf("identifier announces ring degree 2^%d but LogN=%d", want, logN))
		}
	}
	total, primes, ok := totalLogQP(v)
	if !ok {
		return append(probs, "?moduli are not compile-time constants"), 0
	}
	nPrimes = len(primes)
	bound, hasRow := securityTable[logN]
	claim := 0
	if m := reQP.FindStringSubmatch(name); m != nil {
		claim, _ = strconv.Atoi(m[1])
	}
	if hasRow {
		if claim > 0 && claim > bound+1 {
			probs = append(probs, fmt.Sprintf("identifier claims log2(QP)=%d, above the %d tabulated for 128-bit security at LogN=%d", claim, bound, logN))
		}
		lim := float64(bound)
		what := fmt.Sprintf("the %d bits tabulated for 128-bit security at LogN=%d", bound, logN)
		if claim > 0 && claim < bound {
			lim = float64(claim)
			what = fmt.Sprintf("the %d bits its identifier claims", claim)
		}
		if total > lim+1.0 {
			probs = append(probs, fmt.Sprintf("explicit moduli sum to log2(QP)=%.1f, more than %s", total, what))
		}
	} else if logN > 16 {
		probs = append(probs, fmt.Sprintf("?no security row for LogN=%d", logN))
	}
	// listed primes: distinct, prime, NTT-friendly, <= 61 bits
	nthRootLog := logN + 1
	if rt, ok := v.fields["RingType"]; ok && rt.kind == "int" && rt.i.Int64() == 1 {
		nthRootLog = logN + 2
	}
	seen := map[string]bool{}
	one := big.NewInt(1)
	mod := new(big.Int).Lsh(one, uint(nthRootLog))
	for _, q := range primes {
		s := q.String()
		if seen[s] {
			probs = append(probs, fmt.Sprintf("modulus %#x listed twice", q))
		}
		seen[s] = true
		if q.BitLen() > 61 {
			probs = append(probs, fmt.Sprintf("modulus %#x has %d bits, more than the 61 the arithmetic supports", q, q.BitLen()))
		}
		if !q.ProbablyPrime(24) {
			probs = append(probs, fmt.Sprintf("modulus %#x is not prime", q))
		}
		if new(big.Int).Mod(q, mod).Cmp(one) != 0 {
			probs = append(probs, fmt.Sprintf("modulus %#x is not congruent to 1 modulo 2^%d (not NTT-friendly for this ring)", q, nthRootLog))
		}
	}
	for _, f := range []string{"LogQ", "LogP"} {
		if fv, ok := v.fields[f]; ok {
			l, _ := intList(fv)
			max := int64(60)
			if f == "LogP" {
				max = 61
			}
			for _, b := range l {
				if b.Int64() <= 0 || b.Int64() > max {
					probs = append(probs, fmt.Sprintf("%s requests a %d-bit prime, outside ]0,%d]", f, b.Int64(), max))
				}
			}
		}
	}
	if t, ok := v.fields["PlaintextModulus"]; ok && t.kind == "int" {
		if seen[t.i.String()] {
			probs = append(probs, "PlaintextModulus equals one of the ciphertext moduli")
		}
		if t.i.Sign() <= 0 || !t.i.ProbablyPrime(24) && t.i.BitLen() > 1 && new(big.Int).And(t.i, one).Sign() == 0 {
			probs = append(probs, "PlaintextModulus is even")
		}
	}
	return probs, nPrimes
}

// ---------------------------------------------------------------- FIXT

func scanFixt(c *core.Ctx) []ob {
	var out []ob
	nFix := 0
	for _, pk := range c.Pkgs {
		info := pk.TypesInfo
		fix := map[types.Object]bool{}
		for _, file := range pk.Syntax {
			if !core.IsTestSupportFile(c.Fset.Position(file.Pos()).Filename) {
				continue
			}
			for _, d := range file.Decls {
				if gd, ok := d.(*ast.GenDecl); ok && gd.Tok == token.VAR {
					for _, sp := range gd.Specs {
						for _, nm := range sp.(*ast.ValueSpec).Names {
							if o := info.Defs[nm]; o != nil {
								fix[o] = true
								nFix++
							}
						}
					}
				}
			}
		}
		if len(fix) == 0 {
			continue
		}
		for _, file := range pk.Syntax {
			if core.IsTestSupportFile(c.Fset.Position(file.Pos()).Filename) {
				continue
			}
			for _, d := range file.Decls {
				fd, ok := d.(*ast.FuncDecl)
				if !ok || fd.Body == nil {
					continue
				}
				ast.Inspect(fd.Body, func(nd ast.Node) bool {
					id, ok := nd.(*ast.Ident)
					if !ok {
						return true
					}
					if o := info.Uses[id]; o != nil && fix[o] {
						out = append(out, violOb("FIXT", fmt.Sprintf("FIXT:%s#uses(%s)", core.FuncKey(pk, fd), id.Name), c.Rel(id.Pos()),
							fmt.Sprintf("library function %s reads the test-fixture variable %q (declared in %s): its behaviour depends on a test constant instead of its own argument", core.FuncKey(pk, fd), id.Name, c.RelFile(o.Pos()))))
					}
					return true
				})
			}
		}
	}
	c.Stats["fixture_vars"] = nFix
	if nFix > 0 && len(out) == 0 {
		out = append(out, okOb("FIXT", "FIXT:layering", "", fmt.Sprintf("none of the %d package-level fixture variables is referenced from library code", nFix), true))
	}
	return out
}

// ---------------------------------------------------------------- THRESH

// lenBound extracts, from a condition of the form  f(bits.Len64(x)) > C  (or >=), the largest bit-length that is
// NOT rejected. ok=false if the condition does not have that shape.
func lenBound(info *types.Info, cond ast.Expr) (int64, bool) {
	be, ok := unparen(cond).(*ast.BinaryExpr)
	if !ok || (be.Op != token.GTR && be.Op != token.GEQ) {
		return 0, false
	}
	tv, ok := info.Types[be.Y]
	if !ok || tv.Value == nil {
		return 0, false
	}
	cst, ok := constant.Int64Val(constant.ToInt(tv.Value))
	if !ok {
		return 0, false
	}
	// lhs = Len + k
	k := int64(0)
	found := false
	var walk func(e ast.Expr, sign int64) bool
	walk = func(e ast.Expr, sign int64) bool {
		e = unparen(e)
		switch x := e.(type) {
		case *ast.CallExpr:
			if f := calleeFunc(info, x); f != nil && f.Pkg() != nil && f.Pkg().Path() == "math/bits" && strings.HasPrefix(f.Name(), "Len") {
				if found || sign != 1 {
					return false
				}
				found = true
				return true
			}
			if t, ok := info.Types[x.Fun]; ok && t.IsType() && len(x.Args) == 1 {
				return walk(x.Args[0], sign)
			}
			return false
		case *ast.BinaryExpr:
			if x.Op == token.ADD {
				return walk(x.X, sign) && walk(x.Y, sign)
			}
			if x.Op == token.SUB {
				return walk(x.X, sign) && walk(x.Y, -sign)
			}
			return false
		default:
			if t, ok := info.Types[e]; ok && t.Value != nil {
				if v, ok := constant.Int64Val(constant.ToInt(t.Value)); ok {
					k += sign * v
					return true
				}
			}
			return false
		}
	}
	if !walk(be.X, 1) || !found {
		return 0, false
	}
	// rejected iff Len + k > C  (or >=): accepted Len <= C - k  (or C - k - 1)
	if be.Op == token.GTR {
		return cst - k, true
	}
	return cst - k - 1, true
}

// maxSupportedBits is the largest modulus bit-length the lazy NTT tolerates: its butterflies keep
// coefficients in [0, 8q) (ring/ntt.go: reduce [0,8q)->[0,6q), non-reduce [0,6q)->[0,8q)), so 8q <= 2^64.
const maxSupportedBits = 61

func scanThresh(c *core.Ctx) []ob {
	var out []ob
	pk := c.Pkg("core/rlwe")
	if pk == nil || c.IsFixture {
		return nil
	}
	info := pk.TypesInfo
	n := 0
	for _, f := range pk.Syntax {
		for _, d := range f.Decls {
			fd, ok := d.(*ast.FuncDecl)
			if !ok || fd.Body == nil || fd.Recv != nil {
				continue
			}
			switch fd.Name.Name {
			case "CheckModuli":
				ord := 0
				// the size tests, in CheckModuli itself or in a helper of the package it calls once per chain
				var visit func(body *ast.BlockStmt, depth int)
				var handle func(is *ast.IfStmt) bool
				visit = func(body *ast.BlockStmt, depth int) {
					ast.Inspect(body, func(nd ast.Node) bool {
						switch x := nd.(type) {
						case *ast.IfStmt:
							return handle(x)
						case *ast.CallExpr:
							if depth < 2 {
								if g := calleeFunc(info, x); g != nil && g.Pkg() == pk.Types {
									for _, f2 := range pk.Syntax {
										for _, d2 := range f2.Decls {
											if hd, ok := d2.(*ast.FuncDecl); ok && hd.Body != nil && hd.Recv == nil && info.Defs[hd.Name] == types.Object(g) && hd != fd {
												visit(hd.Body, depth+1)
											}
										}
									}
								}
							}
						}
						return true
					})
				}
				handle = func(is *ast.IfStmt) bool {
					lb, ok := lenBound(info, is.Cond)
					if !ok {
						return true
					}
					ord++
					n++
					which := "Q"
					if ord > 1 {
						which = "P"
					}
					key := fmt.Sprintf("THRESH:core/rlwe.CheckModuli#maxbits(%s)", which)
					if lb > maxSupportedBits {
						out = append(out, violOb("THRESH", key, c.Rel(is.Pos()), fmt.Sprintf("CheckModuli accepts %s moduli of up to %d bits, but the lazy NTT keeps coefficients in [0,8q) and therefore tolerates at most %d-bit moduli: a larger accepted prime silently wraps around uint64 (INTT(NTT(a)) != a)", which, lb, maxSupportedBits)))
					} else {
						out = append(out, okOb("THRESH", key, c.Rel(is.Pos()), fmt.Sprintf("largest accepted bit-length %d <= %d", lb, maxSupportedBits), true))
					}
					return true
				}
				visit(fd.Body, 0)
			case "checkModuliLogSize":
				ord := 0
				ast.Inspect(fd.Body, func(nd ast.Node) bool {
					be, ok := nd.(*ast.BinaryExpr)
					if !ok || be.Op != token.GTR {
						return true
					}
					tv, ok := info.Types[be.Y]
					if !ok || tv.Value == nil {
						return true
					}
					v, _ := constant.Int64Val(constant.ToInt(tv.Value))
					ord++
					n++
					which, lim := "LogQ", int64(maxSupportedBits-1)
					if ord > 1 {
						which, lim = "LogP", int64(maxSupportedBits)
					}
					key := fmt.Sprintf("THRESH:core/rlwe.checkModuliLogSize#max(%s)", which)
					if v > lim {
						out = append(out, violOb("THRESH", key, c.Rel(be.Pos()), fmt.Sprintf("checkModuliLogSize accepts %s requests of up to %d bits; generated primes of that size can exceed the %d bits the arithmetic supports", which, v, maxSupportedBits)))
					} else {
						out = append(out, okOb("THRESH", key, c.Rel(be.Pos()), fmt.Sprintf("largest accepted request %d <= %d", v, lim), true))
					}
					return true
				})
			}
		}
	}
	// prime generation: primes drawn above 2^bits have bits+1 bits, so for the largest accepted size request the
	// generator must only go downstream. Every upstream/alternating draw in library code must sit in the else-branch
	// of a test `size == 61` whose then-branch draws downstream.
	c.FuncDecls(func(pk2 *packages.Package, file *ast.File, fd *ast.FuncDecl) {
		if inExamples(pk2) || fileIsTestSupport(c.Program, fd.Pos()) || strings.HasSuffix(c.RelFile(fd.Pos()), "ring/primes.go") {
			return
		}
		info2 := pk2.TypesInfo
		pm := parentMap(fd)
		ast.Inspect(fd.Body, func(nd ast.Node) bool {
			call, ok := nd.(*ast.CallExpr)
			if !ok {
				return true
			}
			f := calleeFunc(info2, call)
			if f == nil || !(strings.HasPrefix(f.Name(), "NextAlternatingPrime") || strings.HasPrefix(f.Name(), "NextUpstreamPrime")) {
				return true
			}
			if rn := namedOf(f.Type().(*types.Signature).Recv().Type()); rn == nil || rn.Obj().Name() != "NTTFriendlyPrimesGenerator" {
				return true
			}
			n++
			key := fmt.Sprintf("THRESH:%s#%s", core.FuncKey(pk2, fd), f.Name())
			guarded := false
			var child ast.Node = call
			for p := pm[child]; p != nil; child, p = p, pm[p] {
				is, ok := p.(*ast.IfStmt)
				if !ok || is.Else != child {
					continue
				}
				// condition: X == 61
				eq := false
				ast.Inspect(is.Cond, func(x ast.Node) bool {
					if be, ok := x.(*ast.BinaryExpr); ok && be.Op == token.EQL {
						for _, side := range []ast.Expr{be.X, be.Y} {
							if tv, ok := info2.Types[side]; ok && tv.Value != nil {
								if v, ok := constant.Int64Val(constant.ToInt(tv.Value)); ok && v == maxSupportedBits {
									eq = true
								}
							}
						}
					}
					return true
				})
				down := false
				ast.Inspect(is.Body, func(x ast.Node) bool {
					if c2, ok := x.(*ast.CallExpr); ok {
						if f2 := calleeFunc(info2, c2); f2 != nil && strings.HasPrefix(f2.Name(), "NextDownstreamPrime") {
							down = true
						}
					}
					return true
				})
				if eq && down {
					guarded = true
				}
			}
			if guarded {
				out = append(out, okOb("THRESH", key, c.Rel(call.Pos()), "upstream/alternating draw only for sizes other than 61; 61-bit requests are drawn downstream", true))
			} else {
				out = append(out, violOb("THRESH", key, c.Rel(call.Pos()), fmt.Sprintf("%s draws primes with %s without the `size == %d -> downstream` guard used by rlwe.GenModuli: a %d-bit request yields primes above 2^%d, i.e. %d-bit moduli, more than the arithmetic supports", core.FuncKey(pk2, fd), f.Name(), maxSupportedBits, maxSupportedBits, maxSupportedBits, maxSupportedBits+1)))
			}
			return true
		})
	})
	c.Stats["thresholds"] = n
	return out
}

func init() {
	core.Register(&core.Rule{Name: "SECTAB", Props: []string{"C19", "C18"},
		Doc: "every package-level parameter literal (rlwe/bgv/ckks ParametersLiteral, incl. those embedded in bootstrapping defaults), evaluated by constant folding: LogN in range and matching the identifier, explicit log2(QP) within the 128-bit table row / the identifier's own claim, listed primes distinct, prime, NTT-friendly, <= 61 bits, size requests within bounds",
		Run: func(c *core.Ctx) []ob {
			out := scanSecTab(c)
			out = append(out, core.Floor("SECTAB", nil, "parameter literals", c.Stats["sectab_literals"], 25)...)
			out = append(out, control(c, "SECTAB", scanSecTab, "BadParamsN12QP109")...)
			return out
		}})
	core.Register(&core.Rule{Name: "FIXT", Props: []string{"C19"},
		Doc: "package-level variables declared in test_params.go/test_utils.go fixture files are not referenced from library functions",
		Run: func(c *core.Ctx) []ob {
			out := scanFixt(c)
			out = append(out, core.Floor("FIXT", nil, "fixture variables", c.Stats["fixture_vars"], 5)...)
			return out
		}})
	core.Register(&core.Rule{Name: "THRESH", Props: []string{"C19", "C01"},
		Doc: "the largest modulus bit-length accepted by rlwe.CheckModuli (constant-folded from its comparisons) and the largest size request accepted by checkModuliLogSize do not exceed what the lazy NTT tolerates (8q <= 2^64, i.e. 61 bits)",
		Run: func(c *core.Ctx) []ob {
			out := scanThresh(c)
			out = append(out, core.Floor("THRESH", nil, "thresholds", c.Stats["thresholds"], 4)...)
			return out
		}})
}
