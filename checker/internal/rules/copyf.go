package rules

import (
	"fmt"
	"go/ast"
	"go/token"
	"go/types"
	"strings"

	"golang.org/x/tools/go/packages"

	"lvcheck/internal/core"
)

// COPYF — copy-constructor completeness.
//
// For every method named ShallowCopy / WithKey / WithPRNG / AtLevel / CopyNew /
// Clone / WithParams whose result is (a pointer to, or an interface holding a
// pointer to) a value of its receiver's struct type T, every field of T must be
// carried into the returned value unless no code of the module ever reads the
// field (dead after construction).

var copyCtorNames = map[string]bool{
	"ShallowCopy": true, "WithKey": true, "WithPRNG": true, "AtLevel": true,
	"CopyNew": true, "Clone": true, "WithParams": true,
}

// copyfProps maps a package (module-relative) to the properties its copy constructors serve besides C10.
func copyfProps(pkgRel, typ string) []string {
	props := []string{"C10"}
	switch {
	case pkgRel == "circuits/ckks/bootstrapping":
		props = append(props, "C18")
	case strings.HasPrefix(pkgRel, "multiparty/mp"), pkgRel == "multiparty" && (strings.Contains(typ, "KeySwitch")):
		props = append(props, "C16")
	case pkgRel == "multiparty":
		props = append(props, "C14")
	case pkgRel == "ring" && strings.Contains(typ, "ampler"), pkgRel == "ring/ringqp" && strings.Contains(typ, "ampler"):
		props = append(props, "C17")
	case pkgRel == "ring" && (typ == "BasisExtender" || typ == "Decomposer"):
		props = append(props, "C02")
	case pkgRel == "core/rgsw" || pkgRel == "core/rgsw/blindrot":
		props = append(props, "C20")
	case (pkgRel == "schemes/bgv" || pkgRel == "schemes/ckks") && typ == "Encoder":
		props = append(props, "C07")
	}
	return props
}

// fieldReads computes, once per program, the set of struct fields (origin vars) that are read anywhere in the module.
func fieldReads(p *core.Program) map[*types.Var]token.Pos {
	reads := map[*types.Var]token.Pos{}
	for _, pk := range p.Pkgs {
		info := pk.TypesInfo
		for _, file := range pk.Syntax {
			// collect selector expressions that are pure assignment targets
			pureLHS := map[*ast.SelectorExpr]bool{}
			ast.Inspect(file, func(n ast.Node) bool {
				if as, ok := n.(*ast.AssignStmt); ok && (as.Tok == token.ASSIGN || as.Tok == token.DEFINE) {
					for _, l := range as.Lhs {
						if s, ok := unparen(l).(*ast.SelectorExpr); ok {
							pureLHS[s] = true
						}
					}
				}
				return true
			})
			ast.Inspect(file, func(n ast.Node) bool {
				s, ok := n.(*ast.SelectorExpr)
				if !ok {
					return true
				}
				sel := info.Selections[s]
				if sel == nil {
					return true
				}
				// walk the embedding path: every implicit embedded field on the path is read
				t := sel.Recv()
				idx := sel.Index()
				for i, ix := range idx {
					st := structOf(t)
					if st == nil {
						break
					}
					last := i == len(idx)-1
					if last && sel.Kind() != types.FieldVal {
						break // method: not a field
					}
					f := st.Field(ix)
					if last && pureLHS[s] {
						break
					}
					fo := fieldOrigin(f)
					if _, ok := reads[fo]; !ok {
						reads[fo] = s.Pos()
					}
					t = f.Type()
				}
				return true
			})
		}
	}
	return reads
}

type copyCtor struct {
	pk    *packages.Package
	fd    *ast.FuncDecl
	named *types.Named
	st    *types.Struct
}

func findCopyCtors(p *core.Program) []copyCtor {
	var out []copyCtor
	p.FuncDecls(func(pk *packages.Package, file *ast.File, fd *ast.FuncDecl) {
		if !copyCtorNames[fd.Name.Name] || fd.Recv == nil {
			return
		}
		if fileIsTestSupport(p, fd.Pos()) {
			return
		}
		named, _ := core.RecvNamed(pk.TypesInfo, fd)
		if named == nil {
			return
		}
		st, _ := named.Underlying().(*types.Struct)
		if st == nil {
			return
		}
		obj := pk.TypesInfo.Defs[fd.Name].(*types.Func)
		sig := obj.Type().(*types.Signature)
		if sig.Results().Len() == 0 {
			return
		}
		out = append(out, copyCtor{pk, fd, named, st})
	})
	return out
}

// sameNamed reports whether t (through pointers) is an instantiation of the same named type as n.
func sameNamed(t types.Type, n *types.Named) bool {
	m := namedOf(t)
	return m != nil && m.Origin() == n.Origin()
}

// built describes how a returned value was constructed.
type built struct {
	all      bool   // whole struct carried (copy of receiver / positional literal)
	opaque   string // delegated to a call (callee name)
	opaqueFn *types.Func
	fields   map[string]bool // fields explicitly set
	unknown  bool
	isNil    bool
	pos      token.Pos
}

func analyseCopyCtor(p *core.Program, cc copyCtor) (res []built) {
	info := cc.pk.TypesInfo
	recv := recvObj(info, cc.fd)
	fd := cc.fd

	// later field assignments on a local variable: x.f = ...
	laterAssign := map[types.Object]map[string]bool{}
	inspectNoLits(fd.Body, func(n ast.Node) bool {
		as, ok := n.(*ast.AssignStmt)
		if !ok {
			return true
		}
		for _, l := range as.Lhs {
			s, ok := unparen(l).(*ast.SelectorExpr)
			if !ok {
				continue
			}
			o := identObj(info, s.X)
			if o == nil {
				continue
			}
			if laterAssign[o] == nil {
				laterAssign[o] = map[string]bool{}
			}
			laterAssign[o][s.Sel.Name] = true
		}
		return true
	})

	var classify func(e ast.Expr, depth int) built
	classifyVar := func(o types.Object, depth int) built {
		b := built{fields: map[string]bool{}}
		if recv != nil && o == recv {
			// value receiver returned (by address or by value): whole struct carried, plus modifications
			b.all = true
			return b
		}
		// find definitions of o in the body
		found := false
		inspectNoLits(fd.Body, func(n ast.Node) bool {
			switch s := n.(type) {
			case *ast.AssignStmt:
				for i, l := range s.Lhs {
					if st, isStar := unparen(l).(*ast.StarExpr); isStar && len(s.Rhs) == len(s.Lhs) {
						// *x = <struct value>: the whole struct is stored through the pointer
						if identObj(info, st.X) == o {
							d := classify(s.Rhs[i], depth+1)
							if d.all {
								b.all = true
								found = true
							}
							for f := range d.fields {
								b.fields[f] = true
							}
						}
						continue
					}
					if identObj(info, l) != o {
						continue
					}
					if _, isIdent := unparen(l).(*ast.Ident); !isIdent {
						continue
					}
					var rhs ast.Expr
					if len(s.Rhs) == len(s.Lhs) {
						rhs = s.Rhs[i]
					} else if len(s.Rhs) == 1 {
						rhs = s.Rhs[0]
					}
					if rhs == nil {
						continue
					}
					found = true
					d := classify(rhs, depth+1)
					if d.all {
						b.all = true
					}
					if d.opaque != "" {
						b.opaque = d.opaque
						b.opaqueFn = d.opaqueFn
					}
					if d.unknown {
						b.unknown = true
					}
					for f := range d.fields {
						b.fields[f] = true
					}
				}
			case *ast.ValueSpec:
				for i, nm := range s.Names {
					if info.Defs[nm] != o {
						continue
					}
					found = true
					if i < len(s.Values) {
						d := classify(s.Values[i], depth+1)
						if d.all {
							b.all = true
						}
						if d.opaque != "" {
							b.opaque = d.opaque
							b.opaqueFn = d.opaqueFn
						}
						if d.unknown {
							b.unknown = true
						}
						for f := range d.fields {
							b.fields[f] = true
						}
					}
				}
			}
			return true
		})
		for f := range laterAssign[o] {
			b.fields[f] = true
		}
		// completion methods called on the value (cpy.allocateBuffers()): the fields they assign through their receiver
		inspectNoLits(fd.Body, func(n ast.Node) bool {
			call, ok := n.(*ast.CallExpr)
			if !ok {
				return true
			}
			sel, ok := unparen(call.Fun).(*ast.SelectorExpr)
			if !ok || identObj(info, sel.X) != o {
				return true
			}
			if m := calleeFunc(info, call); m != nil {
				for f := range fieldsAssignedByMethod(p, m, 0) {
					b.fields[f] = true
				}
			}
			return true
		})
		if !found {
			// named result never assigned as a whole: zero value + field assignments
			if len(laterAssign[o]) == 0 {
				b.unknown = true
			}
		}
		return b
	}
	classify = func(e ast.Expr, depth int) built {
		b := built{fields: map[string]bool{}, pos: e.Pos()}
		if depth > 6 {
			b.unknown = true
			return b
		}
		e = unparen(e)
		switch x := e.(type) {
		case *ast.UnaryExpr:
			if x.Op == token.AND {
				return classify(x.X, depth+1)
			}
		case *ast.StarExpr:
			// *recv (pointer receiver deref) or *call()
			inner := unparen(x.X)
			if o := identObj(info, inner); o != nil && recv != nil && o == recv {
				b.all = true
				return b
			}
			return classify(inner, depth+1)
		case *ast.CompositeLit:
			tv := info.TypeOf(x)
			if !sameNamed(tv, cc.named) {
				b.unknown = true
				return b
			}
			if len(x.Elts) == 0 {
				return b
			}
			if _, keyed := x.Elts[0].(*ast.KeyValueExpr); !keyed {
				b.all = true // positional literal: the compiler demands every field
				return b
			}
			for _, el := range x.Elts {
				kv := el.(*ast.KeyValueExpr)
				if id, ok := kv.Key.(*ast.Ident); ok {
					b.fields[id.Name] = true
				}
			}
			return b
		case *ast.Ident:
			if x.Name == "nil" {
				b.isNil = true
				return b
			}
			o := identObj(info, x)
			if o == nil {
				b.unknown = true
				return b
			}
			if _, ok := o.(*types.Var); ok {
				return classifyVar(o, depth+1)
			}
		case *ast.CallExpr:
			if isBuiltinCall(info, x, "new") {
				return b // zero value
			}
			if tv, ok := info.Types[x.Fun]; ok && tv.IsType() && len(x.Args) == 1 {
				// conversion T(x)
				return classify(x.Args[0], depth+1)
			}
			name := "call"
			if f := calleeFunc(info, x); f != nil {
				name = core.ObjFuncKey(f)
				b.opaqueFn = funcOrigin(f)
			}
			b.opaque = name
			return b
		case *ast.TypeAssertExpr:
			return classify(x.X, depth+1)
		}
		b.unknown = true
		return b
	}

	// gather return expressions
	obj := info.Defs[fd.Name].(*types.Func)
	sig := obj.Type().(*types.Signature)
	var namedRes types.Object
	if sig.Results().Len() >= 1 && sig.Results().At(0).Name() != "" {
		namedRes = sig.Results().At(0)
	}
	inspectNoLits(fd.Body, func(n ast.Node) bool {
		r, ok := n.(*ast.ReturnStmt)
		if !ok {
			return true
		}
		if len(r.Results) == 0 {
			if namedRes != nil {
				b := classifyVar(namedRes, 0)
				b.pos = r.Pos()
				res = append(res, b)
			}
			return true
		}
		b := classify(r.Results[0], 0)
		b.pos = r.Pos()
		res = append(res, b)
		return true
	})
	return res
}

func init() {
	core.Register(&core.Rule{
		Name:  "COPYF",
		Doc:   "every field of T is carried by each copy constructor (ShallowCopy/WithKey/WithPRNG/AtLevel/CopyNew/Clone/WithParams) of T on every return, unless no code in the module reads the field",
		Props: []string{"C10", "C18", "C16", "C14", "C17", "C20", "C07", "C02"},
		Run: func(c *core.Ctx) []ob {
			out := scanCopyF(c)
			out = append(out, core.Floor("COPYF", []string{"C10"}, "copy constructors", c.Stats["copyf_constructors"], 40)...)
			out = append(out, core.Floor("COPYF", []string{"C10"}, "field obligations", c.Stats["copyf_fields"], 120)...)
			for _, o := range control(c, "COPYF", scanCopyF, "#field=conf") {
				out = append(out, withProps(o, "C10"))
			}
			return out
		},
	})
}

func scanCopyF(c *core.Ctx) []ob {
	var out []ob
	reads := fieldReads(c.Program)
	ctors := findCopyCtors(c.Program)
	nField := 0
	nCtor := 0
	for _, cc := range ctors {
		pkgRel := core.ShortPkg(cc.pk.PkgPath)
		tname := cc.named.Obj().Name()
		props := copyfProps(pkgRel, tname)
		fkey := core.FuncKey(cc.pk, cc.fd)
		// result type must be T, *T or an interface
		sig := cc.pk.TypesInfo.Defs[cc.fd.Name].(*types.Func).Type().(*types.Signature)
		rt := sig.Results().At(0).Type()
		_, isIface := rt.Underlying().(*types.Interface)
		if !sameNamed(rt, cc.named) && !isIface {
			continue
		}
		bs := analyseCopyCtor(c.Program, cc)
		if len(bs) == 0 {
			continue
		}
		nCtor++
		for ri, b := range bs {
			if b.isNil {
				continue
			}
			rkey := fkey
			if len(bs) > 1 {
				rkey = fmt.Sprintf("%s#ret%d", fkey, ri)
			}
			pos := c.Rel(b.pos)
			if b.unknown && !b.all && b.opaque == "" {
				if isIface {
					continue // returns something else than *T through an interface
				}
				out = append(out, withProps(incOb("COPYF", "COPYF:"+rkey, pos, "cannot resolve how the returned value is built"), props...))
				continue
			}
			if b.all {
				out = append(out, withProps(okOb("COPYF", "COPYF:"+rkey+"#whole", pos, "whole struct carried (receiver copy or positional literal)", false), props...))
				nField += cc.st.NumFields()
				continue
			}
			if b.opaque != "" && len(b.fields) > 0 {
				// built by a callee and then completed field by field: the callee's own fields count
				all, fs := fieldsBuiltBy(c.Program, b.opaqueFn, cc.named, 0)
				if all {
					out = append(out, withProps(okOb("COPYF", "COPYF:"+rkey+"#delegates", pos, "delegates construction to "+b.opaque+" and completes it", false), props...))
					continue
				}
				for f := range fs {
					b.fields[f] = true
				}
			}
			if b.opaque != "" && len(b.fields) == 0 {
				out = append(out, withProps(okOb("COPYF", "COPYF:"+rkey+"#delegates", pos, "delegates construction to "+b.opaque, false), props...))
				continue
			}
			for i := 0; i < cc.st.NumFields(); i++ {
				f := cc.st.Field(i)
				nField++
				key := fmt.Sprintf("COPYF:%s#field=%s", rkey, f.Name())
				if b.fields[f.Name()] {
					out = append(out, withProps(okOb("COPYF", key, pos, "carried", true), props...))
					continue
				}
				if rp, used := reads[fieldOrigin(f)]; used {
					out = append(out, withProps(violOb("COPYF", key, pos,
						fmt.Sprintf("copy constructor %s returns a %s whose field %q is left at its zero value, but the field is read (e.g. %s): the copy does not behave like the original", fkey, tname, f.Name(), c.Rel(rp))), props...))
				} else {
					out = append(out, withProps(okOb("COPYF", key, pos, "not carried, but never read anywhere in the module (dead after construction)", true), props...))
				}
			}
		}
	}
	c.Stats["copyf_constructors"] = nCtor
	c.Stats["copyf_fields"] = nField
	return out
}

// fieldsBuiltBy returns the fields of T that a function returning T sets on every return (all: the whole struct, or a
// callee that cannot be looked into).
func fieldsBuiltBy(p *core.Program, fn *types.Func, named *types.Named, depth int) (bool, map[string]bool) {
	if fn == nil || fn.Pkg() == nil || depth > 4 {
		return true, nil
	}
	pk := p.ByPath[fn.Pkg().Path()]
	if pk == nil {
		return true, nil
	}
	var fd *ast.FuncDecl
	for _, f := range pk.Syntax {
		for _, d := range f.Decls {
			if x, ok := d.(*ast.FuncDecl); ok && x.Body != nil {
				if o, _ := pk.TypesInfo.Defs[x.Name].(*types.Func); o != nil && funcOrigin(o) == fn {
					fd = x
				}
			}
		}
	}
	st, _ := named.Underlying().(*types.Struct)
	if fd == nil || st == nil {
		return true, nil
	}
	bs := analyseCopyCtor(p, copyCtor{pk, fd, named, st})
	var inter map[string]bool
	for _, b := range bs {
		if b.isNil {
			continue
		}
		fs := map[string]bool{}
		switch {
		case b.all, b.unknown && b.opaque == "":
			return true, nil
		case b.opaque != "":
			all, sub := fieldsBuiltBy(p, b.opaqueFn, named, depth+1)
			if all {
				return true, nil
			}
			for f := range sub {
				fs[f] = true
			}
		}
		for f := range b.fields {
			fs[f] = true
		}
		if inter == nil {
			inter = fs
		} else {
			for f := range inter {
				if !fs[f] {
					delete(inter, f)
				}
			}
		}
	}
	if inter == nil {
		return true, nil
	}
	return false, inter
}

// fieldsAssignedByMethod returns the fields a method assigns through its receiver (x.F = …), following the methods it
// calls on the same receiver.
func fieldsAssignedByMethod(p *core.Program, m *types.Func, depth int) map[string]bool {
	res := map[string]bool{}
	if m == nil || m.Pkg() == nil || depth > 3 {
		return res
	}
	pk := p.ByPath[m.Pkg().Path()]
	if pk == nil {
		return res
	}
	info := pk.TypesInfo
	for _, f := range pk.Syntax {
		for _, d := range f.Decls {
			fd, ok := d.(*ast.FuncDecl)
			if !ok || fd.Body == nil || fd.Recv == nil {
				continue
			}
			if o, _ := info.Defs[fd.Name].(*types.Func); o == nil || funcOrigin(o) != funcOrigin(m) {
				continue
			}
			recv := recvObj(info, fd)
			if recv == nil {
				return res
			}
			if _, isPtr := recv.Type().(*types.Pointer); !isPtr {
				return res // a value receiver assigns its own copy
			}
			ast.Inspect(fd.Body, func(n ast.Node) bool {
				switch x := n.(type) {
				case *ast.AssignStmt:
					for _, l := range x.Lhs {
						if s, ok := unparen(l).(*ast.SelectorExpr); ok && identObj(info, s.X) == recv {
							res[s.Sel.Name] = true
						}
					}
				case *ast.CallExpr:
					if s, ok := unparen(x.Fun).(*ast.SelectorExpr); ok && identObj(info, s.X) == recv {
						for f := range fieldsAssignedByMethod(p, calleeFunc(info, x), depth+1) {
							res[f] = true
						}
					}
				}
				return true
			})
		}
	}
	return res
}
