package rules

import (
	"fmt"
	"go/ast"
	"go/token"
	"go/types"
	"os"
	"regexp"
	"strings"

	"lvcheck/internal/core"
)

// TWIN — strict / lazy twin agreement of the reduction primitives.
//
// For every pair (F, FLazy) of package-level functions of package ring, the body of F must be the body of
// FLazy followed by exactly one conditional subtraction `if r >= q { r -= q }` on the result, after
// alpha-renaming of parameters (by position) and locals (by first use) and after rewriting `return E` as
// `r = E`. This is what makes "the strict result is the lazy result reduced once" true by construction.

func canonBody(info *types.Info, fd *ast.FuncDecl) ([]string, string) {
	names := map[types.Object]string{}
	pi := 0
	for _, f := range fd.Type.Params.List {
		for _, nm := range f.Names {
			names[info.Defs[nm]] = fmt.Sprintf("$p%d", pi)
			pi++
		}
	}
	resName := "$r"
	if fd.Type.Results != nil {
		for _, f := range fd.Type.Results.List {
			for _, nm := range f.Names {
				names[info.Defs[nm]] = resName
			}
		}
	}
	li := 0
	var render func(n ast.Node) string
	render = func(n ast.Node) string {
		switch x := n.(type) {
		case nil:
			return ""
		case *ast.Ident:
			if x.Name == "_" {
				return "_"
			}
			o := info.Uses[x]
			if o == nil {
				o = info.Defs[x]
			}
			if o == nil {
				return x.Name
			}
			if _, isVar := o.(*types.Var); !isVar {
				return x.Name // functions, packages, constants keep their name
			}
			if v, ok := o.(*types.Var); ok && v.IsField() {
				return x.Name
			}
			if nm, ok := names[o]; ok {
				return nm
			}
			names[o] = fmt.Sprintf("$l%d", li)
			li++
			return names[o]
		case *ast.BasicLit:
			return x.Value
		case *ast.ParenExpr:
			return render(x.X) // parentheses are not significant for uint64 +,-,* chains written identically; keep structure via binary rendering
		case *ast.BinaryExpr:
			return "(" + render(x.X) + " " + x.Op.String() + " " + render(x.Y) + ")"
		case *ast.UnaryExpr:
			return "(" + x.Op.String() + render(x.X) + ")"
		case *ast.CallExpr:
			var as []string
			for _, a := range x.Args {
				as = append(as, render(a))
			}
			return render(x.Fun) + "(" + strings.Join(as, ", ") + ")"
		case *ast.SelectorExpr:
			return render(x.X) + "." + x.Sel.Name
		case *ast.IndexExpr:
			return render(x.X) + "[" + render(x.Index) + "]"
		case *ast.AssignStmt:
			var l, r []string
			for _, e := range x.Rhs {
				r = append(r, render(e))
			}
			for _, e := range x.Lhs {
				l = append(l, render(e))
			}
			tok := x.Tok.String()
			if x.Tok == token.DEFINE {
				tok = "="
			}
			return strings.Join(l, ", ") + " " + tok + " " + strings.Join(r, ", ")
		case *ast.IfStmt:
			s := "IF " + render(x.Cond) + " {"
			for _, st := range x.Body.List {
				s += " " + render(st) + ";"
			}
			s += " }"
			if x.Else != nil {
				s += " ELSE " + render(x.Else)
			}
			return s
		case *ast.BlockStmt:
			s := "{"
			for _, st := range x.List {
				s += " " + render(st) + ";"
			}
			return s + " }"
		case *ast.ExprStmt:
			return render(x.X)
		case *ast.IncDecStmt:
			return render(x.X) + x.Tok.String()
		case *ast.ReturnStmt:
			if len(x.Results) == 1 {
				return resName + " = " + render(x.Results[0]) + "; RETURN"
			}
			return "RETURN"
		}
		return fmt.Sprintf("<%T>", n)
	}
	var out []string
	for _, st := range fd.Body.List {
		switch x := st.(type) {
		case *ast.DeclStmt:
			continue // pure declarations
		case *ast.ReturnStmt:
			if len(x.Results) == 1 {
				out = append(out, resName+" = "+render(x.Results[0]))
			} else if len(x.Results) > 1 {
				var rs []string
				for _, e := range x.Results {
					rs = append(rs, render(e))
				}
				out = append(out, "RETURN "+strings.Join(rs, ", "))
			}
			continue
		}
		out = append(out, render(st))
	}
	return out, resName
}

var condSubPattern = regexp.MustCompile(`^IF \((?:\$r >= (\$p\d+)|(\$p\d+) <= \$r)\) \{ (?:\$r -= (\$p\d+)|\$r = \(\$r - (\$p\d+)\)); \}$`)

// condSub recognises the one conditional subtraction of the modulus in its spellings (`if r >= q { r -= q }`,
// `if q <= r { r = r - q }`) and returns the parameter subtracted.
func condSub(stmt string) (string, bool) {
	m := condSubPattern.FindStringSubmatch(stmt)
	if m == nil {
		return "", false
	}
	cmp, sub := m[1]+m[2], m[3]+m[4]
	return cmp, cmp == sub
}

// isCondSubBody: the canonical body of a function (a, q) that returns a - q when a >= q and a otherwise, in its
// spellings (either arm first, comparison mirrored, else-arm or fall-through).
func isCondSubBody(cb []string) bool {
	txt := strings.Join(cb, " ")
	txt = strings.ReplaceAll(txt, "$p1 <= $p0", "$p0 >= $p1")
	txt = strings.ReplaceAll(txt, "$p1 > $p0", "$p0 < $p1")
	txt = strings.ReplaceAll(txt, " ELSE {", "")
	txt = strings.ReplaceAll(txt, "RETURN; ", "")
	txt = strings.ReplaceAll(txt, "RETURN;", "")
	txt = strings.Join(strings.Fields(strings.NewReplacer("{", " ", "}", " ", ";", " ").Replace(txt)), " ")
	switch txt {
	case "IF ($p0 >= $p1) $r = ($p0 - $p1) $r = $p0", "IF ($p0 < $p1) $r = $p0 $r = ($p0 - $p1)":
		return true
	}
	if os.Getenv("LV_DEBUG_TWIN") != "" {
		fmt.Fprintf(os.Stderr, "TWIN: conditional subtraction body not recognised: %q\n", txt)
	}
	return false
}

func scanTwin(c *core.Ctx) []ob {
	var out []ob
	pk := c.Pkg("ring")
	if pk == nil || c.IsFixture {
		return nil
	}
	info := pk.TypesInfo
	decls := map[string]*ast.FuncDecl{}
	for _, f := range pk.Syntax {
		for _, d := range f.Decls {
			if fd, ok := d.(*ast.FuncDecl); ok && fd.Body != nil && fd.Recv == nil {
				decls[fd.Name.Name] = fd
			}
		}
	}
	n := 0
	for _, name := range sortedKeys(decls) {
		lazy, ok := decls[name+"Lazy"]
		if !ok {
			continue
		}
		strict := decls[name]
		// only scalar primitives: same parameter list, single uint64 result
		if strict.Type.Results == nil || strict.Type.Results.NumFields() != 1 || lazy.Type.Results == nil || lazy.Type.Results.NumFields() != 1 {
			continue
		}
		if strict.Type.Params.NumFields() != lazy.Type.Params.NumFields() {
			continue
		}
		if b, ok := info.TypeOf(strict.Type.Results.List[0].Type).(*types.Basic); !ok || b.Kind() != types.Uint64 {
			continue
		}
		n++
		key := "TWIN:ring." + name + "/" + name + "Lazy"
		pos := c.Rel(strict.Pos())
		sb, _ := canonBody(info, strict)
		lb, _ := canonBody(info, lazy)
		// the strict primitive may also be written as its lazy twin called on the same arguments, followed by the
		// conditional subtraction, or handed to CRed (which is that conditional subtraction)
		{
			var args []string
			qIdx := -1
			i := 0
			for _, f := range strict.Type.Params.List {
				for _, nm := range f.Names {
					args = append(args, fmt.Sprintf("$p%d", i))
					if nm.Name == "q" {
						qIdx = i
					}
					i++
				}
			}
			call := name + "Lazy(" + strings.Join(args, ", ") + ")"
			deleg := false
			switch {
			case len(sb) == 2 && sb[0] == "$r = "+call:
				if p, ok := condSub(sb[1]); ok && qIdx >= 0 && p == fmt.Sprintf("$p%d", qIdx) {
					deleg = true
				}
			case len(sb) == 1 && qIdx >= 0 && sb[0] == fmt.Sprintf("$r = CRed(%s, $p%d)", call, qIdx):
				if cr := decls["CRed"]; cr != nil {
					cb, _ := canonBody(info, cr)
					if isCondSubBody(cb) {
						deleg = true
					}
				}
			}
			if deleg {
				out = append(out, okOb("TWIN", key, pos, "the strict primitive is its lazy twin on the same arguments followed by one conditional subtraction of q", true))
				continue
			}
		}
		if len(sb) != len(lb)+1 {
			out = append(out, violOb("TWIN", key, pos, fmt.Sprintf("ring.%s has %d canonical statements, ring.%sLazy has %d: the strict primitive is not its lazy twin plus one conditional subtraction", name, len(sb), name, len(lb))))
			continue
		}
		bad := ""
		for i := range lb {
			if sb[i] != lb[i] {
				bad = fmt.Sprintf("statement %d differs: strict `%s` vs lazy `%s`", i, sb[i], lb[i])
				break
			}
		}
		if bad == "" {
			cp, okc := condSub(sb[len(sb)-1])
			if !okc {
				bad = fmt.Sprintf("the extra statement of the strict variant is `%s`, not `if r >= q { r -= q }`", sb[len(sb)-1])
			} else {
				// the subtracted parameter must be the modulus: the parameter named q in both
				idx := 0
				fmt.Sscanf(cp, "$p%d", &idx)
				pn := paramNameAt(strict, idx)
				if pn != "q" {
					bad = fmt.Sprintf("the conditional subtraction uses parameter %q, not the modulus q", pn)
				}
			}
		}
		if bad != "" {
			out = append(out, violOb("TWIN", key, pos, fmt.Sprintf("ring.%s / ring.%sLazy: %s", name, name, bad)))
			continue
		}
		out = append(out, okOb("TWIN", key, pos, fmt.Sprintf("%d shared statements + one conditional subtraction of q", len(lb)), true))
	}
	c.Stats["twin_pairs"] = n
	return out
}

func paramNameAt(fd *ast.FuncDecl, idx int) string {
	i := 0
	for _, f := range fd.Type.Params.List {
		for _, nm := range f.Names {
			if i == idx {
				return nm.Name
			}
			i++
		}
	}
	return "?"
}

func init() {
	core.Register(&core.Rule{Name: "TWIN", Props: []string{"C01"},
		Doc: "every scalar reduction primitive F of package ring with a sibling FLazy has the body of FLazy followed by exactly `if r >= q { r -= q }` (alpha-renamed comparison of canonical statement lists)",
		Run: func(c *core.Ctx) []ob {
			out := scanTwin(c)
			out = append(out, core.Floor("TWIN", nil, "strict/lazy pairs", c.Stats["twin_pairs"], 4)...)
			return out
		}})
}
