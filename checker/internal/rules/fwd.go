package rules

import (
	"fmt"
	"go/ast"
	"go/types"
	"strings"

	"golang.org/x/tools/go/packages"

	"lvcheck/internal/core"
)

// FWD — forwarding agreement between the three arithmetic layers.
//
// (i)  ring.Ring.M whose body is a per-level loop over r.SubRings calling exactly one SubRing method:
//      if SubRing has a method named M the callee must be M, and the `.Coeffs[i]` arguments must appear in
//      the order of the polynomial parameters.
// (ii) ringqp.Ring.M: the RingQ branch and the RingP branch call the same ring.Ring method with the .Q / .P
//      projections of the same parameters in the same order; if ring.Ring has a method M the callee is M.

func methodByName(n *types.Named, name string) *types.Func {
	for i := 0; i < n.NumMethods(); i++ {
		if n.Method(i).Name() == name {
			return n.Method(i)
		}
	}
	return nil
}

// argRoot describes a forwarded argument: the parameter it comes from and the projection applied.
type argRoot struct {
	param string
	proj  string // e.g. ".Coeffs[i]", ".Q", "[:qlen]", ""
	ok    bool
}

func forwardedArg(info *types.Info, e ast.Expr, params map[types.Object]string) argRoot {
	e = unparen(e)
	proj := ""
	for {
		switch x := e.(type) {
		case *ast.Ident:
			if o := info.Uses[x]; o != nil {
				if nm, ok := params[o]; ok {
					return argRoot{nm, proj, true}
				}
			}
			return argRoot{}
		case *ast.SelectorExpr:
			proj = "." + x.Sel.Name + proj
			e = x.X
		case *ast.IndexExpr:
			proj = "[" + exprString(x.Index) + "]" + proj
			e = x.X
		case *ast.SliceExpr:
			proj = "[" + exprString(x.Low) + ":" + exprString(x.High) + "]" + proj
			e = x.X
		case *ast.ParenExpr:
			e = x.X
		case *ast.StarExpr:
			e = x.X
		case *ast.UnaryExpr:
			e = x.X
		default:
			return argRoot{}
		}
	}
}

func paramMap(info *types.Info, fd *ast.FuncDecl) (map[types.Object]string, []string) {
	m := map[types.Object]string{}
	var order []string
	for _, f := range fd.Type.Params.List {
		for _, nm := range f.Names {
			if o := info.Defs[nm]; o != nil {
				m[o] = nm.Name
				order = append(order, nm.Name)
			}
		}
	}
	return m, order
}

// fwdPretend, when non-empty, makes part (i) treat the forwarder named fwdPretendFor as if it were named fwdPretend
// (counterfactual positive control: the recogniser must then report a mismatch on real code).
var fwdPretend, fwdPretendFor string

func scanFwd(c *core.Ctx) []ob {
	var out []ob
	nI, nII := 0, 0
	ringPk := c.Pkg("ring")
	qpPk := c.Pkg("ring/ringqp")
	if c.IsFixture {
		ringPk, qpPk = nil, nil
	}
	var subRing, ringRing *types.Named
	if ringPk != nil {
		if o := ringPk.Types.Scope().Lookup("SubRing"); o != nil {
			subRing, _ = o.Type().(*types.Named)
		}
		if o := ringPk.Types.Scope().Lookup("Ring"); o != nil {
			ringRing, _ = o.Type().(*types.Named)
		}
	}
	if !c.IsFixture && (subRing == nil || ringRing == nil || qpPk == nil) {
		return []ob{incOb("FWD", "FWD:anchors", "", "cannot resolve ring.SubRing / ring.Ring / ringqp")}
	}
	c.FuncDecls(func(pk *packages.Package, file *ast.File, fd *ast.FuncDecl) {
		if fd.Recv == nil || fileIsTestSupport(c.Program, fd.Pos()) {
			return
		}
		named, _ := core.RecvNamed(pk.TypesInfo, fd)
		if named == nil {
			return
		}
		info := pk.TypesInfo
		fkey := core.FuncKey(pk, fd)
		// (i) ring.Ring -> SubRing
		if ringRing != nil && named.Origin() == ringRing.Origin() {
			if len(fd.Body.List) == 0 {
				return
			}
			// the same forwarder spelled through a per-level helper: r.helper((*SubRing).M, p1, p2, p3), where the helper's
			// body is the per-level loop applying its function parameter to the .Coeffs[i] of its own parameters
			if callee, polyArgs, pos, ok := fwdThroughHelper(c, pk, fd, subRing, ringRing); ok {
				mname := fd.Name.Name
				if fwdPretend != "" && fwdPretendFor == fkey {
					mname = fwdPretend
				}
				same := methodByName(subRing, mname)
				nI++
				key := "FWD:" + fkey
				if same != nil && callee.Name() != mname {
					out = append(out, violOb("FWD", key, pos, fmt.Sprintf("%s forwards each level to SubRing.%s although SubRing.%s exists: the ring-level operation computes a different function than the one it is named after", fkey, callee.Name(), fd.Name.Name)))
					return
				}
				params, order := paramMap(info, fd)
				var polyParams []string
				for _, nm := range order {
					for o, n2 := range params {
						if n2 == nm {
							if nt := namedOf(o.Type()); nt != nil && nt.Obj().Name() == "Poly" {
								polyParams = append(polyParams, nm)
							}
						}
					}
				}
				if same != nil && strings.Join(polyArgs, ",") != strings.Join(polyParams, ",") {
					out = append(out, violOb("FWD", key, pos, fmt.Sprintf("%s passes the polynomials to SubRing.%s in the order (%s) but receives them as (%s)", fkey, callee.Name(), strings.Join(polyArgs, ","), strings.Join(polyParams, ","))))
					return
				}
				out = append(out, okOb("FWD", key, pos, fmt.Sprintf("forwards to SubRing.%s through a per-level helper with operands in order", callee.Name()), same != nil))
				return
			}
			// the last statement must be the per-level loop; earlier statements may only be simple definitions
			rs, ok := fd.Body.List[len(fd.Body.List)-1].(*ast.RangeStmt)
			if !ok || len(rs.Body.List) == 0 {
				return
			}
			// range over r.SubRings[...]
			if !strings.Contains(exprString(rs.X), "SubRings") {
				return
			}
			sVar := identObj(info, rs.Value)
			if rs.Value == nil || sVar == nil {
				return
			}
			params, order := paramMap(info, fd)
			// every statement of the loop body that calls a SubRing method on s
			var calls []*ast.CallExpr
			for _, st := range rs.Body.List {
				es, ok := st.(*ast.ExprStmt)
				if !ok {
					continue
				}
				call, ok := es.X.(*ast.CallExpr)
				if !ok {
					continue
				}
				sel, ok := unparen(call.Fun).(*ast.SelectorExpr)
				if !ok || identObj(info, sel.X) != sVar {
					continue
				}
				calls = append(calls, call)
			}
			if len(calls) != 1 || len(rs.Body.List) != 1 {
				return // not a plain forwarder
			}
			call := calls[0]
			callee := calleeFunc(info, call)
			if callee == nil {
				return
			}
			mname := fd.Name.Name
			if fwdPretend != "" && fwdPretendFor == fkey {
				mname = fwdPretend
			}
			same := methodByName(subRing, mname)
			nI++
			key := "FWD:" + fkey
			pos := c.Rel(call.Pos())
			if same != nil && callee.Name() != mname {
				out = append(out, violOb("FWD", key, pos, fmt.Sprintf("%s forwards each level to SubRing.%s although SubRing.%s exists: the ring-level operation computes a different function than the one it is named after", fkey, callee.Name(), fd.Name.Name)))
				return
			}
			// polynomial arguments (.Coeffs[i]) must come in parameter order
			var polyArgs []string
			for _, a := range call.Args {
				r := forwardedArg(info, a, params)
				if r.ok && strings.HasPrefix(r.proj, ".Coeffs[") {
					polyArgs = append(polyArgs, r.param)
				}
			}
			var polyParams []string
			for _, nm := range order {
				for o, n2 := range params {
					if n2 == nm {
						if nt := namedOf(o.Type()); nt != nil && nt.Obj().Name() == "Poly" {
							polyParams = append(polyParams, nm)
						}
					}
				}
			}
			if same != nil && strings.Join(polyArgs, ",") != strings.Join(polyParams, ",") {
				out = append(out, violOb("FWD", key, pos, fmt.Sprintf("%s passes the polynomials to SubRing.%s in the order (%s) but receives them as (%s)", fkey, callee.Name(), strings.Join(polyArgs, ","), strings.Join(polyParams, ","))))
				return
			}
			out = append(out, okOb("FWD", key, pos, fmt.Sprintf("forwards to SubRing.%s with operands in order", callee.Name()), same != nil))
			return
		}
		// (ii) ringqp.Ring -> ring.Ring on Q and P
		if qpPk != nil && pk == qpPk && named.Obj().Name() == "Ring" {
			// the forwarder spelled with a method expression handed to a helper that visits both halves:
			// r.applyTernary((*ring.Ring).Add, p1, p2, p3) — the operation named must be the same-named one and the
			// polynomials must be passed in parameter order; that the helper treats Q and P alike is the helper's business
			if len(fd.Body.List) == 1 && ringRing != nil {
				if es, ok := fd.Body.List[0].(*ast.ExprStmt); ok {
					if call, ok := es.X.(*ast.CallExpr); ok && calleeFunc(info, call) != nil && calleeFunc(info, call).Pkg() == pk.Types {
						var m *types.Func
						for _, a := range call.Args {
							if sel, ok := unparen(a).(*ast.SelectorExpr); ok {
								if f, ok := info.Uses[sel.Sel].(*types.Func); ok {
									if rn := recvNamedOfFunc(f); rn != nil && rn.Origin() == ringRing.Origin() {
										if tv, ok := info.Types[sel.X]; ok && tv.IsType() {
											m = f
										}
									}
								}
							}
						}
						if m != nil {
							nII++
							key := "FWD:" + fkey
							pos := c.Rel(call.Pos())
							if same := methodByName(ringRing, fd.Name.Name); same != nil && m.Name() != fd.Name.Name {
								out = append(out, violOb("FWD", key, pos, fmt.Sprintf("%s forwards to ring.Ring.%s although ring.Ring.%s exists", fkey, m.Name(), fd.Name.Name)))
								return
							}
							params, order := paramMap(info, fd)
							var polyArgs, polyParams []string
							for _, a := range call.Args {
								if r := forwardedArg(info, a, params); r.ok && r.proj == "" {
									if nt := namedOf(info.TypeOf(a)); nt != nil && nt.Obj().Name() == "Poly" {
										polyArgs = append(polyArgs, r.param)
									}
								}
							}
							for _, nm := range order {
								for o, n2 := range params {
									if n2 == nm {
										if nt := namedOf(o.Type()); nt != nil && nt.Obj().Name() == "Poly" {
											polyParams = append(polyParams, nm)
										}
									}
								}
							}
							if strings.Join(polyArgs, ",") != strings.Join(polyParams, ",") {
								out = append(out, violOb("FWD", key, pos, fmt.Sprintf("%s passes the polynomials on in the order (%s) but receives them as (%s)", fkey, strings.Join(polyArgs, ","), strings.Join(polyParams, ","))))
								return
							}
							out = append(out, okOb("FWD", key, pos, fmt.Sprintf("hands ring.Ring.%s and its operands in order to a helper over the Q and P halves", m.Name()), true))
							return
						}
					}
				}
			}
			params, _ := paramMap(info, fd)
			recv := recvObj(info, fd)
			type branch struct {
				which  string
				callee *types.Func
				args   []argRoot
				call   *ast.CallExpr
			}
			var brs []branch
			for _, st := range fd.Body.List {
				is, ok := st.(*ast.IfStmt)
				if !ok || len(is.Body.List) != 1 {
					continue
				}
				es, ok := is.Body.List[0].(*ast.ExprStmt)
				if !ok {
					continue
				}
				call, ok := es.X.(*ast.CallExpr)
				if !ok {
					continue
				}
				sel, ok := unparen(call.Fun).(*ast.SelectorExpr)
				if !ok {
					continue
				}
				inner, ok := unparen(sel.X).(*ast.SelectorExpr)
				if !ok || identObj(info, inner.X) != recv {
					continue
				}
				which := inner.Sel.Name
				if which != "RingQ" && which != "RingP" {
					continue
				}
				b := branch{which: which, callee: calleeFunc(info, call), call: call}
				for _, a := range call.Args {
					b.args = append(b.args, forwardedArg(info, a, params))
				}
				brs = append(brs, b)
			}
			if len(brs) != 2 || brs[0].which == brs[1].which {
				return
			}
			nII++
			key := "FWD:" + fkey
			q, p := brs[0], brs[1]
			if q.which != "RingQ" {
				q, p = p, q
			}
			pos := c.Rel(p.call.Pos())
			if q.callee == nil || p.callee == nil || q.callee.Name() != p.callee.Name() {
				out = append(out, violOb("FWD", key, pos, fmt.Sprintf("%s calls %s on the Q part but %s on the P part: the two halves of a QP polynomial go through different operations", fkey, nameOf(q.callee), nameOf(p.callee))))
				return
			}
			if same := methodByName(ringRing, fd.Name.Name); same != nil && q.callee.Name() != fd.Name.Name {
				out = append(out, violOb("FWD", key, pos, fmt.Sprintf("%s forwards to ring.Ring.%s although ring.Ring.%s exists", fkey, q.callee.Name(), fd.Name.Name)))
				return
			}
			if len(q.args) != len(p.args) {
				out = append(out, violOb("FWD", key, pos, fmt.Sprintf("%s: Q and P branches pass a different number of arguments", fkey)))
				return
			}
			for i := range q.args {
				qa, pa := q.args[i], p.args[i]
				if qa.ok != pa.ok || qa.param != pa.param {
					out = append(out, violOb("FWD", key, pos, fmt.Sprintf("%s: argument %d of the Q branch derives from parameter %q but that of the P branch from %q", fkey, i, qa.param, pa.param)))
					return
				}
				if !qa.ok {
					continue
				}
				// projections must be the Q / P twins of each other
				if !twinProj(qa.proj, pa.proj) {
					out = append(out, violOb("FWD", key, pos, fmt.Sprintf("%s: argument %d is projected as %q in the Q branch and %q in the P branch (expected the .Q/.P or [:n]/[n:] twins)", fkey, i, qa.param+qa.proj, pa.param+pa.proj)))
					return
				}
			}
			out = append(out, okOb("FWD", key, pos, fmt.Sprintf("Q and P branches both call ring.Ring.%s on twin projections", q.callee.Name()), true))
		}
	})
	c.Stats["fwd_ring_forwarders"] = nI
	c.Stats["fwd_ringqp_forwarders"] = nII
	return out
}

// fwdThroughHelper recognises `r.helper((*SubRing).M, a, b, c)` as the whole body of a ring.Ring method, where helper
// is a ring.Ring method whose last statement is `for i, s := range r.SubRings[…] { op(s, x.Coeffs[i], y.Coeffs[i], …) }`
// with op its function parameter. It returns SubRing.M and the caller's polynomial arguments in the order in which the
// helper hands them to op.
func fwdThroughHelper(c *core.Ctx, pk *packages.Package, fd *ast.FuncDecl, subRing, ringRing *types.Named) (*types.Func, []string, string, bool) {
	info := pk.TypesInfo
	if subRing == nil || ringRing == nil || len(fd.Body.List) != 1 {
		return nil, nil, "", false
	}
	es, ok := fd.Body.List[0].(*ast.ExprStmt)
	if !ok {
		return nil, nil, "", false
	}
	call, ok := es.X.(*ast.CallExpr)
	if !ok || len(call.Args) < 2 {
		return nil, nil, "", false
	}
	helper := calleeFunc(info, call)
	if helper == nil {
		return nil, nil, "", false
	}
	if rn := recvNamedOfFunc(helper); rn == nil || rn.Origin() != ringRing.Origin() {
		return nil, nil, "", false
	}
	// the method expression
	opIdx := -1
	var m *types.Func
	for i, a := range call.Args {
		if sel, ok := unparen(a).(*ast.SelectorExpr); ok {
			if f, ok := info.Uses[sel.Sel].(*types.Func); ok {
				if rn := recvNamedOfFunc(f); rn != nil && rn.Origin() == subRing.Origin() {
					if tv, ok := info.Types[sel.X]; ok && tv.IsType() {
						opIdx, m = i, f
					}
				}
			}
		}
	}
	if m == nil {
		return nil, nil, "", false
	}
	opI, order, ok := fwdHelperOrder(info, helper, 0)
	if !ok || opI != opIdx {
		return nil, nil, "", false
	}
	var polyArgs []string
	cparams, _ := paramMap(info, fd)
	for _, k := range order {
		if k < 0 || k >= len(call.Args) {
			return nil, nil, "", false
		}
		cr := forwardedArg(info, call.Args[k], cparams)
		if !cr.ok || cr.proj != "" {
			return nil, nil, "", false
		}
		polyArgs = append(polyArgs, cr.param)
	}
	return m, polyArgs, c.Rel(call.Pos()), true
}

// fwdHelperOrder describes a per-level helper: which of its parameters is the operation, and which parameters (by
// index) it hands to the operation as the slices of level i, in order. The helper either owns the loop
// (`for i, s := range … { op(s, p1.Coeffs[i], p2[i], …) }` as its last statement) or hands everything on to another
// helper (`applyVec(r.activeSubRings(), op, p1.Coeffs, p2.Coeffs)`), followed up to three deep.
func fwdHelperOrder(info *types.Info, helper *types.Func, depth int) (int, []int, bool) {
	hdecl := fnDecls[funcOrigin(helper)]
	if hdecl == nil || hdecl.Body == nil || len(hdecl.Body.List) == 0 || depth > 3 {
		return 0, nil, false
	}
	hparams, horder := paramMap(info, hdecl)
	last := hdecl.Body.List[len(hdecl.Body.List)-1]
	if rs, ok := last.(*ast.RangeStmt); ok {
		if len(rs.Body.List) != 1 || rs.Value == nil || rs.Key == nil {
			return 0, nil, false
		}
		sVar := identObj(info, rs.Value)
		iVar := identObj(info, rs.Key)
		hes, ok := rs.Body.List[0].(*ast.ExprStmt)
		if !ok || sVar == nil || iVar == nil {
			return 0, nil, false
		}
		hcall, ok := hes.X.(*ast.CallExpr)
		if !ok || len(hcall.Args) < 2 {
			return 0, nil, false
		}
		opId, ok := unparen(hcall.Fun).(*ast.Ident)
		if !ok {
			return 0, nil, false
		}
		opI := horderIndex(horder, hparams[info.Uses[opId]])
		if opI < 0 || identObj(info, hcall.Args[0]) != sVar {
			return 0, nil, false
		}
		idx := "[" + iVar.Name() + "]"
		var order []int
		for _, a := range hcall.Args[1:] {
			r := forwardedArg(info, a, hparams)
			if !r.ok {
				// a per-level scalar computed from the loop variables: not a polynomial operand
				continue
			}
			if r.proj == ".Coeffs"+idx || r.proj == idx {
				order = append(order, horderIndex(horder, r.param))
			}
		}
		return opI, order, len(order) > 0
	}
	if len(hdecl.Body.List) != 1 {
		return 0, nil, false
	}
	es, ok := last.(*ast.ExprStmt)
	if !ok {
		return 0, nil, false
	}
	call, ok := es.X.(*ast.CallExpr)
	if !ok {
		return 0, nil, false
	}
	inner := calleeFunc(info, call)
	if inner == nil {
		return 0, nil, false
	}
	iop, iorder, ok := fwdHelperOrder(info, inner, depth+1)
	if !ok || iop >= len(call.Args) {
		return 0, nil, false
	}
	opId, ok := unparen(call.Args[iop]).(*ast.Ident)
	if !ok {
		return 0, nil, false
	}
	opI := horderIndex(horder, hparams[info.Uses[opId]])
	if opI < 0 {
		return 0, nil, false
	}
	var order []int
	for _, k := range iorder {
		if k < 0 || k >= len(call.Args) {
			return 0, nil, false
		}
		r := forwardedArg(info, call.Args[k], hparams)
		if !r.ok || (r.proj != "" && r.proj != ".Coeffs") {
			return 0, nil, false
		}
		order = append(order, horderIndex(horder, r.param))
	}
	return opI, order, true
}

func horderIndex(order []string, name string) int {
	if name == "" {
		return -1
	}
	for i, n := range order {
		if n == name {
			return i
		}
	}
	return -1
}

func recvNamedOfFunc(f *types.Func) *types.Named {
	sig, _ := f.Type().(*types.Signature)
	if sig == nil || sig.Recv() == nil {
		return nil
	}
	return namedOf(sig.Recv().Type())
}

func nameOf(f *types.Func) string {
	if f == nil {
		return "?"
	}
	return f.Name()
}

// twinProj accepts (".Q", ".P"), ("", ""), ("[:n]", "[n:]") and equal projections for scalars.
func twinProj(q, p string) bool {
	if q == p {
		// identical projection is fine only when it does not select a half
		return !strings.Contains(q, ".Q") && !strings.Contains(q, ".P")
	}
	if strings.Replace(q, ".Q", ".P", 1) == p && strings.Contains(q, ".Q") {
		return true
	}
	// s[:qlen] vs s[qlen:]
	if strings.HasPrefix(q, "[:") && strings.HasPrefix(p, "[") && strings.HasSuffix(p, ":]") {
		return strings.TrimSuffix(strings.TrimPrefix(q, "[:"), "]") == strings.TrimSuffix(strings.TrimPrefix(p, "["), ":]")
	}
	return false
}

func init() {
	core.Register(&core.Rule{Name: "FWD", Props: []string{"C01"},
		Doc: "every ring.Ring method that is a per-level loop over one SubRing method forwards to the same-named SubRing method with polynomial operands in parameter order; every ringqp.Ring method calls the same ring.Ring method on the .Q and .P projections of the same parameters",
		Run: func(c *core.Ctx) []ob {
			out := scanFwd(c)
			// counterfactual control: pretend ring.(Ring).Sub were named Add; the rule must object
			fwdPretend, fwdPretendFor = "Add", "ring.(Ring).Sub"
			ctl := scanFwd(c)
			fwdPretend, fwdPretendFor = "", ""
			fired := false
			for _, o := range ctl {
				if o.Status == core.Violation && o.Key == "FWD:ring.(Ring).Sub" {
					fired = true
				}
			}
			if fired {
				out = append(out, okOb("FWD", "FWD:control", "", "counterfactual control: treating Ring.Sub as if it were named Add makes the rule report it", false))
			} else {
				out = append(out, incOb("FWD", "FWD:control", "", "counterfactual control failed: the recogniser no longer objects when Ring.Sub is treated as Add"))
			}
			out = append(out, core.Floor("FWD", nil, "ring.Ring forwarders", c.Stats["fwd_ring_forwarders"], 25)...)
			out = append(out, core.Floor("FWD", nil, "ringqp.Ring forwarders", c.Stats["fwd_ringqp_forwarders"], 15)...)
			return out
		}})
}
