package rules

import (
	"fmt"
	"go/ast"
	"go/token"
	"go/types"
	"reflect"
	"sort"
	"strings"

	"golang.org/x/tools/go/packages"

	"lvcheck/internal/core"
)

// JSONAUX — a hand-written UnmarshalJSON that decodes through an auxiliary struct restores every field the default
// encoder writes.
//
// `rlwe.ParametersLiteral` is written by the default JSON encoder (every exported field) but read by a custom
// `UnmarshalJSON` that decodes into a local struct and copies the fields over one by one. A field of the type that the
// local struct does not have is dropped on the way back (LogNthRoot: the decoded literal generated other primes), and
// one that is not assigned keeps what the receiver held before.
//
// Rule: for every `func (p *T) UnmarshalJSON` on a struct type T whose body hands a local struct to json.Unmarshal,
// every exported field F of T that the encoder writes (no `json:"-"` tag; T without a custom MarshalJSON) (a) has a
// field of the same JSON name in the local struct (directly or through an embedded struct) and (b) is assigned
// through the receiver in the body (p.F = ..., a multi-assignment, or `*p = T{...}`), unless the local struct embeds a
// pointer view of the receiver itself (then the decoder fills the remaining fields in place).
//
// JSONIFACE — a struct that is decoded by encoding/json without a custom UnmarshalJSON has no exported field of a
// non-empty interface type (encoding/json cannot decode an object into it: the bytes MarshalBinary wrote cannot be read
// back as soon as the field is set).

func jsonFieldName(f *types.Var, tag string) (string, bool) {
	t := reflect.StructTag(tag).Get("json")
	if t == "-" {
		return "", false
	}
	name := f.Name()
	if i := strings.Index(t, ","); i >= 0 {
		if t[:i] != "" {
			name = t[:i]
		}
	} else if t != "" {
		name = t
	}
	return strings.ToLower(name), true
}

// jsonFields: lower-cased JSON names of the exported fields of st (embedded structs flattened).
func jsonFields(st *types.Struct, seen map[*types.Struct]bool) map[string]bool {
	res := map[string]bool{}
	if st == nil || seen[st] {
		return res
	}
	seen[st] = true
	for i := 0; i < st.NumFields(); i++ {
		f := st.Field(i)
		if f.Embedded() {
			if es := structOf(f.Type()); es != nil {
				if t := reflect.StructTag(st.Tag(i)).Get("json"); t == "" {
					for k := range jsonFields(es, seen) {
						res[k] = true
					}
					continue
				}
			}
		}
		if !f.Exported() {
			continue
		}
		if n, ok := jsonFieldName(f, st.Tag(i)); ok {
			res[n] = true
		}
	}
	return res
}

func isJSONUnmarshal(info *types.Info, call *ast.CallExpr) bool {
	fn := calleeFunc(info, call)
	return fn != nil && fn.Pkg() != nil && fn.Pkg().Path() == "encoding/json" && fn.Name() == "Unmarshal"
}

func hasMethod(t types.Type, name string) bool {
	for _, tt := range []types.Type{t, types.NewPointer(t)} {
		if o, _, _ := types.LookupFieldOrMethod(tt, true, nil, name); o != nil {
			if _, ok := o.(*types.Func); ok {
				return true
			}
		}
	}
	return false
}

func scanJSONAux(c *core.Ctx) []ob {
	var out []ob
	n := 0
	c.FuncDecls(func(pk *packages.Package, file *ast.File, fd *ast.FuncDecl) {
		if fd.Body == nil || fd.Recv == nil || fd.Name.Name != "UnmarshalJSON" || fileIsTestSupport(c.Program, fd.Pos()) || inExamples(pk) {
			return
		}
		info := pk.TypesInfo
		if len(fd.Recv.List) == 0 || len(fd.Recv.List[0].Names) == 0 {
			return
		}
		recvObj := info.Defs[fd.Recv.List[0].Names[0]]
		if recvObj == nil {
			return
		}
		nt, _ := deref(recvObj.Type()).(*types.Named)
		if nt == nil {
			return
		}
		st, _ := nt.Underlying().(*types.Struct)
		if st == nil {
			return
		}
		// a custom MarshalJSON decides what is written: the pairing is then CODECSEQ's business
		if hasMethod(nt, "MarshalJSON") {
			return
		}
		fkey := core.FuncKey(pk, fd)
		// the auxiliary struct handed to json.Unmarshal
		var aux *types.Struct
		embedsRecv := false
		ast.Inspect(fd.Body, func(x ast.Node) bool {
			call, ok := x.(*ast.CallExpr)
			if !ok || !isJSONUnmarshal(info, call) || len(call.Args) != 2 {
				return true
			}
			t := info.TypeOf(call.Args[1])
			if s := structOf(t); s != nil && deref(t) != types.Type(nt) {
				aux = s
			}
			return true
		})
		if aux == nil {
			return
		}
		// an embedded pointer to (a method-less alias of) the receiver's type: the decoder fills the receiver in place
		for i := 0; i < aux.NumFields(); i++ {
			f := aux.Field(i)
			if f.Embedded() {
				if es := structOf(f.Type()); es != nil && types.Identical(es, st) {
					embedsRecv = true
				}
			}
		}
		auxNames := jsonFields(aux, map[*types.Struct]bool{})
		// fields assigned through the receiver
		assigned := map[string]bool{}
		whole := false
		ast.Inspect(fd.Body, func(x ast.Node) bool {
			as, ok := x.(*ast.AssignStmt)
			if !ok {
				return true
			}
			for _, l := range as.Lhs {
				l = unparen(l)
				if se, ok := l.(*ast.SelectorExpr); ok {
					if id, ok := unparen(se.X).(*ast.Ident); ok && info.Uses[id] == recvObj {
						assigned[se.Sel.Name] = true
					}
				}
				if star, ok := l.(*ast.StarExpr); ok {
					if id, ok := unparen(star.X).(*ast.Ident); ok && info.Uses[id] == recvObj {
						whole = true
					}
				}
			}
			return true
		})
		var missingAux, missingSet []string
		cnt := 0
		for i := 0; i < st.NumFields(); i++ {
			f := st.Field(i)
			if !f.Exported() || f.Embedded() {
				continue
			}
			name, ok := jsonFieldName(f, st.Tag(i))
			if !ok {
				continue
			}
			cnt++
			if !auxNames[name] {
				missingAux = append(missingAux, f.Name())
			} else if !assigned[f.Name()] && !whole && !embedsRecv {
				missingSet = append(missingSet, f.Name())
			}
		}
		n++
		sort.Strings(missingAux)
		sort.Strings(missingSet)
		key := "JSONAUX:" + fkey
		if len(missingAux) == 0 && len(missingSet) == 0 {
			out = append(out, okOb("JSONAUX", key, c.Rel(fd.Pos()), fmt.Sprintf("the auxiliary struct has, and the body restores, the %d exported fields the default encoder writes", cnt), true))
		} else {
			out = append(out, violOb("JSONAUX", key, c.Rel(fd.Pos()), fmt.Sprintf("%s decodes through an auxiliary struct: exported fields %v of %s are written by the default encoder but have no counterpart in the auxiliary struct (dropped when read back), fields %v are decoded but never assigned to the receiver", fkey, missingAux, nt.Obj().Name(), missingSet)))
		}
	})
	c.Stats["jsonaux_fns"] = n
	return out
}

func scanJSONIface(c *core.Ctx) []ob {
	var out []ob
	n := 0
	seen := map[*types.Named]bool{}
	c.FuncDecls(func(pk *packages.Package, file *ast.File, fd *ast.FuncDecl) {
		if fd.Body == nil || fileIsTestSupport(c.Program, fd.Pos()) || inExamples(pk) {
			return
		}
		info := pk.TypesInfo
		ast.Inspect(fd.Body, func(x ast.Node) bool {
			call, ok := x.(*ast.CallExpr)
			if !ok || !isJSONUnmarshal(info, call) || len(call.Args) != 2 {
				return true
			}
			nt, _ := deref(info.TypeOf(call.Args[1])).(*types.Named)
			if nt == nil || seen[nt] {
				return true
			}
			st, _ := nt.Underlying().(*types.Struct)
			if st == nil {
				return true
			}
			seen[nt] = true
			n++
			key := fmt.Sprintf("JSONIFACE:%s.%s", core.ShortPkg(nt.Obj().Pkg().Path()), nt.Obj().Name())
			if hasMethod(nt, "UnmarshalJSON") {
				out = append(out, okOb("JSONIFACE", key, c.Rel(call.Pos()), "the type has its own UnmarshalJSON", true))
				return true
			}
			var bad []string
			for i := 0; i < st.NumFields(); i++ {
				f := st.Field(i)
				if !f.Exported() {
					continue
				}
				if _, ok := jsonFieldName(f, st.Tag(i)); !ok {
					continue
				}
				if it, ok := f.Type().Underlying().(*types.Interface); ok && it.NumMethods() > 0 {
					bad = append(bad, f.Name())
				}
			}
			if len(bad) == 0 {
				out = append(out, okOb("JSONIFACE", key, c.Rel(call.Pos()), "no exported field of a non-empty interface type is left to the default decoder", true))
			} else {
				out = append(out, violOb("JSONIFACE", key, c.Rel(call.Pos()), fmt.Sprintf("%s is decoded by encoding/json without a custom UnmarshalJSON, yet its exported fields %v are of a non-empty interface type: the default encoder writes them as objects and the default decoder cannot read an object into an interface — the bytes written cannot be read back once the field is set", nt.Obj().Name(), bad)))
			}
			return true
		})
	})
	c.Stats["jsoniface_types"] = n
	return out
}

func init() {
	core.Register(&core.Rule{Name: "JSONAUX", Props: []string{"C08"},
		Doc: "a custom UnmarshalJSON of a struct type (without custom MarshalJSON) that decodes through an auxiliary local struct has, in that struct, a counterpart for every exported field the default encoder writes, and assigns each of them through the receiver",
		Run: func(c *core.Ctx) []ob {
			out := scanJSONAux(c)
			out = append(out, control(c, "JSONAUX", scanJSONAux, "(Lit).UnmarshalJSON")...)
			out = append(out, core.Floor("JSONAUX", nil, "UnmarshalJSON methods decoding through an auxiliary struct", c.Stats["jsonaux_fns"], 3)...)
			return out
		}})
	core.Register(&core.Rule{Name: "JSONIFACE", Props: []string{"C08"},
		Doc: "a struct type handed to json.Unmarshal that has no UnmarshalJSON of its own has no exported field of a non-empty interface type",
		Run: func(c *core.Ctx) []ob {
			out := scanJSONIface(c)
			out = append(out, control(c, "JSONIFACE", scanJSONIface, "lvfixture.Lit2")...)
			out = append(out, core.Floor("JSONIFACE", nil, "struct types handed to json.Unmarshal", c.Stats["jsoniface_types"], 4)...)
			return out
		}})
}

// SCALEMUT — the big.Float of a Scale that may have copies is not modified in place.
//
// `rlwe.Scale` embeds a big.Float by value and is copied by value everywhere (`pt.Scale = params.DefaultScale()`).
// Such copies share the mantissa words; an in-place big.Float operation on one of them (`s.Value.Set(x)`) rewrites
// the words of all the others while their exponents stay: decoding 5 into a copy of the default scale 3 turned the
// parameters' default scale into 2.5.
//
// Rule: a mutating big.Float method (Set*, Add, Sub, Mul, Quo, Sqrt, Neg, Abs, Copy, SetPrec, SetMode, GobDecode,
// UnmarshalText, Scan, Parse) whose receiver is `X.Value` with X of type rlwe.Scale is only applied when every
// definition of X that reaches the call (reaching definitions over go/cfg) is a fresh Scale — the result of a call
// (NewScale, Scale.Mul, Scale.Div, ...), not a copy of a field, of a parameter or of another variable, and X is not
// reached through a pointer, a field or a parameter.
var bigFloatMutators = map[string]bool{"Set": true, "SetPrec": true, "SetMode": true, "SetInt": true, "SetInt64": true, "SetUint64": true, "SetFloat64": true, "SetString": true, "SetRat": true, "SetInf": true, "SetMantExp": true,
	"Add": true, "Sub": true, "Mul": true, "Quo": true, "Sqrt": true, "Neg": true, "Abs": true, "Copy": true, "GobDecode": true, "UnmarshalText": true, "Scan": true, "Parse": true}

func isScaleType(t types.Type) bool {
	if t == nil {
		return false
	}
	nt, ok := deref(t).(*types.Named)
	return ok && nt.Obj().Name() == "Scale" && nt.Obj().Pkg() != nil && strings.HasSuffix(nt.Obj().Pkg().Path(), "core/rlwe")
}

func scanScaleMut(c *core.Ctx) []ob {
	var out []ob
	n := 0
	c.FuncDecls(func(pk *packages.Package, file *ast.File, fd *ast.FuncDecl) {
		if fd.Body == nil || fileIsTestSupport(c.Program, fd.Pos()) || inExamples(pk) {
			return
		}
		info := pk.TypesInfo
		fkey := core.FuncKey(pk, fd)
		var rd *reachInfo
		ast.Inspect(fd.Body, func(x ast.Node) bool {
			call, ok := x.(*ast.CallExpr)
			if !ok {
				return true
			}
			se, ok := unparen(call.Fun).(*ast.SelectorExpr)
			if !ok || !bigFloatMutators[se.Sel.Name] {
				return true
			}
			fn := calleeFunc(info, call)
			if fn == nil || fn.Pkg() == nil || fn.Pkg().Path() != "math/big" {
				return true
			}
			// receiver X.Value or (&X.Value)
			r := unparen(se.X)
			if u, ok := r.(*ast.UnaryExpr); ok {
				r = unparen(u.X)
			}
			vs, ok := r.(*ast.SelectorExpr)
			if !ok || vs.Sel.Name != "Value" || !isScaleType(info.TypeOf(vs.X)) {
				return true
			}
			n++
			key := fmt.Sprintf("SCALEMUT:%s#%s.%s", fkey, exprString(vs.X), se.Sel.Name)
			fresh := false
			why := "the Scale is reached through a field, a pointer or a parameter"
			if id, ok := unparen(vs.X).(*ast.Ident); ok {
				if v, ok := info.Uses[id].(*types.Var); ok && !v.IsField() && v.Pos() > fd.Pos() && v.Pos() < fd.End() && !isParamOfDecl(info, fd, v) {
					if rd == nil {
						rd = reachingDefs(info, fd)
					}
					rhs, initial, ok := rd.defsAt(call, v)
					if ok && !initial && len(rhs) > 0 {
						fresh = true
						for _, e := range rhs {
							if e == nil {
								fresh = false
								why = "a definition of " + v.Name() + " that reaches the call is not a single expression"
								break
							}
							if _, isCall := unparen(e).(*ast.CallExpr); !isCall {
								fresh = false
								why = fmt.Sprintf("the definition %s = %s that reaches the call is a copy (it shares its mantissa with the original)", v.Name(), exprString(e))
								break
							}
						}
					} else {
						why = "the zero value or an unknown definition of " + v.Name() + " reaches the call"
						if ok && initial && len(rhs) == 0 {
							fresh = true // `var s Scale`: a zero big.Float owns no words yet
						}
					}
				}
			}
			props := metaProps(fkey)
			props = append(props, "C08")
			if fresh {
				out = append(out, withProps(okOb("SCALEMUT", key, c.Rel(call.Pos()), "every definition that reaches the in-place operation is a freshly computed Scale", true), props...))
			} else {
				out = append(out, withProps(violOb("SCALEMUT", key, c.Rel(call.Pos()), fmt.Sprintf("%s applies the in-place big.Float operation %s to %s.Value: %s; Scales are copied by value and copies share their mantissa words, so the operation rewrites the value of every copy", fkey, se.Sel.Name, exprString(vs.X), why)), props...))
			}
			return true
		})
	})
	c.Stats["scalemut_sites"] = n
	if !c.IsFixture {
		out = append(out, withProps(okOb("SCALEMUT", "SCALEMUT:summary", "", fmt.Sprintf("%d in-place big.Float operations on the Value of a Scale examined", n), true), "C05", "C06", "C08"))
	}
	return out
}

func isParamOfDecl(info *types.Info, fd *ast.FuncDecl, v *types.Var) bool {
	fn, _ := info.Defs[fd.Name].(*types.Func)
	return isParamOf(fn, v)
}

func init() {
	core.Register(&core.Rule{Name: "SCALEMUT", Props: []string{"C05", "C06", "C08", "C04", "C13", "C18"},
		Doc: "a mutating big.Float method is applied to the Value of an rlwe.Scale only when every reaching definition of that Scale is the result of a call (a freshly computed Scale): Scales are copied by value and copies share their mantissa",
		Run: func(c *core.Ctx) []ob {
			out := scanScaleMut(c)
			for _, o := range control(c, "SCALEMUT", scanScaleMut, "(scaleBox).Load") {
				out = append(out, withProps(o, "C05", "C06", "C08"))
			}
			return out
		}})
}

// DECIDX — a decoder does not index what it has just decoded before checking that it is there.
//
// `EvaluationKey.ReadFrom` called `evk.IsCompressed()` (→ `len(ct.Value[0][0])`) right after decoding the gadget
// matrix, `Plaintext.ReadFrom` took `pt.Element.Value[0]`: a stream whose length word is zero decodes to an empty
// matrix/vector and the decoder panicked with index out of range where it promises an error.
//
// Rule: in every method ReadFrom / UnmarshalBinary / UnmarshalJSON, an index expression with a constant index on a
// slice rooted at the receiver — written in the method itself or in a method of the receiver (one call level, e.g.
// Degree(), IsCompressed()) that the decoder calls — is preceded (source order) by an `if` that tests `len(...)` of a
// receiver-rooted slice and leaves with an error.
func scanDecIdx(c *core.Ctx) []ob {
	var out []ob
	n := 0
	// receiver-rooted constant index expressions of a method (arrays excluded)
	type idxSite struct {
		node ast.Node
		text string
	}
	constIdx := func(info *types.Info, fd *ast.FuncDecl) []idxSite {
		var res []idxSite
		if fd.Recv == nil || len(fd.Recv.List) == 0 || len(fd.Recv.List[0].Names) == 0 || fd.Body == nil {
			return nil
		}
		recv := info.Defs[fd.Recv.List[0].Names[0]]
		if recv == nil {
			return nil
		}
		ast.Inspect(fd.Body, func(x ast.Node) bool {
			ie, ok := x.(*ast.IndexExpr)
			if !ok {
				return true
			}
			if _, isSlice := info.TypeOf(ie.X).Underlying().(*types.Slice); !isSlice {
				return true
			}
			tv, ok := info.Types[ie.Index]
			if !ok || tv.Value == nil {
				return true
			}
			if id := rootIdent(ie.X); id != nil && info.Uses[id] == recv {
				res = append(res, idxSite{ie, exprString(ie)})
			}
			return true
		})
		return res
	}
	// index of methods by *types.Func
	type mdecl struct {
		pk *packages.Package
		fd *ast.FuncDecl
	}
	methods := map[*types.Func]mdecl{}
	c.FuncDecls(func(pk *packages.Package, file *ast.File, fd *ast.FuncDecl) {
		if fd.Recv != nil && fd.Body != nil {
			if fn, ok := pk.TypesInfo.Defs[fd.Name].(*types.Func); ok {
				methods[fn] = mdecl{pk, fd}
			}
		}
	})
	c.FuncDecls(func(pk *packages.Package, file *ast.File, fd *ast.FuncDecl) {
		if fd.Body == nil || fd.Recv == nil || fileIsTestSupport(c.Program, fd.Pos()) || inExamples(pk) {
			return
		}
		if fd.Name.Name != "ReadFrom" && fd.Name.Name != "UnmarshalBinary" && fd.Name.Name != "UnmarshalJSON" {
			return
		}
		if len(fd.Recv.List) == 0 || len(fd.Recv.List[0].Names) == 0 {
			return
		}
		info := pk.TypesInfo
		recv := info.Defs[fd.Recv.List[0].Names[0]]
		if recv == nil {
			return
		}
		n++
		fkey := core.FuncKey(pk, fd)
		// positions of the length guards
		var guards []ast.Node
		ast.Inspect(fd.Body, func(x ast.Node) bool {
			is, ok := x.(*ast.IfStmt)
			if !ok || !leavesWithError(is.Body) {
				return true
			}
			ast.Inspect(is.Cond, func(y ast.Node) bool {
				if call, ok := y.(*ast.CallExpr); ok {
					if id, ok := unparen(call.Fun).(*ast.Ident); ok && id.Name == "len" && len(call.Args) == 1 {
						if r := rootIdent(call.Args[0]); r != nil {
							if info.Uses[r] == recv {
								guards = append(guards, is)
							} else if d := singleDef(info, fd, info.Uses[r]); d != nil {
								// a local view of the receiver's slice (`if ct := evk.Value; len(ct) == 0 …`)
								if rr := rootIdent(d); rr != nil && info.Uses[rr] == recv {
									guards = append(guards, is)
								}
							}
						}
					}
				}
				return true
			})
			return true
		})
		guardedAt := func(at ast.Node) bool {
			for _, g := range guards {
				if g.End() <= at.Pos() {
					return true
				}
			}
			return false
		}
		type site struct {
			at   ast.Node
			text string
		}
		var sites []site
		for _, s := range constIdx(info, fd) {
			sites = append(sites, site{s.node, s.text})
		}
		ast.Inspect(fd.Body, func(x ast.Node) bool {
			call, ok := x.(*ast.CallExpr)
			if !ok {
				return true
			}
			se, ok := unparen(call.Fun).(*ast.SelectorExpr)
			if !ok {
				return true
			}
			if r := rootIdent(se.X); r == nil || info.Uses[r] != recv {
				return true
			}
			fn := calleeFunc(info, call)
			if fn == nil {
				return true
			}
			fn = funcOrigin(fn)
			md, ok := methods[fn]
			if !ok || md.fd.Name.Name == "ReadFrom" || md.fd.Name.Name == "UnmarshalBinary" || md.fd.Name.Name == "UnmarshalJSON" {
				return true
			}
			// one more level: Degree() behind IsCompressed()
			collect := func(m mdecl) []idxSite {
				res := constIdx(m.pk.TypesInfo, m.fd)
				ast.Inspect(m.fd.Body, func(y ast.Node) bool {
					if c2, ok := y.(*ast.CallExpr); ok {
						if f2 := calleeFunc(m.pk.TypesInfo, c2); f2 != nil {
							if m2, ok := methods[funcOrigin(f2)]; ok && m2.fd != m.fd && len(c2.Args) == 0 {
								res = append(res, constIdx(m2.pk.TypesInfo, m2.fd)...)
							}
						}
					}
					return true
				})
				return res
			}
			if idx := collect(md); len(idx) > 0 {
				sites = append(sites, site{call, exprString(call) + " (indexes " + idx[0].text + ")"})
			}
			return true
		})
		if len(sites) == 0 {
			return
		}
		seenKey := map[string]bool{}
		for _, s := range sites {
			inGuard := false
			for _, g := range guards {
				if is := g.(*ast.IfStmt); s.at.Pos() >= is.Cond.Pos() && s.at.End() <= is.Cond.End() {
					inGuard = true // part of the short-circuit length test itself
				}
			}
			key := fmt.Sprintf("DECIDX:%s#%s", fkey, s.text)
			if inGuard || seenKey[key] {
				continue
			}
			seenKey[key] = true
			if guardedAt(s.at) {
				out = append(out, okOb("DECIDX", key, c.Rel(s.at.Pos()), "preceded by a length test that leaves with an error", true))
			} else {
				out = append(out, violOb("DECIDX", key, c.Rel(s.at.Pos()), fmt.Sprintf("%s evaluates %s on what it has just decoded without a preceding test of its length: a stream with a zero length word makes the decoder panic (index out of range) instead of returning an error", fkey, s.text)))
			}
		}
	})
	c.Stats["decidx_decoders"] = n
	return out
}

func init() {
	core.Register(&core.Rule{Name: "DECIDX", Props: []string{"C08"},
		Doc: "in ReadFrom/UnmarshalBinary/UnmarshalJSON, a constant-index expression on a receiver-rooted slice (in the decoder or in a receiver method it calls, two levels) is preceded by a length test that leaves with an error",
		Run: func(c *core.Ctx) []ob {
			out := scanDecIdx(c)
			out = append(out, control(c, "DECIDX", scanDecIdx, "(vecBox).ReadFrom")...)
			out = append(out, core.Floor("DECIDX", nil, "decoders", c.Stats["decidx_decoders"], 60)...)
			return out
		}})
}

// ERRSTORE — the result of a failed step is not left in the object.
//
// `if p.Value[n], err = eval.MulRelinNew(a, b); err != nil { return err }` stores whatever the failed call returned
// into the power basis before looking at the error: the basis then holds an X^n that later calls take for an already
// generated power (silently wrong results from then on).
//
// Rule: in a method, an assignment that stores the first result of a call into an element of a map rooted at the
// receiver (where the presence of the key is what later calls test) together with the error of the same call, in the
// init of an `if` whose body leaves with that error, is accompanied in the same function by a `delete` on the same
// container or an assignment to the same element inside an error branch / a deferred function. Constructors (functions
// that return the object they fill) and branches that panic are exempt.
func scanErrStore(c *core.Ctx) []ob {
	var out []ob
	n := 0
	c.FuncDecls(func(pk *packages.Package, file *ast.File, fd *ast.FuncDecl) {
		if fd.Body == nil || fd.Recv == nil || fileIsTestSupport(c.Program, fd.Pos()) || inExamples(pk) {
			return
		}
		if len(fd.Recv.List) == 0 || len(fd.Recv.List[0].Names) == 0 {
			return
		}
		info := pk.TypesInfo
		recv := info.Defs[fd.Recv.List[0].Names[0]]
		if recv == nil {
			return
		}
		fkey := core.FuncKey(pk, fd)
		// cleanup sites: delete(container, ...) anywhere, by container text
		cleaned := map[string]bool{}
		ast.Inspect(fd.Body, func(x ast.Node) bool {
			if call, ok := x.(*ast.CallExpr); ok {
				if id, ok := unparen(call.Fun).(*ast.Ident); ok && id.Name == "delete" && len(call.Args) == 2 {
					cleaned[exprString(call.Args[0])] = true
				}
			}
			return true
		})
		ast.Inspect(fd.Body, func(x ast.Node) bool {
			is, ok := x.(*ast.IfStmt)
			if !ok || is.Init == nil {
				return true
			}
			as, ok := is.Init.(*ast.AssignStmt)
			if !ok || len(as.Lhs) != 2 || len(as.Rhs) != 1 {
				return true
			}
			if _, isCall := unparen(as.Rhs[0]).(*ast.CallExpr); !isCall {
				return true
			}
			if t := info.TypeOf(as.Lhs[1]); t == nil || !isErrorType(t) {
				return true
			}
			lhs := unparen(as.Lhs[0])
			var container string
			switch l := lhs.(type) {
			case *ast.IndexExpr:
				if r := rootIdent(l.X); r == nil || info.Uses[r] != recv {
					return true
				}
				// a map of the object: presence of the key is what later calls test
				if _, isMap := info.TypeOf(l.X).Underlying().(*types.Map); !isMap {
					return true
				}
				container = exprString(l.X)
			default:
				return true
			}
			// the body leaves with an error (not a panic)
			if !leavesWithError(is.Body) {
				return true
			}
			panics := false
			for _, st := range is.Body.List {
				if es, ok := st.(*ast.ExprStmt); ok {
					if call, ok := es.X.(*ast.CallExpr); ok {
						if id, ok := unparen(call.Fun).(*ast.Ident); ok && id.Name == "panic" {
							panics = true
						}
					}
				}
			}
			if panics {
				return true
			}
			n++
			key := fmt.Sprintf("ERRSTORE:%s#%s", fkey, exprString(lhs))
			// re-assignment of the same element inside the error branch
			reset := false
			ast.Inspect(is.Body, func(y ast.Node) bool {
				if a2, ok := y.(*ast.AssignStmt); ok {
					for _, l := range a2.Lhs {
						if exprString(l) == exprString(lhs) {
							reset = true
						}
					}
				}
				return true
			})
			if cleaned[container] || reset {
				out = append(out, okOb("ERRSTORE", key, c.Rel(as.Pos()), "the element is removed or reset when the step fails", true))
			} else {
				out = append(out, violOb("ERRSTORE", key, c.Rel(as.Pos()), fmt.Sprintf("%s stores the result of a call into %s together with its error and returns the error: what the failed call returned stays in the object and is taken for a valid element by later calls", fkey, exprString(lhs))))
			}
			return true
		})
	})
	c.Stats["errstore_sites"] = n
	return out
}

func init() {
	core.Register(&core.Rule{Name: "ERRSTORE", Props: []string{"C13", "C10"},
		Doc: "a method that stores the result of a call into an element of a receiver-rooted map in the init of `if x, err = f(); err != nil { return err }` removes or resets that element when the step fails (delete on the container in the function, incl. deferred, or reassignment in the error branch)",
		Run: func(c *core.Ctx) []ob {
			out := scanErrStore(c)
			out = append(out, control(c, "ERRSTORE", scanErrStore, "(powCache).Gen")...)
			return out
		}})
}

// SUBCOPY — a ShallowCopy does not share a component that has a ShallowCopy of its own.
//
// A type offers ShallowCopy because it owns scratch memory that two goroutines must not share. A ShallowCopy of a
// compound object that copies such a component by reference (`basisExtenderQ1toQ2: eval.basisExtenderQ1toQ2`) hands
// both copies the same scratch buffers: "shallow copies can be used concurrently" no longer holds.
//
// Rule: in every method named ShallowCopy, no field of the receiver whose type (or the type it points to) has a
// ShallowCopy method is handed to the copy as it is (`F: recv.F`, or `c.F = recv.F`); it goes through
// `recv.F.ShallowCopy()` or is rebuilt. Whole-struct copies (`*eval`, `c := *recv`) are followed by such a rebuild for
// each of these fields.
func scanSubCopy(c *core.Ctx) []ob {
	var out []ob
	n := 0
	// a ShallowCopy that returns its receiver says the object is read-only: sharing it is what it asks for
	identityCopiers := map[*types.Func]bool{}
	c.FuncDecls(func(pk *packages.Package, file *ast.File, fd *ast.FuncDecl) {
		if fd.Body == nil || fd.Recv == nil || fd.Name.Name != "ShallowCopy" || len(fd.Body.List) != 1 || len(fd.Recv.List) == 0 || len(fd.Recv.List[0].Names) == 0 {
			return
		}
		ret, ok := fd.Body.List[0].(*ast.ReturnStmt)
		if !ok || len(ret.Results) != 1 {
			return
		}
		if id, ok := unparen(ret.Results[0]).(*ast.Ident); ok && pk.TypesInfo.Uses[id] == pk.TypesInfo.Defs[fd.Recv.List[0].Names[0]] {
			if fn, ok := pk.TypesInfo.Defs[fd.Name].(*types.Func); ok {
				identityCopiers[fn] = true
			}
		}
	})
	c.FuncDecls(func(pk *packages.Package, file *ast.File, fd *ast.FuncDecl) {
		if fd.Body == nil || fd.Recv == nil || fd.Name.Name != "ShallowCopy" || fileIsTestSupport(c.Program, fd.Pos()) || inExamples(pk) {
			return
		}
		if len(fd.Recv.List) == 0 || len(fd.Recv.List[0].Names) == 0 {
			return
		}
		info := pk.TypesInfo
		recv := info.Defs[fd.Recv.List[0].Names[0]]
		if recv == nil {
			return
		}
		st := structOf(recv.Type())
		if st == nil {
			return
		}
		fkey := core.FuncKey(pk, fd)
		hasSC := func(t types.Type) bool {
			for _, tt := range []types.Type{deref(t), types.NewPointer(deref(t))} {
				if o, _, _ := types.LookupFieldOrMethod(tt, true, nil, "ShallowCopy"); o != nil {
					if f, ok := o.(*types.Func); ok {
						return !identityCopiers[funcOrigin(f)]
					}
				}
			}
			return false
		}
		// fields of the receiver with a ShallowCopy of their own (interfaces excluded: the dynamic type decides)
		var comp []string
		for i := 0; i < st.NumFields(); i++ {
			f := st.Field(i)
			if _, isIface := f.Type().Underlying().(*types.Interface); isIface {
				continue
			}
			if hasSC(f.Type()) {
				comp = append(comp, f.Name())
			}
		}
		if len(comp) == 0 {
			return
		}
		isRecvField := func(e ast.Expr, name string) bool {
			e = unparen(e)
			if u, ok := e.(*ast.UnaryExpr); ok && u.Op == token.AND {
				e = unparen(u.X)
			}
			if s, ok := e.(*ast.StarExpr); ok {
				e = unparen(s.X)
			}
			se, ok := e.(*ast.SelectorExpr)
			if !ok || se.Sel.Name != name {
				return false
			}
			id, ok := unparen(se.X).(*ast.Ident)
			return ok && info.Uses[id] == recv
		}
		for _, name := range comp {
			n++
			key := fmt.Sprintf("SUBCOPY:%s#%s", fkey, name)
			shared, rebuilt := token.NoPos, false
			wholeCopy := false
			ast.Inspect(fd.Body, func(x ast.Node) bool {
				switch v := x.(type) {
				case *ast.KeyValueExpr:
					if id, ok := v.Key.(*ast.Ident); ok && id.Name == name {
						if isRecvField(v.Value, name) {
							shared = v.Pos()
						} else {
							rebuilt = true
						}
					}
				case *ast.AssignStmt:
					for i, l := range v.Lhs {
						if se, ok := unparen(l).(*ast.SelectorExpr); ok && se.Sel.Name == name && i < len(v.Rhs) {
							if isRecvField(v.Rhs[i], name) {
								shared = v.Pos()
							} else {
								rebuilt = true
							}
						}
					}
					for _, r := range v.Rhs {
						if s, ok := unparen(r).(*ast.StarExpr); ok {
							if id, ok := unparen(s.X).(*ast.Ident); ok && info.Uses[id] == recv {
								wholeCopy = true
							}
						}
						if id, ok := unparen(r).(*ast.Ident); ok && info.Uses[id] == recv {
							wholeCopy = true
						}
					}
				case *ast.CompositeLit:
					// unkeyed or embedded whole copy: T{*recv...}
					for _, el := range v.Elts {
						if s, ok := unparen(el).(*ast.StarExpr); ok {
							if id, ok := unparen(s.X).(*ast.Ident); ok && info.Uses[id] == recv {
								wholeCopy = true
							}
						}
					}
				}
				return true
			})
			props := []string{"C10"}
			switch {
			case shared != token.NoPos && !rebuilt:
				out = append(out, withProps(violOb("SUBCOPY", key, c.Rel(shared), fmt.Sprintf("%s hands the component %s (whose type has a ShallowCopy of its own, i.e. owns scratch memory) to the copy by reference: two shallow copies used concurrently share its buffers", fkey, name)), props...))
			case wholeCopy && !rebuilt:
				out = append(out, withProps(violOb("SUBCOPY", key, c.Rel(fd.Pos()), fmt.Sprintf("%s copies the whole receiver and never rebuilds the component %s (whose type has a ShallowCopy of its own): the copies share its scratch memory", fkey, name)), props...))
			default:
				out = append(out, withProps(okOb("SUBCOPY", key, c.Rel(fd.Pos()), "the component is shallow-copied or rebuilt, not shared", true), props...))
			}
		}
	})
	c.Stats["subcopy_fields"] = n
	return out
}

func init() {
	core.Register(&core.Rule{Name: "SUBCOPY", Props: []string{"C10"},
		Doc: "in every ShallowCopy method, a field of the receiver whose (pointed-to) type has a ShallowCopy method of its own is not handed to the copy by reference: it goes through its ShallowCopy or is rebuilt",
		Run: func(c *core.Ctx) []ob {
			out := scanSubCopy(c)
			out = append(out, control(c, "SUBCOPY", scanSubCopy, "(outerEval).ShallowCopy")...)
			out = append(out, core.Floor("SUBCOPY", nil, "components with a ShallowCopy of their own", c.Stats["subcopy_fields"], 10)...)
			return out
		}})
}

// PARTIALFILL — a scratch vector of the object that is filled at indexes taken from data is reset first.
//
// `GetVectorCoefficient` hands out the evaluator's own `values` vector after writing the k-th coefficients at the
// slots listed in the mapping. Without the reset loop in front, slots that the current mapping does not mention keep
// the coefficient of the previous call (of another polynomial, or another k): the result depends on what the evaluator
// did before.
//
// Rule: in a method that views a slice field of its receiver (`v = recv.f`, or uses recv.f directly) and stores into
// it at an index that is the *value* variable of a range statement (an index read from data, not the position in v),
// there is also a loop over that same slice (`for j := range v`, or a counted loop to len(v)) whose body stores v[j]
// for its own loop variable — the reset of every element.
func scanPartialFill(c *core.Ctx) []ob {
	var out []ob
	n := 0
	c.FuncDecls(func(pk *packages.Package, file *ast.File, fd *ast.FuncDecl) {
		if fd.Body == nil || fd.Recv == nil || fileIsTestSupport(c.Program, fd.Pos()) || inExamples(pk) {
			return
		}
		if len(fd.Recv.List) == 0 || len(fd.Recv.List[0].Names) == 0 {
			return
		}
		info := pk.TypesInfo
		recv := info.Defs[fd.Recv.List[0].Names[0]]
		if recv == nil {
			return
		}
		// locals / named results that view a slice field of the receiver
		views := map[types.Object]string{}
		isRecvField := func(e ast.Expr) (string, bool) {
			se, ok := unparen(e).(*ast.SelectorExpr)
			if !ok {
				return "", false
			}
			id, ok := unparen(se.X).(*ast.Ident)
			if !ok || info.Uses[id] != recv {
				return "", false
			}
			if _, isSl := info.TypeOf(se).Underlying().(*types.Slice); !isSl {
				return "", false
			}
			return se.Sel.Name, true
		}
		ast.Inspect(fd.Body, func(x ast.Node) bool {
			if as, ok := x.(*ast.AssignStmt); ok && len(as.Lhs) == len(as.Rhs) {
				for i, l := range as.Lhs {
					if id, ok := l.(*ast.Ident); ok {
						if f, ok := isRecvField(as.Rhs[i]); ok {
							o := info.Defs[id]
							if o == nil {
								o = info.Uses[id]
							}
							if o != nil {
								views[o] = f
							}
						}
					}
				}
			}
			return true
		})
		fieldOf := func(e ast.Expr) (string, bool) {
			if id, ok := unparen(e).(*ast.Ident); ok {
				if f, ok := views[info.Uses[id]]; ok {
					return f, true
				}
			}
			return isRecvField(e)
		}
		// range value variables (indexes read from data)
		dataIdx := map[types.Object]bool{}
		ast.Inspect(fd.Body, func(x ast.Node) bool {
			if rs, ok := x.(*ast.RangeStmt); ok && rs.Value != nil {
				if id, ok := rs.Value.(*ast.Ident); ok {
					if o := info.Defs[id]; o != nil {
						if b, ok := o.Type().Underlying().(*types.Basic); ok && b.Info()&types.IsInteger != 0 {
							dataIdx[o] = true
						}
					}
				}
			}
			return true
		})
		sparse := map[string]ast.Node{}
		full := map[string]bool{}
		ast.Inspect(fd.Body, func(x ast.Node) bool {
			switch v := x.(type) {
			case *ast.AssignStmt:
				for _, l := range v.Lhs {
					ie, ok := unparen(l).(*ast.IndexExpr)
					if !ok {
						continue
					}
					f, ok := fieldOf(ie.X)
					if !ok {
						continue
					}
					if id, ok := unparen(ie.Index).(*ast.Ident); ok && dataIdx[info.Uses[id]] {
						if sparse[f] == nil {
							sparse[f] = v
						}
					}
				}
			case *ast.RangeStmt:
				f, ok := fieldOf(v.X)
				if !ok || v.Key == nil {
					return true
				}
				kid, ok := v.Key.(*ast.Ident)
				if !ok {
					return true
				}
				ko := info.Defs[kid]
				ast.Inspect(v.Body, func(y ast.Node) bool {
					if as, ok := y.(*ast.AssignStmt); ok {
						for _, l := range as.Lhs {
							if ie, ok := unparen(l).(*ast.IndexExpr); ok {
								if f2, ok := fieldOf(ie.X); ok && f2 == f {
									if id, ok := unparen(ie.Index).(*ast.Ident); ok && info.Uses[id] == ko {
										full[f] = true
									}
								}
							}
						}
					}
					return true
				})
			case *ast.ForStmt:
				// for j := 0; j < len(v); j++ { v[j] = … }
				if v.Cond == nil {
					return true
				}
				var f string
				okLen := false
				ast.Inspect(v.Cond, func(y ast.Node) bool {
					if call, ok := y.(*ast.CallExpr); ok {
						if id, ok := unparen(call.Fun).(*ast.Ident); ok && id.Name == "len" && len(call.Args) == 1 {
							if ff, ok := fieldOf(call.Args[0]); ok {
								f, okLen = ff, true
							}
						}
					}
					return true
				})
				if !okLen {
					return true
				}
				ast.Inspect(v.Body, func(y ast.Node) bool {
					if as, ok := y.(*ast.AssignStmt); ok {
						for _, l := range as.Lhs {
							if ie, ok := unparen(l).(*ast.IndexExpr); ok {
								if f2, ok := fieldOf(ie.X); ok && f2 == f {
									full[f] = true
								}
							}
						}
					}
					return true
				})
			}
			return true
		})
		fkey := core.FuncKey(pk, fd)
		for f, site := range sparse {
			n++
			key := fmt.Sprintf("PARTIALFILL:%s#%s", fkey, f)
			if full[f] {
				out = append(out, okOb("PARTIALFILL", key, c.Rel(site.Pos()), "every element of the scratch vector is reset by a loop over the vector itself", true))
			} else {
				out = append(out, violOb("PARTIALFILL", key, c.Rel(site.Pos()), fmt.Sprintf("%s stores into the receiver's vector %s at indexes read from data and has no loop that resets every element of it: the elements the current call does not mention keep what a previous call left there", fkey, f)))
			}
		}
	})
	c.Stats["partialfill_sites"] = n
	return out
}

func init() {
	core.Register(&core.Rule{Name: "PARTIALFILL", Props: []string{"C13", "C10", "C09"},
		Doc: "a method that stores into a slice field of its receiver (directly or through a local view) at an index that is the value variable of a range statement also has a loop over that same slice storing at its own loop variable (the reset of every element)",
		Run: func(c *core.Ctx) []ob {
			out := scanPartialFill(c)
			out = append(out, control(c, "PARTIALFILL", scanPartialFill, "(coefTable).Pick")...)
			return out
		}})
}

// PAIRSET — when the real parts of a vector of complex numbers are set on every path, so are the imaginary parts.
//
// The arbitrary-precision encoder keeps its scratch vector of `*bignum.Complex` ([2]*big.Float) between calls. An arm
// of the input type switch that stores `buff[i][0]` for a real-valued input and forgets `buff[i][1].SetFloat64(0)`
// encodes the imaginary parts of the previous call; the decoder that accumulated onto `values[i][1]` instead of setting
// it was the same defect (5.1).
//
// Rule: per unit (each arm of a type switch that is a direct statement of the function, else the whole body), with
// loops taken as executed and if/else arms intersected: for every vector X of complex pairs, component 0 of X's
// elements is set on all paths exactly when component 1 is (a store `X[i][k] = …`, an in-place big.Float method on
// `X[i][k]`, or an operation on the whole element `X[i].Set(…)`, `X[i] = …` sets both).
func scanPairSet(c *core.Ctx) []ob {
	var out []ob
	n := 0
	isPair := func(t types.Type) bool {
		if t == nil {
			return false
		}
		if a, ok := deref(t).Underlying().(*types.Array); ok && a.Len() == 2 {
			return strings.Contains(a.Elem().String(), "big.Float")
		}
		return false
	}
	c.FuncDecls(func(pk *packages.Package, file *ast.File, fd *ast.FuncDecl) {
		if fd.Body == nil || fileIsTestSupport(c.Program, fd.Pos()) || inExamples(pk) {
			return
		}
		info := pk.TypesInfo
		fkey := core.FuncKey(pk, fd)
		type set map[string]bool
		union := func(a, b set) set {
			r := set{}
			for k := range a {
				r[k] = true
			}
			for k := range b {
				r[k] = true
			}
			return r
		}
		inter := func(a, b set) set {
			r := set{}
			for k := range a {
				if b[k] {
					r[k] = true
				}
			}
			return r
		}
		// stores of one simple statement
		stmtSets := func(st ast.Node) set {
			r := set{}
			mark := func(e ast.Expr, whole bool) {
				e = unparen(e)
				if whole {
					if ie, ok := e.(*ast.IndexExpr); ok && isPair(info.TypeOf(ie)) {
						r[exprString(ie.X)+"#0"] = true
						r[exprString(ie.X)+"#1"] = true
					}
					return
				}
				if ie, ok := e.(*ast.IndexExpr); ok {
					if inner, ok := unparen(ie.X).(*ast.IndexExpr); ok && isPair(info.TypeOf(inner)) {
						if tv, ok := info.Types[ie.Index]; ok && tv.Value != nil {
							r[exprString(inner.X)+"#"+tv.Value.ExactString()] = true
						}
					}
				}
			}
			ast.Inspect(st, func(y ast.Node) bool {
				switch v := y.(type) {
				case *ast.FuncLit:
					return false
				case *ast.AssignStmt:
					for _, l := range v.Lhs {
						mark(l, false)
						mark(l, true)
					}
				case *ast.CallExpr:
					if se, ok := unparen(v.Fun).(*ast.SelectorExpr); ok && bigFloatMutators[se.Sel.Name] {
						// `x.Mul(x, h)` updates x from its own value: not a set (the other component is scaled or not
						// on the merits of the computation, nothing stale is involved)
						self := false
						for _, a := range v.Args {
							if exprString(a) == exprString(se.X) {
								self = true
							}
						}
						if !self {
							mark(se.X, false)
							mark(se.X, true)
						}
					}
				}
				return true
			})
			return r
		}
		var all func(list []ast.Stmt) set
		all = func(list []ast.Stmt) set {
			r := set{}
			for _, st := range list {
				switch v := st.(type) {
				case *ast.IfStmt:
					a := all(v.Body.List)
					var b set
					switch e := v.Else.(type) {
					case *ast.BlockStmt:
						b = all(e.List)
					case *ast.IfStmt:
						b = all([]ast.Stmt{e})
					default:
						b = set{}
					}
					r = union(r, inter(a, b))
				case *ast.ForStmt:
					r = union(r, all(v.Body.List))
				case *ast.RangeStmt:
					r = union(r, all(v.Body.List))
				case *ast.BlockStmt:
					r = union(r, all(v.List))
				case *ast.SwitchStmt, *ast.TypeSwitchStmt, *ast.SelectStmt:
					// not interpreted inside a unit
				default:
					r = union(r, stmtSets(st))
				}
			}
			return r
		}
		type unit struct {
			list []ast.Stmt
			tag  string
			pos  token.Pos
		}
		var units []unit
		for _, st := range fd.Body.List {
			if ts, ok := st.(*ast.TypeSwitchStmt); ok {
				for _, cc := range ts.Body.List {
					cl := cc.(*ast.CaseClause)
					var tys []string
					for _, e := range cl.List {
						tys = append(tys, exprString(e))
					}
					if len(tys) == 0 {
						tys = []string{"default"}
					}
					units = append(units, unit{cl.Body, "/case " + strings.Join(tys, ","), cl.Pos()})
				}
			}
		}
		if len(units) == 0 {
			units = []unit{{fd.Body.List, "", fd.Pos()}}
		}
		for _, u := range units {
			a := all(u.list)
			bases := map[string]bool{}
			for k := range a {
				bases[k[:strings.LastIndex(k, "#")]] = true
			}
			var names []string
			for b := range bases {
				names = append(names, b)
			}
			sort.Strings(names)
			for _, b := range names {
				n++
				key := fmt.Sprintf("PAIRSET:%s#%s%s", fkey, b, u.tag)
				switch {
				case a[b+"#0"] && a[b+"#1"]:
					out = append(out, okOb("PAIRSET", key, c.Rel(u.pos), "both components of the elements are set on every path", true))
				case a[b+"#0"]:
					out = append(out, violOb("PAIRSET", key, c.Rel(u.pos), fmt.Sprintf("%s%s sets the real parts %s[i][0] on every path but not the imaginary parts %s[i][1]: they keep what the vector held before", fkey, u.tag, b, b)))
				default:
					out = append(out, violOb("PAIRSET", key, c.Rel(u.pos), fmt.Sprintf("%s%s sets the imaginary parts %s[i][1] on every path but not the real parts %s[i][0]: they keep what the vector held before", fkey, u.tag, b, b)))
				}
			}
		}
	})
	c.Stats["pairset_units"] = n
	return out
}

func init() {
	core.Register(&core.Rule{Name: "PAIRSET", Props: []string{"C07", "C09", "C10"},
		Doc: "per arm of a top-level type switch (else per function), loops taken as executed and if/else arms intersected: a vector of complex pairs ([2]*big.Float elements) whose component 0 is set on all paths has its component 1 set on all paths too, and conversely",
		Run: func(c *core.Ctx) []ob {
			out := scanPairSet(c)
			out = append(out, control(c, "PAIRSET", scanPairSet, "lvfixture.fillReal")...)
			out = append(out, core.Floor("PAIRSET", nil, "vectors of complex pairs set component-wise", c.Stats["pairset_units"], 6)...)
			return out
		}})
}

// COPYUSE — once a ShallowCopy has copied a component into a local, it builds the rest of the copy on that local.
//
// `heEvaluator := eval.Evaluator.ShallowCopy()` … `DFTEvaluator: dft.NewEvaluator(params, eval.Evaluator)` wires the
// copy's sub-evaluator to the *original's* evaluator (and scratch buffers): two copies used concurrently race although
// each component looks freshly built.
//
// Rule: in a ShallowCopy method, when a local L is defined as `recv.F.ShallowCopy()`, the expression `recv.F` does not
// occur anywhere else in the body (every other use goes through L).
func scanCopyUse(c *core.Ctx) []ob {
	var out []ob
	n := 0
	c.FuncDecls(func(pk *packages.Package, file *ast.File, fd *ast.FuncDecl) {
		if fd.Body == nil || fd.Recv == nil || fd.Name.Name != "ShallowCopy" || fileIsTestSupport(c.Program, fd.Pos()) || inExamples(pk) {
			return
		}
		if len(fd.Recv.List) == 0 || len(fd.Recv.List[0].Names) == 0 {
			return
		}
		info := pk.TypesInfo
		recv := info.Defs[fd.Recv.List[0].Names[0]]
		if recv == nil {
			return
		}
		fkey := core.FuncKey(pk, fd)
		// locals defined as recv.F.ShallowCopy()
		type cp struct {
			field string
			def   ast.Node
			local string
		}
		var cps []cp
		ast.Inspect(fd.Body, func(x ast.Node) bool {
			as, ok := x.(*ast.AssignStmt)
			if !ok || len(as.Lhs) != len(as.Rhs) {
				return true
			}
			for i, l := range as.Lhs {
				id, ok := l.(*ast.Ident)
				if !ok {
					continue
				}
				call, ok := unparen(as.Rhs[i]).(*ast.CallExpr)
				if !ok {
					continue
				}
				se, ok := unparen(call.Fun).(*ast.SelectorExpr)
				if !ok || se.Sel.Name != "ShallowCopy" {
					continue
				}
				fse, ok := unparen(se.X).(*ast.SelectorExpr)
				if !ok {
					continue
				}
				if rid, ok := unparen(fse.X).(*ast.Ident); ok && info.Uses[rid] == recv {
					cps = append(cps, cp{fse.Sel.Name, as, id.Name})
				}
			}
			return true
		})
		for _, k := range cps {
			n++
			key := fmt.Sprintf("COPYUSE:%s#%s", fkey, k.field)
			var bad ast.Node
			ast.Inspect(fd.Body, func(x ast.Node) bool {
				if x == k.def {
					return false
				}
				se, ok := x.(*ast.SelectorExpr)
				if !ok || se.Sel.Name != k.field || bad != nil {
					return true
				}
				if rid, ok := unparen(se.X).(*ast.Ident); ok && info.Uses[rid] == recv {
					bad = se
				}
				return true
			})
			if bad != nil {
				out = append(out, withProps(violOb("COPYUSE", key, c.Rel(bad.Pos()), fmt.Sprintf("%s copies %s.%s into %s and still uses %s.%s at %s: what is built there belongs to the original, not to the copy", fkey, recv.Name(), k.field, k.local, recv.Name(), k.field, c.Rel(bad.Pos()))), "C10", "C18"))
			} else {
				out = append(out, withProps(okOb("COPYUSE", key, c.Rel(k.def.Pos()), "the copied component is the only one used after it has been copied", true), "C10", "C18"))
			}
		}
	})
	c.Stats["copyuse_sites"] = n
	return out
}

func init() {
	core.Register(&core.Rule{Name: "COPYUSE", Props: []string{"C10", "C18"},
		Doc: "in a ShallowCopy method, when a local is defined as recv.F.ShallowCopy(), recv.F does not occur anywhere else in the body",
		Run: func(c *core.Ctx) []ob {
			out := scanCopyUse(c)
			for _, o := range control(c, "COPYUSE", scanCopyUse, "(wiredEval).ShallowCopy") {
				out = append(out, withProps(o, "C10", "C18"))
			}
			return out
		}})
}
