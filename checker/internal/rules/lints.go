package rules

import (
	"fmt"
	"go/ast"
	"go/token"
	"go/types"
	"regexp"
	"sort"
	"strings"

	"golang.org/x/tools/go/packages"

	"lvcheck/internal/core"
)

// Four small repository-specific rules, each the structural half of a behavioural clause.
//
// DEGLOOP   a loop that visits the components X.Value[i] (or coefficients) up to X.Degree() must include index
//           Degree(): an element of degree d has d+1 components. `i < X.Degree()` skips the last one.
// LEVELMOD  inside a function that works at a level, the big-integer modulus of a ring is taken from a ring that
//           was cut to that level (r.AtLevel(l).Modulus()) — never from the full ring of the parameters, whose
//           Modulus() is the product at the maximum level.
// RNSSTORE  a value stored into an element of a ring.RNSScalar is reduced: it is produced by `%`, by one of the
//           ring's reduction functions, by big.Int.Mod(...).Uint64(), or by +/- over RNSScalar elements and the modulus.
// RNDADVANCE a loop that consumes a PRNG-filled byte buffer at an index that does not move inside the loop must
//           advance (reslice) or refill that buffer inside the same loop: otherwise the same random bits are reused.

func loopVarOf(fs *ast.ForStmt) (*ast.Ident, *ast.BinaryExpr) {
	be, ok := fs.Cond.(*ast.BinaryExpr)
	if !ok || (be.Op != token.LSS && be.Op != token.LEQ) {
		return nil, nil
	}
	id, ok := unparen(be.X).(*ast.Ident)
	if !ok {
		return nil, nil
	}
	return id, be
}

func isDegreeCall(info *types.Info, e ast.Expr) (ast.Expr, bool) {
	call, ok := unparen(e).(*ast.CallExpr)
	if !ok || len(call.Args) != 0 {
		return nil, false
	}
	sel, ok := unparen(call.Fun).(*ast.SelectorExpr)
	if !ok || sel.Sel.Name != "Degree" {
		return nil, false
	}
	return sel.X, true
}

func containsDegreeCall(info *types.Info, e ast.Expr) bool {
	found := false
	ast.Inspect(e, func(n ast.Node) bool {
		if ex, ok := n.(ast.Expr); ok {
			if _, ok := isDegreeCall(info, ex); ok {
				found = true
			}
		}
		return !found
	})
	return found
}

func scanDegLoop(c *core.Ctx) []ob {
	var out []ob
	n := 0
	c.FuncDecls(func(pk *packages.Package, file *ast.File, fd *ast.FuncDecl) {
		if fd.Body == nil || fileIsTestSupport(c.Program, fd.Pos()) || inExamples(pk) {
			return
		}
		info := pk.TypesInfo
		fkey := core.FuncKey(pk, fd)
		ord := 0
		ast.Inspect(fd.Body, func(nd ast.Node) bool {
			fs, ok := nd.(*ast.ForStmt)
			if !ok {
				return true
			}
			iv, be := loopVarOf(fs)
			if iv == nil || !containsDegreeCall(info, be.Y) {
				return true
			}
			ivObj := info.Uses[iv]
			// the loop variable indexes something
			indexes := false
			ast.Inspect(fs.Body, func(x ast.Node) bool {
				if ix, ok := x.(*ast.IndexExpr); ok {
					if id, ok := unparen(ix.Index).(*ast.Ident); ok && info.Uses[id] == ivObj {
						indexes = true
					}
				}
				return true
			})
			if !indexes {
				return true
			}
			ord++
			n++
			key := fmt.Sprintf("DEGLOOP:%s#%d", fkey, ord)
			// accepted forms: v < X.Degree()+1   v <= X.Degree()
			good := false
			switch be.Op {
			case token.LEQ:
				_, good = isDegreeCall(info, be.Y)
			case token.LSS:
				if sum, ok := unparen(be.Y).(*ast.BinaryExpr); ok && sum.Op == token.ADD {
					if _, d := isDegreeCall(info, sum.X); d {
						if lit, ok := unparen(sum.Y).(*ast.BasicLit); ok && lit.Value == "1" {
							good = true
						}
					}
				}
			}
			props := metaProps(fkey)
			if len(props) == 0 {
				props = []string{"C04"}
			}
			if good {
				out = append(out, withProps(okOb("DEGLOOP", key, c.Rel(fs.Pos()), "the loop bound includes component Degree()", true), props...))
			} else {
				out = append(out, withProps(violOb("DEGLOOP", key, c.Rel(fs.Pos()), fmt.Sprintf("%s: the loop `%s %s %s` indexes components with %s but stops before index Degree(): an element of degree d has d+1 components and the last one is never visited", fkey, iv.Name, be.Op, exprString(be.Y), iv.Name)), props...))
			}
			return true
		})
	})
	c.Stats["degloop_loops"] = n
	return out
}

// ---- LEVELMOD

func mentionsAtLevel(e ast.Expr) bool {
	found := false
	ast.Inspect(e, func(n ast.Node) bool {
		if call, ok := n.(*ast.CallExpr); ok {
			if sel, ok := unparen(call.Fun).(*ast.SelectorExpr); ok && sel.Sel.Name == "AtLevel" {
				found = true
			}
		}
		return !found
	})
	return found
}

func scanLevelMod(c *core.Ctx) []ob {
	var out []ob
	n := 0
	c.FuncDecls(func(pk *packages.Package, file *ast.File, fd *ast.FuncDecl) {
		if fd.Body == nil || fileIsTestSupport(c.Program, fd.Pos()) || inExamples(pk) {
			return
		}
		info := pk.TypesInfo
		fkey := core.FuncKey(pk, fd)
		// is the function level-dependent?
		levelDep := false
		ast.Inspect(fd, func(x ast.Node) bool {
			switch y := x.(type) {
			case *ast.Ident:
				if v, ok := info.Defs[y].(*types.Var); ok && !v.IsField() && strings.Contains(strings.ToLower(v.Name()), "level") {
					levelDep = true
				}
			case *ast.SelectorExpr:
				if y.Sel.Name == "AtLevel" || y.Sel.Name == "ModulusAtLevel" {
					levelDep = true
				}
			}
			return true
		})
		defs := map[types.Object][]ast.Expr{}
		ast.Inspect(fd.Body, func(x ast.Node) bool {
			if as, ok := x.(*ast.AssignStmt); ok && len(as.Lhs) == len(as.Rhs) {
				for i, l := range as.Lhs {
					if id, ok := unparen(l).(*ast.Ident); ok {
						o := info.Defs[id]
						if o == nil {
							o = info.Uses[id]
						}
						if o != nil {
							defs[o] = append(defs[o], as.Rhs[i])
						}
					}
				}
			}
			return true
		})
		var levelled func(e ast.Expr, depth int) bool
		levelled = func(e ast.Expr, depth int) bool {
			if depth > 6 {
				return false
			}
			if mentionsAtLevel(e) {
				return true
			}
			// a local bound to a levelled ring, or a field of one (ringQP.RingQ)
			switch x := unparen(e).(type) {
			case *ast.Ident:
				ds := defs[info.Uses[x]]
				if len(ds) == 0 {
					return false
				}
				for _, d := range ds {
					if !levelled(d, depth+1) {
						return false
					}
				}
				return true
			case *ast.SelectorExpr:
				return levelled(x.X, depth+1)
			case *ast.StarExpr:
				return levelled(x.X, depth+1)
			}
			return false
		}
		ord := 0
		ast.Inspect(fd.Body, func(x ast.Node) bool {
			call, ok := x.(*ast.CallExpr)
			if !ok || len(call.Args) != 0 {
				return true
			}
			sel, ok := unparen(call.Fun).(*ast.SelectorExpr)
			if !ok {
				return true
			}
			fullProduct := false
			switch sel.Sel.Name {
			case "Modulus":
			case "PBigInt", "QBigInt", "QPBigInt":
				// the product of the whole chain of the parameters: never the modulus of a level below the maximum
				if fn := calleeFunc(info, call); fn == nil || fn.Pkg() == nil || !strings.Contains(fn.Pkg().Path(), "lattigo") {
					return true
				}
				fullProduct = true
			default:
				return true
			}
			if !fullProduct {
				rt := info.TypeOf(sel.X)
				if rt == nil || !isRingLikeRecv(rt) {
					return true
				}
				if nn := namedOf(rt); nn == nil || nn.Obj().Name() != "Ring" {
					return true
				}
			}
			ord++
			n++
			key := fmt.Sprintf("LEVELMOD:%s#%d", fkey, ord)
			props := levelModProps(fkey)
			switch {
			case !fullProduct && levelled(sel.X, 0):
				out = append(out, withProps(okOb("LEVELMOD", key, c.Rel(call.Pos()), "Modulus() is taken from a ring cut with AtLevel", true), props...))
			case !levelDep:
				out = append(out, withProps(okOb("LEVELMOD", key, c.Rel(call.Pos()), "the function has no level quantity: the full modulus is the only one", false), props...))
			default:
				out = append(out, withProps(violOb("LEVELMOD", key, c.Rel(call.Pos()), fmt.Sprintf("%s works at a level but takes %s, the modulus of a ring that was not cut with AtLevel: this is the product of all primes of the chain, which differs from the modulus at the working level whenever the level is below the maximum", fkey, exprString(call))), props...))
			}
			return true
		})
	})
	c.Stats["levelmod_sites"] = n
	return out
}

func levelModProps(fkey string) []string {
	ps := metaProps(fkey)
	switch {
	case strings.Contains(fkey, "lintrans") || strings.Contains(fkey, "Automorphism"):
		ps = append(ps, "C12", "C04", "C11")
	case strings.Contains(fkey, "polynomial"):
		ps = append(ps, "C13")
	case strings.HasPrefix(fkey, "core/rlwe"):
		ps = append(ps, "C04", "C03")
	case strings.HasPrefix(fkey, "multiparty"):
		ps = append(ps, "C14", "C16")
	}
	if len(ps) == 0 {
		ps = []string{"C04"}
	}
	return ps
}

// ---- RNSSTORE

// the *Lazy variants return values in [0, 2q): not residues. MRedLazy is accepted because MulRNSScalar uses it on the
// pinned tree and its consumers (Montgomery products) tolerate [0, 2q).
var reductionFuncs = map[string]bool{"MForm": true, "IMForm": true, "MRed": true, "MRedLazy": true,
	"BRed": true, "BRedAdd": true, "CRed": true, "ModExp": true, "ModexpMontgomery": true, "ModExpPow2": true}

func isRNSScalar(t types.Type) bool {
	n := namedOf(t)
	return n != nil && n.Obj().Name() == "RNSScalar" && n.Obj().Pkg() != nil && strings.HasSuffix(n.Obj().Pkg().Path(), "/ring")
}

func scanRNSStore(c *core.Ctx) []ob {
	var out []ob
	n := 0
	c.FuncDecls(func(pk *packages.Package, file *ast.File, fd *ast.FuncDecl) {
		if fd.Body == nil || fileIsTestSupport(c.Program, fd.Pos()) || inExamples(pk) {
			return
		}
		info := pk.TypesInfo
		fkey := core.FuncKey(pk, fd)
		var reduced func(e ast.Expr) bool
		reduced = func(e ast.Expr) bool {
			switch x := unparen(e).(type) {
			case *ast.Ident:
				// a local that stands for a residue or the modulus (a, b := s1[i], s2[i]; q := s.Modulus)
				if o := info.Uses[x]; o != nil {
					if d := singleDef(info, fd, o); d != nil {
						if _, isIdent := unparen(d).(*ast.Ident); !isIdent {
							return reduced(d)
						}
					}
				}
			case *ast.IndexExpr:
				if t := info.TypeOf(x.X); t != nil && isRNSScalar(t) {
					return true
				}
			case *ast.SelectorExpr:
				return x.Sel.Name == "Modulus"
			case *ast.BinaryExpr:
				switch x.Op {
				case token.REM:
					return true
				case token.ADD, token.SUB:
					return reduced(x.X) && reduced(x.Y)
				}
			case *ast.CallExpr:
				if f := calleeFunc(info, x); f != nil {
					if reductionFuncs[f.Name()] && f.Pkg() != nil && strings.HasSuffix(f.Pkg().Path(), "/ring") {
						return true
					}
					// big.Int: tmp.Mod(v, q).Uint64()
					if f.Name() == "Uint64" {
						if sel, ok := unparen(x.Fun).(*ast.SelectorExpr); ok {
							if inner, ok := unparen(sel.X).(*ast.CallExpr); ok {
								if g := calleeFunc(info, inner); g != nil && g.Name() == "Mod" && g.Pkg() != nil && g.Pkg().Path() == "math/big" {
									return true
								}
							}
						}
					}
				}
			}
			return false
		}
		ord := 0
		ast.Inspect(fd.Body, func(x ast.Node) bool {
			as, ok := x.(*ast.AssignStmt)
			if !ok || len(as.Lhs) != len(as.Rhs) {
				return true
			}
			for i, l := range as.Lhs {
				ix, ok := unparen(l).(*ast.IndexExpr)
				if !ok {
					continue
				}
				if t := info.TypeOf(ix.X); t == nil || !isRNSScalar(t) {
					continue
				}
				ord++
				n++
				key := fmt.Sprintf("RNSSTORE:%s#%d", fkey, ord)
				if as.Tok == token.ASSIGN && reduced(as.Rhs[i]) {
					out = append(out, okOb("RNSSTORE", key, c.Rel(as.Pos()), "the stored residue is the result of a reduction", true))
				} else {
					out = append(out, violOb("RNSSTORE", key, c.Rel(as.Pos()), fmt.Sprintf("%s stores %s into an RNS scalar without reducing it modulo the corresponding prime: Montgomery/Barrett products taking this scalar assume residues below the modulus", fkey, exprString(as.Rhs[i]))))
				}
			}
			return true
		})
	})
	c.Stats["rnsstore_sites"] = n
	return out
}

// ---- SCALARMUL
//
// A uint64 handed to a ring operation as its scalar operand is a representative of an integer that the operation
// reduces modulo every prime. A product computed in native uint64 arithmetic (pow*x, pow *= x) is only correct modulo
// 2^64: once it wraps, its residues modulo the primes are those of a different integer. Powers and products of
// scalars therefore have to be formed by the ring (Horner with MulScalar, MulRNSScalar, ModExp), not by `*`.

func scanScalarMul(c *core.Ctx) []ob {
	var out []ob
	n := 0
	c.FuncDecls(func(pk *packages.Package, file *ast.File, fd *ast.FuncDecl) {
		if fd.Body == nil || fileIsTestSupport(c.Program, fd.Pos()) || inExamples(pk) {
			return
		}
		info := pk.TypesInfo
		fkey := core.FuncKey(pk, fd)
		// variables that receive a native product somewhere in the function
		prodVar := map[types.Object]token.Pos{}
		isU64 := func(e ast.Expr) bool {
			t := info.TypeOf(e)
			if t == nil {
				return false
			}
			b, ok := t.Underlying().(*types.Basic)
			return ok && b.Kind() == types.Uint64
		}
		constant := func(e ast.Expr) bool {
			tv, ok := info.Types[e]
			return ok && tv.Value != nil
		}
		var isProd func(e ast.Expr) bool
		isProd = func(e ast.Expr) bool {
			be, ok := unparen(e).(*ast.BinaryExpr)
			if !ok {
				return false
			}
			if be.Op == token.MUL && isU64(be) && !constant(be.X) && !constant(be.Y) {
				return true
			}
			return false
		}
		ast.Inspect(fd.Body, func(x ast.Node) bool {
			as, ok := x.(*ast.AssignStmt)
			if !ok {
				return true
			}
			for i, l := range as.Lhs {
				id, ok := unparen(l).(*ast.Ident)
				if !ok {
					continue
				}
				o := info.Defs[id]
				if o == nil {
					o = info.Uses[id]
				}
				if o == nil {
					continue
				}
				if as.Tok == token.MUL_ASSIGN && isU64(l) && !constant(as.Rhs[0]) {
					prodVar[o] = as.Pos()
				}
				if len(as.Lhs) == len(as.Rhs) && isProd(as.Rhs[i]) {
					prodVar[o] = as.Pos()
				}
			}
			return true
		})
		ast.Inspect(fd.Body, func(x ast.Node) bool {
			call, ok := x.(*ast.CallExpr)
			if !ok {
				return true
			}
			sel, ok := unparen(call.Fun).(*ast.SelectorExpr)
			if !ok {
				return true
			}
			rt := info.TypeOf(sel.X)
			if rt == nil || !isRingLikeRecv(rt) {
				return true
			}
			f := calleeFunc(info, call)
			if f == nil {
				return true
			}
			sig := f.Type().(*types.Signature)
			for i, a := range call.Args {
				if i >= sig.Params().Len() || !strings.HasPrefix(strings.ToLower(sig.Params().At(i).Name()), "scalar") && sig.Params().At(i).Name() != "pt" {
					continue
				}
				if !isU64(a) {
					continue
				}
				n++
				key := fmt.Sprintf("SCALARMUL:%s#%s(%s)", fkey, f.Name(), exprString(a))
				why := ""
				if isProd(a) {
					why = "the native product " + exprString(a)
				} else if id, ok := unparen(a).(*ast.Ident); ok {
					if p, ok := prodVar[info.Uses[id]]; ok {
						why = fmt.Sprintf("%s, which accumulates a native product at %s", id.Name, c.Rel(p))
					}
				}
				if why != "" {
					out = append(out, violOb("SCALARMUL", key, c.Rel(call.Pos()), fmt.Sprintf("%s passes %s as the scalar of %s: the product wraps modulo 2^64 and then stands for a different integer modulo the primes of the ring", fkey, why, f.Name())))
				} else {
					out = append(out, okOb("SCALARMUL", key, c.Rel(call.Pos()), "the scalar is not a native uint64 product", true))
				}
			}
			return true
		})
	})
	c.Stats["scalarmul_sites"] = n
	return out
}

// ---- RNDADVANCE

func scanRndAdvance(c *core.Ctx) []ob {
	var out []ob
	n := 0
	c.FuncDecls(func(pk *packages.Package, file *ast.File, fd *ast.FuncDecl) {
		rel := core.ShortPkg(pk.PkgPath)
		if fd.Body == nil || fileIsTestSupport(c.Program, fd.Pos()) || !(c.IsFixture || rel == "ring" || strings.HasPrefix(rel, "utils/sampling")) {
			return
		}
		info := pk.TypesInfo
		fkey := core.FuncKey(pk, fd)
		// byte buffers filled by a Read call in this function
		filled := map[types.Object]bool{}
		ast.Inspect(fd.Body, func(x ast.Node) bool {
			if call, ok := x.(*ast.CallExpr); ok && len(call.Args) == 1 {
				if sel, ok := unparen(call.Fun).(*ast.SelectorExpr); ok && sel.Sel.Name == "Read" {
					if id, ok := unparen(call.Args[0]).(*ast.Ident); ok {
						if o := info.Uses[id]; o != nil {
							if s, ok := o.Type().Underlying().(*types.Slice); ok {
								if b, ok := s.Elem().Underlying().(*types.Basic); ok && b.Kind() == types.Uint8 {
									filled[o] = true
								}
							}
						}
					}
				}
			}
			return true
		})
		if len(filled) == 0 {
			return
		}
		pm := parentMapCached(fd)
		ord := 0
		ast.Inspect(fd.Body, func(x ast.Node) bool {
			ix, ok := x.(*ast.IndexExpr)
			if !ok {
				return true
			}
			id, ok := unparen(ix.X).(*ast.Ident)
			if !ok || !filled[info.Uses[id]] {
				return true
			}
			buf := info.Uses[id]
			// outermost enclosing loop
			var loop ast.Node
			for p := pm[ast.Node(ix)]; p != nil; p = pm[p] {
				switch p.(type) {
				case *ast.ForStmt, *ast.RangeStmt:
					loop = p
				}
			}
			if loop == nil {
				return true
			}
			// variables assigned inside the loop (including its header)
			assigned := map[types.Object]bool{}
			advanced := false
			ast.Inspect(loop, func(y ast.Node) bool {
				switch z := y.(type) {
				case *ast.AssignStmt:
					for i, l := range z.Lhs {
						if lid, ok := unparen(l).(*ast.Ident); ok {
							o := info.Uses[lid]
							if o == nil {
								o = info.Defs[lid]
							}
							if o != nil {
								assigned[o] = true
							}
							if o == buf && z.Tok == token.ASSIGN && len(z.Lhs) == len(z.Rhs) {
								if _, ok := unparen(z.Rhs[i]).(*ast.SliceExpr); ok {
									advanced = true
								}
							}
							if o == buf && len(z.Lhs) != len(z.Rhs) {
								advanced = true // returned by a helper that consumes it
							}
						}
					}
				case *ast.IncDecStmt:
					if lid, ok := unparen(z.X).(*ast.Ident); ok {
						if o := info.Uses[lid]; o != nil {
							assigned[o] = true
						}
					}
				case *ast.RangeStmt:
					for _, e := range []ast.Expr{z.Key, z.Value} {
						if lid, ok := e.(*ast.Ident); ok {
							if o := info.Defs[lid]; o != nil {
								assigned[o] = true
							}
						}
					}
				case *ast.CallExpr:
					if sel, ok := unparen(z.Fun).(*ast.SelectorExpr); ok && sel.Sel.Name == "Read" && len(z.Args) == 1 {
						if a, ok := unparen(z.Args[0]).(*ast.Ident); ok && info.Uses[a] == buf {
							advanced = true
						}
					}
				}
				return true
			})
			moves := false
			ast.Inspect(ix.Index, func(y ast.Node) bool {
				if vid, ok := y.(*ast.Ident); ok && assigned[info.Uses[vid]] {
					moves = true
				}
				return true
			})
			ord++
			n++
			key := fmt.Sprintf("RNDADVANCE:%s#%s[%s]#%d", fkey, id.Name, exprString(ix.Index), ord)
			switch {
			case moves:
				out = append(out, okOb("RNDADVANCE", key, c.Rel(ix.Pos()), "the index moves with the loop", true))
			case advanced:
				out = append(out, okOb("RNDADVANCE", key, c.Rel(ix.Pos()), "the buffer is advanced or refilled inside the loop", true))
			default:
				out = append(out, violOb("RNDADVANCE", key, c.Rel(ix.Pos()), fmt.Sprintf("%s reads %s inside a loop at an index that does not change in the loop, and the loop neither reslices nor refills %s: the same random byte is consumed for every iteration, so the sampled values are correlated", fkey, exprString(ix), id.Name)))
			}
			return true
		})
	})
	c.Stats["rndadvance_sites"] = n
	return out
}

func init() {
	dl := []string{"C04", "C05", "C06", "C09", "C11", "C14", "C16"}
	core.Register(&core.Rule{Name: "DEGLOOP", Props: dl,
		Doc: "a loop bounded by X.Degree() that indexes components with its variable uses the bound `< X.Degree()+1` or `<= X.Degree()` (an element of degree d has d+1 components)",
		Run: func(c *core.Ctx) []ob {
			out := scanDegLoop(c)
			for _, o := range core.Floor("DEGLOOP", nil, "component loops bounded by Degree()", c.Stats["degloop_loops"], 8) {
				out = append(out, withProps(o, dl...))
			}
			for _, o := range control(c, "DEGLOOP", scanDegLoop, "(fixEvaluator).NegHigh") {
				out = append(out, withProps(o, dl...))
			}
			return out
		}})
	lm := []string{"C03", "C04", "C11", "C12", "C13", "C14", "C16", "C05", "C06"}
	core.Register(&core.Rule{Name: "LEVELMOD", Props: lm,
		Doc: "in a function that works at a level, Ring.Modulus() is called on a ring cut with AtLevel (directly or through a local bound to one), never on the full ring of the parameters",
		Run: func(c *core.Ctx) []ob {
			out := scanLevelMod(c)
			for _, o := range core.Floor("LEVELMOD", nil, "Ring.Modulus() call sites", c.Stats["levelmod_sites"], 2) {
				out = append(out, withProps(o, lm...))
			}
			for _, o := range control(c, "LEVELMOD", scanLevelMod, "(fixEvaluator).ScaleP") {
				out = append(out, withProps(o, lm...))
			}
			return out
		}})
	core.Register(&core.Rule{Name: "RNSSTORE", Props: []string{"C15", "C01"},
		Doc: "every store into an element of a ring.RNSScalar is a reduced value (%, a ring reduction function, big.Int.Mod().Uint64(), or +/- over RNS scalar elements and the modulus)",
		Run: func(c *core.Ctx) []ob {
			out := scanRNSStore(c)
			out = append(out, core.Floor("RNSSTORE", nil, "stores into RNS scalars", c.Stats["rnsstore_sites"], 7)...)
			out = append(out, control(c, "RNSSTORE", scanRNSStore, "rnsBad")...)
			return out
		}})
	core.Register(&core.Rule{Name: "SCALARMUL", Props: []string{"C15", "C01", "C07"},
		Doc: "the uint64 scalar operand of a ring operation is never a product formed in native uint64 arithmetic (a*b, v *= b): such a product is only correct modulo 2^64",
		Run: func(c *core.Ctx) []ob {
			out := scanScalarMul(c)
			out = append(out, core.Floor("SCALARMUL", nil, "uint64 scalar operands of ring operations", c.Stats["scalarmul_sites"], 12)...)
			out = append(out, control(c, "SCALARMUL", scanScalarMul, "powBad")...)
			return out
		}})
	core.Register(&core.Rule{Name: "RNDADVANCE", Props: []string{"C17", "C03"},
		Doc: "a loop of a sampler that reads a PRNG-filled byte buffer at an index that does not move in the loop reslices or refills the buffer in the same loop",
		Run: func(c *core.Ctx) []ob {
			out := scanRndAdvance(c)
			out = append(out, core.Floor("RNDADVANCE", nil, "random-buffer reads in loops", c.Stats["rndadvance_sites"], 4)...)
			out = append(out, control(c, "RNDADVANCE", scanRndAdvance, "rndBad")...)
			return out
		}})
}

// ---- RINGPNIL
//
// Parameters without an auxiliary modulus have RingP() == nil and levelP == -1. A function that shows it knows this
// (it tests levelP > -1, PCount(), ringP != nil, ...) and yet calls a method on the result of RingP() outside every
// such test contradicts itself: with P-less parameters the unguarded call dereferences nil (Ring methods have value
// receivers) before the guarded code is reached.

var ringPNilExempt = map[string]string{
	"core/rlwe.(Evaluator).DecomposeSingleNTT": "hoisted decomposition is unsupported without P (the package's own tests skip it: 'test requires #P > 0'); AtLevel(-1) panics by design as a sanity check",
}

func pPresenceTest(info *types.Info, cond ast.Expr) bool {
	found := false
	ast.Inspect(cond, func(x ast.Node) bool {
		switch y := x.(type) {
		case *ast.BinaryExpr:
			txt := exprString(y)
			low := strings.ToLower(txt)
			if (strings.Contains(low, "levelp") || strings.Contains(low, "ringp") || strings.Contains(low, "pcount") || strings.Contains(low, ".p.level()")) &&
				(y.Op == token.GTR || y.Op == token.GEQ || y.Op == token.NEQ || y.Op == token.LSS || y.Op == token.EQL) {
				// a test against "no P": the other side is -1, 0, 1 or nil
				for _, side := range []ast.Expr{y.X, y.Y} {
					st := exprString(unparen(side))
					if st == "-1" || st == "0" || st == "1" || st == "nil" {
						found = true
					}
				}
			}
		case *ast.Ident:
			if strings.Contains(strings.ToLower(y.Name), "hasmodulusp") {
				found = true
			}
		}
		return !found
	})
	return found
}

func scanRingPNil(c *core.Ctx) []ob {
	var out []ob
	n := 0
	c.FuncDecls(func(pk *packages.Package, file *ast.File, fd *ast.FuncDecl) {
		if fd.Body == nil || fileIsTestSupport(c.Program, fd.Pos()) || inExamples(pk) {
			return
		}
		info := pk.TypesInfo
		fkey := core.FuncKey(pk, fd)
		pm := parentMapCached(fd)
		aware := false
		ast.Inspect(fd.Body, func(x ast.Node) bool {
			if is, ok := x.(*ast.IfStmt); ok && pPresenceTest(info, is.Cond) {
				aware = true
			}
			return !aware
		})
		ord := 0
		ast.Inspect(fd.Body, func(x ast.Node) bool {
			call, ok := x.(*ast.CallExpr)
			if !ok {
				return true
			}
			sel, ok := unparen(call.Fun).(*ast.SelectorExpr)
			if !ok {
				return true
			}
			inner, ok := unparen(sel.X).(*ast.CallExpr)
			if !ok || len(inner.Args) != 0 {
				return true
			}
			isel, ok := unparen(inner.Fun).(*ast.SelectorExpr)
			if !ok || isel.Sel.Name != "RingP" {
				return true
			}
			if t := info.TypeOf(inner); t == nil || !isRingLikeRecv(t) {
				return true
			}
			ord++
			n++
			key := fmt.Sprintf("RINGPNIL:%s#%s.%s", fkey, exprString(inner), sel.Sel.Name)
			guarded := false
			for _, h := range holdsAt(pm, call) {
				if h.pos && pPresenceTest(info, h.cond) {
					guarded = true
				}
			}
			switch {
			case guarded:
				out = append(out, okOb("RINGPNIL", key, c.Rel(call.Pos()), "dereferenced under a test of the presence of P", true))
			case !aware:
				out = append(out, okOb("RINGPNIL", key, c.Rel(call.Pos()), "the function never considers P-less parameters: not decided here", false))
			case ringPNilExempt[fkey] != "":
				out = append(out, okOb("RINGPNIL", key, c.Rel(call.Pos()), "exempt: "+ringPNilExempt[fkey], false))
			default:
				out = append(out, violOb("RINGPNIL", key, c.Rel(call.Pos()), fmt.Sprintf("%s tests whether the auxiliary modulus P exists, yet calls %s on the result of RingP() outside that test at %s: with parameters that have no P this dereferences a nil ring before the guarded code is reached", fkey, sel.Sel.Name, c.Rel(call.Pos()))))
			}
			return true
		})
	})
	c.Stats["ringpnil_sites"] = n
	return out
}

func init() {
	all := []string{"C14", "C04", "C03", "C07", "C16"}
	core.Register(&core.Rule{Name: "RINGPNIL", Props: all,
		Doc: "a function that tests for the presence of the auxiliary modulus P (levelP > -1, PCount(), ringP != nil) does not call a method on the result of RingP() outside such a test",
		Run: func(c *core.Ctx) []ob {
			out := scanRingPNil(c)
			out = append(out, core.Floor("RINGPNIL", nil, "method calls on RingP()", c.Stats["ringpnil_sites"], 6)...)
			out = append(out, control(c, "RINGPNIL", scanRingPNil, "(fixEvaluator).BothRings")...)
			return out
		}})
}

// ---- RANGEIDX
//
// `for i := range X.Value { … Y.Value[i] … }` indexes the components of Y with the number of components of X. Unless
// the function has related the two degrees (a Resize of X to Y's degree, a test of both degrees, X built with Y's
// degree), a receiver of higher degree than the operand makes the loop run past the end of Y.Value (a panic) and a
// receiver of lower degree silently drops components.
type riSite struct {
	pk   *packages.Package
	fd   *ast.FuncDecl
	rs   *ast.RangeStmt
	X, Y string
	ypos token.Pos
	api  bool
}

// limitNode stands for the position before which evidence must be found.
type limitNode struct{ p token.Pos }

func (l limitNode) Pos() token.Pos { return l.p }

func scanRangeIdx(c *core.Ctx) []ob {
	var out []ob
	n := 0
	var sites []riSite
	c.FuncDecls(func(pk *packages.Package, file *ast.File, fd *ast.FuncDecl) {
		rel := core.ShortPkg(pk.PkgPath)
		if fd.Body == nil || fileIsTestSupport(c.Program, fd.Pos()) || !(c.IsFixture || strings.HasPrefix(rel, "schemes/") || strings.HasPrefix(rel, "core/") || strings.HasPrefix(rel, "circuits/") || strings.HasPrefix(rel, "multiparty")) {
			return
		}
		// the API boundary: exported methods of evaluator-like types (package-level utilities on Elements document that
		// the receiver dictates the shape; helpers are judged at their calls from the API methods, below)
		api := c.IsFixture && !strings.HasPrefix(fd.Name.Name, "rangeIdxHelper") || (fd.Recv != nil && fd.Name.IsExported() && immutRecv.MatchString(core.RecvTypeName(fd)))
		info := pk.TypesInfo
		ast.Inspect(fd.Body, func(x ast.Node) bool {
			rs, ok := x.(*ast.RangeStmt)
			if !ok || rs.Key == nil {
				return true
			}
			kid, ok := rs.Key.(*ast.Ident)
			if !ok {
				return true
			}
			xs, ok := unparen(rs.X).(*ast.SelectorExpr)
			if !ok || xs.Sel.Name != "Value" || !isMetaCarrier(info.TypeOf(xs.X)) {
				return true
			}
			X := exprString(xs.X)
			kobj := info.Defs[kid]
			others := map[string]token.Pos{}
			ast.Inspect(rs.Body, func(y ast.Node) bool {
				ix, ok := y.(*ast.IndexExpr)
				if !ok {
					return true
				}
				id, ok := unparen(ix.Index).(*ast.Ident)
				if !ok || info.Uses[id] != kobj {
					return true
				}
				ys, ok := unparen(ix.X).(*ast.SelectorExpr)
				if !ok || ys.Sel.Name != "Value" || !isMetaCarrier(info.TypeOf(ys.X)) {
					return true
				}
				if Y := exprString(ys.X); Y != X {
					if _, seen := others[Y]; !seen {
						others[Y] = ix.Pos()
					}
				}
				return true
			})
			for _, Y := range sortedKeys(others) {
				sites = append(sites, riSite{pk, fd, rs, X, Y, others[Y], api})
			}
			return true
		})
	})
	// judge: is something relating the degrees of X and Y found in fd before limit?
	judge := func(pk *packages.Package, fd *ast.FuncDecl, limit token.Pos, X, Y string) string {
		info := pk.TypesInfo
		rs := limitNode{limit}
				// evidence that the two degrees were related before the loop
		related := ""
		mentionsDeg := func(e ast.Node, who string) bool {
			found := false
			ast.Inspect(e, func(z ast.Node) bool {
				switch v := z.(type) {
				case *ast.CallExpr:
					if s, ok := unparen(v.Fun).(*ast.SelectorExpr); ok && s.Sel.Name == "Degree" && exprString(s.X) == who {
						found = true
					}
					if isBuiltinCall(info, v, "len") && len(v.Args) == 1 && exprString(v.Args[0]) == who+".Value" {
						found = true
					}
				}
				return !found
			})
			return found
		}
		ast.Inspect(fd.Body, func(z ast.Node) bool {
			if related != "" || z == nil || z.Pos() >= rs.Pos() {
				return related == ""
			}
			switch v := z.(type) {
			case *ast.CallExpr:
				if s, ok := unparen(v.Fun).(*ast.SelectorExpr); ok && s.Sel.Name == "Resize" && len(v.Args) >= 1 {
					base := exprString(s.X)
					base = strings.TrimSuffix(base, ".El()")
					if (base == X && mentionsDeg(v.Args[0], Y)) || (base == Y && mentionsDeg(v.Args[0], X)) {
						related = "Resize at " + c.Rel(v.Pos())
					}
					// Resize to a degree variable computed from both (InitOutput*, Max/Min of degrees)
					if base == X || base == Y {
						if id, ok := unparen(v.Args[0]).(*ast.Ident); ok && strings.Contains(strings.ToLower(id.Name), "degree") {
							related = "Resize to the computed degree at " + c.Rel(v.Pos())
						}
					}
				}
				if strings.HasPrefix(calleeName(info, v), "InitOutput") {
					txt := exprString(v)
					if strings.Contains(txt, X) && strings.Contains(txt, Y) {
						related = "InitOutput at " + c.Rel(v.Pos())
					}
				}
			case *ast.IfStmt:
				if mentionsDeg(v.Cond, X) && mentionsDeg(v.Cond, Y) {
					related = "degree test at " + c.Rel(v.Pos())
				}
			case *ast.AssignStmt:
				// X built with Y's degree (or conversely)
				for i, l := range v.Lhs {
					if i < len(v.Rhs) && (exprString(l) == X && mentionsDeg(v.Rhs[i], Y) || exprString(l) == Y && mentionsDeg(v.Rhs[i], X)) {
						related = "constructed with the other's degree at " + c.Rel(v.Pos())
					}
				}
			}
			return related == ""
		})
		if related == "" {
			// both pinned to one constant degree before the loop: `Y.Degree() != k -> error` (in the function or in a
			// predicate of the package that receives Y) and `X.Resize(k, …)`
			pinned := map[string]string{}
			built := map[string]bool{} // allocated by the function itself with a constant degree
			var pin func(body *ast.BlockStmt, sub map[string]string, limit token.Pos, depth int)
			pin = func(body *ast.BlockStmt, sub map[string]string, limit token.Pos, depth int) {
				name := func(e ast.Expr) string {
					t := exprString(e)
					if r, ok := sub[t]; ok {
						return r
					}
					return t
				}
				ast.Inspect(body, func(z ast.Node) bool {
					if z == nil || (limit != token.NoPos && z.Pos() >= limit) {
						return true
					}
					switch v := z.(type) {
					case *ast.AssignStmt:
						// allocated with a literal degree: `ctTmp := NewCiphertext(params, 1, level)`
						if len(v.Lhs) >= 1 && len(v.Rhs) == 1 {
							if call, ok := unparen(v.Rhs[0]).(*ast.CallExpr); ok && len(call.Args) >= 2 {
								if nm := calleeName(info, call); nm == "NewCiphertext" || nm == "NewPlaintext" || nm == "NewElement" {
									if lit, ok := unparen(call.Args[1]).(*ast.BasicLit); ok && lit.Kind == token.INT {
										pinned[name(v.Lhs[0])] = lit.Value
										built[name(v.Lhs[0])] = true
									}
								}
							}
						}
						// built from a literal list of k polynomials: degree k-1
						if len(v.Lhs) >= 1 && len(v.Rhs) == 1 {
							ast.Inspect(v.Rhs[0], func(w ast.Node) bool {
								if cl, ok := w.(*ast.CompositeLit); ok {
									if sl, ok := info.TypeOf(cl).Underlying().(*types.Slice); ok && polyish(sl.Elem()) && len(cl.Elts) > 0 {
										pinned[name(v.Lhs[0])] = fmt.Sprint(len(cl.Elts) - 1)
										return false
									}
								}
								return true
							})
						}
					case *ast.IfStmt:
						// `A.Degree() != k || B.Degree() != k' -> error`: every disjunct that leaves pins its operand
						var disj func(e ast.Expr)
						disj = func(e ast.Expr) {
							be, ok := unparen(e).(*ast.BinaryExpr)
							if !ok {
								return
							}
							if be.Op == token.LOR {
								disj(be.X)
								disj(be.Y)
								return
							}
							if be.Op != token.NEQ {
								return
							}
							if call, ok := unparen(be.X).(*ast.CallExpr); ok {
								if s, ok := unparen(call.Fun).(*ast.SelectorExpr); ok && s.Sel.Name == "Degree" {
									if lit, ok := unparen(be.Y).(*ast.BasicLit); ok {
										pinned[name(s.X)] = lit.Value
									}
								}
							}
						}
						if leavesWithError(v.Body) {
							disj(v.Cond)
						}
					case *ast.CallExpr:
						if s, ok := unparen(v.Fun).(*ast.SelectorExpr); ok && s.Sel.Name == "Resize" && len(v.Args) >= 1 {
							if lit, ok := unparen(v.Args[0]).(*ast.BasicLit); ok {
								pinned[strings.TrimSuffix(name(s.X), ".El()")] = lit.Value
							}
							// resized to the degree of an element whose degree is pinned
							if dc, ok := unparen(v.Args[0]).(*ast.CallExpr); ok {
								if ds, ok := unparen(dc.Fun).(*ast.SelectorExpr); ok && ds.Sel.Name == "Degree" {
									if k, ok := pinned[name(ds.X)]; ok {
										pinned[strings.TrimSuffix(name(s.X), ".El()")] = k
									}
								}
							}
						}
						if depth < 1 {
							if hf := calleeFunc(info, v); hf != nil && hf.Pkg() == pk.Types {
								for _, f2 := range pk.Syntax {
									for _, d2 := range f2.Decls {
										hd, ok := d2.(*ast.FuncDecl)
										if !ok || hd.Body == nil || info.Defs[hd.Name] != types.Object(funcOrigin(hf)) || hd == fd {
											continue
										}
										hs := map[string]string{}
										ai := 0
										for _, fl := range hd.Type.Params.List {
											for _, nm := range fl.Names {
												if ai < len(v.Args) {
													hs[nm.Name] = exprString(v.Args[ai])
												}
												ai++
											}
										}
										pin(hd.Body, hs, token.NoPos, depth+1)
									}
								}
							}
						}
					}
					return true
				})
			}
			pin(fd.Body, nil, rs.Pos(), 0)
			if kx, ok := pinned[X]; ok && pinned[Y] == kx {
				related = "both pinned to degree " + kx + " before the loop"
			} else if ok && built[X] {
				// a scratch element the function allocated itself with a constant degree k: the loop is the written-out
				// accesses Y.Value[0..k], which RESIZEFIRST and INDEG judge like any constant index
				related = "the ranged element is a scratch of constant degree " + kx + " allocated by the function"
			}
		}
		return related
	}
	for _, st := range sites {
		fkey := core.FuncKey(st.pk, st.fd)
		if st.api {
			n++
			key := fmt.Sprintf("RANGEIDX:%s#range(%s.Value)->%s.Value", fkey, st.X, st.Y)
			related := judge(st.pk, st.fd, st.rs.Pos(), st.X, st.Y)
			props := metaProps(fkey)
			if related != "" {
				out = append(out, withProps(okOb("RANGEIDX", key, c.Rel(st.rs.Pos()), related, true), props...))
			} else {
				out = append(out, withProps(violOb("RANGEIDX", key, c.Rel(st.ypos), fmt.Sprintf("%s indexes %s.Value with the component index of %s.Value at %s without having related their degrees: a %s of higher degree than %s runs past the end of %s.Value (panic), one of lower degree drops components", fkey, st.Y, st.X, c.Rel(st.ypos), st.X, st.Y, st.Y)), props...))
			}
			continue
		}
		// a helper: the loop is judged at each call from an API method of the package, with the arguments in place of the
		// helper's parameters (one level; a helper reached only through other helpers relies on what those established)
		if st.fd.Name.IsExported() {
			continue // an exported utility on Elements: its doc comment states that the receiver dictates the shape
		}
		if related := judge(st.pk, st.fd, st.rs.Pos(), st.X, st.Y); related != "" {
			continue
		}
		pidx := map[string]int{}
		k := 0
		for _, fl := range st.fd.Type.Params.List {
			for _, nm := range fl.Names {
				pidx[nm.Name] = k
				k++
			}
		}
		xi, okx := pidx[st.X]
		yi, oky := pidx[st.Y]
		if !okx || !oky {
			continue
		}
		hobj := st.pk.TypesInfo.Defs[st.fd.Name]
		for _, f2 := range st.pk.Syntax {
			for _, d2 := range f2.Decls {
				cd, ok := d2.(*ast.FuncDecl)
				if !ok || cd.Body == nil || cd == st.fd || fileIsTestSupport(c.Program, cd.Pos()) {
					continue
				}
				if !(c.IsFixture && !strings.HasPrefix(cd.Name.Name, "rangeIdxHelper") || (cd.Recv != nil && cd.Name.IsExported() && immutRecv.MatchString(core.RecvTypeName(cd)))) {
					continue
				}
				ckey := core.FuncKey(st.pk, cd)
				seen := 0
				ast.Inspect(cd.Body, func(x ast.Node) bool {
					call, ok := x.(*ast.CallExpr)
					if !ok || len(call.Args) != k {
						return true
					}
					if hf := calleeFunc(st.pk.TypesInfo, call); hf == nil || types.Object(funcOrigin(hf)) != hobj {
						return true
					}
					X, Y := exprString(unparen(call.Args[xi])), exprString(unparen(call.Args[yi]))
					if X == Y {
						return true
					}
					n++
					seen++
					key := fmt.Sprintf("RANGEIDX:%s#%s(range(%s.Value)->%s.Value)#%d", ckey, st.fd.Name.Name, X, Y, seen)
					related := judge(st.pk, cd, call.Pos(), X, Y)
					props := metaProps(ckey)
					if related != "" {
						out = append(out, withProps(okOb("RANGEIDX", key, c.Rel(call.Pos()), related+" (loop in the helper "+st.fd.Name.Name+")", true), props...))
					} else {
						out = append(out, withProps(violOb("RANGEIDX", key, c.Rel(call.Pos()), fmt.Sprintf("%s hands %s and %s to %s, which indexes %s.Value with the component index of %s.Value at %s, without having related their degrees: a %s of higher degree than %s runs past the end of %s.Value (panic), one of lower degree drops components", ckey, X, Y, st.fd.Name.Name, Y, X, c.Rel(st.ypos), X, Y, Y)), props...))
					}
					return true
				})
			}
		}
	}
	c.Stats["rangeidx_sites"] = n
	return out
}

func init() {
	all := []string{"C04", "C05", "C06", "C09", "C11", "C12", "C13", "C16", "C20"}
	core.Register(&core.Rule{Name: "RANGEIDX", Props: all,
		Doc: "a loop over the components of one element that indexes another element's components with the same index is preceded by something relating the two degrees (Resize to the other's degree, a test of both degrees, InitOutput, construction with the other's degree)",
		Run: func(c *core.Ctx) []ob {
			out := scanRangeIdx(c)
			for _, o := range core.Floor("RANGEIDX", nil, "cross-element component loops", c.Stats["rangeidx_sites"], 3) {
				out = append(out, withProps(o, all...))
			}
			for _, o := range control(c, "RANGEIDX", scanRangeIdx, "(fixEvaluator).Halves#", "(fixEvaluator).HalvesVia#rangeIdxHelperHalve") {
				out = append(out, withProps(o, all...))
			}
			return out
		}})
}

// ---- ROUNDBITS
//
// The number of base-2^w digits of a gadget decomposition has to cover every bit of the modulus: it is
// ceil(bitlen(q)/w). A count derived from round(log2 q) is one bit short for every prime just above a power of two
// (log2 q = k + 0.3 rounds to k, bitlen is k+1); when w divides k the top bit of the decomposed value is then never
// multiplied by a key component and the key switch returns garbage. The rule follows static callees from every
// function that computes a digit/vector size and rejects a dependence on math.Round(math.Log2(..)).
func scanRoundBits(c *core.Ctx) []ob {
	var out []ob
	type fnInfo struct {
		pk      *packages.Package
		fd      *ast.FuncDecl
		rounds  token.Pos
		callees []*types.Func
	}
	fns := map[*types.Func]*fnInfo{}
	c.FuncDecls(func(pk *packages.Package, file *ast.File, fd *ast.FuncDecl) {
		if fd.Body == nil || fileIsTestSupport(c.Program, fd.Pos()) || inExamples(pk) {
			return
		}
		f, _ := pk.TypesInfo.Defs[fd.Name].(*types.Func)
		if f == nil {
			return
		}
		fi := &fnInfo{pk: pk, fd: fd}
		info := pk.TypesInfo
		ast.Inspect(fd.Body, func(x ast.Node) bool {
			call, ok := x.(*ast.CallExpr)
			if !ok {
				return true
			}
			if g := calleeFunc(info, call); g != nil {
				if g.Pkg() != nil && g.Pkg().Path() == "math" && g.Name() == "Round" && len(call.Args) == 1 {
					if inner, ok := unparen(call.Args[0]).(*ast.CallExpr); ok {
						if h := calleeFunc(info, inner); h != nil && h.Pkg() != nil && h.Pkg().Path() == "math" && h.Name() == "Log2" {
							fi.rounds = call.Pos()
						}
					}
				}
				if g.Pkg() != nil && strings.HasPrefix(g.Pkg().Path(), core.ModPath) {
					fi.callees = append(fi.callees, funcOrigin(g))
				}
			}
			return true
		})
		fns[f] = fi
	})
	n := 0
	var roots []*types.Func
	for f := range fns {
		roots = append(roots, f)
	}
	sort.Slice(roots, func(i, j int) bool { return roots[i].Pos() < roots[j].Pos() })
	for _, f := range roots {
		fi := fns[f]
		nm := f.Name()
		// digit counts, and the validation of the size of the moduli (61 bits is a bit length, not a rounded logarithm)
		if !(strings.Contains(nm, "DecompositionVectorSize") || strings.Contains(nm, "VectorSize") || strings.Contains(nm, "NumDigits") || nm == "CheckModuli") {
			continue
		}
		n++
		fkey := core.FuncKey(fi.pk, fi.fd)
		seen := map[*types.Func]bool{}
		var path []string
		var hit string
		var walk func(g *types.Func, depth int) bool
		walk = func(g *types.Func, depth int) bool {
			if seen[g] || depth > 6 {
				return false
			}
			seen[g] = true
			gi := fns[g]
			if gi == nil {
				return false
			}
			path = append(path, g.Name())
			if gi.rounds != token.NoPos {
				hit = c.Rel(gi.rounds)
				return true
			}
			for _, h := range gi.callees {
				if walk(h, depth+1) {
					return true
				}
			}
			path = path[:len(path)-1]
			return false
		}
		key := "ROUNDBITS:" + fkey
		if walk(f, 0) {
			out = append(out, violOb("ROUNDBITS", key, hit, fmt.Sprintf("%s derives a digit count from math.Round(math.Log2(q)) (%s, at %s): for a prime just above a power of two this is one bit less than its bit length, and the top bit of the decomposed value is dropped whenever the digit width divides the rounded size", fkey, strings.Join(path, " -> "), hit)))
		} else {
			out = append(out, okOb("ROUNDBITS", key, c.Rel(fi.fd.Pos()), "no dependence on a rounded logarithm", true))
		}
	}
	c.Stats["roundbits_funcs"] = n
	return out
}

func init() {
	core.Register(&core.Rule{Name: "ROUNDBITS", Props: []string{"C04", "C14", "C19", "C20"},
		Doc: "no function that computes a decomposition vector size / digit count depends (through static callees) on math.Round(math.Log2(q)): digit counts must cover the bit length of the modulus",
		Run: func(c *core.Ctx) []ob {
			out := scanRoundBits(c)
			out = append(out, core.Floor("ROUNDBITS", nil, "digit-count functions", c.Stats["roundbits_funcs"], 3)...)
			out = append(out, control(c, "ROUNDBITS", scanRoundBits, "digitsVectorSize")...)
			return out
		}})
}

// ---- SAMPLEF
//
// The sampler kernels (`read(pol, f)`, `sample(pol, f)`) are shared by Read and ReadAndAdd: the combining function f
// decides whether the drawn value replaces the coefficient (Read: f(a,b,q) = b) or is added to it (ReadAndAdd:
// f(a,b,q) = a+b mod q). Every store into a coefficient of the target therefore has to go through f applied to that
// same coefficient; a plain store (`coeffs[k][i] = 0` for the positions a sparse ternary sample leaves empty) is right
// for Read and destroys the accumulator under ReadAndAdd.
func scanSampleF(c *core.Ctx) []ob {
	var out []ob
	n := 0
	c.FuncDecls(func(pk *packages.Package, file *ast.File, fd *ast.FuncDecl) {
		rel := core.ShortPkg(pk.PkgPath)
		if fd.Body == nil || fileIsTestSupport(c.Program, fd.Pos()) || !(c.IsFixture || rel == "ring") {
			return
		}
		info := pk.TypesInfo
		// a parameter f func(a, b, c uint64) uint64
		var fobj types.Object
		if fd.Type.Params != nil {
			for _, fl := range fd.Type.Params.List {
				for _, nm := range fl.Names {
					o := info.Defs[nm]
					if o == nil {
						continue
					}
					if sg, ok := o.Type().Underlying().(*types.Signature); ok && sg.Params().Len() == 3 && sg.Results().Len() == 1 {
						fobj = o
					}
				}
			}
		}
		if fobj == nil {
			return
		}
		fkey := core.FuncKey(pk, fd)
		// only kernels that also take the target polynomial
		hasPoly := false
		if fn, ok := info.Defs[fd.Name].(*types.Func); ok {
			sg := fn.Type().(*types.Signature)
			for i := 0; i < sg.Params().Len(); i++ {
				if polyish(sg.Params().At(i).Type()) {
					hasPoly = true
				}
			}
		}
		if !hasPoly {
			return
		}
		ord := 0
		// the target polynomial is only written through f: a whole-polynomial pass over it afterwards
		// (a domain conversion, a reduction) would also rewrite what f combined the samples with
		polyParams := map[types.Object]bool{}
		if fn, ok := info.Defs[fd.Name].(*types.Func); ok {
			sg := fn.Type().(*types.Signature)
			for i := 0; i < sg.Params().Len(); i++ {
				if polyish(sg.Params().At(i).Type()) {
					polyParams[sg.Params().At(i)] = true
				}
			}
		}
		eff := effFor(c)
		ast.Inspect(fd.Body, func(x ast.Node) bool {
			call, ok := x.(*ast.CallExpr)
			if !ok {
				return true
			}
			for _, cf := range eff.callees(info, call) {
				sm := eff.sums[cf]
				if sm == nil {
					continue
				}
				for ai, a := range call.Args {
					if sm.wParams[ai] && polyParams[identObj(info, a)] {
						n++
						key := fmt.Sprintf("SAMPLEF:%s#call(%s)", fkey, cf.Name())
						out = append(out, violOb("SAMPLEF", key, c.Rel(call.Pos()), fmt.Sprintf("%s passes its target polynomial %s to %s, which rewrites it as a whole, although the samples are combined with the previous content through %s: under ReadAndAdd the previous content is transformed as well", fkey, exprString(a), cf.Name(), fobj.Name())))
					}
				}
			}
			return true
		})
		ast.Inspect(fd.Body, func(x ast.Node) bool {
			as, ok := x.(*ast.AssignStmt)
			if !ok || len(as.Lhs) != 1 || len(as.Rhs) != 1 {
				return true
			}
			ix, ok := unparen(as.Lhs[0]).(*ast.IndexExpr)
			if !ok {
				return true
			}
			inner, ok := unparen(ix.X).(*ast.IndexExpr)
			if !ok {
				return true
			}
			// a [][]uint64 coefficient matrix (pol.Coeffs or a local bound to it)
			t := info.TypeOf(inner.X)
			sl, ok := t.Underlying().(*types.Slice)
			if !ok {
				return true
			}
			if _, ok := sl.Elem().Underlying().(*types.Slice); !ok {
				return true
			}
			ord++
			n++
			key := fmt.Sprintf("SAMPLEF:%s#%s", fkey, exprString(as.Lhs[0]))
			good := false
			if call, ok := unparen(as.Rhs[0]).(*ast.CallExpr); ok && len(call.Args) == 3 {
				if id, ok := unparen(call.Fun).(*ast.Ident); ok && info.Uses[id] == fobj && exprString(call.Args[0]) == exprString(as.Lhs[0]) {
					good = true
				}
			}
			if good {
				out = append(out, okOb("SAMPLEF", key, c.Rel(as.Pos()), "stored through the combining function applied to the same coefficient", true))
			} else {
				out = append(out, violOb("SAMPLEF", key, c.Rel(as.Pos()), fmt.Sprintf("%s stores %s into %s without going through its combining function %s: under ReadAndAdd the coefficient is overwritten instead of being added to", fkey, exprString(as.Rhs[0]), exprString(as.Lhs[0]), fobj.Name())))
			}
			return true
		})
	})
	c.Stats["samplef_stores"] = n
	return out
}

func init() {
	core.Register(&core.Rule{Name: "SAMPLEF", Props: []string{"C17", "C03"},
		Doc: "in the sampler kernels shared by Read and ReadAndAdd (functions taking the target polynomial and a combining function f), every store into a coefficient goes through f applied to that same coefficient",
		Run: func(c *core.Ctx) []ob {
			out := scanSampleF(c)
			out = append(out, core.Floor("SAMPLEF", nil, "coefficient stores in sampler kernels", c.Stats["samplef_stores"], 4)...)
			out = append(out, control(c, "SAMPLEF", scanSampleF, "sampleBad")...)
			return out
		}})
}

// ---- RECPROGRESS
//
// A function that recurses on the rest of a slice (`F(r, c[k:])`) terminates only if k > 0 on every path to the
// recursive call. The codec helpers fill a slice from a buffered reader in chunks and recurse on what is left; when
// fewer bytes than one element are available the chunk is empty, and without a test of k the call recurses on the
// same slice forever (a truncated input then kills the process with a stack overflow instead of returning an error).
func scanRecProgress(c *core.Ctx) []ob {
	var out []ob
	n := 0
	c.FuncDecls(func(pk *packages.Package, file *ast.File, fd *ast.FuncDecl) {
		if fd.Body == nil || fileIsTestSupport(c.Program, fd.Pos()) || inExamples(pk) {
			return
		}
		info := pk.TypesInfo
		self, _ := info.Defs[fd.Name].(*types.Func)
		if self == nil {
			return
		}
		fkey := core.FuncKey(pk, fd)
		ast.Inspect(fd.Body, func(x ast.Node) bool {
			call, ok := x.(*ast.CallExpr)
			if !ok {
				return true
			}
			if f := calleeFunc(info, call); f == nil || funcOrigin(f) != funcOrigin(self) {
				return true
			}
			for _, a := range call.Args {
				se, ok := unparen(a).(*ast.SliceExpr)
				if !ok || se.Low == nil || se.High != nil {
					continue
				}
				kid, ok := unparen(se.Low).(*ast.Ident)
				if !ok {
					continue
				}
				kobj := info.Uses[kid]
				n++
				key := fmt.Sprintf("RECPROGRESS:%s#%s", fkey, exprString(a))
				// a test of k against 0 somewhere before the call (k == 0, k > 0, k < 1, k != 0)
				tested := false
				ast.Inspect(fd.Body, func(y ast.Node) bool {
					is, ok := y.(*ast.IfStmt)
					if !ok || is.Pos() >= call.Pos() {
						return true
					}
					ast.Inspect(is.Cond, func(z ast.Node) bool {
						be, ok := z.(*ast.BinaryExpr)
						if !ok {
							return true
						}
						for _, pr := range [][2]ast.Expr{{be.X, be.Y}, {be.Y, be.X}} {
							id, ok := unparen(pr[0]).(*ast.Ident)
							if !ok || info.Uses[id] != kobj {
								continue
							}
							if lit, ok := unparen(pr[1]).(*ast.BasicLit); ok && (lit.Value == "0" || lit.Value == "1") {
								tested = true
							}
						}
						return true
					})
					return true
				})
				if !tested {
					// k comes from a helper of the package that only returns it without an error when it is non-zero
					// (`k, err = room(w, …)` with `if k = …; k != 0 { return k, nil }` … `return 0, err`)
					ast.Inspect(fd.Body, func(y ast.Node) bool {
						as, ok := y.(*ast.AssignStmt)
						if !ok || as.Pos() >= call.Pos() || len(as.Rhs) != 1 || len(as.Lhs) < 1 || identObj(info, as.Lhs[0]) != kobj {
							return true
						}
						hc, ok := unparen(as.Rhs[0]).(*ast.CallExpr)
						if !ok {
							return true
						}
						hf := calleeFunc(info, hc)
						if hf == nil || hf.Pkg() != pk.Types {
							return true
						}
						for _, f2 := range pk.Syntax {
							for _, d2 := range f2.Decls {
								hd, ok := d2.(*ast.FuncDecl)
								if !ok || hd.Body == nil || info.Defs[hd.Name] != types.Object(funcOrigin(hf)) {
									continue
								}
								// every return of the helper with a nil error returns a value tested non-zero just before
								okAll, any := true, false
								pmH := parentMap(hd.Body)
								ast.Inspect(hd.Body, func(z ast.Node) bool {
									ret, ok := z.(*ast.ReturnStmt)
									if !ok || len(ret.Results) < 2 {
										return true
									}
									if !isNilIdent(ret.Results[len(ret.Results)-1]) {
										return true // failing return
									}
									any = true
									guarded := false
									for _, h := range holdsAt(pmH, ret) {
										if be, ok := unparen(h.cond).(*ast.BinaryExpr); ok && h.pos && be.Op == token.NEQ {
											if tv, ok := info.Types[be.Y]; ok && tv.Value != nil && tv.Value.ExactString() == "0" && exprString(be.X) == exprString(ret.Results[0]) {
												guarded = true
											}
										}
									}
									if !guarded {
										okAll = false
									}
									return true
								})
								if any && okAll {
									tested = true
								}
							}
						}
						return true
					})
				}
				if tested {
					out = append(out, okOb("RECPROGRESS", key, c.Rel(call.Pos()), "the chunk size is tested against zero before recursing", true))
				} else {
					out = append(out, violOb("RECPROGRESS", key, c.Rel(call.Pos()), fmt.Sprintf("%s recurses on %s without ever testing %s against zero: when no element could be consumed the call recurses on the same slice forever (stack overflow on a truncated input)", fkey, exprString(a), kid.Name)))
				}
			}
			return true
		})
	})
	c.Stats["recprogress_sites"] = n
	return out
}

func init() {
	core.Register(&core.Rule{Name: "RECPROGRESS", Props: []string{"C08"},
		Doc: "a function that recurses on the rest of a slice (F(.., c[k:])) tests k against zero before the recursive call, so that the recursion makes progress",
		Run: func(c *core.Ctx) []ob {
			out := scanRecProgress(c)
			out = append(out, core.Floor("RECPROGRESS", nil, "self-recursive calls on a slice tail", c.Stats["recprogress_sites"], 3)...)
			out = append(out, control(c, "RECPROGRESS", scanRecProgress, "fillAll")...)
			return out
		}})
}

// ---- FIELDUNSET
//
// An unexported struct field that some function reads but no code of the module ever assigns (no assignment, no
// composite-literal key, no address taken, no pointer-receiver method called on it, no positional literal of its
// struct) always holds its zero value: an accessor built on it (`Key()` returning a copy of `prng.key`) returns
// nothing. Such a field is a forgotten store.
func scanFieldUnset(c *core.Ctx) []ob {
	var out []ob
	type fstat struct {
		reads, writes int
		readPos       token.Pos
		owner         string
	}
	stats := map[*types.Var]*fstat{}
	get := func(v *types.Var) *fstat {
		v = fieldOrigin(v)
		s := stats[v]
		if s == nil {
			s = &fstat{}
			stats[v] = s
		}
		return s
	}
	positional := map[*types.Struct]bool{}
	wholeAssigned := map[types.Type]bool{}
	for _, pk := range c.Pkgs {
		if inExamples(pk) {
			continue
		}
		info := pk.TypesInfo
		for _, file := range pk.Syntax {
			if core.IsTestSupportFile(c.RelFile(file.Pos())) {
				continue
			}
			pm := parentMap(file)
			ast.Inspect(file, func(x ast.Node) bool {
				switch v := x.(type) {
				case *ast.CompositeLit:
					st := structOf(info.TypeOf(v))
					if st == nil {
						return true
					}
					for i, el := range v.Elts {
						if kv, ok := el.(*ast.KeyValueExpr); ok {
							if id, ok := kv.Key.(*ast.Ident); ok {
								if f, ok := info.Uses[id].(*types.Var); ok && f.IsField() {
									get(f).writes++
								}
							}
						} else if i < st.NumFields() {
							get(st.Field(i)).writes++
							positional[st] = true
						}
					}
				case *ast.SelectorExpr:
					sel := info.Selections[v]
					if sel == nil || sel.Kind() != types.FieldVal {
						return true
					}
					f, ok := sel.Obj().(*types.Var)
					if !ok {
						return true
					}
					s := get(f)
					// classify the use
					var node ast.Node = v
					parent := pm[node]
					for {
						if p, ok := parent.(*ast.ParenExpr); ok {
							node, parent = p, pm[p]
							continue
						}
						break
					}
					write := false
					switch p := parent.(type) {
					case *ast.IndexExpr:
						// x.F[i] = v : an element of an array field is part of the field itself
						if p.X == node {
							if _, isArr := f.Type().Underlying().(*types.Array); isArr {
								var n2 ast.Node = p
								par2 := pm[n2]
								if as, ok := par2.(*ast.AssignStmt); ok {
									for _, l := range as.Lhs {
										if l == n2 {
											write = true
										}
									}
								}
							}
						}
					case *ast.AssignStmt:
						for _, l := range p.Lhs {
							if l == node {
								write = true
							}
						}
					case *ast.IncDecStmt:
						write = true
					case *ast.UnaryExpr:
						if p.Op == token.AND {
							write = true
						}
					case *ast.SelectorExpr:
						// method call with a pointer receiver on an addressable field: may store into it
						if ms := info.Selections[p]; ms != nil && ms.Kind() == types.MethodVal {
							if sg, ok := ms.Obj().Type().(*types.Signature); ok && sg.Recv() != nil {
								if _, isPtr := sg.Recv().Type().(*types.Pointer); isPtr {
									if _, fieldIsPtr := f.Type().(*types.Pointer); !fieldIsPtr {
										write = true
									}
								}
							}
						}
					case *ast.RangeStmt:
						if p.Key == node || p.Value == node {
							write = true
						}
					}
					if write {
						s.writes++
					} else {
						s.reads++
						if s.readPos == token.NoPos {
							s.readPos = v.Pos()
						}
					}
				case *ast.AssignStmt:
					// *x = T{...} / x = y of a struct type assigns every field
					for _, l := range v.Lhs {
						if t := info.TypeOf(l); t != nil {
							if _, ok := t.Underlying().(*types.Struct); ok {
								wholeAssigned[t] = true
							}
						}
					}
				}
				return true
			})
		}
	}
	n := 0
	for _, pk := range c.Pkgs {
		if inExamples(pk) {
			continue
		}
		scope := pk.Types.Scope()
		for _, nm := range scope.Names() {
			tn, ok := scope.Lookup(nm).(*types.TypeName)
			if !ok {
				continue
			}
			st, ok := tn.Type().Underlying().(*types.Struct)
			if !ok {
				continue
			}
			if core.IsTestSupportFile(c.RelFile(tn.Pos())) {
				continue
			}
			for i := 0; i < st.NumFields(); i++ {
				f := st.Field(i)
				if f.Exported() || f.Embedded() || f.Name() == "_" {
					continue
				}
				s := stats[fieldOrigin(f)]
				if s == nil || s.reads == 0 {
					continue
				}
				n++
				key := fmt.Sprintf("FIELDUNSET:%s.%s.%s", core.ShortPkg(pk.PkgPath), tn.Name(), f.Name())
				if s.writes > 0 || wholeAssigned[tn.Type()] || wholeAssigned[types.NewPointer(tn.Type())] {
					out = append(out, okOb("FIELDUNSET", key, c.Rel(f.Pos()), "assigned somewhere in the module", true))
					continue
				}
				// decoders that fill the struct through reflection / whole-value assignment are rare here; unsafe none
				out = append(out, violOb("FIELDUNSET", key, c.Rel(s.readPos), fmt.Sprintf("field %s.%s is read at %s but never assigned anywhere in the module: it always holds its zero value, so whatever is computed from it is empty", tn.Name(), f.Name(), c.Rel(s.readPos))))
			}
		}
	}
	c.Stats["fieldunset_fields"] = n
	return out
}

func init() {
	all := []string{"C17", "C10", "C08"}
	core.Register(&core.Rule{Name: "FIELDUNSET", Props: all,
		Doc: "every unexported struct field that is read somewhere is assigned somewhere in the module (assignment, literal key, address taken, pointer-receiver method call, or whole-struct assignment)",
		Run: func(c *core.Ctx) []ob {
			out := scanFieldUnset(c)
			out = append(out, core.Floor("FIELDUNSET", nil, "unexported fields that are read", c.Stats["fieldunset_fields"], 150)...)
			out = append(out, control(c, "FIELDUNSET", scanFieldUnset, "Unset.k")...)
			return out
		}})
}

// ---- SIGNBOUND
//
// Rejection sampling of a two-sided distribution compares the magnitude with the bound. Once the sign has been folded
// into a big.Int draw (`v.Mul(v, ±1)`), `v.Cmp(bound) < 1` accepts every negative draw whatever its size: the test has
// to be `CmpAbs`, or has to come before the sign is applied.
func scanSignBound(c *core.Ctx) []ob {
	var out []ob
	n := 0
	c.FuncDecls(func(pk *packages.Package, file *ast.File, fd *ast.FuncDecl) {
		rel := core.ShortPkg(pk.PkgPath)
		if fd.Body == nil || fileIsTestSupport(c.Program, fd.Pos()) || !(c.IsFixture || rel == "ring" || strings.HasPrefix(rel, "utils/")) {
			return
		}
		info := pk.TypesInfo
		fkey := core.FuncKey(pk, fd)
		// big.Int variables that received a sign factor: v.Mul(v, E) / v.Neg(v) with E mentioning a variable named *sign*
		signedAt := map[types.Object]token.Pos{}
		ast.Inspect(fd.Body, func(x ast.Node) bool {
			call, ok := x.(*ast.CallExpr)
			if !ok {
				return true
			}
			sel, ok := unparen(call.Fun).(*ast.SelectorExpr)
			if !ok || !isBigNumber(deref(info.TypeOf(sel.X))) {
				return true
			}
			id, ok := unparen(sel.X).(*ast.Ident)
			if !ok {
				return true
			}
			mentionsSign := false
			for _, a := range call.Args {
				ast.Inspect(a, func(y ast.Node) bool {
					if sid, ok := y.(*ast.Ident); ok && strings.Contains(strings.ToLower(sid.Name), "sign") {
						mentionsSign = true
					}
					return true
				})
			}
			if (sel.Sel.Name == "Mul" && mentionsSign) || sel.Sel.Name == "Neg" {
				if _, seen := signedAt[info.Uses[id]]; !seen {
					signedAt[info.Uses[id]] = call.Pos()
				}
			}
			return true
		})
		ast.Inspect(fd.Body, func(x ast.Node) bool {
			call, ok := x.(*ast.CallExpr)
			if !ok || len(call.Args) != 1 {
				return true
			}
			sel, ok := unparen(call.Fun).(*ast.SelectorExpr)
			if !ok || (sel.Sel.Name != "Cmp" && sel.Sel.Name != "CmpAbs") || !isBigNumber(deref(info.TypeOf(sel.X))) {
				return true
			}
			if !strings.Contains(strings.ToLower(exprString(call.Args[0])), "bound") {
				return true
			}
			id, ok := unparen(sel.X).(*ast.Ident)
			if !ok {
				return true
			}
			n++
			key := fmt.Sprintf("SIGNBOUND:%s#%s.%s(%s)", fkey, id.Name, "Cmp", exprString(call.Args[0]))
			sp, signed := signedAt[info.Uses[id]]
			if sel.Sel.Name == "Cmp" && signed && sp < call.Pos() {
				out = append(out, violOb("SIGNBOUND", key, c.Rel(call.Pos()), fmt.Sprintf("%s applies the sign to %s at %s and then compares it with %s using Cmp: every negative draw passes the rejection test whatever its magnitude", fkey, id.Name, c.Rel(sp), exprString(call.Args[0]))))
			} else {
				out = append(out, okOb("SIGNBOUND", key, c.Rel(call.Pos()), "the bound test is on the magnitude", true))
			}
			return true
		})
	})
	c.Stats["signbound_sites"] = n
	return out
}

func init() {
	core.Register(&core.Rule{Name: "SIGNBOUND", Props: []string{"C17"},
		Doc: "a big-integer draw is compared with its bound by magnitude (CmpAbs) or before the sign factor is applied, never with Cmp after v.Mul(v, ±1)",
		Run: func(c *core.Ctx) []ob {
			out := scanSignBound(c)
			out = append(out, core.Floor("SIGNBOUND", nil, "bound tests of big-integer draws", c.Stats["signbound_sites"], 1)...)
			out = append(out, control(c, "SIGNBOUND", scanSignBound, "drawSigned")...)
			return out
		}})
}

// ---- PEEKRETAIN
//
// The bytes returned by Peek (bufio.Reader, buffer.Reader) are a window into the reader's internal buffer: they "stop
// being valid at the next read call". A decoder may copy out of them, convert them to integers, or hand them to a
// function that does; it must not keep them — stored in a field, converted to an array pointer that is stored,
// returned — because the next read overwrites what the object now points to.
func scanPeekRetain(c *core.Ctx) []ob {
	var out []ob
	n := 0
	c.FuncDecls(func(pk *packages.Package, file *ast.File, fd *ast.FuncDecl) {
		if fd.Body == nil || fileIsTestSupport(c.Program, fd.Pos()) || inExamples(pk) {
			return
		}
		info := pk.TypesInfo
		fkey := core.FuncKey(pk, fd)
		peeked := map[types.Object]token.Pos{}
		ast.Inspect(fd.Body, func(x ast.Node) bool {
			as, ok := x.(*ast.AssignStmt)
			if !ok || len(as.Rhs) != 1 {
				return true
			}
			call, ok := unparen(as.Rhs[0]).(*ast.CallExpr)
			if !ok {
				return true
			}
			sel, ok := unparen(call.Fun).(*ast.SelectorExpr)
			if !ok || sel.Sel.Name != "Peek" || len(as.Lhs) == 0 {
				return true
			}
			if id, ok := unparen(as.Lhs[0]).(*ast.Ident); ok && id.Name != "_" {
				o := info.Defs[id]
				if o == nil {
					o = info.Uses[id]
				}
				if o != nil {
					peeked[o] = as.Pos()
				}
			}
			return true
		})
		if len(peeked) == 0 {
			return
		}
		// a view of a peeked slice: the variable, a reslice, a conversion to an array pointer
		var isView func(e ast.Expr) types.Object
		isView = func(e ast.Expr) types.Object {
			switch v := unparen(e).(type) {
			case *ast.Ident:
				if _, ok := peeked[info.Uses[v]]; ok {
					return info.Uses[v]
				}
			case *ast.SliceExpr:
				return isView(v.X)
			case *ast.CallExpr:
				if tv, ok := info.Types[v.Fun]; ok && tv.IsType() && len(v.Args) == 1 {
					// conversion: to string copies; to []byte or *[N]byte does not
					if b, ok := tv.Type.Underlying().(*types.Basic); ok && b.Kind() == types.String {
						return nil
					}
					return isView(v.Args[0])
				}
			case *ast.UnaryExpr:
				if v.Op == token.AND {
					if ix, ok := unparen(v.X).(*ast.IndexExpr); ok {
						return isView(ix.X)
					}
				}
			}
			return nil
		}
		for o, pos := range peeked {
			n++
			key := fmt.Sprintf("PEEKRETAIN:%s#%s", fkey, o.Name())
			bad, badPos := "", token.NoPos
			ast.Inspect(fd.Body, func(x ast.Node) bool {
				if bad != "" {
					return false
				}
				switch v := x.(type) {
				case *ast.AssignStmt:
					if len(v.Lhs) != len(v.Rhs) {
						return true
					}
					for i, l := range v.Lhs {
						if isView(v.Rhs[i]) != o {
							continue
						}
						switch unparen(l).(type) {
						case *ast.SelectorExpr, *ast.IndexExpr, *ast.StarExpr:
							bad, badPos = fmt.Sprintf("stored into %s", exprString(l)), v.Pos()
						case *ast.Ident:
							// a local alias: track it too
							if id := unparen(l).(*ast.Ident); id.Name != "_" {
								lo := info.Defs[id]
								if lo == nil {
									lo = info.Uses[id]
								}
								if lo != nil && lo != o {
									if _, seen := peeked[lo]; !seen {
										// aliases are checked as views of the same window
										peeked[lo] = v.Pos()
									}
								}
							}
						}
					}
				case *ast.ReturnStmt:
					for _, r := range v.Results {
						if isView(r) == o {
							bad, badPos = "returned to the caller", v.Pos()
						}
					}
				case *ast.CompositeLit:
					for _, el := range v.Elts {
						e := el
						if kv, ok := el.(*ast.KeyValueExpr); ok {
							e = kv.Value
						}
						if isView(e) == o {
							bad, badPos = "placed in a composite literal", v.Pos()
						}
					}
				}
				return true
			})
			if bad == "" {
				out = append(out, okOb("PEEKRETAIN", key, c.Rel(pos), "the peeked bytes are consumed (copied or decoded), not kept", true))
			} else {
				out = append(out, violOb("PEEKRETAIN", key, c.Rel(badPos), fmt.Sprintf("%s keeps the bytes returned by Peek (%s, %s): they are a window into the reader's buffer and are overwritten by the next read, so the decoded object changes under its owner (a second object read from the same stream, or a reused input slice, rewrites it)", fkey, bad, c.Rel(badPos))))
			}
		}
	})
	c.Stats["peek_sites"] = n
	return out
}

func init() {
	core.Register(&core.Rule{Name: "PEEKRETAIN", Props: []string{"C08"},
		Doc: "the bytes returned by a reader's Peek are copied or decoded, never stored in a field, placed in a literal, converted to a retained array pointer or returned",
		Run: func(c *core.Ctx) []ob {
			out := scanPeekRetain(c)
			out = append(out, core.Floor("PEEKRETAIN", nil, "Peek sites", c.Stats["peek_sites"], 8)...)
			out = append(out, control(c, "PEEKRETAIN", scanPeekRetain, "(Thing).readSeed")...)
			return out
		}})
}

// ---- FLAGORDER
//
// A masked transform `f` is described by {Decode, Func, Encode}: decode the mask if asked to, apply Func, re-encode if
// asked to. In every function that applies `t.Func(..)`, a step guarded by `t.Decode` comes before the call and a step
// guarded by `t.Encode` after it, and a guarded step that calls a Decode*/Encode* routine is guarded by the flag of
// the same name. GenShare and Transform of a protocol have to agree on this, otherwise the masks of the parties no
// longer cancel.
func scanFlagOrder(c *core.Ctx) []ob {
	var out []ob
	n := 0
	c.FuncDecls(func(pk *packages.Package, file *ast.File, fd *ast.FuncDecl) {
		if fd.Body == nil || fileIsTestSupport(c.Program, fd.Pos()) || inExamples(pk) {
			return
		}
		info := pk.TypesInfo
		fkey := core.FuncKey(pk, fd)
		// calls of a field named Func on something that also has Decode and Encode
		type app struct {
			base string
			pos  token.Pos
		}
		var apps []app
		ast.Inspect(fd.Body, func(x ast.Node) bool {
			call, ok := x.(*ast.CallExpr)
			if !ok {
				return true
			}
			sel, ok := unparen(call.Fun).(*ast.SelectorExpr)
			if !ok || sel.Sel.Name != "Func" {
				return true
			}
			st := structOf(info.TypeOf(sel.X))
			if st == nil {
				return true
			}
			has := map[string]bool{}
			for i := 0; i < st.NumFields(); i++ {
				has[st.Field(i).Name()] = true
			}
			if has["Decode"] && has["Encode"] {
				apps = append(apps, app{exprString(sel.X), call.Pos()})
			}
			return true
		})
		if len(apps) == 0 {
			return
		}
		for _, a := range apps {
			n++
			key := fmt.Sprintf("FLAGORDER:%s#%s.Func", fkey, a.base)
			var bad []string
			ast.Inspect(fd.Body, func(x ast.Node) bool {
				is, ok := x.(*ast.IfStmt)
				if !ok {
					return true
				}
				// the first flag mentioned positively in the condition
				flag := ""
				ast.Inspect(is.Cond, func(y ast.Node) bool {
					if flag != "" {
						return false
					}
					if u, ok := y.(*ast.UnaryExpr); ok && u.Op == token.NOT {
						return false
					}
					if s, ok := y.(*ast.SelectorExpr); ok && exprString(s.X) == a.base && (s.Sel.Name == "Decode" || s.Sel.Name == "Encode") {
						flag = s.Sel.Name
					}
					return true
				})
				if flag == "" {
					return true
				}
				// the guarded step contains the application itself (if t != nil { ... }): not a step
				if is.Body.Pos() <= a.pos && a.pos <= is.Body.End() {
					return true
				}
				if flag == "Decode" && is.Pos() > a.pos {
					bad = append(bad, fmt.Sprintf("the step guarded by %s.Decode at %s comes after %s.Func", a.base, c.Rel(is.Pos()), a.base))
				}
				if flag == "Encode" && is.Pos() < a.pos {
					bad = append(bad, fmt.Sprintf("the step guarded by %s.Encode at %s comes before %s.Func", a.base, c.Rel(is.Pos()), a.base))
				}
				for _, call := range callsIn(is.Body) {
					nm := calleeName(info, call)
					for _, w := range []string{"Decode", "Encode"} {
						if strings.HasPrefix(nm, w) && w != flag {
							bad = append(bad, fmt.Sprintf("%s is called under %s.%s at %s", nm, a.base, flag, c.Rel(call.Pos())))
						}
					}
				}
				return true
			})
			props := []string{"C16"}
			if len(bad) == 0 {
				out = append(out, withProps(okOb("FLAGORDER", key, c.Rel(a.pos), "decode step before, encode step after the transform, each under its own flag", true), props...))
			} else {
				out = append(out, withProps(violOb("FLAGORDER", key, c.Rel(a.pos), fmt.Sprintf("%s: %s — the share generation and the final transform no longer apply the same decode/encode steps, so the parties' masks do not cancel when Decode != Encode", fkey, strings.Join(bad, "; "))), props...))
			}
		}
	})
	c.Stats["flagorder_sites"] = n
	return out
}

func init() {
	core.Register(&core.Rule{Name: "FLAGORDER", Props: []string{"C16"},
		Doc: "where a masked transform {Decode, Func, Encode} is applied, the Decode-guarded step precedes Func, the Encode-guarded step follows it, and Decode*/Encode* routines are called under the flag of the same name",
		Run: func(c *core.Ctx) []ob {
			out := scanFlagOrder(c)
			out = append(out, core.Floor("FLAGORDER", nil, "applications of a masked transform", c.Stats["flagorder_sites"], 3)...)
			out = append(out, control(c, "FLAGORDER", scanFlagOrder, "applyX")...)
			return out
		}})
}

// ---- CODECSEQ
//
// WriteTo and ReadFrom of one type walk the same fields in the same order: the stream has no field tags, so the n-th
// thing written is the n-th thing read. The rule extracts, from each of the two methods, the sequence of top-level
// receiver fields in order of first use inside a write/read call (or, for the reader, first assignment), and demands
// that the writer's sequence is a subsequence-preserving match of the reader's: same fields, same relative order.
func codecFieldSeq(info *types.Info, fd *ast.FuncDecl, reader bool) []string {
	recv := recvObj(info, fd)
	if recv == nil {
		return nil
	}
	seen := map[string]bool{}
	var seq []string
	add := func(e ast.Expr) {
		// top-level field selected on the receiver
		cur := unparen(e)
		var first *ast.SelectorExpr
		for {
			switch v := cur.(type) {
			case *ast.SelectorExpr:
				first = v
				cur = unparen(v.X)
				continue
			case *ast.IndexExpr:
				cur = unparen(v.X)
				continue
			case *ast.StarExpr:
				cur = unparen(v.X)
				continue
			case *ast.UnaryExpr:
				cur = unparen(v.X)
				continue
			case *ast.CallExpr:
				if s, ok := unparen(v.Fun).(*ast.SelectorExpr); ok {
					cur = unparen(s.X)
					continue
				}
			}
			break
		}
		id, ok := cur.(*ast.Ident)
		if !ok || info.Uses[id] != recv || first == nil {
			return
		}
		if s := info.Selections[first]; s == nil || s.Kind() != types.FieldVal {
			return
		}
		name := first.Sel.Name
		if !seen[name] {
			seen[name] = true
			seq = append(seq, name)
		}
	}
	isIOCall := func(v *ast.CallExpr) bool {
		nm := strings.ToLower(calleeName(info, v))
		if strings.HasPrefix(nm, "write") || strings.HasPrefix(nm, "read") {
			return true
		}
		// a helper of another name that is handed the stream
		for _, a := range v.Args {
			if t := info.TypeOf(a); t != nil && (isWriterType(t) || isReaderType(t)) {
				return true
			}
		}
		return false
	}
	ast.Inspect(fd.Body, func(x ast.Node) bool {
		switch v := x.(type) {
		case *ast.RangeStmt:
			// a table of the fields walked by a loop that does the I/O: the rows give the order
			cl, _ := unparen(v.X).(*ast.CompositeLit)
			if cl == nil {
				if id, ok := unparen(v.X).(*ast.Ident); ok {
					if d := singleDefOf(info, fd, info.Uses[id]); d != nil {
						cl, _ = unparen(d).(*ast.CompositeLit)
					}
				}
			}
			if cl == nil {
				return true
			}
			doesIO := false
			ast.Inspect(v.Body, func(y ast.Node) bool {
				if c, ok := y.(*ast.CallExpr); ok && isIOCall(c) {
					doesIO = true
				}
				return !doesIO
			})
			if doesIO {
				ast.Inspect(cl, func(y ast.Node) bool {
					if se, ok := y.(*ast.SelectorExpr); ok {
						add(se)
						return false
					}
					return true
				})
			}
			return true
		case *ast.CallExpr:
			if !isIOCall(v) {
				return true
			}
			for _, a := range v.Args {
				add(a)
			}
			if s, ok := unparen(v.Fun).(*ast.SelectorExpr); ok {
				add(s.X)
			}
			// a method value kept in a local (`readMetaData := share.MetaData.ReadFrom` … `readMetaData(r)`)
			if id, ok := unparen(v.Fun).(*ast.Ident); ok {
				if d := singleDefOf(info, fd, info.Uses[id]); d != nil {
					if s, ok := unparen(d).(*ast.SelectorExpr); ok {
						add(s.X)
					}
				}
			}
		case *ast.AssignStmt:
			if reader {
				for _, l := range v.Lhs {
					add(l)
				}
			}
		}
		return true
	})
	return seq
}

func scanCodecSeq(c *core.Ctx) []ob {
	var out []ob
	type pair struct {
		pk   *packages.Package
		w, r *ast.FuncDecl
	}
	byType := map[string]*pair{}
	c.FuncDecls(func(pk *packages.Package, file *ast.File, fd *ast.FuncDecl) {
		if fd.Recv == nil || fd.Body == nil || fileIsTestSupport(c.Program, fd.Pos()) || inExamples(pk) {
			return
		}
		if fd.Name.Name != "WriteTo" && fd.Name.Name != "ReadFrom" {
			return
		}
		k := core.ShortPkg(pk.PkgPath) + "." + core.RecvTypeName(fd)
		p := byType[k]
		if p == nil {
			p = &pair{pk: pk}
			byType[k] = p
		}
		if fd.Name.Name == "WriteTo" {
			p.w = fd
		} else {
			p.r = fd
		}
	})
	n := 0
	for _, k := range sortedKeys(byType) {
		p := byType[k]
		if p.w == nil || p.r == nil {
			continue
		}
		ws := codecFieldSeq(p.pk.TypesInfo, p.w, false)
		rs := codecFieldSeq(p.pk.TypesInfo, p.r, true)
		if len(ws) < 2 {
			continue
		}
		n++
		key := "CODECSEQ:" + k
		// restrict both to the common fields, compare order; fields only on one side are reported too
		inW, inR := map[string]bool{}, map[string]bool{}
		for _, f := range ws {
			inW[f] = true
		}
		for _, f := range rs {
			inR[f] = true
		}
		var cw, cr, onlyW []string
		for _, f := range ws {
			if inR[f] {
				cw = append(cw, f)
			} else {
				onlyW = append(onlyW, f)
			}
		}
		for _, f := range rs {
			if inW[f] {
				cr = append(cr, f)
			}
		}
		same := len(cw) == len(cr)
		for i := range cw {
			if same && cw[i] != cr[i] {
				same = false
			}
		}
		switch {
		case len(onlyW) > 0:
			out = append(out, violOb("CODECSEQ", key, c.Rel(p.r.Pos()), fmt.Sprintf("%s.WriteTo emits %s, which ReadFrom never reads or assigns (writer order %v, reader order %v): everything after it in the stream is decoded from the wrong bytes", k, strings.Join(onlyW, ", "), ws, rs)))
		case !same:
			out = append(out, violOb("CODECSEQ", key, c.Rel(p.r.Pos()), fmt.Sprintf("%s writes its fields in the order %v but reads them in the order %v: the stream carries no tags, so the fields are decoded from each other's bytes", k, cw, cr)))
		default:
			out = append(out, okOb("CODECSEQ", key, c.Rel(p.w.Pos()), fmt.Sprintf("writer and reader walk %v in the same order", cw), true))
		}
	}
	c.Stats["codecseq_types"] = n
	return out
}

func init() {
	core.Register(&core.Rule{Name: "CODECSEQ", Props: []string{"C08"},
		Doc: "WriteTo and ReadFrom of a type use its fields in the same order, and every field WriteTo emits is read or assigned by ReadFrom",
		Run: func(c *core.Ctx) []ob {
			out := scanCodecSeq(c)
			out = append(out, core.Floor("CODECSEQ", nil, "types with a multi-field codec", c.Stats["codecseq_types"], 5)...)
			out = append(out, control(c, "CODECSEQ", scanCodecSeq, "lvfixture.Pair")...)
			return out
		}})
}

// ---- MULDEG
//
// Products of two ciphertexts are only defined when the degrees of the operands add up to at most 2: the tensoring
// code has exactly three output components. Every multiplication entry point obtains its output shape from
// InitOutputBinaryOp with the constant bound 2, which is what turns "operand degree too high" into an error. Passing
// op0.Degree()+op1.Degree() (the bound used by additions) accepts any operands and the tensoring then indexes past
// its buffers or drops components.
func scanMulDeg(c *core.Ctx) []ob {
	var out []ob
	n := 0
	c.FuncDecls(func(pk *packages.Package, file *ast.File, fd *ast.FuncDecl) {
		rel := core.ShortPkg(pk.PkgPath)
		if fd.Body == nil || fd.Recv == nil || !strings.HasPrefix(rel, "schemes/") || fileIsTestSupport(c.Program, fd.Pos()) {
			return
		}
		if !(strings.HasPrefix(fd.Name.Name, "Mul") || strings.HasPrefix(fd.Name.Name, "mul")) {
			return
		}
		info := pk.TypesInfo
		fkey := core.FuncKey(pk, fd)
		ord := 0
		ast.Inspect(fd.Body, func(x ast.Node) bool {
			call, ok := x.(*ast.CallExpr)
			if !ok || calleeName(info, call) != "InitOutputBinaryOp" || len(call.Args) != 4 {
				return true
			}
			ord++
			n++
			key := fmt.Sprintf("MULDEG:%s#%d", fkey, ord)
			props := metaProps(fkey)
			if tv, ok := info.Types[call.Args[2]]; ok && tv.Value != nil && tv.Value.ExactString() == "2" {
				out = append(out, withProps(okOb("MULDEG", key, c.Rel(call.Pos()), "output shape requested with the constant degree bound 2", true), props...))
			} else {
				out = append(out, withProps(violOb("MULDEG", key, c.Rel(call.Pos()), fmt.Sprintf("%s asks InitOutputBinaryOp for the degree bound %s instead of the constant 2: operands whose degrees add up to more than 2 are no longer refused with an error", fkey, exprString(call.Args[2]))), props...))
			}
			return true
		})
	})
	c.Stats["muldeg_sites"] = n
	return out
}

func init() {
	core.Register(&core.Rule{Name: "MULDEG", Props: []string{"C05", "C06"},
		Doc: "every multiplication entry point of the scheme evaluators calls InitOutputBinaryOp with the constant degree bound 2 (the documented 'operand degree too high' error)",
		Run: func(c *core.Ctx) []ob {
			out := scanMulDeg(c)
			for _, o := range core.Floor("MULDEG", nil, "InitOutputBinaryOp calls in multiplications", c.Stats["muldeg_sites"], 8) {
				out = append(out, withProps(o, "C05", "C06"))
			}
			return out
		}})
}

// ---- PCOUNT
//
// `levelP+1` is the number of auxiliary primes — zero when there is no auxiliary modulus (levelP == -1). A function
// that shows it handles P-less parameters (it tests levelP > -1, ringP != nil, ...) and passes `levelP+1` to a
// parameter that counts the primes per digit (nbPi, pCount) outside such a test hands the callee a zero digit size:
// the decomposition then reads the first prime for every digit (or divides by zero). The count has to be clamped
// (utils.Max(levelP+1, 1)) or the call guarded.
func scanPCount(c *core.Ctx) []ob {
	var out []ob
	n := 0
	c.FuncDecls(func(pk *packages.Package, file *ast.File, fd *ast.FuncDecl) {
		if fd.Body == nil || fileIsTestSupport(c.Program, fd.Pos()) || inExamples(pk) {
			return
		}
		info := pk.TypesInfo
		fkey := core.FuncKey(pk, fd)
		pm := parentMapCached(fd)
		aware := false
		ast.Inspect(fd.Body, func(x ast.Node) bool {
			if is, ok := x.(*ast.IfStmt); ok && pPresenceTest(info, is.Cond) {
				aware = true
			}
			return !aware
		})
		ast.Inspect(fd.Body, func(x ast.Node) bool {
			call, ok := x.(*ast.CallExpr)
			if !ok {
				return true
			}
			f := calleeFunc(info, call)
			if f == nil {
				return true
			}
			sig, ok := f.Type().(*types.Signature)
			if !ok {
				return true
			}
			for i, a := range call.Args {
				if i >= sig.Params().Len() {
					break
				}
				pn := strings.ToLower(sig.Params().At(i).Name())
				if pn != "nbpi" && pn != "pcount" {
					continue
				}
				n++
				key := fmt.Sprintf("PCOUNT:%s#%s(%s)", fkey, f.Name(), exprString(a))
				be, isSum := unparen(a).(*ast.BinaryExpr)
				raw := isSum && be.Op == token.ADD && strings.Contains(strings.ToLower(exprString(be.X)), "levelp")
				guarded := false
				for _, h := range holdsAt(pm, call) {
					if h.pos && pPresenceTest(info, h.cond) {
						guarded = true
					}
				}
				switch {
				case !raw:
					out = append(out, okOb("PCOUNT", key, c.Rel(call.Pos()), "the count is not a bare levelP+1", true))
				case guarded:
					out = append(out, okOb("PCOUNT", key, c.Rel(call.Pos()), "passed under a test of the presence of P", true))
				case !aware:
					out = append(out, okOb("PCOUNT", key, c.Rel(call.Pos()), "the function never considers P-less parameters: not decided here", false))
				default:
					out = append(out, violOb("PCOUNT", key, c.Rel(call.Pos()), fmt.Sprintf("%s handles parameters without an auxiliary modulus, yet passes %s as the number of primes per digit to %s outside any test of P: with levelP == -1 the callee gets 0 and decomposes the first prime for every digit", fkey, exprString(a), f.Name())))
				}
			}
			return true
		})
	})
	c.Stats["pcount_sites"] = n
	return out
}

func init() {
	core.Register(&core.Rule{Name: "PCOUNT", Props: []string{"C04", "C02", "C20"},
		Doc: "a function that handles P-less parameters does not pass a bare levelP+1 as the number of primes per digit (nbPi/pCount) outside a test of the presence of P",
		Run: func(c *core.Ctx) []ob {
			out := scanPCount(c)
			out = append(out, core.Floor("PCOUNT", nil, "prime-count arguments", c.Stats["pcount_sites"], 4)...)
			return out
		}})
}

// ---- KEYLEVELP
//
// A key-switching routine works modulo Q*P_l where l is the P-level *of the key*: the gadget product is accumulated in
// that basis and the result divided by that P. A routine that holds an evaluation key (or gadget / RGSW ciphertext) and
// takes its `levelP` from something else — the QP receiver, the parameters' maximum — divides by a P the key was not
// generated for as soon as the key has fewer auxiliary primes than the other object.
//
// Rule: in every function of core/rlwe and core/rgsw that has a variable of a key type (GadgetCiphertext,
// EvaluationKey, GaloisKey, RelinearizationKey, rgsw.Ciphertext) in scope, a variable named levelP that is defined from
// a `.LevelP()` call is defined from a key-typed operand.

func isKeyType(t types.Type) bool {
	n := namedOf(t)
	if n == nil {
		return false
	}
	switch n.Obj().Name() {
	case "GadgetCiphertext", "EvaluationKey", "GaloisKey", "RelinearizationKey":
		return true
	case "Ciphertext":
		return n.Obj().Pkg() != nil && strings.HasSuffix(n.Obj().Pkg().Path(), "core/rgsw")
	}
	return false
}

func scanKeyLevelP(c *core.Ctx) []ob {
	var out []ob
	n := 0
	c.FuncDecls(func(pk *packages.Package, file *ast.File, fd *ast.FuncDecl) {
		rel := core.ShortPkg(pk.PkgPath)
		if fd.Body == nil || fileIsTestSupport(c.Program, fd.Pos()) || !(c.IsFixture || rel == "core/rlwe" || strings.HasPrefix(rel, "core/rgsw")) {
			return
		}
		if !c.IsFixture && !strings.Contains(core.RecvTypeName(fd), "Evaluator") {
			return
		}
		info := pk.TypesInfo
		hasKey := false
		ast.Inspect(fd, func(x ast.Node) bool {
			if id, ok := x.(*ast.Ident); ok {
				if o := info.Defs[id]; o != nil {
					if _, isVar := o.(*types.Var); isVar && isKeyType(o.Type()) {
						hasKey = true
					}
				}
			}
			return !hasKey
		})
		if !hasKey {
			return
		}
		fkey := core.FuncKey(pk, fd)
		ast.Inspect(fd.Body, func(x ast.Node) bool {
			as, ok := x.(*ast.AssignStmt)
			if !ok || len(as.Lhs) != len(as.Rhs) {
				return true
			}
			for i, l := range as.Lhs {
				id, ok := l.(*ast.Ident)
				if !ok || id.Name != "levelP" {
					continue
				}
				call, ok := unparen(as.Rhs[i]).(*ast.CallExpr)
				if !ok || len(call.Args) != 0 {
					continue
				}
				sel, ok := unparen(call.Fun).(*ast.SelectorExpr)
				if !ok || sel.Sel.Name != "LevelP" {
					continue
				}
				n++
				key := fmt.Sprintf("KEYLEVELP:%s#%s", fkey, exprString(sel.X))
				// the operand, or the object it is a field of, is a key
				isKey := false
				for e := ast.Expr(sel.X); e != nil; {
					if t := info.TypeOf(e); t != nil && isKeyType(t) {
						isKey = true
						break
					}
					switch y := unparen(e).(type) {
					case *ast.SelectorExpr:
						e = y.X
					case *ast.IndexExpr:
						e = y.X
					case *ast.StarExpr:
						e = y.X
					case *ast.UnaryExpr:
						e = y.X
					default:
						e = nil
					}
				}
				if isKey {
					out = append(out, okOb("KEYLEVELP", key, c.Rel(as.Pos()), "the P-level of the key switching is the key's", true))
				} else {
					out = append(out, violOb("KEYLEVELP", key, c.Rel(as.Pos()), fmt.Sprintf("%s holds an evaluation key but takes levelP from %s, which is not the key: the gadget product is accumulated and divided modulo a P the key may not have been generated for", fkey, exprString(sel.X))))
				}
			}
			return true
		})
	})
	c.Stats["keylevelp_sites"] = n
	return out
}

func init() {
	core.Register(&core.Rule{Name: "KEYLEVELP", Props: []string{"C04", "C11", "C20"},
		Doc: "in the evaluators of core/rlwe and core/rgsw, a function that has an evaluation key / gadget / RGSW ciphertext in scope defines its levelP from the LevelP() of that key, not of the receiver or of another element",
		Run: func(c *core.Ctx) []ob {
			out := scanKeyLevelP(c)
			out = append(out, control(c, "KEYLEVELP", scanKeyLevelP, "(fixEvaluator).SwitchWith")...)
			out = append(out, core.Floor("KEYLEVELP", nil, "levelP definitions next to a key", c.Stats["keylevelp_sites"], 5)...)
			return out
		}})
}

// ---- FLAGNEST
//
// IsNTT and IsMontgomery are independent: an element can be in any of the four combinations. Code that handles one flag
// inside one arm of a test of the other flag (`if ct.IsNTT { …; if ct.IsMontgomery { MForm } }`) handles it for that
// arm only: in the other arm the nested flag is ignored, and an element asking for (non-NTT, Montgomery) silently gets
// (non-NTT, non-Montgomery) data.
//
// Rule: whenever a test of `X.IsMontgomery` (resp. `X.IsNTT`) is nested inside an arm of an `if` on `X.IsNTT` (resp.
// `X.IsMontgomery`) of the same owner X, the other arm of that `if` exists and tests the nested flag of X as well.

func scanFlagNest(c *core.Ctx) []ob {
	var out []ob
	n := 0
	flagOf := func(cond ast.Expr) (owner, flag string) {
		e := unparen(cond)
		for {
			u, ok := e.(*ast.UnaryExpr)
			if !ok || u.Op != token.NOT {
				break
			}
			e = unparen(u.X)
		}
		se, ok := e.(*ast.SelectorExpr)
		if !ok || (se.Sel.Name != "IsNTT" && se.Sel.Name != "IsMontgomery") {
			return "", ""
		}
		return exprString(se.X), se.Sel.Name
	}
	testsFlag := func(n ast.Node, owner, flag string) bool {
		found := false
		if n == nil {
			return false
		}
		ast.Inspect(n, func(x ast.Node) bool {
			if is, ok := x.(*ast.IfStmt); ok {
				if o, f := flagOf(is.Cond); o == owner && f == flag {
					found = true
				}
			}
			return !found
		})
		return found
	}
	c.FuncDecls(func(pk *packages.Package, file *ast.File, fd *ast.FuncDecl) {
		if fd.Body == nil || fileIsTestSupport(c.Program, fd.Pos()) || inExamples(pk) {
			return
		}
		fkey := core.FuncKey(pk, fd)
		ast.Inspect(fd.Body, func(x ast.Node) bool {
			outer, ok := x.(*ast.IfStmt)
			if !ok {
				return true
			}
			owner, flag := flagOf(outer.Cond)
			if owner == "" {
				return true
			}
			other := "IsMontgomery"
			if flag == "IsMontgomery" {
				other = "IsNTT"
			}
			inThen := testsFlag(outer.Body, owner, other)
			inElse := outer.Else != nil && testsFlag(outer.Else, owner, other)
			if !inThen && !inElse {
				return true
			}
			// a later link of a chain whose earlier links already looked at the other flag (`case A && B: … case A: …
			// case B: … default:` — in the second link B is known to be false): the combinations are enumerated by the
			// chain, not by nesting
			pm := parentMapCached(fd)
			chained := false
			for cur := ast.Node(outer); ; {
				par, ok := pm[cur].(*ast.IfStmt)
				if !ok || par.Else != cur {
					break
				}
				ast.Inspect(par.Cond, func(y ast.Node) bool {
					if se, ok := y.(*ast.SelectorExpr); ok && se.Sel.Name == other && exprString(se.X) == owner {
						chained = true
					}
					return !chained
				})
				cur = par
			}
			if chained {
				return true
			}
			n++
			key := fmt.Sprintf("FLAGNEST:%s#%s.%s/%s", fkey, owner, flag, other)
			if inThen && inElse {
				out = append(out, withProps(okOb("FLAGNEST", key, c.Rel(outer.Pos()), "both arms of the test handle the other flag", true), flagNestProps(fkey)...))
				return true
			}
			arm := "else"
			if inElse {
				arm = "then"
			}
			out = append(out, withProps(violOb("FLAGNEST", key, c.Rel(outer.Pos()), fmt.Sprintf("%s tests %s.%s only inside one arm of its test of %s.%s: in the %s arm the flag %s is ignored, although the two flags are independent", fkey, owner, other, owner, flag, arm, other)), flagNestProps(fkey)...))
			return true
		})
	})
	c.Stats["flagnest_sites"] = n
	return out
}

func init() {
	core.Register(&core.Rule{Name: "FLAGNEST", Props: []string{"C03", "C04", "C20", "C14", "C16"},
		Doc: "a test of X.IsMontgomery nested inside an arm of a test of X.IsNTT (or the reverse) has a counterpart in the other arm: the two flags are independent and neither is handled for one value of the other only",
		Run: func(c *core.Ctx) []ob {
			out := scanFlagNest(c)
			for _, o := range control(c, "FLAGNEST", scanFlagNest, "(fixEvaluator).Emit") {
				out = append(out, withProps(o, "C03", "C04", "C20"))
			}
			for _, o := range core.Floor("FLAGNEST", nil, "nested flag tests", c.Stats["flagnest_sites"], 2) {
				out = append(out, withProps(o, "C03", "C04", "C20"))
			}
			return out
		}})
}

func flagNestProps(fkey string) []string {
	switch {
	case strings.HasPrefix(fkey, "core/rgsw"):
		return []string{"C20", "C03"}
	case strings.Contains(fkey, "Encryptor") || strings.Contains(fkey, "Decryptor") || strings.Contains(fkey, "KeyGenerator"):
		return []string{"C03"}
	}
	return bufProps(fkey)
}

// ---- GALMOD
//
// Galois elements live in (Z/NthRoot)^*, and NthRoot is 2N in the standard ring but 4N in the conjugate-invariant
// ring. An exponentiation of a Galois element (inverse, power of the generator, discrete logarithm) carried out modulo
// 2N gives the right answer in the standard ring, which is what the tests use, and a wrong automorphism in the other.
//
// Rule: every call of ring.ModExp / ring.ModExpPow2 whose base is a Galois element (its text mentions gal/Gal, e.g.
// galEl, GaloisGen, gk.GaloisElement) has a modulus argument that is, or is a local defined from, an NthRoot() accessor.

func scanGalMod(c *core.Ctx) []ob {
	var out []ob
	n := 0
	c.FuncDecls(func(pk *packages.Package, file *ast.File, fd *ast.FuncDecl) {
		if fd.Body == nil || fileIsTestSupport(c.Program, fd.Pos()) || inExamples(pk) {
			return
		}
		info := pk.TypesInfo
		fkey := core.FuncKey(pk, fd)
		// single-definition locals
		defs := map[types.Object][]ast.Expr{}
		ast.Inspect(fd.Body, func(x ast.Node) bool {
			if as, ok := x.(*ast.AssignStmt); ok && len(as.Lhs) == len(as.Rhs) {
				for i, l := range as.Lhs {
					if o := identObj(info, l); o != nil {
						defs[o] = append(defs[o], as.Rhs[i])
					}
				}
			}
			return true
		})
		var fromNthRoot func(e ast.Expr, depth int) bool
		fromNthRoot = func(e ast.Expr, depth int) bool {
			if strings.Contains(exprString(e), "NthRoot") || strings.Contains(exprString(e), "nthRoot") && depth == 0 {
				if strings.Contains(exprString(e), "NthRoot") {
					return true
				}
			}
			if depth > 3 {
				return false
			}
			ok := false
			ast.Inspect(e, func(x ast.Node) bool {
				if id, isId := x.(*ast.Ident); isId && !ok {
					if o := info.Uses[id]; o != nil {
						if ds := defs[o]; len(ds) == 1 && fromNthRoot(ds[0], depth+1) {
							ok = true
						}
					}
				}
				return !ok
			})
			return ok
		}
		ast.Inspect(fd.Body, func(x ast.Node) bool {
			call, ok := x.(*ast.CallExpr)
			if !ok || len(call.Args) != 3 {
				return true
			}
			f := calleeFunc(info, call)
			if f == nil || (f.Name() != "ModExp" && f.Name() != "ModExpPow2") || f.Pkg() == nil || !strings.HasSuffix(f.Pkg().Path(), "/ring") {
				return true
			}
			base := exprString(call.Args[0])
			if !strings.Contains(strings.ToLower(base), "gal") {
				return true
			}
			n++
			key := fmt.Sprintf("GALMOD:%s#%s(%s)", fkey, f.Name(), base)
			if fromNthRoot(call.Args[2], 0) {
				out = append(out, okOb("GALMOD", key, c.Rel(call.Pos()), "the Galois element is exponentiated modulo NthRoot", true))
			} else {
				out = append(out, violOb("GALMOD", key, c.Rel(call.Pos()), fmt.Sprintf("%s exponentiates the Galois element %s modulo %s, which is not derived from NthRoot(): the group of Galois elements is (Z/NthRoot)^*, and NthRoot is 4N, not 2N, in the conjugate-invariant ring", fkey, base, exprString(call.Args[2]))))
			}
			return true
		})
	})
	c.Stats["galmod_sites"] = n
	return out
}

func init() {
	core.Register(&core.Rule{Name: "GALMOD", Props: []string{"C11", "C14", "C04"},
		Doc: "every modular exponentiation of a Galois element (ring.ModExp / ModExpPow2 with a base named after gal/Galois) is carried out modulo a value derived from NthRoot() (2N in the standard ring, 4N in the conjugate-invariant ring), never modulo 2N spelled out",
		Run: func(c *core.Ctx) []ob {
			out := scanGalMod(c)
			out = append(out, control(c, "GALMOD", scanGalMod, "lvfixture.invGal")...)
			out = append(out, core.Floor("GALMOD", nil, "exponentiations of Galois elements", c.Stats["galmod_sites"], 5)...)
			return out
		}})
}

// ---- ROTNORM
//
// The evaluation of a linear transformation rotates by the diagonal indexes *reduced modulo the number of slots* (the
// keys of the encoded matrix are produced by BSGSIndex, which normalises them). The list of Galois elements advertised
// for the transformation must be computed from the same normalised indexes: 5^k and 5^(k mod slots) are different
// Galois elements as soon as the packing is sparse (slots < N/2) or k is negative.
//
// Rule: in the lintrans packages, no call of GaloisElement / GaloisElements receives a value derived from a parameter
// holding raw diagonal indexes ([]int named *diag*) other than through the results of BSGSIndex.

func scanRotNorm(c *core.Ctx) []ob {
	var out []ob
	n := 0
	c.FuncDecls(func(pk *packages.Package, file *ast.File, fd *ast.FuncDecl) {
		rel := core.ShortPkg(pk.PkgPath)
		if fd.Body == nil || fileIsTestSupport(c.Program, fd.Pos()) || !(c.IsFixture || strings.Contains(rel, "lintrans")) {
			return
		}
		info := pk.TypesInfo
		raw := map[types.Object]bool{}
		if fn, ok := info.Defs[fd.Name].(*types.Func); ok {
			sig := fn.Type().(*types.Signature)
			for i := 0; i < sig.Params().Len(); i++ {
				p := sig.Params().At(i)
				if sl, ok := p.Type().Underlying().(*types.Slice); ok {
					if b, ok := sl.Elem().Underlying().(*types.Basic); ok && b.Kind() == types.Int && strings.Contains(strings.ToLower(p.Name()), "diag") {
						raw[p] = true
					}
				}
			}
		}
		if len(raw) == 0 {
			return
		}
		mentionsRaw := func(e ast.Node) bool {
			found := false
			ast.Inspect(e, func(x ast.Node) bool {
				if call, ok := x.(*ast.CallExpr); ok && calleeName(info, call) == "BSGSIndex" {
					return false // normalised behind this call
				}
				if id, ok := x.(*ast.Ident); ok && raw[info.Uses[id]] {
					found = true
				}
				return !found
			})
			return found
		}
		// propagate through local definitions and range variables
		for iter := 0; iter < 4; iter++ {
			ast.Inspect(fd.Body, func(x ast.Node) bool {
				switch v := x.(type) {
				case *ast.AssignStmt:
					if len(v.Rhs) == 1 {
						if call, ok := unparen(v.Rhs[0]).(*ast.CallExpr); ok && calleeName(info, call) == "BSGSIndex" {
							return true
						}
					}
					for i, l := range v.Lhs {
						var rhs ast.Expr
						if len(v.Rhs) == len(v.Lhs) {
							rhs = v.Rhs[i]
						} else if len(v.Rhs) == 1 {
							rhs = v.Rhs[0]
						}
						if rhs != nil && mentionsRaw(rhs) {
							if o := identObj(info, l); o != nil {
								raw[o] = true
							}
						}
					}
				case *ast.RangeStmt:
					if mentionsRaw(v.X) {
						for _, kv := range []ast.Expr{v.Key, v.Value} {
							if kv != nil {
								if o := identObj(info, kv); o != nil {
									raw[o] = true
								}
							}
						}
					}
				}
				return true
			})
		}
		fkey := core.FuncKey(pk, fd)
		ast.Inspect(fd.Body, func(x ast.Node) bool {
			call, ok := x.(*ast.CallExpr)
			if !ok {
				return true
			}
			nm := calleeName(info, call)
			if nm != "GaloisElement" && nm != "GaloisElements" {
				return true
			}
			n++
			key := fmt.Sprintf("ROTNORM:%s#%s", fkey, nm)
			bad := false
			for _, a := range call.Args {
				if mentionsRaw(a) {
					bad = true
				}
			}
			if bad {
				out = append(out, violOb("ROTNORM", key, c.Rel(call.Pos()), fmt.Sprintf("%s computes Galois elements from the raw diagonal indexes (%s) instead of the rotations returned by BSGSIndex: for sparse packing or negative indexes the advertised keys are not the ones the evaluation asks for", fkey, exprString(call))))
			} else {
				out = append(out, okOb("ROTNORM", key, c.Rel(call.Pos()), "the Galois elements are computed from the normalised rotations", true))
			}
			return true
		})
	})
	c.Stats["rotnorm_sites"] = n
	return out
}

func init() {
	core.Register(&core.Rule{Name: "ROTNORM", Props: []string{"C12", "C11"},
		Doc: "in the lintrans packages, Galois elements are never computed from the raw diagonal indexes of a []int parameter but from the rotations normalised by BSGSIndex",
		Run: func(c *core.Ctx) []ob {
			out := scanRotNorm(c)
			out = append(out, control(c, "ROTNORM", scanRotNorm, "lvfixture.galoisForDiags")...)
			out = append(out, core.Floor("ROTNORM", nil, "Galois element computations next to raw diagonal indexes", c.Stats["rotnorm_sites"], 2)...)
			return out
		}})
}

// ---- ZEROCOND
//
// A branch condition that reads a local variable at a point where only its zero value can reach it is a constant:
// one arm is dead. In code that distinguishes cases on several similarly named indexes this is how "tested the wrong
// variable" looks (`var j int; if i > 0 { … } else if j < 0 { … }`): it compiles, and the case guarded by the dead
// arm — negative indexes, say — silently takes the other arm.
//
// Rule: no if / for / switch-case condition reads a local variable (not a parameter; address never taken; not assigned
// in a closure) whose set of reaching definitions at that point is empty (reaching definitions over go/cfg).

func scanZeroCond(c *core.Ctx) []ob {
	var out []ob
	n := 0
	c.FuncDecls(func(pk *packages.Package, file *ast.File, fd *ast.FuncDecl) {
		if fd.Body == nil || fileIsTestSupport(c.Program, fd.Pos()) || inExamples(pk) {
			return
		}
		info := pk.TypesInfo
		params := map[types.Object]bool{}
		if fn, ok := info.Defs[fd.Name].(*types.Func); ok {
			sig := fn.Type().(*types.Signature)
			for i := 0; i < sig.Params().Len(); i++ {
				params[sig.Params().At(i)] = true
			}
			if sig.Recv() != nil {
				params[sig.Recv()] = true
			}
		}
		addrTaken := map[types.Object]bool{}
		ast.Inspect(fd.Body, func(x ast.Node) bool {
			if u, ok := x.(*ast.UnaryExpr); ok && u.Op == token.AND {
				if o := identObj(info, u.X); o != nil {
					addrTaken[o] = true
				}
			}
			return true
		})
		var rd *reachInfo
		fkey := core.FuncKey(pk, fd)
		implicits := map[types.Object]bool{}
		for _, o := range info.Implicits {
			implicits[o] = true
		}
		checkCond := func(cond ast.Expr, at ast.Node) {
			if cond == nil {
				return
			}
			ast.Inspect(cond, func(x ast.Node) bool {
				if _, isLit := x.(*ast.FuncLit); isLit {
					return false
				}
				id, ok := x.(*ast.Ident)
				if !ok {
					return true
				}
				v, ok := info.Uses[id].(*types.Var)
				if !ok || v.IsField() || params[v] || addrTaken[v] || v.Pkg() == nil || v.Parent() == v.Pkg().Scope() {
					return true
				}
				if b, ok := v.Type().Underlying().(*types.Basic); !ok || b.Info()&(types.IsInteger|types.IsBoolean|types.IsFloat) == 0 {
					return true
				}
				// declared inside this function
				if v.Pos() < fd.Pos() || v.Pos() > fd.End() {
					return true
				}
				if rd == nil {
					rd = reachingDefs(info, fd)
				}
				if implicits[v] {
					return true // the per-clause variable of a type switch
				}
				rhs, initial, ok := rd.defsAt(id, v)
				if !ok {
					return true
				}
				n++
				onlyZero := len(rhs) > 0
				for _, e := range rhs {
					if bl, isLit := e.(*ast.BasicLit); !isLit || bl.Value != "0" || bl.Pos() != token.NoPos {
						onlyZero = false
					}
				}
				if (initial && len(rhs) == 0) || (!initial && onlyZero) {
					key := fmt.Sprintf("ZEROCOND:%s#%s", fkey, v.Name())
					out = append(out, withProps(violOb("ZEROCOND", key, c.Rel(id.Pos()), fmt.Sprintf("%s tests %s in the condition `%s`, but no assignment of %s reaches this point: it still holds its zero value, the condition is a constant and one arm is dead (the wrong variable is tested)", fkey, v.Name(), exprString(cond), v.Name())), propsForKey(fkey)...))
				}
				return true
			})
		}
		ast.Inspect(fd.Body, func(x ast.Node) bool {
			switch v := x.(type) {
			case *ast.FuncLit:
				return false
			case *ast.IfStmt:
				checkCond(v.Cond, v)
			case *ast.ForStmt:
				checkCond(v.Cond, v)
			case *ast.CaseClause:
				for _, e := range v.List {
					checkCond(e, v)
				}
			}
			return true
		})
	})
	c.Stats["zerocond_reads"] = n
	if !c.IsFixture {
		out = append(out, okOb("ZEROCOND", "ZEROCOND:summary", "", fmt.Sprintf("%d reads of local scalars in branch conditions have a reaching assignment", n), true))
	}
	return out
}

func init() {
	core.Register(&core.Rule{Name: "ZEROCOND", Wide: true, Props: []string{"C01", "C02", "C03", "C04", "C05", "C06", "C07", "C08", "C09", "C10", "C11", "C12", "C13", "C14", "C15", "C16", "C17", "C18", "C19", "C20"},
		Doc: "no branch condition reads a local scalar variable at a point where no assignment of it can reach (reaching definitions over go/cfg): such a condition is constant and tests the wrong variable",
		Run: func(c *core.Ctx) []ob {
			out := scanZeroCond(c)
			out = append(out, control(c, "ZEROCOND", scanZeroCond, "lvfixture.wrapIndex#j")...)
			out = append(out, core.Floor("ZEROCOND", nil, "reads of local scalars in branch conditions", c.Stats["zerocond_reads"], 1000)...)
			return out
		}})
}

// ---- RLKFIRST
//
// A multiplication with relinearisation needs one key, known before anything is computed. When the key is looked up
// only after the tensoring has written the receiver, a missing key is reported with the documented error — and the
// receiver (the operand itself for the in-place form, the accumulator for MulRelinThenAdd) has already been overwritten
// with a partial product: the caller cannot retry, and a program that handles the error continues with a wrong value.
//
// Rule: in every function that calls CheckAndGetRelinearizationKey, the call precedes (source order) every ring
// operation and every evaluator call that writes an element parameter of the function.

func scanRlkFirst(c *core.Ctx) []ob {
	var out []ob
	n := 0
	eff := effFor(c)
	c.FuncDecls(func(pk *packages.Package, file *ast.File, fd *ast.FuncDecl) {
		if fd.Body == nil || fileIsTestSupport(c.Program, fd.Pos()) || inExamples(pk) {
			return
		}
		info := pk.TypesInfo
		var check *ast.CallExpr
		ast.Inspect(fd.Body, func(x ast.Node) bool {
			if call, ok := x.(*ast.CallExpr); ok && calleeName(info, call) == "CheckAndGetRelinearizationKey" && check == nil {
				check = call
			}
			return true
		})
		if check == nil || fd.Name.Name == "CheckAndGetRelinearizationKey" {
			return
		}
		n++
		fkey := core.FuncKey(pk, fd)
		params := map[types.Object]bool{}
		if fn, ok := info.Defs[fd.Name].(*types.Func); ok {
			sig := fn.Type().(*types.Signature)
			for i := 0; i < sig.Params().Len(); i++ {
				if isMetaCarrier(sig.Params().At(i).Type()) {
					params[sig.Params().At(i)] = true
				}
			}
		}
		rootIsParam := func(e ast.Expr) bool {
			for {
				switch y := unparen(e).(type) {
				case *ast.Ident:
					return params[info.Uses[y]]
				case *ast.SelectorExpr:
					e = y.X
				case *ast.IndexExpr:
					e = y.X
				case *ast.CallExpr:
					if s, ok := unparen(y.Fun).(*ast.SelectorExpr); ok && len(y.Args) == 0 && s.Sel.Name == "El" {
						e = s.X
						continue
					}
					return false
				default:
					return false
				}
			}
		}
		var early *ast.CallExpr
		ast.Inspect(fd.Body, func(x ast.Node) bool {
			call, ok := x.(*ast.CallExpr)
			if !ok || early != nil || call.Pos() >= check.Pos() {
				return early == nil
			}
			sel, isSel := unparen(call.Fun).(*ast.SelectorExpr)
			// ring operation (writes its last polynomial argument)
			if isSel && len(call.Args) >= 2 {
				if rt := info.TypeOf(sel.X); rt != nil && isRingLikeRecv(rt) && !ringReadOnly[sel.Sel.Name] {
					early = call
					return false
				}
			}
			for _, cf := range eff.callees(info, call) {
				if sm := eff.sums[cf]; sm != nil {
					for ai, a := range call.Args {
						if sm.wParams[ai] && rootIsParam(a) {
							early = call
						}
					}
				}
			}
			return early == nil
		})
		key := "RLKFIRST:" + fkey
		props := metaProps(fkey)
		if early == nil {
			out = append(out, withProps(okOb("RLKFIRST", key, c.Rel(check.Pos()), "the relinearisation key is looked up before anything is written", true), props...))
		} else {
			out = append(out, withProps(violOb("RLKFIRST", key, c.Rel(check.Pos()), fmt.Sprintf("%s looks the relinearisation key up at %s, after %s at %s has already written: with no key the documented error is returned but the receiver (the operand itself when the operation is done in place) is left overwritten with a partial product", fkey, c.Rel(check.Pos()), exprString(early.Fun), c.Rel(early.Pos()))), props...))
		}
	})
	c.Stats["rlkfirst_fns"] = n
	return out
}

func init() {
	core.Register(&core.Rule{Name: "RLKFIRST", Props: []string{"C04", "C05", "C06", "C09"},
		Doc: "in every function that calls CheckAndGetRelinearizationKey, the call precedes every ring operation and every call that writes an element parameter: a missing key is reported before the receiver is touched",
		Run: func(c *core.Ctx) []ob {
			out := scanRlkFirst(c)
			for i := range out {
				out[i].Props = append(append([]string{}, out[i].Props...), "C09")
			}
			out = append(out, control(c, "RLKFIRST", scanRlkFirst, "(fixRelinEvaluator).MulLate")...)
			out = append(out, core.Floor("RLKFIRST", nil, "functions looking up the relinearisation key", c.Stats["rlkfirst_fns"], 5)...)
			return out
		}})
}

// ---- EQLEN
//
// A comparison or element-wise combination of two sequences that walks one of them and indexes the other with the same
// index is only right when the two have the same length. `Equal` on vectors and matrices is the oracle the library
// (and its tests) use to decide that a copy or a decoded object is the same as the original: without a length test a
// prefix equals the whole (true for the shorter receiver, index panic for the longer).
//
// Rule: in every method named Equal, a `for … range A` loop whose body indexes another operand B of the same slice type
// with the loop index is accompanied, in the same function, by a comparison of len(A) and len(B).

func scanEqLen(c *core.Ctx) []ob {
	var out []ob
	n := 0
	c.FuncDecls(func(pk *packages.Package, file *ast.File, fd *ast.FuncDecl) {
		if fd.Body == nil || fd.Name.Name != "Equal" || fileIsTestSupport(c.Program, fd.Pos()) || inExamples(pk) {
			return
		}
		info := pk.TypesInfo
		fkey := core.FuncKey(pk, fd)
		lenCompared := func(a, b string) bool {
			found := false
			ast.Inspect(fd.Body, func(x ast.Node) bool {
				be, ok := x.(*ast.BinaryExpr)
				if !ok || (be.Op != token.EQL && be.Op != token.NEQ) {
					return true
				}
				l, r := exprString(be.X), exprString(be.Y)
				if (l == "len("+a+")" && r == "len("+b+")") || (l == "len("+b+")" && r == "len("+a+")") {
					found = true
				}
				return true
			})
			return found
		}
		ast.Inspect(fd.Body, func(x ast.Node) bool {
			rs, ok := x.(*ast.RangeStmt)
			if !ok || rs.Key == nil {
				return true
			}
			key := identObj(info, rs.Key)
			if key == nil {
				return true
			}
			ta := info.TypeOf(rs.X)
			if ta == nil {
				return true
			}
			if _, isSlice := ta.Underlying().(*types.Slice); !isSlice {
				return true
			}
			a := exprString(unparen(rs.X))
			seen := map[string]bool{}
			ast.Inspect(rs.Body, func(y ast.Node) bool {
				ie, ok := y.(*ast.IndexExpr)
				if !ok || identObj(info, ie.Index) != key {
					return true
				}
				b := exprString(unparen(ie.X))
				if b == a || seen[b] {
					return true
				}
				tb := info.TypeOf(ie.X)
				if tb == nil || !types.Identical(ta, tb) {
					return true
				}
				seen[b] = true
				n++
				k := fmt.Sprintf("EQLEN:%s#%s/%s", fkey, a, b)
				if lenCompared(a, b) {
					out = append(out, withProps(okOb("EQLEN", k, c.Rel(rs.Pos()), "the lengths of the two sequences are compared", true), eqLenProps(fkey)...))
				} else {
					out = append(out, withProps(violOb("EQLEN", k, c.Rel(rs.Pos()), fmt.Sprintf("%s walks %s and indexes %s with the same index without comparing their lengths: a shorter %s equals any longer %s that starts with it, and a longer one panics", fkey, a, b, a, b)), eqLenProps(fkey)...))
				}
				return true
			})
			return true
		})
	})
	c.Stats["eqlen_loops"] = n
	return out
}

func eqLenProps(fkey string) []string {
	if strings.HasPrefix(fkey, "utils/structs") || strings.HasPrefix(fkey, "utils/buffer") {
		return []string{"C08", "C10"}
	}
	return []string{"C10"}
}

func init() {
	core.Register(&core.Rule{Name: "EQLEN", Props: []string{"C08", "C10"},
		Doc: "in every Equal method, a loop over one sequence that indexes another operand of the same slice type with the loop index is accompanied by a comparison of the two lengths",
		Run: func(c *core.Ctx) []ob {
			out := scanEqLen(c)
			for _, o := range control(c, "EQLEN", scanEqLen, "lvfixture.(seqT).Equal") {
				out = append(out, withProps(o, "C08", "C10"))
			}
			for _, o := range core.Floor("EQLEN", nil, "element-wise loops in Equal methods", c.Stats["eqlen_loops"], 2) {
				out = append(out, withProps(o, "C08", "C10"))
			}
			return out
		}})
}

// ---- LOOPSHADOW
//
// An inner loop that declares its counter with the name of the counter of a loop that encloses it hides the outer
// counter for the whole inner body. When the inner body was written with both in mind (`coeffs[j*gap+w]` retyped as
// `coeffs[j*gap-j]` inside `for j := 1; j < gap; j++` nested in `for j := n-1; ...`) the expression silently uses the
// inner counter twice: it compiles, and writes to the wrong places.
//
// Rule: no for/range statement declares (:=) a variable with the same name as a variable declared by the header of an
// enclosing for/range statement of the same function when both loops index the same array with that name (the outer
// body outside the inner loop, and the inner body): harmless re-use of a counter name for unrelated arrays is left alone.

func scanLoopShadow(c *core.Ctx) []ob {
	var out []ob
	n := 0
	c.FuncDecls(func(pk *packages.Package, file *ast.File, fd *ast.FuncDecl) {
		if fd.Body == nil || fileIsTestSupport(c.Program, fd.Pos()) || inExamples(pk) {
			return
		}
		info := pk.TypesInfo
		fkey := core.FuncKey(pk, fd)
		headerVars := func(x ast.Node) []*ast.Ident {
			var ids []*ast.Ident
			switch v := x.(type) {
			case *ast.ForStmt:
				if as, ok := v.Init.(*ast.AssignStmt); ok && as.Tok == token.DEFINE {
					for _, l := range as.Lhs {
						if id, ok := l.(*ast.Ident); ok && id.Name != "_" {
							ids = append(ids, id)
						}
					}
				}
			case *ast.RangeStmt:
				if v.Tok == token.DEFINE {
					for _, e := range []ast.Expr{v.Key, v.Value} {
						if id, ok := e.(*ast.Ident); ok && id != nil && id.Name != "_" {
							ids = append(ids, id)
						}
					}
				}
			}
			return ids
		}
		outerLoop := map[string]ast.Node{}
		var walk func(x ast.Node, outer map[string]token.Pos)
		walk = func(x ast.Node, outer map[string]token.Pos) {
			ast.Inspect(x, func(y ast.Node) bool {
				if y == x {
					return true
				}
				switch y.(type) {
				case *ast.FuncLit:
					return false
				case *ast.ForStmt, *ast.RangeStmt:
					n++
					ids := headerVars(y)
					inner := map[string]token.Pos{}
					for k, v := range outer {
						inner[k] = v
					}
					for _, id := range ids {
						if pos, shadows := outer[id.Name]; shadows && sameArrayBothScopes(outerLoop[id.Name], y, id.Name) {
							// only when the outer variable is still used inside the inner loop's scope would be a proof of
							// intent; the shadowing itself is the finding
							key := fmt.Sprintf("LOOPSHADOW:%s#%s", fkey, id.Name)
							out = append(out, withProps(violOb("LOOPSHADOW", key, c.Rel(id.Pos()), fmt.Sprintf("%s declares the loop variable %s inside a loop that already declares %s at %s: the inner body cannot refer to the outer counter, and an index written with both in mind uses the inner one twice", fkey, id.Name, id.Name, c.Rel(pos))), propsForKey(fkey)...))
						}
						if _, ok := info.Defs[id]; ok {
							inner[id.Name] = id.Pos()
							outerLoop[id.Name] = y
						}
					}
					walk(y, inner)
					return false
				}
				return true
			})
		}
		walk(fd.Body, map[string]token.Pos{})
	})
	c.Stats["loopshadow_loops"] = n
	if !c.IsFixture {
		out = append(out, okOb("LOOPSHADOW", "LOOPSHADOW:summary", "", fmt.Sprintf("%d loops examined", n), true))
	}
	return out
}

func init() {
	core.Register(&core.Rule{Name: "LOOPSHADOW", Wide: true, Props: []string{"C01", "C02", "C03", "C04", "C05", "C06", "C07", "C08", "C09", "C10", "C11", "C12", "C13", "C14", "C15", "C16", "C17", "C18", "C19", "C20"},
		Doc: "no for/range statement declares a variable with the name of a variable declared by the header of an enclosing loop of the same function",
		Run: func(c *core.Ctx) []ob {
			out := scanLoopShadow(c)
			out = append(out, control(c, "LOOPSHADOW", scanLoopShadow, "lvfixture.spread#j")...)
			out = append(out, core.Floor("LOOPSHADOW", nil, "loops", c.Stats["loopshadow_loops"], 1000)...)
			return out
		}})
}

// sameArrayBothScopes: some array is indexed with an expression mentioning `name` both in the body of the outer loop
// (outside the inner loop) and inside the inner loop.
func sameArrayBothScopes(outer, inner ast.Node, name string) bool {
	if outer == nil {
		return false
	}
	bases := func(root ast.Node, skip ast.Node) map[string]bool {
		res := map[string]bool{}
		ast.Inspect(root, func(x ast.Node) bool {
			if x == skip {
				return false
			}
			ie, ok := x.(*ast.IndexExpr)
			if !ok {
				return true
			}
			uses := false
			ast.Inspect(ie.Index, func(y ast.Node) bool {
				if id, ok := y.(*ast.Ident); ok && id.Name == name {
					uses = true
				}
				return true
			})
			if uses {
				res[exprString(ie.X)] = true
			}
			return true
		})
		return res
	}
	var outerBody ast.Node
	switch v := outer.(type) {
	case *ast.ForStmt:
		outerBody = v.Body
	case *ast.RangeStmt:
		outerBody = v.Body
	}
	var innerBody ast.Node
	switch v := inner.(type) {
	case *ast.ForStmt:
		innerBody = v.Body
	case *ast.RangeStmt:
		innerBody = v.Body
	}
	if outerBody == nil || innerBody == nil {
		return false
	}
	a, b := bases(outerBody, inner), bases(innerBody, nil)
	for k := range a {
		if b[k] {
			return true
		}
	}
	return false
}

// SIGNZERO — a sign is not encoded as the sign of a counter that takes the value 0.
//
// A table that stores `i` for the positive and `-i` for the negative representative of a class cannot tell the two
// apart at i = 0 (-0 == 0): the second store overwrites nothing but yields the same value, and every consumer that
// looks the negative class of 0 up under its own key never finds it (blind rotation: a mask coefficient equal to -1
// was rotated as +1).
//
// Rule: in a `for i := 0; ...` loop whose body stores both `i` and `-i` (the bare counter and its negation) into
// elements of the same map or slice, the store of `-i` is under a test that separates i == 0.
func scanSignZero(c *core.Ctx) []ob {
	var out []ob
	n := 0
	c.FuncDecls(func(pk *packages.Package, file *ast.File, fd *ast.FuncDecl) {
		if fd.Body == nil || fileIsTestSupport(c.Program, fd.Pos()) || inExamples(pk) {
			return
		}
		info := pk.TypesInfo
		fkey := core.FuncKey(pk, fd)
		ast.Inspect(fd.Body, func(x ast.Node) bool {
			fs, ok := x.(*ast.ForStmt)
			if !ok {
				return true
			}
			n++
			as, ok := fs.Init.(*ast.AssignStmt)
			if !ok || as.Tok != token.DEFINE || len(as.Lhs) == 0 || len(as.Rhs) != len(as.Lhs) {
				return true
			}
			for k, l := range as.Lhs {
				id, ok := l.(*ast.Ident)
				if !ok {
					continue
				}
				lit, ok := unparen(as.Rhs[k]).(*ast.BasicLit)
				if !ok || lit.Value != "0" {
					continue
				}
				cnt := info.Defs[id]
				if cnt == nil {
					continue
				}
				isCnt := func(e ast.Expr) bool {
					i, ok := unparen(e).(*ast.Ident)
					return ok && info.Uses[i] == cnt
				}
				// stores of i and -i, per container
				pos := map[string]bool{}
				type negStore struct {
					at      ast.Node
					guarded bool
				}
				neg := map[string][]negStore{}
				var walk func(y ast.Node, guarded bool)
				walk = func(y ast.Node, guarded bool) {
					switch v := y.(type) {
					case nil:
						return
					case *ast.IfStmt:
						g := guarded
						ast.Inspect(v.Cond, func(z ast.Node) bool {
							if be, ok := z.(*ast.BinaryExpr); ok {
								zero := func(e ast.Expr) bool {
									l, ok := unparen(e).(*ast.BasicLit)
									return ok && l.Value == "0"
								}
								if (isCnt(be.X) && zero(be.Y)) || (isCnt(be.Y) && zero(be.X)) {
									g = true
								}
							}
							return true
						})
						walk(v.Body, g)
						if v.Else != nil {
							walk(v.Else, g)
						}
						return
					case *ast.BlockStmt:
						for _, st := range v.List {
							walk(st, guarded)
						}
						return
					case *ast.AssignStmt:
						if len(v.Lhs) != len(v.Rhs) {
							return
						}
						for j, lhs := range v.Lhs {
							ie, ok := unparen(lhs).(*ast.IndexExpr)
							if !ok {
								continue
							}
							cont := exprString(ie.X)
							r := unparen(v.Rhs[j])
							if isCnt(r) {
								pos[cont] = true
							} else if ue, ok := r.(*ast.UnaryExpr); ok && ue.Op == token.SUB && isCnt(ue.X) {
								neg[cont] = append(neg[cont], negStore{v, guarded})
							}
						}
						return
					case *ast.ForStmt:
						walk(v.Body, guarded)
						return
					case *ast.RangeStmt:
						walk(v.Body, guarded)
						return
					}
				}
				walk(fs.Body, false)
				for cont, stores := range neg {
					if !pos[cont] {
						continue
					}
					for _, st := range stores {
						key := fmt.Sprintf("SIGNZERO:%s#%s[-%s]", fkey, cont, id.Name)
						if st.guarded {
							out = append(out, withProps(okOb("SIGNZERO", key, c.Rel(st.at.Pos()), "the store of the negated counter is under a test that separates 0", true), "C20"))
						} else {
							out = append(out, withProps(violOb("SIGNZERO", key, c.Rel(st.at.Pos()), fmt.Sprintf("%s stores both %s and -%s into %s in a loop that starts at %s = 0: for 0 the two classes get the same value (-0 == 0) and the negative class of 0 can never be found", fkey, id.Name, id.Name, cont, id.Name)), "C20"))
						}
					}
				}
			}
			return true
		})
	})
	c.Stats["signzero_loops"] = n
	if !c.IsFixture {
		out = append(out, okOb("SIGNZERO", "SIGNZERO:summary", "", fmt.Sprintf("%d for statements examined", n), true))
	}
	return out
}

func init() {
	core.Register(&core.Rule{Name: "SIGNZERO", Props: []string{"C20"},
		Doc: "a `for i := 0` loop that stores both the counter and its negation into elements of the same map/slice (sign of a class encoded as the sign of an index) stores the negation under a test that separates i == 0",
		Run: func(c *core.Ctx) []ob {
			out := scanSignZero(c)
			out = append(out, control(c, "SIGNZERO", scanSignZero, "lvfixture.signedLog")...)
			out = append(out, core.Floor("SIGNZERO", nil, "for statements", c.Stats["signzero_loops"], 500)...)
			return out
		}})
}

// NTTLAST — the last layer of a lazy forward NTT reduces.
//
// The lazy forward transforms alternate layers that subtract 4q when a value exceeds it (`butterfly`) with layers that
// do not (`x+V, x+twoQ-V`); values are below 6q after a reducing layer and below 8q after a non-reducing one. The
// documented output range [0, 6q-2] therefore requires the LAST layer (t == 1) to be a reducing one whatever the
// parity of log2(N): the standard transform always uses `butterfly` there, the conjugate-invariant one chose by the
// alternation and returned values up to 7.7q for odd log2(N) — `Decrypt` of a non-NTT ciphertext then overflowed
// uint64 for 61-bit primes.
//
// Rule: in every function of package ring whose name starts with `ntt` and contains `Lazy` (forward lazy transforms),
// inside the loop over the layers, the block that handles the last layer — the final `else` of the chain
// `if t >= 8 … else if t == 4 … else if t == 2 … else`, or the loop body when there is no such chain — contains no
// non-reducing butterfly, i.e. no assignment whose right-hand side mentions `twoQ` outside a call of `butterfly`.
func scanNTTLast(c *core.Ctx) []ob {
	var out []ob
	n := 0
	c.FuncDecls(func(pk *packages.Package, file *ast.File, fd *ast.FuncDecl) {
		if fd.Body == nil || fd.Recv != nil || !(c.IsFixture || core.ShortPkg(pk.PkgPath) == "ring") {
			return
		}
		name := fd.Name.Name
		if !strings.HasPrefix(name, "ntt") || !strings.Contains(name, "Lazy") {
			return
		}
		fkey := core.FuncKey(pk, fd)
		// the loop over the layers: the last for statement at the top level of the body whose init defines m
		var loop *ast.ForStmt
		for _, st := range fd.Body.List {
			if fs, ok := st.(*ast.ForStmt); ok {
				if as, ok := fs.Init.(*ast.AssignStmt); ok && len(as.Lhs) == 1 {
					if id, ok := as.Lhs[0].(*ast.Ident); ok && id.Name == "m" {
						loop = fs
					}
				}
			}
		}
		if loop == nil {
			return // dispatchers (nttCoreLazy) have no layer loop
		}
		n++
		var last ast.Node = loop.Body
		for _, st := range loop.Body.List {
			// the same chain spelled as a switch: the clause of the last layer is the default one, else the one
			// that tests t against 1, else the last clause
			if sw, ok := st.(*ast.SwitchStmt); ok {
				onT := sw.Tag != nil && exprString(sw.Tag) == "t"
				var def, one, lastCl *ast.CaseClause
				for _, cc := range sw.Body.List {
					cl := cc.(*ast.CaseClause)
					lastCl = cl
					if len(cl.List) == 0 {
						def = cl
					}
					for _, e := range cl.List {
						es := strings.ReplaceAll(exprString(e), " ", "")
						if es == "t==1" || es == "1==t" || (onT && es == "1") {
							one = cl
						}
						if strings.Contains(es, "t") {
							onT = true
						}
					}
				}
				if onT && lastCl != nil {
					switch {
					case one != nil:
						last = &ast.BlockStmt{List: one.Body, Lbrace: one.Pos(), Rbrace: one.End()}
					case def != nil:
						last = &ast.BlockStmt{List: def.Body, Lbrace: def.Pos(), Rbrace: def.End()}
					default:
						last = &ast.BlockStmt{List: lastCl.Body, Lbrace: lastCl.Pos(), Rbrace: lastCl.End()}
					}
				}
				continue
			}
			is, ok := st.(*ast.IfStmt)
			if !ok {
				continue
			}
			// chain on t
			mentionsT := false
			ast.Inspect(is.Cond, func(y ast.Node) bool {
				if id, ok := y.(*ast.Ident); ok && id.Name == "t" {
					mentionsT = true
				}
				return true
			})
			if !mentionsT {
				continue
			}
			cur := is
			for {
				switch e := cur.Else.(type) {
				case *ast.IfStmt:
					cur = e
					continue
				case *ast.BlockStmt:
					last = e
				default:
					last = cur.Body
				}
				break
			}
		}
		var bad ast.Node
		ast.Inspect(last, func(y ast.Node) bool {
			as, ok := y.(*ast.AssignStmt)
			if !ok || bad != nil {
				return bad == nil
			}
			for _, r := range as.Rhs {
				ast.Inspect(r, func(z ast.Node) bool {
					if call, ok := z.(*ast.CallExpr); ok {
						if id, ok := unparen(call.Fun).(*ast.Ident); ok && id.Name == "butterfly" {
							return false
						}
					}
					if id, ok := z.(*ast.Ident); ok && id.Name == "twoQ" {
						bad = as
					}
					return true
				})
			}
			return true
		})
		key := "NTTLAST:" + fkey
		if bad == nil {
			out = append(out, okOb("NTTLAST", key, c.Rel(fd.Pos()), "the block of the last layer contains reducing butterflies only", true))
		} else {
			out = append(out, violOb("NTTLAST", key, c.Rel(bad.Pos()), fmt.Sprintf("%s has a non-reducing butterfly (%s) in the block of its last layer: when the alternation ends on it the output reaches 8q instead of the documented [0, 6q-2], and sums of lazy outputs overflow uint64 for 61-bit primes", fkey, exprString(bad.(*ast.AssignStmt).Rhs[0]))))
		}
	})
	c.Stats["nttlast_fns"] = n
	return out
}

func init() {
	core.Register(&core.Rule{Name: "NTTLAST", Props: []string{"C01", "C19"},
		Doc: "in every lazy forward NTT of package ring (ntt*Lazy*), the block handling the last layer (final else of the chain on t, or the loop body) contains no non-reducing butterfly (no assignment mentioning twoQ outside a butterfly call): the documented output range [0, 6q-2] holds for both parities of log2(N)",
		Run: func(c *core.Ctx) []ob {
			out := scanNTTLast(c)
			out = append(out, control(c, "NTTLAST", scanNTTLast, "lvfixture.nttToyLazy")...)
			out = append(out, core.Floor("NTTLAST", nil, "lazy forward transforms with a layer loop", c.Stats["nttlast_fns"], 4)...)
			return out
		}})
}

// NORMUSE — once a parameter has been normalised into a local, the raw parameter is not used again.
//
// `shift := ((k % 2N) + 2N) % 2N` turns the exponent k of a monomial into its canonical representative; every later
// decision has to be made on `shift`. `if k < N` instead of `if shift < N` is right for 0 <= k < 2N — every value the
// tests use — and wrong for negative k and k >= 2N (the sign of the result flips).
//
// Rule: when a local v is defined from an integer parameter p by an expression that wraps p (`%`, or `&` with a mask),
// and v is a different variable, no expression after that definition mentions p again (it may still be used before,
// e.g. to test p == 0).
func scanNormUse(c *core.Ctx) []ob {
	var out []ob
	n := 0
	c.FuncDecls(func(pk *packages.Package, file *ast.File, fd *ast.FuncDecl) {
		if fd.Body == nil || fileIsTestSupport(c.Program, fd.Pos()) || inExamples(pk) {
			return
		}
		info := pk.TypesInfo
		fn, _ := info.Defs[fd.Name].(*types.Func)
		if fn == nil {
			return
		}
		sig := fn.Type().(*types.Signature)
		params := map[types.Object]bool{}
		for i := 0; i < sig.Params().Len(); i++ {
			p := sig.Params().At(i)
			if b, ok := p.Type().Underlying().(*types.Basic); ok && b.Info()&types.IsInteger != 0 {
				params[p] = true
			}
		}
		if len(params) == 0 {
			return
		}
		fkey := core.FuncKey(pk, fd)
		// wraps(e, p): e is p wrapped into a range — `p % m`, `p & mask`, `(p % m + m) % m` (the value that goes through
		// the chain of %/&/+ on the left is p itself)
		var wrapped func(e ast.Expr, seenWrap bool) (types.Object, bool)
		wrapped = func(e ast.Expr, seenWrap bool) (types.Object, bool) {
			switch x := unparen(e).(type) {
			case *ast.BinaryExpr:
				switch x.Op {
				case token.REM, token.AND:
					return wrapped(x.X, true)
				case token.ADD:
					return wrapped(x.X, seenWrap)
				}
			case *ast.Ident:
				return info.Uses[x], seenWrap
			}
			return nil, false
		}
		wraps := func(e ast.Expr, p types.Object) bool {
			o, w := wrapped(e, false)
			return w && o == p
		}
		var defsites []*ast.AssignStmt
		ast.Inspect(fd.Body, func(x ast.Node) bool {
			if as, ok := x.(*ast.AssignStmt); ok && len(as.Lhs) == len(as.Rhs) {
				defsites = append(defsites, as)
			}
			return true
		})
		for _, as := range defsites {
			for i, l := range as.Lhs {
				id, ok := l.(*ast.Ident)
				if !ok {
					continue
				}
				v := info.Defs[id]
				if v == nil {
					continue // only fresh locals: `k &= mask` re-uses the parameter itself
				}
				for p := range params {
					if !wraps(as.Rhs[i], p) {
						continue
					}
					n++
					key := fmt.Sprintf("NORMUSE:%s#%s->%s", fkey, p.Name(), v.Name())
					var bad *ast.Ident
					ast.Inspect(fd.Body, func(x ast.Node) bool {
						if u, ok := x.(*ast.Ident); ok && bad == nil && u.Pos() > as.End() && info.Uses[u] == p {
							bad = u
						}
						return true
					})
					if bad == nil {
						out = append(out, withProps(okOb("NORMUSE", key, c.Rel(as.Pos()), "the raw parameter is not mentioned after its normalised form is defined", true), propsForKey(fkey)...))
					} else {
						out = append(out, withProps(violOb("NORMUSE", key, c.Rel(bad.Pos()), fmt.Sprintf("%s normalises the parameter %s into %s (%s) and then uses the raw %s again: decisions made on the raw value are only right while it is already in the canonical range", fkey, p.Name(), v.Name(), exprString(as.Rhs[i]), p.Name())), propsForKey(fkey)...))
					}
				}
			}
		}
	})
	c.Stats["normuse_sites"] = n
	return out
}

func init() {
	core.Register(&core.Rule{Name: "NORMUSE", Wide: true, Props: []string{"C01", "C02", "C03", "C04", "C05", "C06", "C07", "C08", "C09", "C10", "C11", "C12", "C13", "C14", "C15", "C16", "C17", "C18", "C19", "C20"},
		Doc: "when a statement defines a fresh local from an integer parameter by an expression that wraps it (`%` or `&`), the raw parameter is not mentioned after that definition",
		Run: func(c *core.Ctx) []ob {
			out := scanNormUse(c)
			out = append(out, control(c, "NORMUSE", scanNormUse, "lvfixture.shiftSign")...)
			return out
		}})
}

// SIBDEF — siblings that differ by a suffix define their shared constants the same way.
//
// `DivRoundByLastModulus` and `DivRoundByLastModulusNTT` both centre by `pHalf := (q_level - 1) >> 1`; the NTT variant
// with `(q_level + 1) >> 1` rounds x = (q-1)/2 mod q the other way, only for values the tests do not draw.
//
// Rule: for every pair of functions or methods of one receiver type whose names differ by one of the suffixes NTT,
// Lazy, Many, New, InPlace, ThenAdd (F and F+suffix), a local variable that both define exactly once, by a call-free
// arithmetic expression, is defined by the same expression in both (parameter names compared positionally).
var sibSuffixes = []string{"NTT", "Lazy", "Many", "NTTMany", "ManyNTT", "Montgomery", "TwoModulus"}

func scanSibDef(c *core.Ctx) []ob {
	var out []ob
	n := 0
	type decl struct {
		pk *packages.Package
		fd *ast.FuncDecl
	}
	byKey := map[string]decl{}
	c.FuncDecls(func(pk *packages.Package, file *ast.File, fd *ast.FuncDecl) {
		if fd.Body == nil || fileIsTestSupport(c.Program, fd.Pos()) || inExamples(pk) {
			return
		}
		byKey[pk.PkgPath+"|"+core.RecvTypeName(fd)+"|"+fd.Name.Name] = decl{pk, fd}
	})
	pureDefs := func(d decl) map[string]string {
		info := d.pk.TypesInfo
		cnt := map[string]int{}
		val := map[string]string{}
		// positional parameter names -> $i
		ren := map[types.Object]string{}
		if fn, ok := info.Defs[d.fd.Name].(*types.Func); ok {
			sig := fn.Type().(*types.Signature)
			for i := 0; i < sig.Params().Len(); i++ {
				ren[sig.Params().At(i)] = fmt.Sprintf("$%d", i)
			}
			if sig.Recv() != nil {
				ren[sig.Recv()] = "$r"
			}
		}
		// locals that stand for one call-free expression for their whole life (`sLast := r.SubRings[level]`) are replaced
		// by it before the comparison: hoisting a sub-expression into a local in one sibling is not a difference
		nAssign := map[types.Object]int{}
		localDef := map[types.Object]ast.Expr{}
		ast.Inspect(d.fd.Body, func(x ast.Node) bool {
			switch v := x.(type) {
			case *ast.AssignStmt:
				for i, l := range v.Lhs {
					id, ok := l.(*ast.Ident)
					if !ok {
						continue
					}
					o := info.Defs[id]
					if o == nil {
						o = info.Uses[id]
					}
					if o == nil {
						continue
					}
					nAssign[o]++
					if v.Tok == token.DEFINE && len(v.Lhs) == len(v.Rhs) {
						callFree := true
						ast.Inspect(v.Rhs[i], func(y ast.Node) bool {
							switch y.(type) {
							case *ast.CallExpr, *ast.FuncLit, *ast.CompositeLit:
								callFree = false
							}
							return callFree
						})
						if callFree {
							localDef[o] = v.Rhs[i]
						}
					}
				}
			case *ast.IncDecStmt:
				if id, ok := v.X.(*ast.Ident); ok {
					nAssign[info.Uses[id]] += 10
				}
			case *ast.RangeStmt:
				for _, e := range []ast.Expr{v.Key, v.Value} {
					if id, ok := e.(*ast.Ident); ok {
						if o := info.Defs[id]; o != nil {
							nAssign[o] += 10
						}
					}
				}
			}
			return true
		})
		var subst func(e ast.Expr, depth int) ast.Expr
		subst = func(e ast.Expr, depth int) ast.Expr {
			switch v := e.(type) {
			case *ast.Ident:
				if o := info.Uses[v]; o != nil && nAssign[o] == 1 && localDef[o] != nil && depth < 4 {
					r := subst(localDef[o], depth+1)
					if _, isBin := unparen(r).(*ast.BinaryExpr); isBin {
						return &ast.ParenExpr{X: unparen(r)}
					}
					return r
				}
			case *ast.ParenExpr:
				return &ast.ParenExpr{X: subst(v.X, depth)}
			case *ast.BinaryExpr:
				return &ast.BinaryExpr{X: subst(v.X, depth), Op: v.Op, Y: subst(v.Y, depth)}
			case *ast.UnaryExpr:
				return &ast.UnaryExpr{Op: v.Op, X: subst(v.X, depth)}
			case *ast.SelectorExpr:
				return &ast.SelectorExpr{X: subst(v.X, depth), Sel: v.Sel}
			case *ast.IndexExpr:
				return &ast.IndexExpr{X: subst(v.X, depth), Index: subst(v.Index, depth)}
			case *ast.StarExpr:
				return &ast.StarExpr{X: subst(v.X, depth)}
			}
			return e
		}
		ast.Inspect(d.fd.Body, func(x ast.Node) bool {
			as, ok := x.(*ast.AssignStmt)
			if !ok || len(as.Lhs) != len(as.Rhs) {
				return true
			}
			for i, l := range as.Lhs {
				id, ok := l.(*ast.Ident)
				if !ok || id.Name == "_" {
					continue
				}
				cnt[id.Name]++
				pure, arith := true, false
				ast.Inspect(as.Rhs[i], func(y ast.Node) bool {
					switch v := y.(type) {
					case *ast.CallExpr, *ast.FuncLit, *ast.CompositeLit:
						pure = false
					case *ast.BinaryExpr:
						if v.Op == token.SHR || v.Op == token.SHL || v.Op == token.ADD || v.Op == token.SUB || v.Op == token.MUL || v.Op == token.QUO {
							arith = true
						}
					}
					return pure
				})
				if !pure || !arith || as.Tok != token.DEFINE {
					cnt[id.Name] += 10
					continue
				}
				// textual form with parameters renamed positionally
				expanded := subst(as.Rhs[i], 0)
				txt := exprString(expanded)
				ast.Inspect(expanded, func(y ast.Node) bool {
					if u, ok := y.(*ast.Ident); ok {
						if r, ok := ren[info.Uses[u]]; ok {
							txt = regexpReplaceWord(txt, u.Name, r)
						}
					}
					return true
				})
				val[id.Name] = txt
			}
			return true
		})
		res := map[string]string{}
		for k, v := range val {
			if cnt[k] == 1 {
				res[k] = v
			}
		}
		return res
	}
	keys := make([]string, 0, len(byKey))
	for k := range byKey {
		keys = append(keys, k)
	}
	sort.Strings(keys)
	for _, k := range keys {
		for _, suf := range sibSuffixes {
			sib, ok := byKey[k+suf]
			if !ok {
				continue
			}
			a, b := pureDefs(byKey[k]), pureDefs(sib)
			var names []string
			for nm := range a {
				if _, ok := b[nm]; ok {
					names = append(names, nm)
				}
			}
			sort.Strings(names)
			for _, nm := range names {
				n++
				fk := core.FuncKey(byKey[k].pk, byKey[k].fd)
				key := fmt.Sprintf("SIBDEF:%s~%s#%s", fk, suf, nm)
				if a[nm] == b[nm] {
					out = append(out, withProps(okOb("SIBDEF", key, c.Rel(sib.fd.Pos()), "both siblings define the local by the same expression: "+a[nm], true), bufPropsRing(fk)...))
				} else {
					out = append(out, withProps(violOb("SIBDEF", key, c.Rel(sib.fd.Pos()), fmt.Sprintf("%s defines %s := %s but its sibling %s defines %s := %s: the two variants of the operation work with different constants", fk, nm, a[nm], sib.fd.Name.Name, nm, b[nm])), bufPropsRing(fk)...))
				}
			}
		}
	}
	c.Stats["sibdef_locals"] = n
	return out
}

func regexpReplaceWord(s, word, repl string) string {
	re := regexp.MustCompile(`\b` + regexp.QuoteMeta(word) + `\b`)
	return re.ReplaceAllString(s, repl)
}

func init() {
	core.Register(&core.Rule{Name: "SIBDEF", Props: []string{"C02", "C01", "C04", "C07", "C18"},
		Doc: "for every pair of functions F and F+suffix (NTT, Lazy, Many, Montgomery, TwoModulus) of one receiver type, a local that both define exactly once by a call-free arithmetic expression is defined by the same expression in both (parameters compared positionally)",
		Run: func(c *core.Ctx) []ob {
			out := scanSibDef(c)
			for _, o := range control(c, "SIBDEF", scanSibDef, "lvfixture.roundHalf") {
				out = append(out, withProps(o, "C02", "C01", "C04", "C07", "C18"))
			}
			return out
		}})
}

// CEILLOG — the logarithm of a count that enters a bound is rounded up.
//
// The head-room for the sum of n masks of B bits is ceil(B + log2 n) bits; `bits.Len64(n)-1` or `uint(math.Log2(n))`
// is the floor: one bit too few for every n that is not a power of two, and the collective refresh is then called at
// a level where the masked plaintext wraps modulo Q. Frozen table (function, quantity), confirmed by reading: in these
// functions every log2 taken of the quantity — math.Log2(float64(q)), bits.Len/Len64(q…) — is in a rounding-up form:
// inside a math.Ceil call, or bits.Len(q-1) (= ceil(log2 q) for q >= 1). Floor/Round/truncating conversions and
// `bits.Len(q)-1` are reported. A function that no longer takes that logarithm at all is not decided (info).
var ceilLogTable = []struct{ fn, quantity, why string }{
	{"multiparty/mpckks.GetMinimumLevelForRefresh", "nParties", "the masks of nParties parties are summed: the bound on the sum needs ceil(log2 nParties) more bits"},
	{"utils/bignum.(Polynomial).Depth", "Degree()", "a polynomial of degree d needs ceil(log2 d) multiplications in depth"},
}

// floorSqrtTable: the square root of the quantity is rounded *down* (documented `floor(sqrt(#Qi))`): an extra auxiliary
// prime of 61 bits takes a shipped default set above the modulus its identifier claims.
var floorSqrtTable = []struct{ fn, quantity, why string }{
	{"circuits/ckks/bootstrapping.(ParametersLiteral).GetLogP", "NumberOfQi", "the documented default is 61 x max(1, floor(sqrt(#Qi))) auxiliary bits: rounding to nearest or up adds a 61-bit prime to the default sets that leave LogP unset"},
}

func scanCeilLog(c *core.Ctx) []ob {
	var out []ob
	n := 0
	c.FuncDecls(func(pk *packages.Package, file *ast.File, fd *ast.FuncDecl) {
		if fd.Body == nil {
			return
		}
		fkey := core.FuncKey(pk, fd)
		for _, e := range ceilLogTable {
			if e.fn != fkey && !(c.IsFixture && strings.HasSuffix(fkey, "minLevelFor") && e.quantity == "nParties") {
				continue
			}
			info := pk.TypesInfo
			pm := parentMapCached(fd)
			mentionsQ := func(x ast.Node) bool {
				return strings.Contains(exprString(x.(ast.Expr)), e.quantity)
			}
			var sites []ast.Node
			bad := map[ast.Node]string{}
			ast.Inspect(fd.Body, func(x ast.Node) bool {
				call, ok := x.(*ast.CallExpr)
				if !ok {
					return true
				}
				fn := calleeFunc(info, call)
				if fn == nil || fn.Pkg() == nil || len(call.Args) != 1 || !mentionsQ(call.Args[0]) {
					return true
				}
				switch {
				case fn.Pkg().Path() == "math" && fn.Name() == "Log2":
					sites = append(sites, call)
					// rounding-up context: an enclosing math.Ceil before any truncating conversion / Floor / Round
					okCtx := false
					for p := pm[ast.Node(call)]; p != nil; p = pm[p] {
						if pc, ok := p.(*ast.CallExpr); ok {
							if pf := calleeFunc(info, pc); pf != nil && pf.Pkg() != nil && pf.Pkg().Path() == "math" {
								if pf.Name() == "Ceil" {
									okCtx = true
									break
								}
								if pf.Name() == "Floor" || pf.Name() == "Round" || pf.Name() == "Trunc" {
									break
								}
							}
							if tv, ok := info.Types[pc.Fun]; ok && tv.IsType() {
								if b, ok := tv.Type.Underlying().(*types.Basic); ok && b.Info()&types.IsInteger != 0 {
									break // truncation before any Ceil
								}
							}
						}
						if _, isStmt := p.(ast.Stmt); isStmt {
							break
						}
					}
					if !okCtx {
						bad[call] = "math.Log2 of it is not rounded up by math.Ceil before it is used (truncated, floored or rounded to nearest)"
					}
				case fn.Pkg().Path() == "math/bits" && strings.HasPrefix(fn.Name(), "Len"):
					sites = append(sites, call)
					// bits.Len(q-1) is the ceiling; bits.Len(q) (with or without -1) is not
					arg := exprString(call.Args[0])
					if !strings.Contains(strings.ReplaceAll(arg, " ", ""), e.quantity+"-1") {
						bad[call] = "bits." + fn.Name() + " of it (minus one or not) is floor(log2)+1 or floor(log2), not the ceiling: only bits.Len(q-1) is"
					}
				}
				return true
			})
			n++
			key := fmt.Sprintf("CEILLOG:%s#%s", fkey, e.quantity)
			props := bufProps(fkey)
			if strings.HasPrefix(fkey, "utils/bignum") {
				props = []string{"C13"}
			}
			switch {
			case len(sites) == 0:
				out = append(out, withProps(infoOb("CEILLOG", key, c.Rel(fd.Pos()), "the function no longer takes a base-2 logarithm of "+e.quantity+": not decided"), props...))
			case len(bad) > 0:
				for site, why := range bad {
					out = append(out, withProps(violOb("CEILLOG", key, c.Rel(site.Pos()), fmt.Sprintf("%s: %s — %s; %s", fkey, exprString(site.(ast.Expr)), why, e.why)), props...))
					break
				}
			default:
				out = append(out, withProps(okOb("CEILLOG", key, c.Rel(fd.Pos()), "every log2 of the quantity is rounded up", true), props...))
			}
		}
	})
	// square roots that must be rounded down
	c.FuncDecls(func(pk *packages.Package, file *ast.File, fd *ast.FuncDecl) {
		if fd.Body == nil {
			return
		}
		fkey := core.FuncKey(pk, fd)
		for _, e := range floorSqrtTable {
			if e.fn != fkey {
				continue
			}
			info := pk.TypesInfo
			pm := parentMapCached(fd)
			var sites []ast.Node
			var badSite ast.Node
			badWhy := ""
			ast.Inspect(fd.Body, func(x ast.Node) bool {
				call, ok := x.(*ast.CallExpr)
				if !ok || len(call.Args) != 1 || !strings.Contains(exprString(call.Args[0]), e.quantity) {
					return true
				}
				fn := calleeFunc(info, call)
				if fn == nil || fn.Pkg() == nil || fn.Pkg().Path() != "math" || fn.Name() != "Sqrt" {
					return true
				}
				sites = append(sites, call)
				// the first enclosing operation decides the rounding: an integer conversion or math.Floor rounds down
				for p := pm[ast.Node(call)]; p != nil; p = pm[p] {
					if _, isParen := p.(*ast.ParenExpr); isParen {
						continue
					}
					if pc, ok := p.(*ast.CallExpr); ok {
						if tv, ok := info.Types[pc.Fun]; ok && tv.IsType() {
							if b, ok := tv.Type.Underlying().(*types.Basic); ok && b.Info()&types.IsInteger != 0 {
								return true // truncation: floor for a non-negative value
							}
						}
						if pf := calleeFunc(info, pc); pf != nil && pf.Pkg() != nil && pf.Pkg().Path() == "math" && pf.Name() == "Floor" {
							return true
						}
						badSite, badWhy = call, "it goes through "+exprString(pc.Fun)+" before it is truncated"
						return true
					}
					badSite, badWhy = call, "it enters "+exprString(p.(ast.Expr))+" before it is truncated"
					return true
				}
				return true
			})
			n++
			key := fmt.Sprintf("CEILLOG:%s#sqrt(%s)", fkey, e.quantity)
			switch {
			case len(sites) == 0:
				out = append(out, withProps(infoOb("CEILLOG", key, c.Rel(fd.Pos()), "the function no longer takes a square root of "+e.quantity+": not decided"), "C19", "C18"))
			case badSite != nil:
				out = append(out, withProps(violOb("CEILLOG", key, c.Rel(badSite.Pos()), fmt.Sprintf("%s: the square root of %s is not rounded down (%s); %s", fkey, e.quantity, badWhy, e.why)), "C19", "C18"))
			default:
				out = append(out, withProps(okOb("CEILLOG", key, c.Rel(fd.Pos()), "the square root of the quantity is truncated (rounded down)", true), "C19", "C18"))
			}
		}
	})
	c.Stats["ceillog_fns"] = n
	return out
}

func init() {
	core.Register(&core.Rule{Name: "CEILLOG", Props: []string{"C16", "C13", "C19", "C18"},
		Doc: "in the functions of a frozen table (collective refresh head-room, polynomial depth), every base-2 logarithm taken of the named count is in a rounding-up form: inside math.Ceil, or bits.Len(q-1); truncation, Floor, Round and bits.Len(q)-1 are reported; in a second table (default number of auxiliary primes) the square root of the named count is truncated or floored before anything else",
		Run: func(c *core.Ctx) []ob {
			out := scanCeilLog(c)
			for _, o := range control(c, "CEILLOG", scanCeilLog, "lvfixture.minLevelFor") {
				out = append(out, withProps(o, "C16", "C13"))
			}
			return out
		}})
}

// VECSINGLE — the single-polynomial coefficient accessor is only used where there is no slot mapping.
//
// A PolynomialVector with a mapping evaluates a different polynomial per group of slots; its coefficients are read
// through GetVectorCoefficient. GetSingleCoefficient(pol.Value[0], k) there gives every slot the coefficient of the
// first polynomial (and the slots outside the mapping a non-zero value). The degree-zero block hoisted out of the
// `mapping != nil` test was written twice by the seeding agents.
//
// Rule: in a function that tests a local `mapping` against nil, every call of GetSingleCoefficient lies inside the arm
// where the mapping is nil (else-arm of `if mapping != nil`, then-arm of `if mapping == nil`), and every call of
// GetVectorCoefficient inside the arm where it is not.
func scanVecSingle(c *core.Ctx) []ob {
	var out []ob
	n := 0
	c.FuncDecls(func(pk *packages.Package, file *ast.File, fd *ast.FuncDecl) {
		if fd.Body == nil || fileIsTestSupport(c.Program, fd.Pos()) || inExamples(pk) {
			return
		}
		info := pk.TypesInfo
		fkey := core.FuncKey(pk, fd)
		type arm struct {
			from, to token.Pos
			nilArm   bool
		}
		var arms []arm
		// the test itself, or a boolean local holding it (`isVector := pol.Mapping != nil`), possibly negated:
		// returns (is a mapping test, true when the condition holds for a nil mapping)
		flags := map[types.Object]bool{} // local -> true when it holds for a nil mapping
		var mappingTest func(e ast.Expr) (bool, bool)
		mappingTest = func(e ast.Expr) (bool, bool) {
			switch v := unparen(e).(type) {
			case *ast.BinaryExpr:
				if v.Op != token.NEQ && v.Op != token.EQL {
					return false, false
				}
				var other ast.Expr
				if isNilIdent(v.Y) {
					other = v.X
				} else if isNilIdent(v.X) {
					other = v.Y
				} else {
					return false, false
				}
				if !strings.Contains(strings.ToLower(exprString(other)), "mapping") {
					return false, false
				}
				return true, v.Op == token.EQL
			case *ast.UnaryExpr:
				if v.Op == token.NOT {
					ok, n := mappingTest(v.X)
					return ok, !n
				}
			case *ast.Ident:
				if n, ok := flags[info.Uses[v]]; ok {
					return true, n
				}
			}
			return false, false
		}
		ast.Inspect(fd.Body, func(x ast.Node) bool {
			as, ok := x.(*ast.AssignStmt)
			if !ok || as.Tok != token.DEFINE || len(as.Lhs) != len(as.Rhs) {
				return true
			}
			for i, l := range as.Lhs {
				if id, ok := l.(*ast.Ident); ok {
					if isT, n := mappingTest(as.Rhs[i]); isT && info.Defs[id] != nil && singleDefOf(info, fd, info.Defs[id]) != nil {
						flags[info.Defs[id]] = n
					}
				}
			}
			return true
		})
		ast.Inspect(fd.Body, func(x ast.Node) bool {
			blk, ok := x.(*ast.BlockStmt)
			if !ok {
				return true
			}
			for _, st := range blk.List {
				is, ok := st.(*ast.IfStmt)
				if !ok {
					continue
				}
				isT, thenNil := mappingTest(is.Cond)
				if !isT {
					continue
				}
				arms = append(arms, arm{is.Body.Pos(), is.Body.End(), thenNil})
				if is.Else != nil {
					arms = append(arms, arm{is.Else.Pos(), is.Else.End(), !thenNil})
				} else if terminates(is.Body.List) {
					// `if isVector { return vec }; return single`: what follows in the block is the other arm
					arms = append(arms, arm{is.End(), blk.End(), !thenNil})
				}
			}
			return true
		})
		if len(arms) == 0 {
			return
		}
		inArm := func(p ast.Node, wantNil bool) bool {
			for _, a := range arms {
				if a.nilArm == wantNil && p.Pos() >= a.from && p.End() <= a.to {
					return true
				}
			}
			return false
		}
		ast.Inspect(fd.Body, func(x ast.Node) bool {
			call, ok := x.(*ast.CallExpr)
			if !ok {
				return true
			}
			nm := calleeName(info, call)
			if nm != "GetSingleCoefficient" && nm != "GetVectorCoefficient" {
				return true
			}
			n++
			wantNil := nm == "GetSingleCoefficient"
			key := fmt.Sprintf("VECSINGLE:%s#%s@%d", fkey, nm, n)
			if inArm(call, wantNil) {
				out = append(out, okOb("VECSINGLE", key, c.Rel(call.Pos()), "the accessor is used in the arm that matches the presence of a mapping", true))
			} else {
				what := "without a mapping"
				if !wantNil {
					what = "with a mapping"
				}
				out = append(out, violOb("VECSINGLE", key, c.Rel(call.Pos()), fmt.Sprintf("%s calls %s outside the arm %s: with a slot mapping the coefficient differs per group of slots (and is zero outside the mapping), the single-polynomial accessor gives the first polynomial's coefficient to every slot", fkey, nm, what)))
			}
			return true
		})
	})
	c.Stats["vecsingle_calls"] = n
	return out
}

func init() {
	core.Register(&core.Rule{Name: "VECSINGLE", Props: []string{"C13"},
		Doc: "in a function that tests `mapping` against nil, GetSingleCoefficient is only called in the arm where the mapping is nil and GetVectorCoefficient in the arm where it is not",
		Run: func(c *core.Ctx) []ob {
			out := scanVecSingle(c)
			out = append(out, control(c, "VECSINGLE", scanVecSingle, "lvfixture.constTerm#", "lvfixture.constTermFlag#")...)
			out = append(out, core.Floor("VECSINGLE", nil, "coefficient accessor calls next to a mapping test", c.Stats["vecsingle_calls"], 4)...)
			return out
		}})
}

// INITIDX — "first iteration" is not recognised by the loop index under a condition that can skip that iteration.
//
// An accumulator that is initialised by the first contribution and added to by the following ones needs "first
// contribution", not "first iteration": `if i == 0 { acc = x } else { acc += x }` nested under `if bit(i) == 1` takes
// the accumulate arm on an uninitialised (stale) accumulator whenever bit 0 is clear. (PartialTracesSum keeps a
// boolean for this; the seeding agents replaced it by `i == 0` twice.)
//
// Rule: inside a loop with index variable i that starts at a constant a, an `if` whose condition contains `i == a`
// (and that has an else arm, i.e. selects between two forms) is not nested under another `if`/case of the loop body
// whose condition does not mention i's start test — error checks (`err != nil`) excepted.
func scanInitIdx(c *core.Ctx) []ob {
	var out []ob
	n := 0
	initOrd := map[string]int{}
	c.FuncDecls(func(pk *packages.Package, file *ast.File, fd *ast.FuncDecl) {
		if fd.Body == nil || fileIsTestSupport(c.Program, fd.Pos()) || inExamples(pk) {
			return
		}
		info := pk.TypesInfo
		fkey := core.FuncKey(pk, fd)
		pm := parentMapCached(fd)
		ast.Inspect(fd.Body, func(x ast.Node) bool {
			var body *ast.BlockStmt
			var iv types.Object
			start := "0"
			switch l := x.(type) {
			case *ast.ForStmt:
				body = l.Body
				if as, ok := l.Init.(*ast.AssignStmt); ok && len(as.Lhs) >= 1 && len(as.Rhs) >= 1 {
					if id, ok := as.Lhs[0].(*ast.Ident); ok {
						iv = info.Defs[id]
					}
					if tv, ok := info.Types[as.Rhs[0]]; ok && tv.Value != nil {
						start = tv.Value.ExactString()
					} else {
						iv = nil
					}
				}
			case *ast.RangeStmt:
				body = l.Body
				if id, ok := l.Key.(*ast.Ident); ok && id != nil {
					iv = info.Defs[id]
				}
			default:
				return true
			}
			if iv == nil {
				return true
			}
			ast.Inspect(body, func(y ast.Node) bool {
				is, ok := y.(*ast.IfStmt)
				if !ok || is.Else == nil {
					return true
				}
				first := false
				ast.Inspect(is.Cond, func(z ast.Node) bool {
					if be, ok := z.(*ast.BinaryExpr); ok && be.Op == token.EQL {
						if id, ok := unparen(be.X).(*ast.Ident); ok && info.Uses[id] == iv {
							if tv, ok := info.Types[be.Y]; ok && tv.Value != nil && tv.Value.ExactString() == start {
								first = true
							}
						}
					}
					return true
				})
				if !first {
					return true
				}
				n++
				initOrd[fkey+"#"+iv.Name()]++
				key := fmt.Sprintf("INITIDX:%s#%s@%d", fkey, iv.Name(), initOrd[fkey+"#"+iv.Name()])
				// enclosing conditions between the loop body and this if
				var under ast.Node
				for p := pm[ast.Node(is)]; p != nil && p != ast.Node(body); p = pm[p] {
					switch v := p.(type) {
					case *ast.IfStmt:
						if !mentionsErrVar(info, v.Cond) {
							under = v
						}
					case *ast.CaseClause:
						under = v
					case *ast.ForStmt, *ast.RangeStmt:
						// an inner loop: the test is about the outer index inside every inner iteration, fine
					}
				}
				if under != nil {
					out = append(out, withProps(violOb("INITIDX", key, c.Rel(is.Pos()), fmt.Sprintf("%s selects the initialising form with `%s` under the condition at %s, which need not hold in the iteration %s == %s: the accumulating arm then runs on a destination that was never initialised", fkey, exprString(is.Cond), c.Rel(under.Pos()), iv.Name(), start)), propsForKey(fkey)...))
				} else {
					out = append(out, withProps(okOb("INITIDX", key, c.Rel(is.Pos()), "the first-iteration test is evaluated in every iteration", true), propsForKey(fkey)...))
				}
				return true
			})
			return true
		})
	})
	c.Stats["initidx_sites"] = n
	if !c.IsFixture {
		out = append(out, okOb("INITIDX", "INITIDX:summary", "", fmt.Sprintf("%d first-iteration selections examined", n), true))
	}
	return out
}

func mentionsErrVar(info *types.Info, e ast.Expr) bool {
	found := false
	ast.Inspect(e, func(n ast.Node) bool {
		if id, ok := n.(*ast.Ident); ok {
			if o := info.Uses[id]; o != nil && isErrorType(o.Type()) {
				found = true
			}
		}
		return true
	})
	return found
}

func init() {
	core.Register(&core.Rule{Name: "INITIDX", Wide: true, Props: []string{"C01", "C02", "C03", "C04", "C05", "C06", "C07", "C08", "C09", "C10", "C11", "C12", "C13", "C14", "C15", "C16", "C17", "C18", "C19", "C20"},
		Doc: "inside a loop whose index starts at a constant a, an if/else selected by `i == a` is not nested under another condition of the loop body (error checks excepted) that may be false in that iteration",
		Run: func(c *core.Ctx) []ob {
			out := scanInitIdx(c)
			out = append(out, control(c, "INITIDX", scanInitIdx, "lvfixture.sumBits")...)
			return out
		}})
}

// FIELDNORM — once a field of a parameter has been copied into a local and that local overridden, the field is not
// read again.
//
// `doubleAngle := evm.DoubleAngle; if evm.Mod1Type == SinContinuous { doubleAngle = 0 }` and
// `scaling := evm.Scaling; if scaling == 0 { scaling = 1 }` replace a literal's field by its effective value. Storing
// `evm.DoubleAngle` in the result afterwards brings the raw value back: equal to the effective one for every literal
// the tests build, different for the others (the double-angle loop then runs on a polynomial built without it).
// The same reasoning as NORMUSE, for fields of struct parameters instead of integer parameters.
//
// Rule: when a fresh local v is defined by exactly `p.F` (p a parameter or receiver of struct type), and v is later
// assigned again (`v = …`), no composite literal or assignment after that second assignment stores the raw `p.F` under a
// field of the same name F (reads of p.F in computations are not judged: an arm of a switch on the condition of the
// override may legitimately use it).
func scanFieldNorm(c *core.Ctx) []ob {
	var out []ob
	n := 0
	c.FuncDecls(func(pk *packages.Package, file *ast.File, fd *ast.FuncDecl) {
		if fd.Body == nil || fileIsTestSupport(c.Program, fd.Pos()) || inExamples(pk) {
			return
		}
		info := pk.TypesInfo
		fn, _ := info.Defs[fd.Name].(*types.Func)
		if fn == nil {
			return
		}
		sig := fn.Type().(*types.Signature)
		params := map[types.Object]bool{}
		for i := 0; i < sig.Params().Len(); i++ {
			params[sig.Params().At(i)] = true
		}
		if sig.Recv() != nil {
			params[sig.Recv()] = true
		}
		fkey := core.FuncKey(pk, fd)
		type def struct {
			v     types.Object
			p     types.Object
			field *types.Var
			at    *ast.AssignStmt
		}
		var defs []def
		ast.Inspect(fd.Body, func(x ast.Node) bool {
			as, ok := x.(*ast.AssignStmt)
			if !ok || as.Tok != token.DEFINE || len(as.Lhs) != len(as.Rhs) {
				return true
			}
			for i, l := range as.Lhs {
				id, ok := l.(*ast.Ident)
				if !ok || info.Defs[id] == nil {
					continue
				}
				se, ok := unparen(as.Rhs[i]).(*ast.SelectorExpr)
				if !ok {
					continue
				}
				pid, ok := unparen(se.X).(*ast.Ident)
				if !ok || !params[info.Uses[pid]] {
					continue
				}
				f, ok := info.Uses[se.Sel].(*types.Var)
				if !ok || !f.IsField() {
					continue
				}
				if b, ok := f.Type().Underlying().(*types.Basic); !ok || b.Info()&(types.IsNumeric|types.IsBoolean) == 0 {
					continue
				}
				defs = append(defs, def{info.Defs[id], info.Uses[pid], f, as})
			}
			return true
		})
		for _, d := range defs {
			// first re-assignment of v after its definition
			var re *ast.AssignStmt
			ast.Inspect(fd.Body, func(x ast.Node) bool {
				as, ok := x.(*ast.AssignStmt)
				if !ok || re != nil || as.Pos() <= d.at.End() || as.Tok != token.ASSIGN {
					return true
				}
				for _, l := range as.Lhs {
					if id, ok := l.(*ast.Ident); ok && info.Uses[id] == d.v {
						re = as
					}
				}
				return true
			})
			if re == nil {
				continue
			}
			n++
			key := fmt.Sprintf("FIELDNORM:%s#%s.%s->%s", fkey, d.p.Name(), d.field.Name(), d.v.Name())
			var bad *ast.SelectorExpr
			isRaw := func(e ast.Expr) *ast.SelectorExpr {
				se, ok := unparen(e).(*ast.SelectorExpr)
				if !ok {
					return nil
				}
				if pid, ok := unparen(se.X).(*ast.Ident); ok && info.Uses[pid] == d.p && info.Uses[se.Sel] == d.field {
					return se
				}
				return nil
			}
			ast.Inspect(fd.Body, func(x ast.Node) bool {
				if x == nil || bad != nil || x.End() < re.End() {
					return bad == nil
				}
				switch v := x.(type) {
				case *ast.KeyValueExpr:
					if k, ok := v.Key.(*ast.Ident); ok && k.Name == d.field.Name() && v.Pos() > re.End() {
						bad = isRaw(v.Value)
					}
				case *ast.AssignStmt:
					if v.Pos() > re.End() && len(v.Lhs) == len(v.Rhs) {
						for i, l := range v.Lhs {
							if se, ok := unparen(l).(*ast.SelectorExpr); ok && se.Sel.Name == d.field.Name() && bad == nil {
								bad = isRaw(v.Rhs[i])
							}
						}
					}
				}
				return true
			})
			if bad == nil {
				out = append(out, withProps(okOb("FIELDNORM", key, c.Rel(d.at.Pos()), "the raw field is not stored under its own name after the local holding its effective value is overridden", true), propsForKey(fkey)...))
			} else {
				out = append(out, withProps(violOb("FIELDNORM", key, c.Rel(bad.Pos()), fmt.Sprintf("%s copies %s.%s into %s, overrides %s (%s) and later stores the raw %s.%s under the field of that name: the raw value comes back in place of the effective one", fkey, d.p.Name(), d.field.Name(), d.v.Name(), d.v.Name(), c.Rel(re.Pos()), d.p.Name(), d.field.Name())), propsForKey(fkey)...))
			}
		}
	})
	c.Stats["fieldnorm_sites"] = n
	return out
}

func init() {
	core.Register(&core.Rule{Name: "FIELDNORM", Wide: true, Props: []string{"C18"},
		Doc: "when a fresh local is defined by exactly p.F (p a parameter or the receiver, F a numeric or boolean field) and later assigned again, nothing after that re-assignment stores the raw p.F under a field named F (composite literal entry or assignment)",
		Run: func(c *core.Ctx) []ob {
			out := scanFieldNorm(c)
			for _, o := range control(c, "FIELDNORM", scanFieldNorm, "lvfixture.effectiveBox") {
				out = append(out, withProps(o, "C18"))
			}
			return out
		}})
}

// DELTAPREV — a "previous value" used to form a difference is updated where the difference is consumed.
//
// `mulBySmallMonomialMod2N(mask, acc, index-prevIndex); prevIndex = index` advances an accumulator by the distance to
// the last *processed* index. If the update of prevIndex moves out of the block that consumes the difference (to the end
// of the enclosing loop, say), indexes that are skipped still advance prevIndex and the accumulator falls behind by
// their total: right when every index is processed — what the tests do — wrong for any sparse selection.
//
// Rule: for every local p with a use `e - p` and an assignment `p = e` where e is a loop variable of the function, the
// assignment lies in the same innermost block as the use.
func scanDeltaPrev(c *core.Ctx) []ob {
	var out []ob
	n := 0
	c.FuncDecls(func(pk *packages.Package, file *ast.File, fd *ast.FuncDecl) {
		if fd.Body == nil || fileIsTestSupport(c.Program, fd.Pos()) || inExamples(pk) {
			return
		}
		info := pk.TypesInfo
		fkey := core.FuncKey(pk, fd)
		type use struct {
			p   types.Object
			e   string
			blk *ast.BlockStmt
			pos token.Pos
		}
		var uses []use
		type asg struct {
			p   types.Object
			e   string
			blk *ast.BlockStmt
			pos token.Pos
		}
		var asgs []asg
		var stack []*ast.BlockStmt
		var walk func(n ast.Node)
		walk = func(nd ast.Node) {
			ast.Inspect(nd, func(x ast.Node) bool {
				switch v := x.(type) {
				case *ast.BlockStmt:
					if v == nd {
						return true
					}
					stack = append(stack, v)
					walk(v)
					stack = stack[:len(stack)-1]
					return false
				case *ast.CaseClause:
					// a case body is its own block
					blk := &ast.BlockStmt{Lbrace: v.Colon, List: v.Body, Rbrace: v.End()}
					stack = append(stack, blk)
					for _, s := range v.Body {
						walk(s)
					}
					stack = stack[:len(stack)-1]
					return false
				case *ast.BinaryExpr:
					if v.Op == token.SUB {
						if id, ok := unparen(v.Y).(*ast.Ident); ok {
							if o, ok := info.Uses[id].(*types.Var); ok && !o.IsField() && len(stack) > 0 {
								uses = append(uses, use{o, exprString(v.X), stack[len(stack)-1], v.Pos()})
							}
						}
					}
				case *ast.AssignStmt:
					if v.Tok == token.ASSIGN && len(v.Lhs) == len(v.Rhs) && len(stack) > 0 {
						for i, l := range v.Lhs {
							if id, ok := l.(*ast.Ident); ok {
								if o, ok := info.Uses[id].(*types.Var); ok {
									asgs = append(asgs, asg{o, exprString(v.Rhs[i]), stack[len(stack)-1], v.Pos()})
								}
							}
						}
					}
				}
				return true
			})
		}
		stack = append(stack, fd.Body)
		walk(fd.Body)
		// loop variables: the expression e is the counter of an enclosing loop
		loopVars := map[string]bool{}
		ast.Inspect(fd.Body, func(x ast.Node) bool {
			switch v := x.(type) {
			case *ast.RangeStmt:
				for _, e := range []ast.Expr{v.Key, v.Value} {
					if id, ok := e.(*ast.Ident); ok && id.Name != "_" {
						loopVars[id.Name] = true
					}
				}
			case *ast.ForStmt:
				if as, ok := v.Init.(*ast.AssignStmt); ok {
					for _, l := range as.Lhs {
						if id, ok := l.(*ast.Ident); ok {
							loopVars[id.Name] = true
						}
					}
				}
			}
			return true
		})
		seen := map[string]bool{}
		for _, u := range uses {
			if !loopVars[u.e] {
				continue
			}
			var same, other *asg
			for i := range asgs {
				a := &asgs[i]
				if a.p != u.p || a.e != u.e {
					continue
				}
				if a.blk == u.blk || (a.blk.Pos() == u.blk.Pos() && a.blk.End() == u.blk.End()) {
					same = a
				} else {
					other = a
				}
			}
			if same == nil && other == nil {
				continue
			}
			key := fmt.Sprintf("DELTAPREV:%s#%s", fkey, u.p.Name())
			if seen[key] {
				continue
			}
			seen[key] = true
			n++
			if same != nil {
				out = append(out, withProps(okOb("DELTAPREV", key, c.Rel(u.pos), "the previous value is updated in the block that consumes the difference", true), propsForKey(fkey)...))
			} else {
				out = append(out, withProps(violOb("DELTAPREV", key, c.Rel(other.pos), fmt.Sprintf("%s forms the difference %s - %s at %s but assigns %s = %s in another block: the previous value also advances (or fails to advance) when the difference is not consumed, and the accumulated total drifts for every selection that skips an element", fkey, u.e, u.p.Name(), c.Rel(u.pos), u.p.Name(), u.e)), propsForKey(fkey)...))
			}
		}
	})
	c.Stats["deltaprev_sites"] = n
	return out
}

func init() {
	core.Register(&core.Rule{Name: "DELTAPREV", Wide: true, Props: []string{"C20"},
		Doc: "for every local p with a use `e - p` and an assignment `p = e` where e is a loop variable, the assignment is in the same innermost block as the use",
		Run: func(c *core.Ctx) []ob {
			out := scanDeltaPrev(c)
			for _, o := range control(c, "DELTAPREV", scanDeltaPrev, "lvfixture.walkSelected") {
				out = append(out, withProps(o, "C20"))
			}
			return out
		}})
}

// MAXLEVP — a function that works at a given auxiliary level does not hand the parameters' maximum to its callees.
//
// Gadget products run at the level of the key (`levelP := gadgetCt.LevelP()`): the number of auxiliary primes per
// digit is levelP+1. Passing `eval.params.PCount()` instead is the same number for keys generated at the maximum level
// — every key the tests use — and a different decomposition for any key generated with fewer auxiliary primes.
//
// Rule: in a function that has a parameter or local named levelP which is not itself defined from PCount()/MaxLevelP(),
// no call argument contains a call of PCount() or MaxLevelP().
func scanMaxLevP(c *core.Ctx) []ob {
	var out []ob
	n := 0
	c.FuncDecls(func(pk *packages.Package, file *ast.File, fd *ast.FuncDecl) {
		if fd.Body == nil || fileIsTestSupport(c.Program, fd.Pos()) || inExamples(pk) {
			return
		}
		info := pk.TypesInfo
		isMax := func(e ast.Node) *ast.CallExpr {
			var r *ast.CallExpr
			ast.Inspect(e, func(x ast.Node) bool {
				if call, ok := x.(*ast.CallExpr); ok && r == nil {
					if se, ok := call.Fun.(*ast.SelectorExpr); ok && (se.Sel.Name == "PCount" || se.Sel.Name == "MaxLevelP") && len(call.Args) == 0 {
						r = call
					}
				}
				return r == nil
			})
			return r
		}
		has := false
		fromMax := false
		defPos := token.NoPos
		for _, f := range fd.Type.Params.List {
			for _, nm := range f.Names {
				if nm.Name == "levelP" {
					has = true
					defPos = fd.Body.Pos()
				}
			}
		}
		ast.Inspect(fd.Body, func(x ast.Node) bool {
			if as, ok := x.(*ast.AssignStmt); ok {
				for i, l := range as.Lhs {
					if id, ok := l.(*ast.Ident); ok && id.Name == "levelP" {
						has = true
						if defPos == token.NoPos {
							defPos = as.End()
						}
						if len(as.Rhs) == len(as.Lhs) && isMax(as.Rhs[i]) != nil {
							fromMax = true
						} else if len(as.Rhs) == 1 && isMax(as.Rhs[0]) != nil {
							fromMax = true
						}
					}
				}
			}
			return true
		})
		if !has || fromMax {
			return
		}
		n++
		fkey := core.FuncKey(pk, fd)
		key := "MAXLEVP:" + fkey
		var bad *ast.CallExpr
		var callee string
		ast.Inspect(fd.Body, func(x ast.Node) bool {
			call, ok := x.(*ast.CallExpr)
			if !ok || bad != nil {
				return bad == nil
			}
			if call.Pos() < defPos {
				return true
			}
			for _, a := range call.Args {
				if m := isMax(a); m != nil {
					bad = m
					callee = exprString(call.Fun)
					break
				}
			}
			return true
		})
		_ = info
		if bad == nil {
			out = append(out, withProps(okOb("MAXLEVP", key, c.Rel(fd.Pos()), "no callee receives the parameters' maximum auxiliary level", true), maxLevProps(fkey)...))
		} else {
			out = append(out, withProps(violOb("MAXLEVP", key, c.Rel(bad.Pos()), fmt.Sprintf("%s works at the auxiliary level levelP but passes %s to %s: the parameters' maximum equals the working level only for keys generated with every auxiliary prime", fkey, exprString(bad), callee)), maxLevProps(fkey)...))
		}
	})
	c.Stats["maxlevp_fns"] = n
	return out
}

func maxLevProps(fkey string) []string {
	ps := append([]string{}, propsForKey(fkey)...)
	if strings.HasPrefix(fkey, "core/rlwe") && !containsStr(ps, "C02") {
		ps = append(ps, "C02")
	}
	return ps
}

func init() {
	core.Register(&core.Rule{Name: "MAXLEVP", Wide: true, Props: []string{"C02", "C04"},
		Doc: "in a function with a parameter or local named levelP that is not defined from PCount()/MaxLevelP(), no call argument after that definition contains PCount() or MaxLevelP()",
		Run: func(c *core.Ctx) []ob {
			out := scanMaxLevP(c)
			for _, o := range control(c, "MAXLEVP", scanMaxLevP, "lvfixture.digitProduct") {
				out = append(out, withProps(o, "C02", "C04"))
			}
			for _, o := range core.Floor("MAXLEVP", nil, "functions working at an auxiliary level levelP", c.Stats["maxlevp_fns"], 20) {
				out = append(out, withProps(o, "C02", "C04"))
			}
			return out
		}})
}

// CONDIDX — a condition on one component does not govern an update of the sibling component only.
//
// `if values[i][1].Cmp(zero) >= 0 { values[i][1].Add(values[i][1], half) } else { values[i][1].Sub(…) }` rounds the
// imaginary part half away from zero; the copy of the block for the real part differs only by the constant index. Testing
// component [0] while both arms update component [1] (a one-character slip) rounds the imaginary part by the sign of
// the real one — invisible whenever the two have the same sign.
//
// Rule: for every if/else whose condition mentions exactly one element `B[k]` with a constant index k, if every mention
// of an element of B in both arms has one and the same other constant index k' != k, the condition tests the wrong
// component.
func scanCondIdx(c *core.Ctx) []ob {
	var out []ob
	n := 0
	c.FuncDecls(func(pk *packages.Package, file *ast.File, fd *ast.FuncDecl) {
		if fd.Body == nil || fileIsTestSupport(c.Program, fd.Pos()) || inExamples(pk) {
			return
		}
		fkey := core.FuncKey(pk, fd)
		type el struct{ base, idx string }
		elems := func(nd ast.Node) []el {
			var r []el
			ast.Inspect(nd, func(x ast.Node) bool {
				if ie, ok := x.(*ast.IndexExpr); ok {
					if lit, ok := unparen(ie.Index).(*ast.BasicLit); ok && lit.Kind == token.INT {
						r = append(r, el{exprString(ie.X), lit.Value})
					}
				}
				return true
			})
			return r
		}
		ord := 0
		ast.Inspect(fd.Body, func(x ast.Node) bool {
			is, ok := x.(*ast.IfStmt)
			if !ok || is.Else == nil {
				return true
			}
			ce := elems(is.Cond)
			if len(ce) != 1 {
				return true
			}
			var arm []el
			for _, e := range append(elems(is.Body), elems(is.Else)...) {
				if e.base == ce[0].base {
					arm = append(arm, e)
				}
			}
			if len(elems(is.Body)) == 0 || len(elems(is.Else)) == 0 || len(arm) == 0 {
				return true
			}
			ord++
			n++
			key := fmt.Sprintf("CONDIDX:%s#%s@%d", fkey, ce[0].base, ord)
			same, other := false, ""
			uniform := true
			for _, e := range arm {
				if e.idx == ce[0].idx {
					same = true
				} else if other == "" {
					other = e.idx
				} else if other != e.idx {
					uniform = false
				}
			}
			if !same && uniform && other != "" {
				out = append(out, withProps(violOb("CONDIDX", key, c.Rel(is.Cond.Pos()), fmt.Sprintf("%s tests %s[%s] but both arms only touch %s[%s]: the condition looks at the sibling component (the two agree only when both components have the same sign/size)", fkey, ce[0].base, ce[0].idx, ce[0].base, other)), propsForKey(fkey)...))
			} else {
				out = append(out, withProps(okOb("CONDIDX", key, c.Rel(is.Cond.Pos()), "the arms touch the component that the condition tests", true), propsForKey(fkey)...))
			}
			return true
		})
	})
	c.Stats["condidx_sites"] = n
	return out
}

func init() {
	core.Register(&core.Rule{Name: "CONDIDX", Wide: true, Props: []string{"C07"},
		Doc: "for every if/else whose condition mentions exactly one element B[k] with a constant index, the arms do not mention elements of B exclusively with one other constant index k'",
		Run: func(c *core.Ctx) []ob {
			out := scanCondIdx(c)
			for _, o := range control(c, "CONDIDX", scanCondIdx, "lvfixture.roundPair") {
				out = append(out, withProps(o, "C07"))
			}
			return out
		}})
}
