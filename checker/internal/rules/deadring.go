package rules

import (
	"fmt"
	"go/ast"
	"go/token"
	"strings"

	"golang.org/x/tools/go/packages"

	"lvcheck/internal/core"
)

// DEADRING — the result of a ring operation is used before the same destination is written again.
//
// `ringQ.NTT(pt.Value, buf)` followed by `ringQ.MForm(pt.Value, buf)` computes the transform and throws it away: the
// second operation should have read `buf`. A ring operation whose destination still holds, on every path, the unread
// result of an earlier ring operation, and which does not itself read that destination, loses a step of the
// computation. Must-analysis over go/cfg (intersection at joins); any other mention of the destination's root
// variable between the two writes counts as a use.
func scanDeadRing(c *core.Ctx) []ob {
	var out []ob
	n := 0
	c.FuncDecls(func(pk *packages.Package, file *ast.File, fd *ast.FuncDecl) {
		rel := core.ShortPkg(pk.PkgPath)
		if fd.Body == nil || fileIsTestSupport(c.Program, fd.Pos()) || inExamples(pk) || strings.HasPrefix(rel, "utils/") {
			return
		}
		info := pk.TypesInfo
		fkey := core.FuncKey(pk, fd)
		type st map[string]token.Pos
		clone := func(s st) st {
			r := st{}
			for k, v := range s {
				r[k] = v
			}
			return r
		}
		type viol struct {
			dst           string
			first, second token.Pos
		}
		var viols []viol
		nWrites := 0
		rootName := func(e ast.Expr) string {
			if id := rootIdent(e); id != nil {
				return id.Name
			}
			return ""
		}
		step := func(nd ast.Node, s st, record bool) st {
			calls := callsIn(nd)
			// mentions of roots anywhere in the node
			s2 := s
			cloned := false
			mut := func() {
				if !cloned {
					s2 = clone(s)
					cloned = true
				}
			}
			// ring calls of this node, in source order
			type rc struct {
				call *ast.CallExpr
				dst  ast.Expr
				acc  bool
			}
			var rcs []rc
			for _, call := range calls {
				sel, ok := unparen(call.Fun).(*ast.SelectorExpr)
				if !ok || len(call.Args) < 2 {
					continue
				}
				rt := info.TypeOf(sel.X)
				if rt == nil || !isRingLikeRecv(rt) || ringReadOnly[sel.Sel.Name] {
					continue
				}
				last := call.Args[len(call.Args)-1]
				if lt := info.TypeOf(last); lt == nil || !polyish(lt) {
					continue
				}
				rcs = append(rcs, rc{call, last, opAccum[sel.Sel.Name]})
			}
			isDst := map[ast.Expr]bool{}
			for _, r := range rcs {
				isDst[r.dst] = true
			}
			// uses: every identifier occurrence that is not inside a destination expression
			used := map[string]bool{}
			var walk func(x ast.Node) bool
			walk = func(x ast.Node) bool {
				if e, ok := x.(ast.Expr); ok && isDst[e] {
					// index expressions inside the destination are reads of other things only
					return false
				}
				if id, ok := x.(*ast.Ident); ok {
					used[id.Name] = true
				}
				return true
			}
			ast.Inspect(nd, walk)
			for k := range s2 {
				root := k
				if i := strings.IndexAny(root, ".[("); i > 0 {
					root = root[:i]
				}
				if used[root] {
					mut()
					delete(s2, k)
				}
			}
			for _, r := range rcs {
				d := exprString(r.dst)
				readsDst := r.acc
				for _, a := range r.call.Args[:len(r.call.Args)-1] {
					if exprString(a) == d || rootName(a) == rootName(r.dst) {
						readsDst = true
					}
				}
				if record {
					nWrites++
				}
				if p, pending := s2[d]; pending && !readsDst && record {
					viols = append(viols, viol{d, p, r.call.Pos()})
				}
				mut()
				if readsDst {
					delete(s2, d)
				}
				s2[d] = r.call.Pos()
			}
			return s2
		}
		hasRing := false
		ast.Inspect(fd.Body, func(x ast.Node) bool {
			if call, ok := x.(*ast.CallExpr); ok && !hasRing {
				if sel, ok := unparen(call.Fun).(*ast.SelectorExpr); ok {
					if rt := info.TypeOf(sel.X); rt != nil && isRingLikeRecv(rt) {
						hasRing = true
					}
				}
			}
			return !hasRing
		})
		if !hasRing {
			return
		}
		g := buildCFG(info, fd.Body)
		in := forward(g, st{}, nil, func(nd ast.Node, s st) st { return step(nd, s, false) },
			func(a, b st) st {
				r := st{}
				for k, v := range a {
					if _, ok := b[k]; ok {
						r[k] = v
					}
				}
				return r
			},
			func(a, b st) bool {
				if len(a) != len(b) {
					return false
				}
				for k := range a {
					if _, ok := b[k]; !ok {
						return false
					}
				}
				return true
			})
		for _, b := range g.Blocks {
			s, ok := in[b]
			if !ok {
				continue
			}
			for _, nd := range b.Nodes {
				s = step(nd, s, true)
			}
		}
		if nWrites == 0 {
			return
		}
		n++
		key := "DEADRING:" + fkey
		props := deadRingProps(fkey)
		if len(viols) == 0 {
			out = append(out, withProps(okOb("DEADRING", key, c.Rel(fd.Pos()), "no ring-operation result is overwritten before it is used", true), props...))
			return
		}
		v := viols[0]
		out = append(out, withProps(violOb("DEADRING", key+"#"+v.dst, c.Rel(v.second), fmt.Sprintf("%s writes %s at %s and writes it again at %s by an operation that does not read it, with no use in between on any path: the first result is lost (the second operation was meant to read it)", fkey, v.dst, c.Rel(v.first), c.Rel(v.second))), props...))
	})
	c.Stats["deadring_funcs"] = n
	return out
}

func deadRingProps(fkey string) []string {
	switch {
	case strings.HasPrefix(fkey, "ring"):
		return []string{"C01", "C02"}
	case strings.Contains(fkey, "Encryptor") || strings.Contains(fkey, "Decryptor") || strings.Contains(fkey, "KeyGenerator"):
		ps := []string{"C03"}
		if strings.HasPrefix(fkey, "core/rgsw") {
			ps = append(ps, "C20")
		}
		return ps
	case strings.Contains(fkey, "Encoder"):
		return []string{"C07"}
	}
	return bufProps(fkey)
}

var _ = packages.NeedName

func init() {
	all := []string{"C01", "C02", "C03", "C04", "C05", "C06", "C07", "C11", "C12", "C13", "C14", "C16", "C18", "C20"}
	core.Register(&core.Rule{Name: "DEADRING", Props: all, Wide: true,
		Doc: "no ring operation overwrites a destination that still holds, on every path, the unread result of an earlier ring operation, unless it reads that destination itself (must-analysis over go/cfg)",
		Run: func(c *core.Ctx) []ob {
			out := scanDeadRing(c)
			for _, o := range core.Floor("DEADRING", nil, "functions with ring operations", c.Stats["deadring_funcs"], 150) {
				out = append(out, withProps(o, all...))
			}
			for _, o := range control(c, "DEADRING", scanDeadRing, "(fixEvaluator).LoseNTT") {
				out = append(out, withProps(o, all...))
			}
			return out
		}})
}
